#!/bin/bash
# confirm a second-round seeded change in the agent's worktree, store it under /verif/seeded, run the property's check on it
# usage: seed2.sh C08 c [tier]
id=$1; v=$2; tier=${3:-quick}
export SEEDBASE=${SEEDBASE:-/tmp/seed3}
conf=$(/verif/tools/seed_confirm.sh $id $v)
echo "$conf"
case "$conf" in *"before=[ok"*"after=[FAIL"*"suite=[ok"*) ;; *) echo "$id $v: NOT CONFIRMED"; exit 1;; esac
d=/verif/seeded/$id-$v; mkdir -p $d
cp $SEEDBASE/${id}_out/patch_$v.diff $d/patch.diff
cp $SEEDBASE/${id}_out/demo_${v}_test.go $d/demo_test.go.txt
python3 - "$id" "$v" "$conf" <<'P'
import json,sys
id,v,conf=sys.argv[1:4]
import os
m=json.load(open(os.environ['SEEDBASE']+f'/{id}_out/meta_{v}.json'))
m['confirmed']=conf
m['ran']=f'tools/seed_confirm.sh (demo passes before, fails after, suite passes with the patch); tools/seed_run.sh {id} {v}'
json.dump(m,open(f'/verif/seeded/{id}-{v}/meta.json','w'),indent=1)
P
/verif/tools/seed_run.sh $id $v $tier

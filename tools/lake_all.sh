#!/bin/bash
# build every model, lemma and property module (lemma modules of different properties are not
# all importable together - some reuse names - so there is no single root that imports them all)
cd /verif/lean && lake build pongo-driver $(ls Pongo/Props/*.lean Pongo/Lemmas/*.lean Pongo/Model/*.lean Pongo/Gen/*.lean | sed 's#/#.#g; s#\.lean$##') 2>&1 | grep -A12 "^error" ; exit ${PIPESTATUS[0]}

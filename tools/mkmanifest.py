#!/usr/bin/env python3
"""Writes MANIFEST.json from props.py + a table of level texts (kept here so the manifest stays consistent)."""
import json, os, sys
ROOT = os.path.dirname(os.path.dirname(os.path.abspath(__file__)))
sys.path.insert(0, ROOT)
from props import PROPS
from manifest_text import TEXT, PENDING

checks = []
for pid in sorted(PROPS):
    t = TEXT[pid]
    checks.append({
        "property_id": pid,
        "quick_cmd": f"./check {pid} --tier quick",
        "thorough_cmd": f"./check {pid} --tier thorough",
        "evidence_file": f"/verif/evidence/{pid}.json",
        "replay_cmd_template": "./check replay {path}",
        "engine": "lean-model",
        "level_claimed": {"category": "proof", "text": t["text"], "design_ref": t["ref"]},
        "level_note": t["note"],
        "technique": t["technique"],
    })
all_ids = [json.loads(l)["id"] for l in open(os.path.join(ROOT, "properties.jsonl"))]
na = [{"property_id": i, "reason": PENDING.get(i, "check not built yet (work in progress; see DESIGN.md §6 for the plan)")} for i in all_ids if i not in PROPS]
m = {
    "version": 1,
    "setup_cmd": "./check setup",
    "hooks": {
        "guard": "verif",
        "enable": "go build -tags verif (harness/go.mod replaces github.com/flosch/pongo2/v6 with /repo)",
        "baseline_off_cmd": "cd /repo && go test -vet=off -count=1 ./...",
        "source_commits": ["76f9614", "2fc9ede"],
        "add_only": True,
    },
    "engines": [
        {"name": "lean-model", "path": "lean/", "serves_properties": sorted(PROPS), "kind_free_text": "Lean 4 model of pongo2 (core-only) + property theorems, checked by lake build and #print axioms"},
        {"name": "extract", "path": "tools/extract/", "serves_properties": sorted(PROPS), "kind_free_text": "Go AST/type-based fact extractor regenerating lean/Pongo/Gen/*.lean from /repo on every run"},
        {"name": "harness", "path": "harness/", "serves_properties": sorted(PROPS), "kind_free_text": "Go differential harness: real pongo2 (-tags verif) vs the Lean driver, plus model-free direct oracles"},
    ],
    "checks": checks,
    "notes": "Technique family: machine-checked proof in Lean 4 about a model tied to /repo by regenerated facts and a correspondence check. See DESIGN.md.",
    "not_applicable": na,
}
json.dump(m, open(os.path.join(ROOT, "MANIFEST.json"), "w"), indent=1)
print("MANIFEST.json:", len(checks), "checks,", len(na), "not claimed")

#!/bin/bash
# run the property's check against a seeded change applied to /repo, then undo it
# usage: seed_run.sh C01 a [tier]
id=$1; v=$2; tier=${3:-quick}
root=$(cd "$(dirname "$0")/.." && pwd)
dir=$root/seeded/$id-$v
cd $root
if [ -n "$(git -C ${VERIF_REPO:-/repo} status --porcelain)" ]; then echo "/repo not clean"; exit 2; fi
git -C ${VERIF_REPO:-/repo} apply $dir/patch.diff || { echo "$id $v: patch does not apply"; exit 2; }
# the evidence file of a run against a seeded change must not replace the one of the real tree
cp evidence/$id.json $root/build/evidence_$id.keep 2>/dev/null
out=$(./check $id --tier $tier 2>&1 | grep -v "^WARNING\|^KNOWN-FINDING" | tail -2 | tr '\n' ' ')
rc=$?
git -C ${VERIF_REPO:-/repo} checkout -- .
git -C ${VERIF_REPO:-/repo} clean -fdq
[ -f $root/build/evidence_$id.keep ] && mv $root/build/evidence_$id.keep evidence/$id.json
echo "$id-$v [$tier]: $out"

#!/bin/bash
# run the property's check against a seeded change applied to /repo, then undo it
# usage: seed_run.sh C01 a [tier]
id=$1; v=$2; tier=${3:-quick}
dir=/verif/seeded/$id-$v
cd /verif
if [ -n "$(git -C /repo status --porcelain)" ]; then echo "/repo not clean"; exit 2; fi
git -C /repo apply $dir/patch.diff || { echo "$id $v: patch does not apply"; exit 2; }
out=$(./check $id --tier $tier 2>&1 | grep -v "^WARNING\|^KNOWN-FINDING" | tail -2 | tr '\n' ' ')
rc=$?
git -C /repo checkout -- .
git -C /repo clean -fdq
echo "$id-$v [$tier]: $out"

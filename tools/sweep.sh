#!/bin/bash
# run every claimed check at the given tier / seeds; print one line per run
tier=${1:-thorough}; shift
seeds=${@:-1}
cd "$(dirname "$0")/.."
for s in $seeds; do
  for p in $(python3 -c "import json;print(' '.join(c['property_id'] for c in json.load(open('MANIFEST.json'))['checks']))"); do
    out=$(./check $p --tier $tier --seed $s 2>&1 | grep -v "^WARNING" | tail -3 | tr '\n' ' ')
    echo "seed=$s $out"
  done
done

package main

import (
	"fmt"
	"go/ast"
	"go/token"
	"go/types"
	"sort"
	"strings"
)

// Effect analysis for C04/C05/C12: which assignments reachable from the
// execution entry points write to memory that outlives one execution
// (the compiled template and everything hanging off it, the template set,
// package-level variables, the caller's Public context).

type write struct {
	fn     string
	target string
	pos    token.Pos
}

func (c *ctx) namedOf(t types.Type) *types.Named {
	for {
		switch x := t.(type) {
		case *types.Pointer:
			t = x.Elem()
		case *types.Named:
			return x
		default:
			return nil
		}
	}
}

func (c *ctx) sharedTypes() map[string]bool {
	shared := map[string]bool{"Template": true, "TemplateSet": true, "Token": true, "Parser": true, "Options": true,
		"NodeWrapper": true, "tag": true, "lexer": true}
	var ifaces []*types.Interface
	for _, n := range []string{"INode", "IEvaluator", "functionCallArgument", "INodeTag"} {
		if o := c.pkg.Scope().Lookup(n); o != nil {
			if it, ok := o.Type().Underlying().(*types.Interface); ok {
				ifaces = append(ifaces, it)
			}
		}
	}
	for _, n := range c.pkg.Scope().Names() {
		tn, ok := c.pkg.Scope().Lookup(n).(*types.TypeName)
		if !ok {
			continue
		}
		if _, isStruct := tn.Type().Underlying().(*types.Struct); !isStruct {
			continue
		}
		for _, it := range ifaces {
			if types.Implements(types.NewPointer(tn.Type()), it) || types.Implements(tn.Type(), it) {
				shared[n] = true
			}
		}
	}
	// parts of nodes that are not nodes themselves
	for _, n := range []string{"variablePart", "filterCall", "nodeFilterCall"} {
		shared[n] = true
	}
	// values created per execution, although they implement an interface above
	for _, n := range []string{"executionCtxEval", "tagBlockInformation", "tagCycleValue"} {
		delete(shared, n)
	}
	return shared
}

// methodsNamed returns the keys of all methods called `name` (CHA).
func (c *ctx) methodsNamed(name string) []string {
	var out []string
	for k := range c.funcs {
		if i := strings.LastIndex(k, "."); i >= 0 && k[i+1:] == name {
			out = append(out, k)
		}
	}
	return out
}

func (c *ctx) funcsWithSig(sigName string) []string {
	o := c.pkg.Scope().Lookup(sigName)
	if o == nil {
		return nil
	}
	want := o.Type().Underlying()
	var out []string
	for k, fd := range c.funcs {
		if fd.Recv != nil {
			continue
		}
		if obj, ok := c.info.Defs[fd.Name].(*types.Func); ok {
			if types.Identical(obj.Type().Underlying(), want) {
				out = append(out, k)
			}
		}
	}
	return out
}

func (c *ctx) calleeKey(f *types.Func) string {
	if f.Pkg() != c.pkg {
		return ""
	}
	sig := f.Type().(*types.Signature)
	if r := sig.Recv(); r != nil {
		if n := c.namedOf(r.Type()); n != nil {
			return n.Obj().Name() + "." + f.Name()
		}
	}
	return f.Name()
}

// edges of one function body (function literals included)
func (c *ctx) edgesOf(fd *ast.FuncDecl) []string {
	seen := map[string]bool{}
	add := func(k string) {
		if k != "" {
			seen[k] = true
		}
	}
	ast.Inspect(fd.Body, func(n ast.Node) bool {
		call, ok := n.(*ast.CallExpr)
		if !ok {
			return true
		}
		switch fun := call.Fun.(type) {
		case *ast.Ident:
			switch o := c.info.Uses[fun].(type) {
			case *types.Func:
				add(c.calleeKey(o))
			case *types.Var:
				c.addFuncValueCallees(o.Type(), add)
			}
		case *ast.SelectorExpr:
			if sel := c.info.Selections[fun]; sel != nil {
				if f, ok := sel.Obj().(*types.Func); ok {
					if _, isIface := sel.Recv().Underlying().(*types.Interface); isIface {
						for _, m := range c.methodsNamed(f.Name()) {
							add(m)
						}
					} else {
						add(c.calleeKey(f))
					}
				} else if v, ok := sel.Obj().(*types.Var); ok {
					c.addFuncValueCallees(v.Type(), add)
				}
			} else if f, ok := c.info.Uses[fun.Sel].(*types.Func); ok {
				add(c.calleeKey(f))
			}
		default:
			if tv, ok := c.info.Types[call.Fun]; ok {
				c.addFuncValueCallees(tv.Type, add)
			}
		}
		return true
	})
	var out []string
	for k := range seen {
		out = append(out, k)
	}
	sort.Strings(out)
	return out
}

func (c *ctx) addFuncValueCallees(t types.Type, add func(string)) {
	if n, ok := t.(*types.Named); ok && n.Obj().Pkg() == c.pkg {
		switch n.Obj().Name() {
		case "FilterFunction":
			for _, k := range c.funcsWithSig("FilterFunction") {
				add(k)
			}
		case "TagParser":
			for _, k := range c.funcsWithSig("TagParser") {
				add(k)
			}
		}
	}
}

func exprString(e ast.Expr) string {
	switch x := e.(type) {
	case *ast.Ident:
		return x.Name
	case *ast.SelectorExpr:
		return exprString(x.X) + "." + x.Sel.Name
	case *ast.IndexExpr:
		return exprString(x.X) + "[…]"
	case *ast.StarExpr:
		return "*" + exprString(x.X)
	case *ast.ParenExpr:
		return exprString(x.X)
	case *ast.CallExpr:
		return exprString(x.Fun) + "()"
	}
	return "?"
}

// writesOf lists the stores of one function that target long-lived memory.
func (c *ctx) writesOf(key string, fd *ast.FuncDecl, shared map[string]bool) []write {
	var out []write
	classify := func(lhs ast.Expr) {
		lhs = ast.Unparen(lhs)
		switch x := lhs.(type) {
		case *ast.Ident:
			if v, ok := c.info.Uses[x].(*types.Var); ok && v.Parent() == c.pkg.Scope() {
				out = append(out, write{key, "global " + x.Name, x.Pos()})
			}
		case *ast.SelectorExpr:
			if tv, ok := c.info.Types[x.X]; ok {
				if n := c.namedOf(tv.Type); n != nil && n.Obj().Pkg() == c.pkg && shared[n.Obj().Name()] {
					out = append(out, write{key, n.Obj().Name() + "." + x.Sel.Name, x.Pos()})
				}
			}
		case *ast.IndexExpr:
			base := ast.Unparen(x.X)
			switch b := base.(type) {
			case *ast.Ident:
				if v, ok := c.info.Uses[b].(*types.Var); ok && v.Parent() == c.pkg.Scope() {
					out = append(out, write{key, "global " + b.Name + "[…]", x.Pos()})
				}
			case *ast.SelectorExpr:
				if tv, ok := c.info.Types[b.X]; ok {
					if n := c.namedOf(tv.Type); n != nil && n.Obj().Pkg() == c.pkg {
						name := n.Obj().Name()
						if shared[name] {
							out = append(out, write{key, name + "." + b.Sel.Name + "[…]", x.Pos()})
						} else if name == "ExecutionContext" && (b.Sel.Name == "Public" || b.Sel.Name == "Shared") {
							out = append(out, write{key, "ExecutionContext." + b.Sel.Name + "[…]", x.Pos()})
						}
					}
				}
			}
		case *ast.StarExpr:
			if tv, ok := c.info.Types[x.X]; ok {
				if n := c.namedOf(tv.Type); n != nil && n.Obj().Pkg() == c.pkg && shared[n.Obj().Name()] {
					out = append(out, write{key, "*" + n.Obj().Name(), x.Pos()})
				}
			}
		}
	}
	ast.Inspect(fd.Body, func(n ast.Node) bool {
		switch s := n.(type) {
		case *ast.AssignStmt:
			if s.Tok == token.DEFINE {
				return true
			}
			for _, l := range s.Lhs {
				classify(l)
			}
		case *ast.IncDecStmt:
			classify(s.X)
		case *ast.CallExpr:
			// Context.Update / delete(...) on the caller's data
			if sel, ok := s.Fun.(*ast.SelectorExpr); ok && sel.Sel.Name == "Update" {
				recv := exprString(sel.X)
				if strings.HasSuffix(recv, ".Public") || strings.HasSuffix(recv, ".Globals") || strings.HasSuffix(recv, ".Shared") || recv == "context" {
					out = append(out, write{key, recv + ".Update(…)", s.Pos()})
				}
			}
			if id, ok := s.Fun.(*ast.Ident); ok && id.Name == "delete" && len(s.Args) == 2 {
				recv := exprString(s.Args[0])
				if strings.HasSuffix(recv, ".Public") || strings.HasSuffix(recv, ".Globals") || recv == "context" ||
					strings.HasSuffix(recv, ".blocks") || strings.HasSuffix(recv, ".exportedMacros") || strings.HasSuffix(recv, ".bannedTags") || strings.HasSuffix(recv, ".bannedFilters") {
					out = append(out, write{key, "delete(" + recv + ")", s.Pos()})
				}
			}
		}
		return true
	})
	return out
}

// atomicsOf lists calls of mutating sync/atomic methods on fields of long-lived objects or package variables.
func (c *ctx) atomicsOf(key string, fd *ast.FuncDecl, shared map[string]bool) []write {
	var out []write
	mutating := map[string]bool{"Store": true, "Add": true, "Swap": true, "CompareAndSwap": true, "And": true, "Or": true}
	ast.Inspect(fd.Body, func(n ast.Node) bool {
		call, ok := n.(*ast.CallExpr)
		if !ok {
			return true
		}
		sel, ok := call.Fun.(*ast.SelectorExpr)
		if !ok || !mutating[sel.Sel.Name] {
			return true
		}
		tv, ok := c.info.Types[sel.X]
		if !ok {
			return true
		}
		nt := c.namedOf(tv.Type)
		if nt == nil || nt.Obj().Pkg() == nil || nt.Obj().Pkg().Path() != "sync/atomic" {
			return true
		}
		target := ""
		switch x := ast.Unparen(sel.X).(type) {
		case *ast.Ident:
			if v, ok := c.info.Uses[x].(*types.Var); ok && v.Parent() == c.pkg.Scope() {
				target = "global " + x.Name
			}
		case *ast.SelectorExpr:
			if tv2, ok := c.info.Types[x.X]; ok {
				if n2 := c.namedOf(tv2.Type); n2 != nil && n2.Obj().Pkg() == c.pkg && shared[n2.Obj().Name()] {
					target = n2.Obj().Name() + "." + x.Sel.Name
				}
			}
		}
		if target == "" {
			return true
		}
		var args []string
		for _, a := range call.Args {
			args = append(args, exprString(a))
		}
		out = append(out, write{key, target + "." + sel.Sel.Name + "(" + strings.Join(args, ", ") + ")", call.Pos()})
		return true
	})
	return out
}

// sharedObjectsOf lists the package-level variables a function mentions whose type is a pointer to
// (or a value of) a struct type of this package: one object shared by every execution.
func (c *ctx) sharedObjectsOf(key string, fd *ast.FuncDecl) []write {
	var out []write
	seen := map[string]bool{}
	ast.Inspect(fd.Body, func(n ast.Node) bool {
		id, ok := n.(*ast.Ident)
		if !ok {
			return true
		}
		v, ok := c.info.Uses[id].(*types.Var)
		if !ok || v.Parent() != c.pkg.Scope() || seen[id.Name] {
			return true
		}
		nt := c.namedOf(v.Type())
		if nt == nil || nt.Obj().Pkg() != c.pkg {
			return true
		}
		if _, isStruct := nt.Underlying().(*types.Struct); !isStruct {
			return true
		}
		seen[id.Name] = true
		out = append(out, write{key, id.Name + " " + v.Type().String(), id.Pos()})
		return true
	})
	return out
}

var execRoots = []string{"Template.Execute", "Template.ExecuteWriter", "Template.ExecuteWriterUnbuffered", "Template.ExecuteBytes",
	"Template.ExecuteBlocks",
	// invoked through reflection on values the engine itself puts into the context
	"tagBlockInformation.Super", "tagCycleValue.String"}

// compilation builds fresh objects; it is reachable from execution (lazy
// include) but not traversed: what it shares is the set, whose writes are
// collected in the From* functions themselves.
var compileBoundary = map[string]bool{"newTemplate": true, "newTemplateString": true}

func genEffects(c *ctx) (string, string) {
	shared := c.sharedTypes()
	edges := map[string][]string{}
	for k, fd := range c.funcs {
		if fd.Body != nil {
			edges[k] = c.edgesOf(fd)
		}
	}
	reach := map[string]bool{}
	var stack []string
	for _, r := range execRoots {
		if _, ok := c.funcs[r]; ok {
			stack = append(stack, r)
		} else {
			c.note("effects: entry point %s not found", r)
		}
	}
	// every method of Value is callable from a template through a boxed value
	for k := range c.funcs {
		if strings.HasPrefix(k, "Value.") {
			stack = append(stack, k)
		}
	}
	for len(stack) > 0 {
		k := stack[len(stack)-1]
		stack = stack[:len(stack)-1]
		if reach[k] || compileBoundary[k] {
			continue
		}
		reach[k] = true
		stack = append(stack, edges[k]...)
	}
	var ws, as, objs []write
	for k, fd := range c.funcs {
		if fd.Body != nil && reach[k] {
			ws = append(ws, c.writesOf(k, fd, shared)...)
			as = append(as, c.atomicsOf(k, fd, shared)...)
			objs = append(objs, c.sharedObjectsOf(k, fd)...)
		}
	}
	for _, l := range [][]write{as, objs} {
		l := l
		sort.Slice(l, func(i, j int) bool {
			if l[i].fn != l[j].fn {
				return l[i].fn < l[j].fn
			}
			return l[i].target < l[j].target
		})
	}
	sort.Slice(ws, func(i, j int) bool {
		if ws[i].fn != ws[j].fn {
			return ws[i].fn < ws[j].fn
		}
		return ws[i].target < ws[j].target
	})
	var rs []string
	for k := range reach {
		rs = append(rs, k)
	}
	sort.Strings(rs)
	var sb strings.Builder
	sb.WriteString("-- GENERATED by tools/extract from /repo — do not edit\nnamespace Pongo.Gen\n\n")
	sb.WriteString("/-- (function, target) of every store reachable from the execution entry points whose target outlives one execution:\n    a field of the compiled template or of anything hanging off it, of the template set, a package-level variable, or the caller's Public context -/\ndef execWrites : List (String × String) := [")
	seen := map[string]bool{}
	first := true
	for _, w := range ws {
		id := w.fn + "|" + w.target
		if seen[id] {
			continue
		}
		seen[id] = true
		if !first {
			sb.WriteString(",")
		}
		first = false
		fmt.Fprintf(&sb, "\n  (%q, %q)", w.fn, w.target)
	}
	sb.WriteString("]\n\n")
	emit := func(doc, name string, l []write) {
		sb.WriteString("/-- " + doc + " -/\ndef " + name + " : List (String × String) := [")
		seen := map[string]bool{}
		first := true
		for _, w := range l {
			id := w.fn + "|" + w.target
			if seen[id] {
				continue
			}
			seen[id] = true
			if !first {
				sb.WriteString(",")
			}
			first = false
			fmt.Fprintf(&sb, "\n  (%q, %q)", w.fn, w.target)
		}
		sb.WriteString("]\n\n")
	}
	emit("(function, call) of every mutating sync/atomic method call reachable from the execution entry points on a field of a long-lived object or on a package variable", "execAtomicWrites", as)
	emit("(function, variable and type) of every package-level variable holding a struct of this package (or a pointer to one) that a function reachable from the execution entry points mentions: an object shared by all executions", "execSharedObjects", objs)
	fmt.Fprintf(&sb, "/-- number of functions reachable from the execution entry points (own CHA call graph) -/\ndef execReachable : Nat := %d\n\n", len(rs))
	sb.WriteString("/-- sanity anchors: functions that must be in the reachable set if the call graph is not truncated -/\ndef execReachableAnchors : List (String × Bool) := [")
	anchors := []string{"nodeDocument.Execute", "tagForNode.Execute", "tagIncludeNode.Execute", "variableResolver.resolve", "filterCall.Execute",
		"filterEscape", "tagMacroNode.call", "TemplateSet.fromFileFor", "TemplateSet.resolveTemplate", "Value.IterateOrder", "Expression.Evaluate", "tagCycleNode.Execute", "nodeHTML.Execute"}
	for i, a := range anchors {
		if i > 0 {
			sb.WriteString(",")
		}
		fmt.Fprintf(&sb, "\n  (%q, %v)", a, reach[a])
	}
	sb.WriteString("]\n\nend Pongo.Gen\n")
	return "Effects.lean", sb.String()
}

package main

func genFilters(c *ctx) (string, string) {
	return "FilterTables.lean", "-- GENERATED placeholder\nnamespace Pongo.Gen\nend Pongo.Gen\n"
}

package main

import (
	"fmt"
	"go/ast"
	"go/constant"
	"go/token"
	"strconv"
	"strings"
)

// constString evaluates expr to a string if it is a constant string
// expression or a string literal.
func (c *ctx) constString(e ast.Expr) (string, bool) {
	if tv, ok := c.info.Types[e]; ok && tv.Value != nil && tv.Value.Kind() == constant.String {
		return constant.StringVal(tv.Value), true
	}
	if bl, ok := e.(*ast.BasicLit); ok && bl.Kind == token.STRING {
		s, err := strconv.Unquote(bl.Value)
		return s, err == nil
	}
	return "", false
}

func (c *ctx) constInt(e ast.Expr) (int64, bool) {
	if tv, ok := c.info.Types[e]; ok && tv.Value != nil {
		if v, ok := constant.Int64Val(constant.ToInt(tv.Value)); ok {
			return v, true
		}
	}
	return 0, false
}

// varInit returns the initialiser expression of a package-level var/const.
func (c *ctx) varInit(name string) ast.Expr {
	for _, f := range c.files {
		for _, d := range f.Decls {
			gd, ok := d.(*ast.GenDecl)
			if !ok {
				continue
			}
			for _, sp := range gd.Specs {
				vs, ok := sp.(*ast.ValueSpec)
				if !ok {
					continue
				}
				for i, n := range vs.Names {
					if n.Name == name && i < len(vs.Values) {
						return vs.Values[i]
					}
				}
			}
		}
	}
	return nil
}

func (c *ctx) stringVar(name string) (string, bool) {
	e := c.varInit(name)
	if e == nil {
		return "", false
	}
	return c.constString(e)
}

func (c *ctx) stringListVar(name string) ([]string, bool) {
	e := c.varInit(name)
	cl, ok := e.(*ast.CompositeLit)
	if !ok {
		return nil, false
	}
	var out []string
	for _, el := range cl.Elts {
		s, ok := c.constString(el)
		if !ok {
			return nil, false
		}
		out = append(out, s)
	}
	return out, true
}

// sprintfEmpty instantiates a Sprintf format with every %s/%v replaced by "".
func sprintfEmpty(format string) string {
	r := strings.NewReplacer("%%", "%", "%s", "", "%v", "")
	return r.Replace(format)
}

// prefixArg evaluates the second argument of a strings.HasPrefix call.
func (c *ctx) prefixArg(e ast.Expr) (string, bool) {
	if s, ok := c.constString(e); ok {
		return s, true
	}
	if call, ok := e.(*ast.CallExpr); ok {
		if sel, ok := call.Fun.(*ast.SelectorExpr); ok && sel.Sel.Name == "Sprintf" && len(call.Args) >= 1 {
			if f, ok := c.constString(call.Args[0]); ok {
				return sprintfEmpty(f), true
			}
		}
	}
	return "", false
}

func isCallTo(e ast.Expr, pkg, name string) (*ast.CallExpr, bool) {
	call, ok := e.(*ast.CallExpr)
	if !ok {
		return nil, false
	}
	sel, ok := call.Fun.(*ast.SelectorExpr)
	if !ok || sel.Sel.Name != name {
		return nil, false
	}
	if pkg != "" {
		id, ok := sel.X.(*ast.Ident)
		if !ok || id.Name != pkg {
			return nil, false
		}
	}
	return call, true
}

type lexFacts struct {
	symbols, keywords, enders, openers         []string
	space, ident, identDigits, digits, quotes  string
	eofByte                                    int // -1 = none
	verbStart, verbEnd, commentOpen, commentClose string
	verbStartW, verbEndW                       int64
	nilKeyword                                 bool
	ok                                         bool
}

// baseline facts (the tree the model was written against); used only as a
// fallback so that the generated file always compiles, together with
// structureOK := false.
var baselineLex = lexFacts{
	symbols: []string{"{{-", "-}}", "{%-", "-%}", "==", ">=", "<=", "&&", "||", "{{", "}}", "{%", "%}", "!=", "<>",
		"(", ")", "+", "-", "*", "<", ">", "/", "^", ",", ".", "!", "|", ":", "=", "%", "[", "]"},
	keywords: []string{"in", "and", "or", "not", "true", "false", "as", "export"},
	enders:   []string{"%}", "-%}", "}}", "-}}"}, openers: []string{"{{", "{%"},
	space: " \n\r\t", ident: "abcdefghijklmnopqrstuvwxyzABCDEFGHIJKLMNOPQRSTUVWXYZ_",
	identDigits: "abcdefghijklmnopqrstuvwxyzABCDEFGHIJKLMNOPQRSTUVWXYZ_0123456789", digits: "0123456789", quotes: "\"'",
	eofByte: 1, verbStart: "{% verbatim %}", verbEnd: "{% endverbatim %}", commentOpen: "{#", commentClose: "#}",
	verbStartW: 14, verbEndW: 17,
}

func (c *ctx) lexFacts() lexFacts {
	var f lexFacts
	f.ok = true
	fail := func(format string, a ...any) {
		f.ok = false
		c.note("lexer: "+format, a...)
	}
	var ok bool
	if f.symbols, ok = c.stringListVar("TokenSymbols"); !ok {
		fail("TokenSymbols is not a list of string literals")
	}
	if f.keywords, ok = c.stringListVar("TokenKeywords"); !ok {
		fail("TokenKeywords is not a list of string literals")
	}
	for _, kv := range []struct {
		dst  *string
		name string
	}{{&f.space, "tokenSpaceChars"}, {&f.ident, "tokenIdentifierChars"},
		{&f.identDigits, "tokenIdentifierCharsWithDigits"}, {&f.digits, "tokenDigits"}} {
		if *kv.dst, ok = c.stringVar(kv.name); !ok {
			fail("%s is not a string literal", kv.name)
		}
	}
	// next(): value returned at end of input
	f.eofByte = -1
	if fd := c.funcs["lexer.next"]; fd != nil {
		found := false
		ast.Inspect(fd.Body, func(n ast.Node) bool {
			if found {
				return false
			}
			if ifs, ok := n.(*ast.IfStmt); ok {
				for _, st := range ifs.Body.List {
					if rs, ok := st.(*ast.ReturnStmt); ok && len(rs.Results) == 1 {
						if v, ok := c.constInt(rs.Results[0]); ok {
							found = true
							if v >= 0 && v < 0x80 {
								f.eofByte = int(v)
							}
						}
					}
				}
			}
			return true
		})
		if !found {
			fail("next(): no constant returned at end of input")
		}
	} else {
		fail("lexer.next not found")
	}
	// stateCode: quotes and enders
	if fd := c.funcs["lexer.stateCode"]; fd != nil {
		var acceptLits []string
		ast.Inspect(fd.Body, func(n ast.Node) bool {
			if call, ok := n.(*ast.CallExpr); ok {
				if sel, ok := call.Fun.(*ast.SelectorExpr); ok && sel.Sel.Name == "accept" && len(call.Args) == 1 {
					if bl, ok := call.Args[0].(*ast.BasicLit); ok {
						if s, err := strconv.Unquote(bl.Value); err == nil {
							acceptLits = append(acceptLits, s)
						}
					}
				}
			}
			if be, ok := n.(*ast.BinaryExpr); ok && be.Op == token.EQL {
				if id, ok := be.X.(*ast.Ident); ok && id.Name == "sym" {
					if s, ok := c.constString(be.Y); ok {
						f.enders = append(f.enders, s)
					}
				}
			}
			return true
		})
		if len(acceptLits) == 1 {
			f.quotes = acceptLits[0]
		} else {
			fail("stateCode: expected exactly one accept(<literal>) for quotes, found %d", len(acceptLits))
		}
		if len(f.enders) == 0 {
			fail("stateCode: no `sym == <literal>` comparisons found")
		}
	} else {
		fail("lexer.stateCode not found")
	}
	// stateIdentifier: the dead `kw == "nil"` branch must stay dead
	for _, k := range f.keywords {
		if k == "nil" {
			f.nilKeyword = true
		}
	}
	// run: prefixes and widths, in source order
	if fd := c.funcs["lexer.run"]; fd != nil {
		var prefixes []string
		var widths []int64
		ast.Inspect(fd.Body, func(n ast.Node) bool {
			if call, ok := isCallTo(asExpr(n), "strings", "HasPrefix"); ok && len(call.Args) == 2 {
				if s, ok := c.prefixArg(call.Args[1]); ok {
					prefixes = append(prefixes, s)
				} else {
					fail("run: HasPrefix argument is not a literal or Sprintf of one")
				}
			}
			if as, ok := n.(*ast.AssignStmt); ok && len(as.Lhs) == 1 && len(as.Rhs) == 1 {
				if id, ok := as.Lhs[0].(*ast.Ident); ok && id.Name == "w" {
					if v, ok := c.constInt(as.Rhs[0]); ok {
						widths = append(widths, v)
					}
				}
			}
			return true
		})
		if len(prefixes) == 6 && len(widths) == 2 {
			f.verbEnd, f.verbStart, f.commentOpen, f.commentClose = prefixes[0], prefixes[1], prefixes[2], prefixes[3]
			f.openers = prefixes[4:]
			f.verbEndW, f.verbStartW = widths[0], widths[1]
		} else {
			fail("run: expected 6 HasPrefix tests and 2 widths, found %d and %d", len(prefixes), len(widths))
		}
	} else {
		fail("lexer.run not found")
	}
	return f
}

func asExpr(n ast.Node) ast.Expr {
	if e, ok := n.(ast.Expr); ok {
		return e
	}
	return nil
}

func genLex(c *ctx) (string, string) {
	f := c.lexFacts()
	structureOK := f.ok
	nilKw := f.nilKeyword
	if !f.ok {
		f = baselineLex
	}
	var sb strings.Builder
	sb.WriteString("-- GENERATED by tools/extract from /repo/lexer.go — do not edit\n")
	sb.WriteString("import Pongo.Model.Lex\nnamespace Pongo.Gen\n\n")
	eof := "none"
	if f.eofByte >= 0 {
		eof = fmt.Sprintf("some 0x%02x", f.eofByte)
	}
	fmt.Fprintf(&sb, "def lexTables : LexTables where\n")
	fmt.Fprintf(&sb, "  symbols := %s\n", leanBytesList(f.symbols))
	fmt.Fprintf(&sb, "  keywords := %s\n", leanBytesList(f.keywords))
	fmt.Fprintf(&sb, "  space := %s\n", leanBytes(f.space))
	fmt.Fprintf(&sb, "  identChars := %s\n", leanBytes(f.ident))
	fmt.Fprintf(&sb, "  identDigitChars := %s\n", leanBytes(f.identDigits))
	fmt.Fprintf(&sb, "  digits := %s\n", leanBytes(f.digits))
	fmt.Fprintf(&sb, "  quotes := %s\n", leanBytes(f.quotes))
	fmt.Fprintf(&sb, "  enders := %s\n", leanBytesList(f.enders))
	fmt.Fprintf(&sb, "  eofByte := %s\n", eof)
	fmt.Fprintf(&sb, "  verbStart := %s\n", leanBytes(f.verbStart))
	fmt.Fprintf(&sb, "  verbEnd := %s\n", leanBytes(f.verbEnd))
	fmt.Fprintf(&sb, "  verbStartW := %d\n", f.verbStartW)
	fmt.Fprintf(&sb, "  verbEndW := %d\n", f.verbEndW)
	fmt.Fprintf(&sb, "  commentOpen := %s\n", leanBytes(f.commentOpen))
	fmt.Fprintf(&sb, "  commentClose := %s\n", leanBytes(f.commentClose))
	fmt.Fprintf(&sb, "  openers := %s\n\n", leanBytesList(f.openers))
	fmt.Fprintf(&sb, "/-- the extractor recognised the shape of lexer.go it knows how to read -/\ndef lexStructureOK : Bool := %v\n\n", structureOK)
	fmt.Fprintf(&sb, "/-- \"nil\" is listed in TokenKeywords (would revive the dead TokenNil branch of stateIdentifier) -/\ndef lexNilKeyword : Bool := %v\n\n", nilKw)
	sb.WriteString("end Pongo.Gen\n")
	return "LexTables.lean", sb.String()
}

// extract: regenerates the Lean fact files under lean/Pongo/Gen from /repo's
// current source (DESIGN.md §3.1).  Standard library only.
package main

import (
	"crypto/sha256"
	"encoding/hex"
	"flag"
	"fmt"
	"go/ast"
	"go/importer"
	"go/parser"
	"go/token"
	"go/types"
	"os"
	"path/filepath"
	"sort"
	"strings"
)

type ctx struct {
	fset  *token.FileSet
	files []*ast.File
	info  *types.Info
	pkg   *types.Package
	funcs map[string]*ast.FuncDecl // "Recv.Name" or "Name"
	notes []string                 // structural problems found
}

func (c *ctx) note(format string, a ...any) { c.notes = append(c.notes, fmt.Sprintf(format, a...)) }

func recvName(fd *ast.FuncDecl) string {
	if fd.Recv == nil || len(fd.Recv.List) == 0 {
		return ""
	}
	t := fd.Recv.List[0].Type
	if s, ok := t.(*ast.StarExpr); ok {
		t = s.X
	}
	if id, ok := t.(*ast.Ident); ok {
		return id.Name
	}
	return ""
}

func load(dir string) (*ctx, error) {
	c := &ctx{fset: token.NewFileSet(), funcs: map[string]*ast.FuncDecl{}}
	ents, err := os.ReadDir(dir)
	if err != nil {
		return nil, err
	}
	for _, e := range ents {
		n := e.Name()
		if !strings.HasSuffix(n, ".go") || strings.HasSuffix(n, "_test.go") {
			continue
		}
		src, err := os.ReadFile(filepath.Join(dir, n))
		if err != nil {
			return nil, err
		}
		// skip files guarded by the verif build tag (hooks)
		if strings.Contains(string(src[:min(len(src), 200)]), "//go:build verif") {
			continue
		}
		f, err := parser.ParseFile(c.fset, filepath.Join(dir, n), src, parser.ParseComments)
		if err != nil {
			return nil, err
		}
		c.files = append(c.files, f)
	}
	c.info = &types.Info{
		Types:      map[ast.Expr]types.TypeAndValue{},
		Defs:       map[*ast.Ident]types.Object{},
		Uses:       map[*ast.Ident]types.Object{},
		Selections: map[*ast.SelectorExpr]*types.Selection{},
	}
	conf := types.Config{Importer: importer.ForCompiler(c.fset, "source", nil), Error: func(error) {}}
	c.pkg, _ = conf.Check("pongo2", c.fset, c.files, c.info)
	for _, f := range c.files {
		for _, d := range f.Decls {
			if fd, ok := d.(*ast.FuncDecl); ok {
				k := fd.Name.Name
				if r := recvName(fd); r != "" {
					k = r + "." + k
				}
				c.funcs[k] = fd
			}
		}
	}
	return c, nil
}

func treeHash(dir string) string {
	h := sha256.New()
	ents, _ := os.ReadDir(dir)
	var names []string
	for _, e := range ents {
		if strings.HasSuffix(e.Name(), ".go") && !strings.HasSuffix(e.Name(), "_test.go") {
			names = append(names, e.Name())
		}
	}
	sort.Strings(names)
	for _, n := range names {
		b, _ := os.ReadFile(filepath.Join(dir, n))
		fmt.Fprintf(h, "%s %d\n", n, len(b))
		h.Write(b)
	}
	self, _ := os.Executable()
	if b, err := os.ReadFile(self); err == nil {
		h.Write(b)
	}
	return hex.EncodeToString(h.Sum(nil))
}

// ---------- Lean printing ----------

func leanBytes(s string) string {
	if len(s) == 0 {
		return "[]"
	}
	var sb strings.Builder
	sb.WriteString("[")
	for i := 0; i < len(s); i++ {
		if i > 0 {
			sb.WriteString(", ")
		}
		fmt.Fprintf(&sb, "0x%02x", s[i])
	}
	sb.WriteString("]")
	return sb.String()
}

func leanBytesList(ss []string) string {
	parts := make([]string, len(ss))
	for i, s := range ss {
		parts[i] = leanBytes(s) + " /- " + strings.ReplaceAll(fmt.Sprintf("%q", s), "-/", "- /") + " -/"
	}
	return "[\n    " + strings.Join(parts, ",\n    ") + "]"
}

func leanStr(s string) string { return fmt.Sprintf("%q", s) }

func writeIfChanged(path, content string) error {
	old, err := os.ReadFile(path)
	if err == nil && string(old) == content {
		return nil
	}
	return os.WriteFile(path, []byte(content), 0o644)
}

func main() {
	repo := flag.String("repo", "/repo", "repository root")
	out := flag.String("out", "", "output directory (lean/Pongo/Gen)")
	flag.Parse()
	if *out == "" {
		fmt.Fprintln(os.Stderr, "usage: extract -repo DIR -out DIR")
		os.Exit(2)
	}
	hash := treeHash(*repo)
	stamp := filepath.Join(*out, ".stamp")
	if b, err := os.ReadFile(stamp); err == nil && string(b) == hash {
		fmt.Println("extract: up to date")
		return
	}
	os.Remove(stamp)
	c, err := load(*repo)
	if err != nil {
		fmt.Fprintln(os.Stderr, "extract:", err)
		os.Exit(1)
	}
	os.MkdirAll(*out, 0o755)
	gens := []func(*ctx) (string, string){genLex, genFilters, genFilterFacts, genBanSites, genLockFacts, genEffects, genOSAccess, genLoadSites, genSafeSites, genPanicSites}
	for _, g := range gens {
		name, content := g(c)
		if err := writeIfChanged(filepath.Join(*out, name), content); err != nil {
			fmt.Fprintln(os.Stderr, "extract:", err)
			os.Exit(1)
		}
	}
	for _, n := range c.notes {
		fmt.Println("extract: note:", n)
	}
	os.WriteFile(stamp, []byte(hash), 0o644)
	fmt.Println("extract: regenerated")
}

#!/bin/bash
# run every stored seeded change against its property's check (quick tier); one line each
cd "$(dirname "$0")/.."
for d in seeded/*/; do
  n=$(basename $d); id=${n%-*}; v=${n#*-}
  tools/seed_run.sh $id $v ${1:-quick} 2>&1 | tail -1
done

#!/bin/bash
# confirm a sub-agent's seeded change in ITS worktree: patch applies, suite passes, demo passes before / fails after
# usage: seed_confirm.sh C01 a
id=$1; v=$2
base=${SEEDBASE:-/tmp/seed}; wt=$base/$id; out=$base/${id}_out
export GOFLAGS=-mod=mod GOPROXY=off GOSUMDB=off GOTOOLCHAIN=local
cd $wt || exit 2
git checkout -q -- . ; git clean -fdq
U=$(echo $v | tr a-z A-Z)
cp $out/demo_${v}_test.go $wt/zz_demo_${v}_test.go
before=$(go test -vet=off -count=1 -run "TestSeedDemo$U\$" . 2>&1 | tail -1)
if ! git apply $out/patch_$v.diff 2>$base/apply_err; then echo "$id $v: PATCH DOES NOT APPLY: $(cat $base/apply_err | head -2)"; rm -f $wt/zz_demo_${v}_test.go; exit 1; fi
after=$(go test -vet=off -count=1 -run "TestSeedDemo$U\$" . 2>&1 | tail -1)
rm -f $wt/zz_demo_${v}_test.go
suite=$(go test -vet=off -count=1 ./... 2>&1 | tail -1)
git checkout -q -- . ; git clean -fdq
echo "$id $v: before=[$before] after=[$after] suite=[$suite]"

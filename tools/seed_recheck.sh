#!/bin/bash
# re-confirm a STORED seeded change against /repo's current HEAD in a scratch worktree:
# does the patch still apply, and does its demonstration still pass before / fail after?
# usage: seed_recheck.sh C08-b
n=$1; d=/verif/seeded/$n
export GOFLAGS=-mod=mod GOPROXY=off GOSUMDB=off GOTOOLCHAIN=local
wt=/tmp/seedrecheck
git -C /repo worktree remove --force $wt 2>/dev/null; git -C /repo worktree prune
git -C /repo worktree add -q --detach $wt HEAD || exit 2
cd $wt
cp $d/demo_test.go.txt zz_demo_test.go
before=$(go test -vet=off -count=1 -run 'TestSeedDemo' . 2>&1 | tail -1)
if ! git apply $d/patch.diff 2>/tmp/seedrecheck_err; then echo "$n: PATCH DOES NOT APPLY: $(head -2 /tmp/seedrecheck_err)"; else
after=$(go test -vet=off -count=1 -run 'TestSeedDemo' . 2>&1 | tail -1)
echo "$n: before=[$before] after=[$after]"; fi
cd /; git -C /repo worktree remove --force $wt; git -C /repo worktree prune; rm -f /tmp/seedrecheck_err

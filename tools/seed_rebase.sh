#!/bin/bash
# try to rebase a stale stored patch onto /repo's HEAD with a 3-way apply in a scratch worktree;
# on success (no conflicts, demo passes before / fails after, suite passes) replace the stored patch
# usage: seed_rebase.sh C03-j
n=$1; d=/verif/seeded/$n
export GOFLAGS=-mod=mod GOPROXY=off GOSUMDB=off GOTOOLCHAIN=local
wt=/tmp/seedrebase
git -C /repo worktree remove --force $wt 2>/dev/null; git -C /repo worktree prune
git -C /repo worktree add -q --detach $wt HEAD || exit 2
cd $wt
cp $d/demo_test.go.txt zz_demo_test.go
before=$(go test -vet=off -count=1 -run 'TestSeedDemo' . 2>&1 | tail -1)
rm zz_demo_test.go
git apply --3way $d/patch.diff >/tmp/seedrebase_out 2>&1
if [ -n "$(git diff --name-only --diff-filter=U)" ]; then echo "$n: CONFLICT in $(git diff --name-only --diff-filter=U | tr '\n' ' ')"; cd /; git -C /repo worktree remove --force $wt; exit 1; fi
git diff HEAD > /tmp/seedrebase.diff
if ! go build ./... 2>/tmp/seedrebase_build; then echo "$n: does not build after rebase: $(head -3 /tmp/seedrebase_build)"; cd /; git -C /repo worktree remove --force $wt; exit 1; fi
cp $d/demo_test.go.txt zz_demo_test.go
after=$(go test -vet=off -count=1 -run 'TestSeedDemo' . 2>&1 | tail -1)
rm zz_demo_test.go
suite=$(go test -vet=off -count=1 ./... 2>&1 | tail -1)
echo "$n: before=[$before] after=[$after] suite=[$suite]"
case "$before|$after|$suite" in ok*"|FAIL|ok"*) cp /tmp/seedrebase.diff $d/patch.diff; python3 - "$n" <<'P'
import json,sys
p=f'/verif/seeded/{sys.argv[1]}/meta.json'; m=json.load(open(p)); m['rebased']=(m.get('rebased','')+'; ' if m.get('rebased') else '')+'patch rebased (3-way) onto the fixes after round 5: same change'; json.dump(m,open(p,'w'),indent=1)
P
echo "$n: rebased";; *) echo "$n: NOT rebased";; esac
cd /; git -C /repo worktree remove --force $wt; git -C /repo worktree prune

package main

import (
	"fmt"
	pongo2 "github.com/flosch/pongo2/v6"
	"sort"
	"strings"
)

func init() { suites["c09-ctl"] = suiteC09 }

// ---- generated control-flow trees and their reference interpretation ----

type cv struct { // a reference value: int | str | list | map (string keys)
	k    string
	i    int64
	s    string
	xs   []cv
	keys []string
}

func (v cv) str() string {
	switch v.k {
	case "int":
		return fmt.Sprint(v.i)
	case "str":
		return v.s
	case "bool":
		if v.i != 0 {
			return "True"
		}
		return "False"
	case "nil":
		return ""
	}
	return "?"
}

func (v cv) truthy() bool {
	switch v.k {
	case "int", "bool":
		return v.i != 0
	case "str":
		return v.s != ""
	case "list", "map":
		return len(v.xs) > 0
	}
	return false
}

func (v cv) vt() VT {
	switch v.k {
	case "int":
		return vInt(v.i)
	case "bool":
		return vBool(v.i != 0)
	case "str":
		return vStr(v.s)
	case "nil":
		return vNil()
	case "list":
		elem := "any"
		allInt, allStr := len(v.xs) > 0, len(v.xs) > 0
		for _, x := range v.xs {
			if x.k != "int" {
				allInt = false
			}
			if x.k != "str" {
				allStr = false
			}
		}
		if allInt {
			elem = "int"
		} else if allStr {
			elem = "string"
		}
		items := make([]VT, len(v.xs))
		for i, x := range v.xs {
			items[i] = x.vt()
		}
		return vList(elem, items...)
	case "map":
		items := make([]VT, len(v.xs))
		for i, x := range v.xs {
			items[i] = x.vt()
		}
		return vSMap(v.keys, items)
	}
	return vNil()
}

func cvEq(a, b cv) bool {
	if a.k == "int" && b.k == "int" {
		return a.i == b.i
	}
	if a.k != b.k {
		return false
	}
	switch a.k {
	case "str":
		return a.s == b.s
	case "bool":
		return a.i == b.i
	}
	return false
}

type cnode struct {
	k        string // text out if ifequal ifnotequal firstof for cycle ifchanged
	s        string
	e        string   // expression source (a name or forloop path)
	es       []string // several expressions
	bodies   [][]cnode
	els      []cnode
	hasElse  bool
	loopVar  string
	valVar   string
	reversed bool
	sorted   bool
	id       int
}

type cenv struct {
	vars map[string]cv
	loop *cloop
}

type cloop struct {
	i, n   int
	parent *cloop
}

func (e *cenv) eval(src string) cv {
	if strings.HasPrefix(src, "forloop.") {
		l := e.loop
		path := strings.Split(src, ".")[1:]
		for len(path) > 1 && path[0] == "Parentloop" {
			if l == nil {
				return cv{k: "nil"}
			}
			l = l.parent
			path = path[1:]
		}
		if l == nil {
			return cv{k: "nil"}
		}
		switch path[0] {
		case "Counter":
			return cv{k: "int", i: int64(l.i + 1)}
		case "Counter0":
			return cv{k: "int", i: int64(l.i)}
		case "Revcounter":
			return cv{k: "int", i: int64(l.n - l.i)}
		case "Revcounter0":
			return cv{k: "int", i: int64(l.n - l.i - 1)}
		case "First":
			return cv{k: "bool", i: b2i(l.i == 0)}
		case "Last":
			return cv{k: "bool", i: b2i(l.i+1 == l.n)}
		}
		return cv{k: "nil"}
	}
	if len(src) > 0 && src[0] >= '0' && src[0] <= '9' {
		var n int64
		fmt.Sscan(src, &n)
		return cv{k: "int", i: n}
	}
	if strings.HasPrefix(src, `"`) {
		return cv{k: "str", s: strings.Trim(src, `"`)}
	}
	if v, ok := e.vars[src]; ok {
		return v
	}
	return cv{k: "nil"}
}

func b2i(b bool) int64 {
	if b {
		return 1
	}
	return 0
}

type cstate struct {
	cycles  map[int]int
	changed map[int][]cv
	chText  map[int]*string
}

func itemsOf(v cv, reversed, sorted_ bool) (keys []cv, vals []cv) {
	switch v.k {
	case "list":
		xs := append([]cv{}, v.xs...)
		if sorted_ {
			sort.SliceStable(xs, func(i, j int) bool {
				if xs[i].k == "int" && xs[j].k == "int" {
					return xs[i].i < xs[j].i
				}
				return xs[i].str() < xs[j].str()
			})
			if reversed {
				for i, j := 0, len(xs)-1; i < j; i, j = i+1, j-1 {
					xs[i], xs[j] = xs[j], xs[i]
				}
			}
		} else if reversed {
			for i, j := 0, len(xs)-1; i < j; i, j = i+1, j-1 {
				xs[i], xs[j] = xs[j], xs[i]
			}
		}
		return xs, nil
	case "str":
		rs := []rune(v.s)
		if sorted_ {
			sort.SliceStable(rs, func(i, j int) bool { return rs[i] < rs[j] })
		}
		if reversed {
			for i, j := 0, len(rs)-1; i < j; i, j = i+1, j-1 {
				rs[i], rs[j] = rs[j], rs[i]
			}
		}
		for _, r := range rs {
			keys = append(keys, cv{k: "str", s: string(r)})
		}
		return keys, nil
	case "map":
		idx := make([]int, len(v.keys))
		for i := range idx {
			idx[i] = i
		}
		sort.Slice(idx, func(a, b int) bool { return v.keys[idx[a]] < v.keys[idx[b]] })
		if reversed {
			for i, j := 0, len(idx)-1; i < j; i, j = i+1, j-1 {
				idx[i], idx[j] = idx[j], idx[i]
			}
		}
		for _, i := range idx {
			keys = append(keys, cv{k: "str", s: v.keys[i]})
			vals = append(vals, v.xs[i])
		}
		return keys, vals
	}
	return nil, nil
}

// refExec: the reference interpreter of a generated tree (for is a map over
// the ordered items, forloop a function of (i, n, parent)).
func refExec(ns []cnode, e *cenv, st *cstate, sb *strings.Builder) {
	for _, n := range ns {
		switch n.k {
		case "text":
			sb.WriteString(n.s)
		case "out":
			sb.WriteString(e.eval(n.e).str())
		case "if":
			done := false
			for i, c := range n.es {
				if e.eval(c).truthy() {
					refExec(n.bodies[i], e, st, sb)
					done = true
					break
				}
			}
			if !done && n.hasElse {
				refExec(n.els, e, st, sb)
			}
		case "ifequal", "ifnotequal":
			eq := cvEq(e.eval(n.es[0]), e.eval(n.es[1]))
			if eq == (n.k == "ifequal") {
				refExec(n.bodies[0], e, st, sb)
			} else if n.hasElse {
				refExec(n.els, e, st, sb)
			}
		case "firstof":
			for _, a := range n.es {
				if v := e.eval(a); v.truthy() {
					sb.WriteString(v.str())
					break
				}
			}
		case "for":
			keys, vals := itemsOf(e.eval(n.e), n.reversed, n.sorted)
			if len(keys) == 0 {
				if n.hasElse {
					refExec(n.els, e, st, sb)
				}
				continue
			}
			saved := map[string]cv{}
			for k, v := range e.vars {
				saved[k] = v
			}
			inner := &cenv{vars: saved, loop: e.loop}
			for i, kv := range keys {
				inner.vars[n.loopVar] = kv
				if vals != nil && n.valVar != "" {
					inner.vars[n.valVar] = vals[i]
				}
				inner.loop = &cloop{i: i, n: len(keys), parent: e.loop}
				refExec(n.bodies[0], inner, st, sb)
			}
		case "cycle":
			j := st.cycles[n.id]
			st.cycles[n.id] = j + 1
			sb.WriteString(e.eval(n.es[j%len(n.es)]).str())
		case "ifchanged":
			if len(n.es) == 0 {
				var tmp strings.Builder
				refExec(n.bodies[0], e, st, &tmp)
				last := st.chText[n.id]
				if (last == nil && tmp.Len() > 0) || (last != nil && *last != tmp.String()) {
					sb.WriteString(tmp.String())
					s := tmp.String()
					st.chText[n.id] = &s
				}
				continue
			}
			var now []cv
			for _, a := range n.es {
				now = append(now, e.eval(a))
			}
			last, had := st.changed[n.id]
			ch := !had
			for i := range last {
				if !cvEq(last[i], now[i]) {
					ch = true
				}
			}
			st.changed[n.id] = now
			if ch {
				refExec(n.bodies[0], e, st, sb)
			} else if n.hasElse {
				refExec(n.els, e, st, sb)
			}
		}
	}
}

type c09gen struct {
	r      *RNG
	nextID int
	loops  int
	vars   []string
}

var c09Seqs = []string{"l0", "l1", "l3", "ls", "s0", "su", "m1", "mm", "nn", "l6", "lb"}
var c09Scalars = []string{"a", "b", "z", "e", "t", "f"}

func c09Ctx(r *RNG) map[string]cv {
	ints := func(n int) cv {
		xs := make([]cv, n)
		for i := range xs {
			xs[i] = cv{k: "int", i: int64(r.Intn(5))}
		}
		return cv{k: "list", xs: xs}
	}
	return map[string]cv{
		"l0": ints(0), "l1": ints(1), "l3": ints(3), "l6": ints(4 + r.Intn(3)),
		"ls": {k: "list", xs: []cv{{k: "str", s: "b"}, {k: "str", s: "a"}, {k: "str", s: "c"}, {k: "str", s: "a"}}},
		"s0": {k: "str", s: ""}, "su": {k: "str", s: "zä日a"},
		"m1": {k: "map", keys: []string{"k"}, xs: []cv{{k: "int", i: 7}}},
		"mm": {k: "map", keys: []string{"b", "a", "c"}, xs: []cv{{k: "int", i: 1}, {k: "str", s: "x"}, {k: "int", i: 3}}},
		"nn": {k: "nil"},
		// integers that only differ beyond the precision of a float64
		"lb": {k: "list", xs: []cv{{k: "int", i: 1<<60 + 2}, {k: "int", i: 1 << 60}, {k: "int", i: 1<<60 + 1}, {k: "int", i: -(1 << 60)}, {k: "int", i: 1<<60 + 3}}},
		"a":  {k: "int", i: int64(r.Intn(3))}, "b": {k: "int", i: int64(r.Intn(3))}, "z": {k: "int", i: 0},
		"e": {k: "str", s: ""}, "t": {k: "bool", i: 1}, "f": {k: "bool", i: 0},
	}
}

func (g *c09gen) atom() string {
	r := g.r
	pool := append(append([]string{}, c09Scalars...), g.vars...)
	if g.loops > 0 {
		pool = append(pool, "forloop.Counter", "forloop.Counter0", "forloop.Revcounter", "forloop.Revcounter0", "forloop.First", "forloop.Last")
		if g.loops > 1 {
			pool = append(pool, "forloop.Parentloop.Counter", "forloop.Parentloop.Last", "forloop.Parentloop.Revcounter0")
		}
	}
	if r.Chance(1, 6) {
		return r.Pick([]string{"0", "1", "2", `"x"`, `""`})
	}
	return r.Pick(pool)
}

func (g *c09gen) nodes(d int) []cnode {
	n := 1 + g.r.Intn(3)
	var out []cnode
	for i := 0; i < n; i++ {
		out = append(out, g.node(d))
	}
	return out
}

func (g *c09gen) node(d int) cnode {
	r := g.r
	if d <= 0 {
		if r.Bool() {
			return cnode{k: "text", s: r.Pick([]string{"-", ".", "x", " "})}
		}
		return cnode{k: "out", e: g.atom()}
	}
	switch r.Intn(10) {
	case 0:
		return cnode{k: "text", s: r.Pick([]string{"-", ".", "x", "|"})}
	case 1:
		return cnode{k: "out", e: g.atom()}
	case 2:
		nb := 1 + r.Intn(3)
		c := cnode{k: "if"}
		for i := 0; i < nb; i++ {
			c.es = append(c.es, g.atom())
			c.bodies = append(c.bodies, g.nodes(d-1))
		}
		if r.Bool() {
			c.hasElse = true
			c.els = g.nodes(d - 1)
		}
		return c
	case 3:
		c := cnode{k: r.Pick([]string{"ifequal", "ifnotequal"}), es: []string{g.atom(), g.atom()}, bodies: [][]cnode{g.nodes(d - 1)}}
		if r.Bool() {
			c.hasElse = true
			c.els = g.nodes(d - 1)
		}
		return c
	case 4:
		n := 1 + r.Intn(3)
		c := cnode{k: "firstof"}
		for i := 0; i < n; i++ {
			c.es = append(c.es, g.atom())
		}
		return c
	case 5:
		if g.loops == 0 {
			return cnode{k: "out", e: g.atom()}
		}
		n := 1 + r.Intn(3)
		c := cnode{k: "cycle", id: g.nextID}
		g.nextID++
		for i := 0; i < n; i++ {
			c.es = append(c.es, g.atom())
		}
		return c
	case 6:
		if g.loops == 0 {
			return cnode{k: "out", e: g.atom()}
		}
		c := cnode{k: "ifchanged", id: g.nextID}
		g.nextID++
		if r.Bool() {
			c.es = []string{g.atom()}
			if r.Bool() {
				c.es = append(c.es, g.atom())
			}
		}
		c.bodies = [][]cnode{g.nodes(d - 1)}
		if len(c.es) > 0 && r.Bool() {
			c.hasElse = true
			c.els = g.nodes(d - 1)
		}
		return c
	default:
		c := cnode{k: "for", e: r.Pick(c09Seqs), loopVar: r.Pick([]string{"v", "w", "q"}), reversed: r.Chance(1, 3), sorted: r.Chance(1, 3)}
		if c.e == "mm" || c.e == "m1" {
			c.sorted = c.sorted || c.e == "mm"
			if r.Bool() {
				c.valVar = "val"
			}
		}
		g.loops++
		g.vars = append(g.vars, c.loopVar)
		if c.valVar != "" {
			g.vars = append(g.vars, c.valVar)
		}
		c.bodies = [][]cnode{g.nodes(d - 1)}
		g.vars = g.vars[:len(g.vars)-1]
		if c.valVar != "" {
			g.vars = g.vars[:len(g.vars)-1]
		}
		g.loops--
		if r.Chance(1, 3) {
			c.hasElse = true
			c.els = g.nodes(d - 1)
		}
		return c
	}
}

func c09Src(ns []cnode) string {
	var sb strings.Builder
	for _, n := range ns {
		switch n.k {
		case "text":
			sb.WriteString(n.s)
		case "out":
			sb.WriteString("{{ " + n.e + " }}")
		case "if":
			for i, c := range n.es {
				if i == 0 {
					sb.WriteString("{% if " + c + " %}")
				} else {
					sb.WriteString("{% elif " + c + " %}")
				}
				sb.WriteString(c09Src(n.bodies[i]))
			}
			if n.hasElse {
				sb.WriteString("{% else %}" + c09Src(n.els))
			}
			sb.WriteString("{% endif %}")
		case "ifequal", "ifnotequal":
			sb.WriteString("{% " + n.k + " " + n.es[0] + " " + n.es[1] + " %}" + c09Src(n.bodies[0]))
			if n.hasElse {
				sb.WriteString("{% else %}" + c09Src(n.els))
			}
			sb.WriteString("{% end" + n.k + " %}")
		case "firstof":
			sb.WriteString("{% firstof " + strings.Join(n.es, " ") + " %}")
		case "cycle":
			sb.WriteString("{% cycle " + strings.Join(n.es, " ") + " %}")
		case "ifchanged":
			sb.WriteString("{% ifchanged " + strings.Join(n.es, " ") + " %}" + c09Src(n.bodies[0]))
			if n.hasElse {
				sb.WriteString("{% else %}" + c09Src(n.els))
			}
			sb.WriteString("{% endifchanged %}")
		case "for":
			h := "{% for " + n.loopVar
			if n.valVar != "" {
				h += ", " + n.valVar
			}
			h += " in " + n.e
			if n.reversed {
				h += " reversed"
			}
			if n.sorted {
				h += " sorted"
			}
			sb.WriteString(h + " %}" + c09Src(n.bodies[0]))
			if n.hasElse {
				sb.WriteString("{% empty %}" + c09Src(n.els))
			}
			sb.WriteString("{% endfor %}")
		}
	}
	return sb.String()
}

// c09Fixed: loops whose source is written in the template (list literals), and a loop body that
// includes another template (the loop's bindings are a context like any other)
func c09Fixed(cfg Config, res *Result) {
	files := map[string]string{"row.tpl": "[{{ k }}{{ forloop.Counter }}]",
		"lbase.tpl": "{% for j in l %}{% block row %}-{% endblock %}{% endfor %}|{% block solo %}{% endblock %}",
		"inner.tpl": "{% for y in l %}{{ forloop.Parentloop.Counter }}{{ y }}{% endfor %}",
		"lib.tpl":   "{% macro lm(xs) export %}{% for y in xs %}{% if forloop.Parentloop %}P{% else %}-{% endif %}{{ y }}{{ forloop.Counter }}{% endfor %}{% endmacro %}"}
	const mm = "{% macro mm(xs) %}{% for y in xs %}{% if forloop.Parentloop %}P{{ forloop.Parentloop.Counter }}{% else %}-{% endif %}{{ y }}{% endfor %}{% endmacro %}"
	const rec = "{% macro rec(n) %}{% for y in l %}{% if forloop.Parentloop %}P{% endif %}{{ y }}{% if n %}{{ rec(0) }}{% endif %}{% endfor %}{% endmacro %}"
	for _, c := range []struct{ src, want string }{
		{"{% for x in [10, 9, 2] sorted %}{{ x }} {% endfor %}", "2 9 10 "},
		{"{% for x in [10, 9, 2] reversed sorted %}{{ x }} {% endfor %}", "10 9 2 "},
		{"{% for x in [10, 9, 2] reversed %}{{ x }}{{ forloop.Counter }} {% endfor %}", "21 92 103 "},
		{`{% for x in ["b", "a", "c"] sorted %}{{ x }}{% endfor %}`, "abc"},
		{"{% for x in [2.5, 1.5, 10.0] sorted %}{{ x }} {% endfor %}", "1.500000 2.500000 10.000000 "},
		{"{% set ll = [3, 20, 100] %}{% for x in ll reversed sorted %}{{ x }},{% endfor %}", "100,20,3,"},
		{`{% for k in m sorted %}{% include "row.tpl" %}{% endfor %}`, "[a1][b2]"},
		{`{% for k, v in m sorted %}{% include "row.tpl" %}{{ v }}{% endfor %}`, "[a1]1[b2]2"},
		{`{% for k in m sorted %}{% for j in l %}{% include "row.tpl" %}{% endfor %}{% endfor %}`, "[a1][a2][b1][b2]"},
		// a macro's context is its own: a loop in its body is an outermost loop wherever the macro is called from
		{mm + "{{ mm(l) }}|{% for j in l %}{{ mm(l) }};{% endfor %}", "-7-8|-7-8;-7-8;"},
		{mm + "{% for j in l %}{% for i in l %}{{ mm(l) }}{{ forloop.Parentloop.Counter }};{% endfor %}{% endfor %}", "-7-81;-7-81;-7-82;-7-82;"},
		{mm + "{% for j in l %}{{ forloop.Counter }}{{ mm(l) }}{{ forloop.Counter }}{% if forloop.Parentloop %}P{% endif %};{% endfor %}", "1-7-81;2-7-82;"},
		{rec + "{% for j in l %}{{ rec(1) }};{% endfor %}", "778878;778878;"},
		{`{% import "lib.tpl" lm %}{% for j in l %}{{ lm(l) }};{% endfor %}`, "-71-82;-71-82;"},
		// ifchanged over several watched expressions: every one of them is remembered at every step
		{"{% for r in rows1 %}{% ifchanged r.0 r.1 %}[{{ r.0 }}{{ r.1 }}]{% endifchanged %}{% endfor %}", "[ann1][bob2]"},
		{"{% for r in rows2 %}{% ifchanged r.0 r.1 %}[{{ r.0 }}{{ r.1 }}]{% endifchanged %}{% endfor %}", "[ann1][bob2][bob1]"},
		{"{% for r in rows3 %}{% ifchanged r.0 r.1 r.2 %}[{{ r.0 }}{{ r.1 }}{{ r.2 }}]{% else %}={% endifchanged %}{% endfor %}", "[a1x][b2y]=[b2x][a2x]="},
		// ifequal / ifnotequal are complementary, also when there is nothing on either side
		{"{% ifequal nosuch nothing %}E{% else %}e{% endifequal %}{% ifnotequal nosuch nothing %}N{% else %}n{% endifnotequal %}", "eN"},
		{"{% ifequal nl nosuch %}E{% endifequal %}{% ifnotequal nl nosuch %}N{% endifnotequal %}|{% ifequal nl nl %}E{% endifequal %}{% ifnotequal nl nl %}N{% endifnotequal %}", "N|N"},
		{"{% for v in anys %}{% ifequal v nosuch %}E{% endifequal %}{% ifnotequal v nosuch %}N{% endifnotequal %}{% endfor %}", "NNN"},
		{"{% ifequal 1 1 %}E{% endifequal %}{% ifnotequal 1 1 %}N{% endifnotequal %}{% ifequal \"\" nosuch %}E{% endifequal %}{% ifnotequal \"\" nosuch %}N{% endifnotequal %}", "EN"},
		// truthiness of floats: only zero is false
		{"{% for f in floats %}{% if f %}T{% else %}F{% endif %}{% endfor %}", "TTFTTTT"},
		{"{% if 0 %}A{% elif half %}B{% else %}C{% endif %}|{% firstof 0 half 7 %}|{% firstof 0.0 \"\" tiny %}", "B|0.500000|0.001000"},
		{"{% if not half %}n{% else %}y{% endif %}{% if half and tiny %}y{% endif %}{% if 0.0 or tiny %}y{% endif %}", "yyy"},
		// a loop written in a block of a child template runs inside the base template's loop: nesting is decided at execution
		{`{% extends "lbase.tpl" %}{% block row %}{% for x in l %}{{ forloop.Parentloop.Counter }}.{{ forloop.Counter }}/{{ forloop.Parentloop.Revcounter0 }}{% if forloop.Parentloop.Last %}L{% endif %} {% endfor %}{% endblock %}`, "1.1/1 1.2/1 2.1/0L 2.2/0L |"},
		{`{% extends "lbase.tpl" %}{% block solo %}{% for x in l %}{% if forloop.Parentloop %}P{% else %}-{% endif %}{% endfor %}{% endblock %}`, "--|--"},
		// loop variables may bear any name, a lone underscore included
		{"{% for _ in l %}*{% endfor %}|{% for _item in l reversed %}{{ _item }}{% endfor %}|{% for _k, v in m sorted %}{{ _k }}={{ v }};{% endfor %}", "**|87|a=1;b=2;"},
		// firstof picks the first true argument with autoescaping off as well
		{"{% autoescape off %}{% firstof 0 half 7 %}|{% firstof nosuch \"\" 0 %}|{% firstof 0 \"\" \"x\" %}|{% firstof nl 0.0 tiny half %}{% endautoescape %}", "0.500000||x|0.001000"},
		{"{% autoescape off %}{% for x in dup %}{% firstof 0 x %}{% endfor %}{% endautoescape %}", "11222"},
		// ifchanged: the else branch without watched expressions; a watched value that stays nothing
		{"{% for x in dup %}{% ifchanged %}{{ x }}{% else %}={% endifchanged %}{% endfor %}", "1=2=="},
		{"{% for x in dup %}{% ifchanged nosuch %}C{% else %}S{% endifchanged %}{% endfor %}", "CSSSS"},
		{"{% for x in anys %}{% ifchanged x %}C{% else %}S{% endifchanged %}{% endfor %}", "CSC"},
		// sorted over unsigned values beyond the range of int
		{"{% for x in us sorted %}{{ x }} {% endfor %}|{% for x in us reversed sorted %}{{ x }} {% endfor %}", "1 5 9223372036854775808 18446744073709551615 |18446744073709551615 9223372036854775808 5 1 "},
		// (whether a loop of an included template counts the including loop as its parent is not fixed by the property: not checked)
		{`{% include "inner.tpl" %}|{% for j in l %}{% endfor %}{% include "inner.tpl" %}`, "78|78"},
	} {
		res.Cases++
		pc := ProgCase{Src: c.src, Loaders: []map[string]string{files}}
		set, _ := pc.buildSet()
		tpl, err := set.FromString(c.src)
		got := execRes{}
		if err != nil {
			got.err = err.Error()
		} else {
			got = execOnce(tpl, pongo2.Context{"m": map[string]int{"a": 1, "b": 2}, "l": []int{7, 8},
				"nl": nil, "anys": []any{nil, nil, 1}, "floats": []float64{2.5, 0.5, 0, -0.25, 1, 0.001, -3}, "half": 0.5, "tiny": 0.001,
				"dup": []int{1, 1, 2, 2, 2}, "us": []uint64{1 << 63, 1, 18446744073709551615, 5},
				"rows1": [][]any{{"ann", 1}, {"bob", 2}, {"bob", 2}}, "rows2": [][]any{{"ann", 1}, {"bob", 2}, {"bob", 1}},
				"rows3": [][]any{{"a", 1, "x"}, {"b", 2, "y"}, {"b", 2, "y"}, {"b", 2, "x"}, {"a", 2, "x"}, {"a", 2, "x"}}})
		}
		if got.err != "" || got.pan != "" || got.out != c.want {
			res.add(Finding{Kind: "oracle", Proj: "reference", Sig: "c09-fixed", Case: c.src, Impl: got.String(), Model: "ok " + hxb(c.want)})
		}
	}
}

func suiteC09(cfg Config, res *Result) {
	defer c09Fixed(cfg, res)
	defer c09Complement(res)
	defer recursiveMacroNodes(res, "reference", "c09-recursive-ifchanged", "ifchanged")
	defer c09Debug(res)
	res.Rule = "generated nestings (depth <= 4) of if/elif/else, ifequal, ifnotequal, firstof, for (+empty, reversed, sorted, key/value over maps), cycle and ifchanged over lists of length 0..6, strings incl. multi-byte, maps (single key, or sorted), nil; every forloop field incl. Parentloop at every depth can be printed; each rendered with a freshly compiled template and compared with a reference interpreter of the generated tree (for = map over the ordered items, forloop = function of (i, n, parent)) and with the Lean model; non-trivial = tree containing a for; distinct by (tree, context)"
	n := 5000
	if cfg.Thorough() {
		n = 100000
	}
	rng := NewRNG(cfg.Seed)
	var cases []ProgCase
	wants := map[string]string{}
	for i := 0; i < n; i++ {
		g := &c09gen{r: rng.Fork()}
		tree := g.nodes(1 + rng.Intn(4))
		vars := c09Ctx(rng)
		src := c09Src(tree)
		var names []string
		for k := range vars {
			names = append(names, k)
		}
		sort.Strings(names)
		ct := CtxTerm{}
		for _, k := range names {
			ct.Names = append(ct.Names, k)
			ct.Vals = append(ct.Vals, vars[k].vt())
		}
		var sb strings.Builder
		refExec(tree, &cenv{vars: vars}, &cstate{cycles: map[int]int{}, changed: map[int][]cv{}, chText: map[int]*string{}}, &sb)
		pc := ProgCase{Src: src, Ctx: &ct, Label: "c09"}
		cases = append(cases, pc)
		wants[pc.Key()] = sb.String()
	}
	runProgCases(cfg, res, cases, "c09", func(c ProgCase, o ImplOutcome) bool { return strings.Contains(c.Src, "{% for") },
		func(c ProgCase, o ImplOutcome) *Finding {
			want := wants[c.Key()]
			if o.Class != "ok" || o.Out != want {
				return &Finding{Kind: "oracle", Proj: "reference", Sig: "c09-reference", Case: c.String(), Impl: o.Canon() + " " + o.Msg, Model: "reference interpreter: ok " + hxb(want)}
			}
			return nil
		})
}

package main

import (
	"fmt"
	"strings"

	pongo2 "github.com/flosch/pongo2/v6"
)

func init() { suites["c06-render"] = suiteC06Render }

// noOpenBytes returns a random byte string without "{{", "{%", "{#".
func noOpenBytes(rng *RNG, n int) string {
	pool := []byte{'{', '}', '%', '#', '-', ' ', '\n', '\r', '\t', '"', '\'', '\\', 'a', 'Z', '1', '|', 0x00, 0x01, 0x02, 0x7f, 0x80, 0xc3, 0xa9, 0xff, 0xe2, 0x82, 0xac, '<', '>', '&'}
	b := make([]byte, 0, n)
	for len(b) < n {
		c := pool[rng.Intn(len(pool))]
		if rng.Chance(1, 8) {
			c = byte(rng.Intn(256))
		}
		if len(b) > 0 && b[len(b)-1] == '{' && (c == '{' || c == '%' || c == '#') {
			continue
		}
		b = append(b, c)
	}
	return string(b)
}

type frag struct {
	src  string
	kind string
}

// verbatimBody: any bytes, including delimiters, but not the end marker.
func verbatimBody(rng *RNG) string {
	atoms := []string{"", "a", "{{ x }}", "{% if %}", "{#", "#}", "{% verbatim %}", "\n", " ", "{", "}", "%}", "{% endverbatim", "endverbatim %}", "é", "\xff", "\x01", "{{", "\"", "{% endverbatimx %}"}
	n := rng.Intn(5)
	var sb strings.Builder
	for i := 0; i < n; i++ {
		sb.WriteString(rng.Pick(atoms))
	}
	s := sb.String()
	if strings.Contains(s, "{% endverbatim %}") {
		return "x"
	}
	return s
}

func genFrag(rng *RNG) frag {
	switch rng.Intn(9) {
	case 0, 1:
		s := noOpenBytes(rng, rng.Intn(12))
		for strings.HasSuffix(s, "{") {
			s = s[:len(s)-1]
		}
		return frag{s, "text"}
	case 2, 3:
		return frag{"{% verbatim %}" + verbatimBody(rng) + "{% endverbatim %}", "verbatim"}
	case 4:
		body := noOpenBytes(rng, rng.Intn(8))
		body = strings.NewReplacer("\n", " ", "#}", "# }", "\x01", "?").Replace(body)
		for strings.HasSuffix(body, "#") {
			body = body[:len(body)-1]
		}
		return frag{"{#" + body + "#}", "linecomment"}
	case 5:
		bodies := []string{"", "x", "{{ x ? 1 : 2 }}", "{% if a $ b %}", "{{ a ~ b }}", "{{ é }}", "{% for ; %}", "{{ { }}", "{{ 1/0 }}", "{% nosuchtag %}", "{{ undefined|nosuchfilter }}", "{% if %}", "{{ a.b.c( }}", "{% endif %}", "{% include \"nonexistent\" %}", "{{ boom() }}"}
		return frag{"{% comment %}" + rng.Pick(bodies) + "{% endcomment %}", "commenttag"}
	case 6:
		vs := []string{"{{ 1 }}", "{{ \"x\" }}", "{{ v }}", "{{ 7 + 1 }}", "{{ true }}", "{{ s|upper }}"}
		if rng.Chance(1, 3) {
			// a '-' marker: it trims the text it touches — the sequence generator puts these only
			// where they touch no text, so that they must not change anything
			return frag{rng.Pick([]string{"{{ v -}}", "{{- v }}", "{{- v -}}", "{%- if 1 -%}a{%- endif -%}"}), "dashvar"}
		}
		return frag{rng.Pick(vs), "var"}
	case 7:
		ts := []string{"{% if 1 %}a{% endif %}", "{% if 0 %}a{% else %}b{% endif %}", "{% for i in l %}{{ i }}{% endfor %}", "{% with q=1 %}{{ q }}{% endwith %}", "{% firstof 0 \"z\" %}", "{% spaceless %}<a> <b>{% endspaceless %}"}
		return frag{rng.Pick(ts), "tag"}
	default:
		names := []string{"openblock", "closeblock", "openvariable", "closevariable", "openbrace", "closebrace", "opencomment", "closecomment"}
		return frag{"{% templatetag " + rng.Pick(names) + " %}", "templatetag"}
	}
}

var c06ctx = pongo2.Context{"v": "val", "s": "str", "l": []int{1, 2, 3}, "boom": func() string { panic("evaluated") }}

var templateTagExpect = map[string]string{"openblock": "{%", "closeblock": "%}", "openvariable": "{{", "closevariable": "}}",
	"openbrace": "{", "closebrace": "}", "opencomment": "{#", "closecomment": "#}"}

func suiteC06Render(cfg Config, res *Result) {
	defer c06BOM(res)
	defer c06CommentForms(res)
	defer optionSteps(res, "render", "c06-options-after-compile")
	defer c06Loaders(res)
	defer bytesBelongToCaller(res, "render", "c06-bytes-owner")
	defer c14NestedWriters(res)
	res.Rule = "direct oracles on the implementation: (a) random delimiter-free byte strings up to 4 KiB render to themselves; (b) verbatim blocks with arbitrary bodies (incl. empty, delimiters, invalid UTF-8) render the body; (c) {# #} and comment tags render nothing and never evaluate their content; (d) sequences of independent fragments render to the concatenation of their own renderings; (e) templatetag emits the named delimiter; (f) FromBytes (the caller's buffer overwritten after compilation), FromFile, FromCache, ExecuteWriter and an include of the source (both after a rendering that failed half-way) give what FromString + Execute give. Non-trivial = source with a non-ASCII/control byte or >= 2 fragments; distinct by source"
	rng := NewRNG(cfg.Seed)
	nText, nSeq := 4000, 6000
	if cfg.Thorough() {
		nText, nSeq = 60000, 120000
	}
	seen := map[string]bool{}
	count := func(src string, nontrivial bool) bool {
		res.Cases++
		if seen[src] {
			return false
		}
		seen[src] = true
		if nontrivial {
			res.DistinctNontrivial++
		}
		return true
	}
	// (a) text identity
	for i := 0; i < nText; i++ {
		n := rng.Intn(40)
		if rng.Chance(1, 20) {
			n = rng.Intn(4096)
		}
		src := noOpenBytes(rng, n)
		if cfg.Replay != "" {
			src = unhx(cfg.Replay)
		}
		nt := false
		for j := 0; j < len(src); j++ {
			if src[j] >= 0x80 || src[j] < 0x20 {
				nt = true
			}
		}
		if !count(src, nt) {
			continue
		}
		res.hist("text")
		r := implRender(src, nil)
		if r.Panicked || r.Err != "" || r.Out != src {
			sig := "text-identity"
			if strings.Contains(src, "\x01") && !r.Panicked && r.Err == "" && strings.HasPrefix(src, r.Out) {
				sig = "text-truncated-at-0x01"
			}
			res.add(Finding{Kind: "oracle", Proj: "render", Sig: sig, Case: hx(src), Impl: r.String(), Model: "ok " + hx(src)})
		}
		if cfg.Replay != "" {
			fmt.Println(r.String())
			return
		}
	}
	// (e) templatetag
	for k, v := range templateTagExpect {
		src := "{% templatetag " + k + " %}"
		count(src, true)
		r := implRender(src, nil)
		if r.Out != v || r.Err != "" || r.Panicked {
			res.add(Finding{Kind: "oracle", Proj: "render", Sig: "templatetag", Case: hx(src), Impl: r.String(), Model: "ok " + hx(v)})
		}
	}
	// (g) literal text between two trimming delimiters: only the engine's blanks (space, tab, CR, LF)
	// go, and only at the two ends; every other byte of the text — form feeds, no-break spaces, wide
	// spaces — is reproduced
	for i := 0; i < 600; i++ {
		ws := func() string {
			var sb strings.Builder
			for k := rng.Intn(4); k > 0; k-- {
				sb.WriteString(rng.Pick([]string{" ", "\n", "\t", "\r", "\f", "\v", "\u00a0", "\u2003", "\u0085", "\u3000", "\u200b", "\ufeff"}))
			}
			return sb.String()
		}
		inner := ws() + rng.Pick([]string{"", "x", "a b", "é", "<p>"}) + ws()
		ls := [][2]string{{"{{ v -}}", "val"}, {"{% if v -%}", ""}, {"{{ v }}", "val"}}
		rs := [][2]string{{"{{- v }}", "val"}, {"{%- if v %}{% endif %}", ""}, {"{{ v }}", "val"}}
		l, r := ls[rng.Intn(len(ls))], rs[rng.Intn(len(rs))]
		src := l[0] + inner + r[0]
		if l[0] == "{% if v -%}" {
			src += "{% endif %}"
		}
		if !count(src, true) {
			continue
		}
		res.hist("between-dashes")
		want := inner
		if strings.Contains(l[0], "-}}") || strings.Contains(l[0], "-%}") {
			want = strings.TrimLeft(want, " \t\r\n")
		}
		if strings.HasPrefix(r[0], "{{-") || strings.HasPrefix(r[0], "{%-") {
			want = strings.TrimRight(want, " \t\r\n")
		}
		want = l[1] + want + r[1]
		got := implRender(src, c06ctx)
		if got.Panicked || got.Err != "" || got.Out != want {
			res.add(Finding{Kind: "oracle", Proj: "render", Sig: "text-between-trimming-delimiters", Case: hx(src), Impl: got.String(), Model: "ok " + hx(want)})
		}
	}
	// (b)(c)(d) fragments
	for i := 0; i < nSeq; i++ {
		n := 1 + rng.Intn(5)
		frs := make([]frag, n)
		var sb strings.Builder
		kinds := ""
		for j := range frs {
			frs[j] = genFrag(rng)
			// a fragment carrying a '-' marker may not touch literal text (it would rightly trim it);
			// {# #} comments leave no token, so what lies before one still touches what follows
			prev := ""
			for k := j - 1; k >= 0; k-- {
				if frs[k].kind != "linecomment" {
					prev = frs[k].kind
					break
				}
			}
			isLit := func(k string) bool { return k == "text" || k == "verbatim" }
			for (frs[j].kind == "dashvar" && isLit(prev)) || (prev == "dashvar" && isLit(frs[j].kind)) {
				frs[j] = genFrag(rng)
			}
			sb.WriteString(frs[j].src)
			kinds += frs[j].kind[:1]
		}
		src := sb.String()
		if !count(src, n >= 2) {
			continue
		}
		res.hist("frags=" + fmt.Sprint(n))
		if i < 3 {
			res.sample(fmt.Sprintf("%q", src))
		}
		whole := implRender(src, c06ctx)
		// (f) every way of handing the source to the set gives the same template
		if !whole.Panicked {
			how := []string{"bytes", "file", "cache", "writer", "include"}[i%5]
			via := implRenderVia(how, src, c06ctx)
			if via.Panicked || via.Err != whole.Err || via.Out != whole.Out {
				res.add(Finding{Kind: "oracle", Proj: "render", Sig: "entry-point-" + how, Case: hx(src), Impl: via.String(), Model: whole.String()})
			}
		}
		var want strings.Builder
		bad := false
		for _, f := range frs {
			r := implRender(f.src, c06ctx)
			exp := ""
			okSingle := true
			switch f.kind {
			case "text":
				exp = f.src
			case "verbatim":
				exp = strings.TrimSuffix(strings.TrimPrefix(f.src, "{% verbatim %}"), "{% endverbatim %}")
			case "linecomment", "commenttag":
				exp = ""
			default:
				okSingle = false
			}
			if okSingle && (r.Panicked || r.Err != "" || r.Out != exp) {
				sig := f.kind + "-literal"
				if f.kind == "verbatim" && exp == "" {
					sig = "verbatim-empty"
				}
				res.add(Finding{Kind: "oracle", Proj: "render", Sig: sig, Case: hx(f.src), Impl: r.String(), Model: "ok " + hx(exp)})
				bad = true
				break
			}
			if r.Panicked || r.Err != "" {
				bad = true // a failing single fragment: concat not comparable
				break
			}
			want.WriteString(r.Out)
		}
		if bad {
			continue
		}
		if whole.Panicked || whole.Err != "" || whole.Out != want.String() {
			sig := "frag-concat"
			if strings.Contains(kinds, "vv") {
				sig = "verbatim-adjacent"
			}
			res.add(Finding{Kind: "oracle", Proj: "render", Sig: sig, Case: hx(src), Impl: whole.String(), Model: "ok " + hx(want.String())})
		}
	}
}

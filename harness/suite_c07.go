package main

import (
	"fmt"
	pongo2 "github.com/flosch/pongo2/v6"
	"math"
	"strings"
	"time"
)

func init() { suites["c07-expr"] = suiteC07 }

// ---- expression trees of the uncontroversial fragment (property C07) ----

type xt struct {
	op   string // "" = leaf
	l, r *xt
	leaf xv
	name string // variable name, if the leaf is a variable
}

type xv struct {
	k string // int float str bool
	i int64
	f float64
	s string
	b bool
}

func (v xv) String() string {
	switch v.k {
	case "int":
		return fmt.Sprint(v.i)
	case "float":
		return fmt.Sprintf("%f", v.f)
	case "str":
		return v.s
	case "bool":
		if v.b {
			return "True"
		}
		return "False"
	}
	return "?"
}

func (v xv) truthy() bool {
	switch v.k {
	case "int":
		return v.i != 0
	case "float":
		return v.f != 0
	case "str":
		return v.s != ""
	case "bool":
		return v.b
	}
	return false
}

func (v xv) num() bool { return v.k == "int" || v.k == "float" }

func (v xv) fl() float64 {
	if v.k == "int" {
		return float64(v.i)
	}
	return v.f
}

var errType = fmt.Errorf("outside the fragment")
var errZero = fmt.Errorf("zero divisor")

// denote: the independent evaluator, written from the property's wording.
// errType means the tree is outside the uncontroversial fragment.
func denote(t *xt) (xv, error) {
	if t.op == "" {
		return t.leaf, nil
	}
	if t.op == "and" || t.op == "or" {
		a, err := denote(t.l)
		if err != nil {
			return xv{}, err
		}
		if t.op == "and" && !a.truthy() {
			return xv{k: "bool", b: false}, nil
		}
		if t.op == "or" && a.truthy() {
			return xv{k: "bool", b: true}, nil
		}
		b, err := denote(t.r)
		if err != nil {
			return xv{}, err
		}
		return xv{k: "bool", b: b.truthy()}, nil
	}
	if t.op == "not" {
		a, err := denote(t.l)
		if err != nil {
			return xv{}, err
		}
		switch a.k {
		case "bool":
			return xv{k: "bool", b: !a.b}, nil
		case "int": // C-like: !n is 0 or 1
			if a.i != 0 {
				return xv{k: "int", i: 0}, nil
			}
			return xv{k: "int", i: 1}, nil
		case "str":
			return xv{k: "bool", b: a.s == ""}, nil
		}
		return xv{}, errType
	}
	if t.op == "neg" {
		a, err := denote(t.l)
		if err != nil {
			return xv{}, err
		}
		switch a.k {
		case "int":
			return xv{k: "int", i: -a.i}, nil
		case "float":
			return xv{k: "float", f: -1 * a.f}, nil
		}
		return xv{}, errType
	}
	a, err := denote(t.l)
	if err != nil {
		return xv{}, err
	}
	b, err := denote(t.r)
	if err != nil {
		return xv{}, err
	}
	switch t.op {
	case "+":
		if a.k == "str" || b.k == "str" {
			if a.k == "bool" || b.k == "bool" {
				return xv{}, errType
			}
			return xv{k: "str", s: a.String() + b.String()}, nil
		}
		if !a.num() || !b.num() {
			return xv{}, errType
		}
		if a.k == "float" || b.k == "float" {
			return xv{k: "float", f: a.fl() + b.fl()}, nil
		}
		return xv{k: "int", i: a.i + b.i}, nil
	case "-", "*", "/":
		if !a.num() || !b.num() {
			return xv{}, errType
		}
		if a.k == "float" || b.k == "float" {
			switch t.op {
			case "-":
				return xv{k: "float", f: a.fl() - b.fl()}, nil
			case "*":
				return xv{k: "float", f: a.fl() * b.fl()}, nil
			}
			if b.fl() == 0 {
				return xv{}, errZero
			}
			return xv{k: "float", f: a.fl() / b.fl()}, nil
		}
		switch t.op {
		case "-":
			return xv{k: "int", i: a.i - b.i}, nil
		case "*":
			return xv{k: "int", i: a.i * b.i}, nil
		}
		if b.i == 0 {
			return xv{}, errZero
		}
		return xv{k: "int", i: a.i / b.i}, nil
	case "%":
		if a.k != "int" || b.k != "int" {
			return xv{}, errType
		}
		if b.i == 0 {
			return xv{}, errZero
		}
		return xv{k: "int", i: a.i % b.i}, nil
	case "^":
		if !a.num() || !b.num() {
			return xv{}, errType
		}
		r := math.Pow(a.fl(), b.fl())
		if r != math.Trunc(r) || math.Abs(r) > 1e15 {
			return xv{}, errType // compared only where exact
		}
		return xv{k: "float", f: r}, nil
	case "<", "<=", ">", ">=":
		if !a.num() || !b.num() {
			return xv{}, errType
		}
		var r bool
		if a.k == "float" || b.k == "float" {
			x, y := a.fl(), b.fl()
			r = map[string]bool{"<": x < y, "<=": x <= y, ">": x > y, ">=": x >= y}[t.op]
		} else {
			r = map[string]bool{"<": a.i < b.i, "<=": a.i <= b.i, ">": a.i > b.i, ">=": a.i >= b.i}[t.op]
		}
		return xv{k: "bool", b: r}, nil
	case "==", "!=":
		if a.k != b.k {
			return xv{}, errType
		}
		eq := a == b
		return xv{k: "bool", b: eq == (t.op == "==")}, nil
	case "in":
		if a.k != "str" || b.k != "str" {
			return xv{}, errType
		}
		return xv{k: "bool", b: strings.Contains(b.s, a.s)}, nil
	}
	return xv{}, errType
}

// precedence levels: 1 and/or, 2 comparisons/in, 3 + -, 4 * / %, 5 unary, 6 ^, 7 atoms
func prec(op string) int {
	switch op {
	case "and", "or":
		return 1
	case "<", "<=", ">", ">=", "==", "!=", "in":
		return 2
	case "+", "-":
		return 3
	case "*", "/", "%":
		return 4
	case "not", "neg":
		return 5
	case "^":
		return 6
	}
	return 7
}

type printer struct {
	r *RNG
}

func (p *printer) sp() string {
	if p.r == nil {
		return " "
	}
	return p.r.Pick([]string{" ", "", "  ", " "})
}

func (p *printer) opText(op string) string {
	if p.r == nil {
		return op
	}
	switch op {
	case "and":
		return p.r.Pick([]string{"and", "&&"})
	case "or":
		return p.r.Pick([]string{"or", "||"})
	case "!=":
		return p.r.Pick([]string{"!=", "<>"})
	case "not":
		return p.r.Pick([]string{"not ", "!"})
	}
	return op
}

func lit(v xv) string {
	switch v.k {
	case "int":
		return fmt.Sprint(v.i)
	case "float":
		s := fmt.Sprintf("%g", v.f)
		if !strings.Contains(s, ".") {
			s += ".0"
		}
		return s
	case "str":
		return `"` + v.s + `"`
	case "bool":
		if v.b {
			return "true"
		}
		return "false"
	}
	return "?"
}

// print with the minimal parentheses for the documented precedence and
// associativity; ctx = precedence the context requires, right = right operand
// of a left-associative operator.
func (p *printer) print(t *xt, need int) string {
	if t.op == "" {
		if t.name != "" {
			return t.name
		}
		s := lit(t.leaf)
		if strings.HasPrefix(s, "-") {
			return "(" + s + ")"
		}
		return s
	}
	var s string
	me := prec(t.op)
	switch t.op {
	case "not", "neg":
		// unary applies to a power-level operand; it is only legal at the start
		// of a simple expression, so as an operand it is always parenthesised
		o := p.opText(t.op)
		if t.op == "neg" {
			o = "-"
		}
		s = o + p.print(t.l, 6)
		if need > 3 {
			return "(" + s + ")"
		}
		return s
	case "^":
		s = p.print(t.l, 7) + p.sp() + "^" + p.sp() + p.print(t.r, 6)
	case "and", "or":
		// mixed and/or without parentheses is outside the fragment: parenthesise operands of the same level
		s = p.print(t.l, 2) + " " + p.opText(t.op) + " " + p.print(t.r, 2)
	case "<", "<=", ">", ">=", "==", "!=", "in":
		o := p.opText(t.op)
		sp := p.sp()
		if o == "in" {
			sp = " "
		}
		s = p.print(t.l, 3) + sp + o + sp + p.print(t.r, 3)
	default: // left-associative + - * / %
		s = p.print(t.l, me) + p.sp() + t.op + p.sp() + p.print(t.r, me+1)
	}
	if me < need {
		return "(" + s + ")"
	}
	return s
}

var c07Leaves = []xt{
	{leaf: xv{k: "int", i: 0}}, {leaf: xv{k: "int", i: 1}}, {leaf: xv{k: "int", i: 2}}, {leaf: xv{k: "int", i: 7}}, {leaf: xv{k: "int", i: -3}},
	{leaf: xv{k: "float", f: 2.5}}, {leaf: xv{k: "str", s: "a"}}, {leaf: xv{k: "str", s: ""}}, {leaf: xv{k: "bool", b: true}}, {leaf: xv{k: "bool", b: false}},
	{leaf: xv{k: "int", i: 5}, name: "x"}, {leaf: xv{k: "float", f: 1.5}, name: "y"}, {leaf: xv{k: "str", s: "ab"}, name: "s"},
}

var c07Ops = []string{"+", "-", "*", "/", "%", "^", "<", "<=", ">", ">=", "==", "!=", "in", "and", "or"}

func c07Ctx() CtxTerm {
	return CtxTerm{Names: []string{"x", "y", "s"}, Vals: []VT{vInt(5), vFloat(1.5), vStr("ab")}}
}

func genTree(r *RNG, d int) *xt {
	if d == 0 || r.Chance(1, 4) {
		l := c07Leaves[r.Intn(len(c07Leaves))]
		return &l
	}
	if r.Chance(1, 7) {
		op := "not"
		if r.Bool() {
			op = "neg"
		}
		return &xt{op: op, l: genTree(r, d-1)}
	}
	return &xt{op: c07Ops[r.Intn(len(c07Ops))], l: genTree(r, d-1), r: genTree(r, d-1)}
}

func leafOf(r *RNG, kinds ...string) *xt {
	for {
		l := c07Leaves[r.Intn(len(c07Leaves))]
		for _, k := range kinds {
			if l.leaf.k == k {
				return &l
			}
		}
	}
}

// genTyped generates a tree that is mostly inside the fragment: want is one of
// "int" "num" "str" "bool" "any".
func genTyped(r *RNG, d int, want string) *xt {
	if d == 0 || r.Chance(1, 5) {
		switch want {
		case "int":
			return leafOf(r, "int")
		case "num":
			return leafOf(r, "int", "float")
		case "str":
			return leafOf(r, "str")
		case "bool":
			return leafOf(r, "bool")
		}
		return leafOf(r, "int", "float", "str", "bool")
	}
	switch want {
	case "int":
		switch r.Intn(6) {
		case 0:
			return &xt{op: "neg", l: genTyped(r, d-1, "int")}
		case 1:
			return &xt{op: "%", l: genTyped(r, d-1, "int"), r: genTyped(r, d-1, "int")}
		case 2:
			return &xt{op: "not", l: genTyped(r, d-1, "int")}
		}
		return &xt{op: r.Pick([]string{"+", "-", "*", "/"}), l: genTyped(r, d-1, "int"), r: genTyped(r, d-1, "int")}
	case "num":
		if r.Chance(1, 8) {
			return &xt{op: "^", l: leafOf(r, "int"), r: leafOf(r, "int")}
		}
		if r.Chance(1, 8) {
			return &xt{op: "neg", l: genTyped(r, d-1, "num")}
		}
		return &xt{op: r.Pick([]string{"+", "-", "*", "/"}), l: genTyped(r, d-1, "num"), r: genTyped(r, d-1, "num")}
	case "str":
		if r.Bool() {
			return &xt{op: "+", l: genTyped(r, d-1, "str"), r: genTyped(r, d-1, r.Pick([]string{"str", "num"}))}
		}
		return &xt{op: "+", l: genTyped(r, d-1, "num"), r: genTyped(r, d-1, "str")}
	case "bool":
		switch r.Intn(6) {
		case 0:
			return &xt{op: r.Pick([]string{"<", "<=", ">", ">="}), l: genTyped(r, d-1, "num"), r: genTyped(r, d-1, "num")}
		case 1:
			k := r.Pick([]string{"int", "str", "bool"})
			return &xt{op: r.Pick([]string{"==", "!="}), l: genTyped(r, d-1, k), r: genTyped(r, d-1, k)}
		case 2:
			return &xt{op: "in", l: genTyped(r, d-1, "str"), r: genTyped(r, d-1, "str")}
		case 3:
			return &xt{op: "not", l: genTyped(r, d-1, r.Pick([]string{"bool", "str"}))}
		}
		return &xt{op: r.Pick([]string{"and", "or"}), l: genTyped(r, d-1, "any"), r: genTyped(r, d-1, "any")}
	}
	return genTyped(r, d, r.Pick([]string{"int", "num", "str", "bool", "bool"}))
}

func countOps(t *xt) int {
	if t == nil || t.op == "" {
		return 0
	}
	return 1 + countOps(t.l) + countOps(t.r)
}

// c07Membership: `in` over list literals and over lists from the context: an element of the same
// kind is found exactly when it is there (the elements of a list literal are values, not boxes)
func c07Membership(cfg Config, res *Result) {
	type lit struct{ src, key string }
	ints := []lit{{"1", "i1"}, {"2", "i2"}, {"7", "i7"}, {"x", "i3"}} // x = 3 in the context
	strs := []lit{{`"a"`, "sa"}, {`"b"`, "sb"}, {`""`, "s"}, {"s", "shello"}}
	var cases []ProgCase
	wants := map[string]string{}
	smN := vSMap([]string{"a", "hello"}, []VT{vInt(1), vInt(2)})
	smN.Rep = 1 // map[NStr]any
	im64 := vIMap([]int64{1, 3}, []VT{vStr("one"), vStr("three")})
	im64.Rep = 1 // map[int64]any
	imU8 := vIMap([]int64{1, 3}, []VT{vStr("one"), vStr("three")})
	imU8.Rep = 2 // map[uint8]any
	ct := CtxTerm{Names: []string{"x", "s", "li", "ls", "sm", "smn", "im", "im64", "imu8", "u", "neg", "ps"},
		Vals: []VT{vInt(3), vStr("hello"), vList("int", vInt(1), vInt(3)), vList("string", vStr("a"), vStr("hello")),
			vSMap([]string{"a", "hello"}, []VT{vInt(1), vInt(2)}), smN, vIMap([]int64{1, 3}, []VT{vStr("one"), vStr("three")}), im64, imU8, vUint(3), vInt(-253), vPtr(vStr("a"))}}
	add := func(src string, want bool) {
		w := "False"
		if want {
			w = "True"
		}
		c := ct
		pc := ProgCase{Src: "{{ " + src + " }}{% if " + src + " %}y{% else %}n{% endif %}", Ctx: &c, Label: "membership"}
		cases = append(cases, pc)
		wants[pc.Key()] = w + map[bool]string{true: "y", false: "n"}[want]
	}
	for _, pool := range [][]lit{ints, strs} {
		for _, item := range pool {
			for mask := 0; mask < 1<<len(pool); mask++ {
				var elems []string
				has := false
				for j, e := range pool {
					if mask&(1<<j) != 0 {
						elems = append(elems, e.src)
						if e.key == item.key {
							has = true
						}
					}
				}
				if len(elems) == 0 {
					continue
				}
				add(item.src+" in ["+strings.Join(elems, ", ")+"]", has)
				add("not ("+item.src+" in ["+strings.Join(elems, ", ")+"])", !has)
			}
		}
	}
	for _, c := range []struct {
		src  string
		want bool
	}{{"\"a\" in sm", true}, {"s in sm", true}, {"\"b\" in sm", false}, {"\"a\" in smn", true}, {"s in smn", true}, {"\"b\" in smn", false}, {"ps in sm", true}, {"ps in smn", true},
		{"1 in im", true}, {"x in im", true}, {"2 in im", false}, {"u in im", true}, {"1 in im64", true}, {"x in im64", true}, {"u in im64", true}, {"2 in im64", false},
		{"1 in imu8", true}, {"x in imu8", true}, {"u in imu8", true}, {"neg in imu8", false}, {"259 in imu8", false}, {"\"1\" in im", false}, {"1 in sm", false},
		{"1 in li", true}, {"x in li", true}, {"2 in li", false}, {`"a" in ls`, true}, {"s in ls", true}, {`"b" in ls`, false}, {"x in [li.0, li.1]", true}, {"2 in [li.0, li.1]", false}} {
		add(c.src, c.want)
	}
	runProgCases(cfg, res, cases, "c07m", func(c ProgCase, o ImplOutcome) bool { return true },
		func(c ProgCase, o ImplOutcome) *Finding {
			want := wants[c.Key()]
			if o.Class != "ok" || o.Out != want {
				return &Finding{Kind: "oracle", Proj: "semantics", Sig: "c07-membership", Case: c.String(), Impl: o.Canon() + " " + o.Msg, Model: "ok " + hxb(want)}
			}
			return nil
		})
}

type c07Level int

func (l c07Level) String() string { return [...]string{"debug", "info", "warn", "error"}[int(l)%4] }

type c07Celsius float64

func (c c07Celsius) String() string { return fmt.Sprintf("%.1f C", float64(c)) }

// c07NamedNumbers: a named integer / float type with a String method (an enum, a duration) is an
// integer / a float in arithmetic and comparisons, whatever it prints as
func c07NamedNumbers(cfg Config, res *Result) {
	lvl, timeout, temp := c07Level(2), 10*time.Nanosecond, c07Celsius(21.0)
	ctx := pongo2.Context{"lvl": lvl, "plvl": &lvl, "timeout": timeout, "temp": temp}
	for _, c := range []struct{ src, want string }{
		{"{{ lvl + 1 }}", "3"}, {"{{ 1 + lvl }}", "3"}, {"{{ lvl - 1 }}", "1"}, {"{{ lvl * 2 + 1 }}", "5"}, {"{{ plvl + 1 }}", "3"},
		{"{{ timeout + 5 }}", "15"}, {"{{ timeout * 2 }}", "20"}, {"{{ temp + 0.5 }}", "21.500000"}, {"{{ temp * 2 }}", "42.000000"},
		{"{% if lvl + 1 == 3 %}y{% else %}n{% endif %}", "y"}, {"{% if lvl > 1 and timeout < 11 %}y{% else %}n{% endif %}", "y"}, {"{{ lvl % 2 }}", "0"},
	} {
		res.Cases++
		r := implRender(c.src, ctx)
		if r.Panicked || r.Err != "" || r.Out != c.want {
			res.add(Finding{Kind: "oracle", Proj: "semantics", Sig: "c07-named-number", Case: c.src + " with lvl=c07Level(2), timeout=10ns, temp=c07Celsius(21)", Impl: r.String(), Model: "ok " + hx(c.want)})
		}
	}
}

// c07Edges: divisors that are zero only as integers, powers beyond the range of int, and operator
// expressions as items of a list literal
func c07Edges(cfg Config, res *Result) {
	ct := CtxTerm{Names: []string{"n", "q", "h", "x"}, Vals: []VT{vInt(7), vFloat(0.25), vFloat(0.5), vInt(3)}}
	var cases []ProgCase
	wants := map[string]string{}
	add := func(src, want string) {
		c := ct
		pc := ProgCase{Src: src, Ctx: &c, Label: "edges"}
		cases = append(cases, pc)
		wants[pc.Key()] = want
	}
	ok := func(s string) string { return "ok " + hxb(s) }
	for _, d := range []string{"0.5", "0.25", "q", "h", "(1 / 2.0)", "0.999", "(0 - 0.5)"} {
		add("{{ 7 % "+d+" }}", "err exec") // integer modulo: the divisor truncates to 0
		add("{{ n % "+d+" }}", "err exec")
		add("{% if 7 % "+d+" %}y{% endif %}", "err exec")
	}
	add("{{ 7 / 0.5 }}", ok("14.000000"))
	add("{{ 7 / q }}", ok("28.000000"))
	add("{{ 7 % 2.5 }}", ok("1"))
	add("{{ 7 / 0 }}", "err exec")
	add("{{ 7 / 0.0 }}", "err exec")
	add("{{ 7 % 0 }}", "err exec")
	for _, c := range [][3]string{{"2", "62", ""}, {"2", "63", ""}, {"2", "64", ""}, {"10", "18", ""}, {"10", "19", ""}, {"10", "20", ""}, {"7", "30", ""}, {"3", "40", ""}, {"x", "41", ""}, {"(3*7)", "(3*7)", ""}} {
		var b, e float64
		fmt.Sscan(strings.Trim(strings.ReplaceAll(strings.ReplaceAll(c[0], "x", "3"), "3*7", "21"), "()"), &b)
		fmt.Sscan(strings.Trim(strings.ReplaceAll(c[1], "3*7", "21"), "()"), &e)
		add("{{ "+c[0]+" ^ "+c[1]+" }}", ok(fmt.Sprintf("%f", math.Pow(b, e))))
	}
	add("{% if 10 ^ 19 > 10 ^ 18 %}y{% else %}n{% endif %}", ok("y"))
	add("{% if 2 ^ 64 %}y{% else %}n{% endif %}", ok("y"))
	add("{{ 2 in [1+1] }}", ok("True"))
	add("{{ 2 in [1, 1+1] }}", ok("True"))
	add("{{ 3 in [1+1] }}", ok("False"))
	add(`{{ [1+1, -2, x*2]|join:"," }}`, ok("2,-2,6"))
	add("{{ true in [1 < 2] }}", ok("True"))
	add("{% for v in [x+1, x-1] %}{{ v }};{% endfor %}", ok("4;2;"))
	runProgCases(cfg, res, cases, "c07e", func(c ProgCase, o ImplOutcome) bool { return true },
		func(c ProgCase, o ImplOutcome) *Finding {
			want := wants[c.Key()]
			if o.Canon() != want {
				return &Finding{Kind: "oracle", Proj: "semantics", Sig: "c07-edge", Case: c.String(), Impl: o.Canon() + " " + o.Msg, Model: want}
			}
			return nil
		})
}

func suiteC07(cfg Config, res *Result) {
	defer c07Debug(res)
	defer bytesBelongToCaller(res, "semantics", "c07-bytes-owner")
	defer globalsSnapshot(res, "semantics", "c07-globals-snapshot")
	defer evalTrace(res, "semantics", "c07-evaluation-order")
	defer c07ZeroDivisors(res)
	defer routesAgree(res, "semantics", "c07-routes", []string{
		"{{ 7 - 2 * 3 }}|{% if 1 < 2 && a %}T{% else %}F{% endif %}|{{ 2 ^ 3 ^ 2 }}|{{ 9 / 2.0 }}|{{ \"a\" + 1 }}",
		"{{ 7 + 2 * 3 }}|{% if 1 > 2 || b %}T{% else %}F{% endif %}|{{ 2 * 3 * 2 }}|{{ 9 % 2.0 }}|{{ \"b\" + 1 }}",
		"{{ -2 ^ 2 }}{{ not a or b }}{{ 1 in [1, 2] }}{{ \"x\" in \"xyz\" }}", "{{ 1 / 1 }}", "{{ 1 / 0 }}", "{{ 10 % 0 }}", "{{ (1 + 2) * 3 - 4 / 2 }}"},
		pongo2.Context{"a": true, "b": false})
	defer c07Edges(cfg, res)
	defer c07Membership(cfg, res)
	defer c07NamedNumbers(cfg, res)
	res.Rule = "expression trees over the leaves {0,1,2,7,-3,2.5,\"a\",\"\",true,false,x:int,y:float,s:string} and 15 binary + 2 unary operators: all trees of depth <= 2 (exhaustive), every ordered pair of binary operators in both groupings over numeric leaf triples, plus random trees up to depth 5 (quick) / 8 (thorough); each tree inside the uncontroversial fragment (decided by the independent evaluator) is printed with minimal parentheses, random spacing and operator spellings, rendered through {{ e }} and {% if e %}, and compared with the independent evaluator and with the Lean model; non-trivial = >= 2 operators; distinct by printed source"
	rng := NewRNG(cfg.Seed)
	var trees []*xt
	// exhaustive depth <= 2
	var d1 []*xt
	for i := range c07Leaves {
		d1 = append(d1, &c07Leaves[i])
	}
	var d2 []*xt
	for _, op := range c07Ops {
		for _, a := range d1 {
			for _, b := range d1 {
				d2 = append(d2, &xt{op: op, l: a, r: b})
			}
		}
	}
	for _, a := range d1 {
		d2 = append(d2, &xt{op: "not", l: a}, &xt{op: "neg", l: a})
	}
	trees = append(trees, d1...)
	trees = append(trees, d2...)
	// every ordered pair of binary operators in both groupings over a few numeric leaf triples:
	// precedence and associativity of each pair are exercised on every run
	var nums []*xt
	for i := range c07Leaves {
		if l := c07Leaves[i]; l.name == "" && ((l.leaf.k == "int" && (l.leaf.i == 1 || l.leaf.i == 2 || l.leaf.i == 7)) || l.leaf.k == "float") {
			nums = append(nums, &c07Leaves[i])
		}
	}
	if len(nums) >= 3 {
		// nums = [1, 2, 7, 2.5]; (2, 7, 2) separates the two groupings of every operator incl. ^ (2^49 vs 16384)
		triples := [][3]*xt{{nums[0], nums[1], nums[2]}, {nums[1], nums[2], nums[1]}, {nums[2], nums[1], nums[0]}, {nums[len(nums)-1], nums[0], nums[1]}, {nums[2], nums[2], nums[1]}}
		for _, o1 := range c07Ops {
			for _, o2 := range c07Ops {
				for _, t := range triples {
					trees = append(trees, &xt{op: o2, l: &xt{op: o1, l: t[0], r: t[1]}, r: t[2]})
					trees = append(trees, &xt{op: o1, l: t[0], r: &xt{op: o2, l: t[1], r: t[2]}})
				}
			}
		}
	}
	// depth 3 sample: op over (depth-2, depth-2)
	n3 := 20000
	nr := 10000
	maxd := 5
	if cfg.Thorough() {
		n3, nr, maxd = 400000, 200000, 8
	}
	for i := 0; i < n3; i++ {
		a := d2[rng.Intn(len(d2))]
		b := d2[rng.Intn(len(d2))]
		if rng.Chance(1, 3) {
			b = d1[rng.Intn(len(d1))]
		}
		trees = append(trees, &xt{op: c07Ops[rng.Intn(len(c07Ops))], l: a, r: b})
	}
	for i := 0; i < nr; i++ {
		if i%4 == 0 {
			trees = append(trees, genTree(rng, 2+rng.Intn(maxd-1)))
		} else {
			trees = append(trees, genTyped(rng, 2+rng.Intn(maxd-1), "any"))
		}
	}
	ctx := c07Ctx()
	var cases []ProgCase
	var wants []string
	seen := map[string]bool{}
	outside := 0
	for _, t := range trees {
		v, err := denote(t)
		if err == errType {
			outside++
			continue
		}
		p := &printer{r: rng}
		src := p.print(t, 0)
		if seen[src] {
			continue
		}
		seen[src] = true
		want := ""
		if err == errZero {
			want = "err exec"
		} else {
			tf := "F"
			if v.truthy() {
				tf = "T"
			}
			// {{ e }} escapes strings; the alphabet has no special characters
			want = "ok " + hxb(v.String()+"|"+tf)
		}
		full := "{{ " + src + " }}|{% if " + src + " %}T{% else %}F{% endif %}"
		c := ctx
		lbl := "ops=" + fmt.Sprint(min(countOps(t), 4))
		cases = append(cases, ProgCase{Src: full, Ctx: &c, Label: lbl})
		wants = append(wants, want)
		if len(cases)%9 == 0 && countOps(t) >= 1 {
			// the operands reach an included template as with-pairs, or as variables a tag bound in the includer
			c2 := ctx
			entry := rng.Pick([]string{`{% include "e.tpl" with x=x y=y s=s %}`, `{% set x = x %}{% with y=y %}{% for s in [s] %}{% include "e.tpl" %}{% endfor %}{% endwith %}`,
				`{% include "e.tpl" with x=x y=y s=s only %}`, `{% macro mm(x, y, s) %}{% include "e.tpl" %}{% endmacro %}{{ mm(x, y, s) }}`})
			if !strings.Contains(entry, "macro") || want != "err exec" { // an error inside a macro call is reported alike
				cases = append(cases, ProgCase{Src: entry, Ctx: &c2, Label: lbl, Loaders: []map[string]string{{"e.tpl": full}}})
				wants = append(wants, want)
			}
		}
	}
	// an expression is evaluated anew at every execution: one compiled template, three contexts in turn
	{
		var rebind func(t *xt, vals map[string]xv) *xt
		rebind = func(t *xt, vals map[string]xv) *xt {
			if t == nil {
				return nil
			}
			c := *t
			if t.op == "" {
				if v, ok := vals[t.name]; ok && t.name != "" {
					c.leaf = v
				}
				return &c
			}
			c.l, c.r = rebind(t.l, vals), rebind(t.r, vals)
			return &c
		}
		hasVar := func(t *xt) bool { return false }
		var hv func(t *xt) bool
		hv = func(t *xt) bool {
			if t == nil {
				return false
			}
			if t.op == "" {
				return t.name != ""
			}
			return hv(t.l) || hv(t.r)
		}
		hasVar = hv
		envs := []map[string]xv{
			{"x": {k: "int", i: 5}, "y": {k: "float", f: 1.5}, "s": {k: "str", s: "ab"}},
			{"x": {k: "int", i: 0}, "y": {k: "float", f: -2.0}, "s": {k: "str", s: ""}},
			{"x": {k: "int", i: 2}, "y": {k: "float", f: 0.0}, "s": {k: "str", s: "a"}},
		}
		ctxOf := func(e map[string]xv) pongo2.Context {
			return pongo2.Context{"x": int(e["x"].i), "y": e["y"].f, "s": e["s"].s}
		}
		step := 7
		if cfg.Thorough() {
			step = 2
		}
		cnt := 0
		for ti, t := range trees {
			if ti%step != 0 || !hasVar(t) {
				continue
			}
			if _, err := denote(t); err == errType {
				continue
			}
			src := (&printer{r: rng}).print(t, 0)
			set := pongo2.NewSet("c07h", &memLoader{files: map[string]string{}})
			tpl, err := set.FromString("{{ " + src + " }}|{% if " + src + " %}T{% else %}F{% endif %}")
			if err != nil {
				continue
			}
			cnt++
			for _, ei := range []int{0, 1, 2, 0, 1} {
				t2 := rebind(t, envs[ei])
				v, derr := denote(t2)
				if derr == errType {
					continue // this binding takes the tree outside the fragment
				}
				got := execOnce(tpl, ctxOf(envs[ei]))
				want := ""
				if derr == errZero {
					want = "err"
				} else {
					tf := "F"
					if v.truthy() {
						tf = "T"
					}
					want = "ok " + hxb(v.String()+"|"+tf)
				}
				g := got.String()
				if strings.HasPrefix(g, "err ") {
					g = "err"
				}
				if g != want {
					res.add(Finding{Kind: "oracle", Proj: "semantics", Sig: "c07-reevaluation", Case: fmt.Sprintf("src=%q executed with x,y,s = %v after other bindings", src, envs[ei]), Impl: got.String(), Model: "independent evaluator: " + want})
					break
				}
			}
		}
		res.hist(fmt.Sprintf("re-evaluated=%d", cnt))
	}
	res.hist(fmt.Sprintf("outside-fragment=%d", outside))
	idx := map[string]int{}
	for i, c := range cases {
		idx[c.Key()] = i
	}
	runProgCases(cfg, res, cases, "c07", func(c ProgCase, o ImplOutcome) bool {
		return strings.Count(c.Label, "ops=0") == 0 && strings.Count(c.Label, "ops=1") == 0
	}, func(c ProgCase, o ImplOutcome) *Finding {
		want := wants[idx[c.Key()]]
		got := o.Canon()
		if got != want {
			return &Finding{Kind: "oracle", Proj: "semantics", Sig: "c07-semantics", Case: c.String(), Impl: got + " " + o.Msg, Model: "independent evaluator: " + want}
		}
		return nil
	})
}

package main

import (
	"bytes"
	"errors"
	"fmt"
	"strings"
	"time"

	pongo2 "github.com/flosch/pongo2/v6"
)

func init() { suites["c14-fail"] = suiteC14 }

// recWriter records what it receives and starts failing after `budget` calls.
type recWriter struct {
	budget int
	calls  int
	buf    bytes.Buffer
}

var errWriter = errors.New("writer failed")

func (w *recWriter) Write(p []byte) (int, error) {
	w.calls++
	if w.budget >= 0 && w.calls > w.budget {
		return 0, errWriter
	}
	return w.buf.Write(p)
}

// recStringWriter is a recWriter that also offers WriteString (like *bytes.Buffer, *bufio.Writer,
// strings.Builder, http response writers): an implementation may be tempted to treat it specially.
type recStringWriter struct{ recWriter }

func (w *recStringWriter) WriteString(s string) (int, error) { return w.Write([]byte(s)) }

func errClass(err error) string {
	if err == nil {
		return ""
	}
	if pe, ok := err.(*pongo2.Error); ok {
		return pe.Sender
	}
	return "other"
}

var c14Focus = []string{
	"{% for q in ll %}{% spaceless %}{% ifchanged %}<b>{{ sint }}</b> {% endifchanged %}<i>{{ q }}</i> {% endspaceless %}{% endfor %}",
	"{% for q in ll %}{% filter upper %}{% ifchanged %}[fruit] {% endifchanged %}{{ q }};{% endfilter %}{% endfor %}",
	"{% for q in ll %}{% filter lower %}{% spaceless %}<a> {% ifchanged %}<b>K</b>{% endifchanged %} </a>{% endspaceless %}{% endfilter %}{% endfor %}",
	"{% for q in ll %}{% ifchanged %}A{% endifchanged %}{% spaceless %}<p> {{ q }} </p> {% endspaceless %}{% endfor %}",
	"{{ sint|safe }}|{{ dur|safe }}|{{ month|safe }}|{% autoescape off %}{{ sint }} {{ dur }} {{ month }}{% endautoescape %}|{{ sint }}{{ dur }}",
	"{% autoescape off %}{% for q in ll %}{{ dur }}{{ q }}{% endfor %}{% endautoescape %}{% firstof sint|safe %}",
}

type c14Boom struct{}

func (c14Boom) String() string { panic("boom: String() of a context value") }

// c14UserPanic: code of the caller that panics while rendering (the String method of a context
// value) ends every entry point the same way — whichever way that is
func c14UserPanic(res *Result) {
	for _, src := range []string{"head {{ v }} tail", "{% for i in l %}{{ i }}{% if forloop.Last %}{{ v }}{% endif %}{% endfor %}", `{% include "inc.tpl" %}`, "{{ v|upper }}", "{% firstof v %}"} {
		set := pongo2.NewSet("c14p", &memLoader{files: map[string]string{"inc.tpl": "x{{ v }}y"}})
		tpl, err := set.FromString(src)
		if err != nil {
			continue
		}
		res.Cases++
		res.DistinctNontrivial++
		ctx := func() pongo2.Context { return pongo2.Context{"v": c14Boom{}, "l": []int{1, 2}} }
		class := func(f func() error) (c string) {
			defer func() {
				if p := recover(); p != nil {
					c = "panic"
				}
			}()
			if f() != nil {
				return "error"
			}
			return "ok"
		}
		got := []string{
			class(func() error { _, e := tpl.Execute(ctx()); return e }),
			class(func() error { _, e := tpl.ExecuteBytes(ctx()); return e }),
			class(func() error { return tpl.ExecuteWriter(ctx(), &bytes.Buffer{}) }),
			class(func() error { return tpl.ExecuteWriterUnbuffered(ctx(), &bytes.Buffer{}) }),
		}
		if got[1] != got[0] || got[2] != got[0] || got[3] != got[0] {
			res.add(Finding{Kind: "oracle", Proj: "variants", Sig: "c14-variants-fail-differently", Case: src + " with v a value whose String() panics",
				Impl: fmt.Sprintf("Execute:%s ExecuteBytes:%s ExecuteWriter:%s ExecuteWriterUnbuffered:%s", got[0], got[1], got[2], got[3]), Model: "the four variants fail in the same cases"})
		}
	}
}

func suiteC14(cfg Config, res *Result) {
	defer c14PrefilledBuffer(res)
	defer c14NestedWriters(res)
	defer bytesBelongToCaller(res, "variants", "c14-bytes-owner")
	defer reentrancy(res, "variants", "c14-reentrant-execution")
	defer c14StaticWriterErrors(res)
	defer c14OptionsAfterCompile(res)
	defer c14Repeated(res)
	defer c14StaticLooking(res)
	defer c14Shared(res)
	defer c14UserPanic(res)
	res.Rule = "grammar-generated programs in which the k-th output position is a fault point {{ 1/zz }} (zz = 0: execution error there; zz = 1: fault-free), for every k, plus the same programs without fault; each executed through Execute, ExecuteBytes, ExecuteWriter (to a plain io.Writer, to one that also has WriteString, to a *bytes.Buffer) and ExecuteWriterUnbuffered with a recording writer, and through ExecuteWriter / ExecuteWriterUnbuffered with a writer that starts failing after 0..3 calls (programs include sub-templates), and with contexts the engine rejects (a key that is not an identifier, a key that is an exported macro's name); oracle: the four variants produce the same bytes and fail in the same cases; on failure ExecuteWriter wrote nothing and the unbuffered variant a prefix of the fault-free output; a failing caller's writer makes the call return an error — never a panic — having written a prefix; non-trivial = program with a fault point behind >= 1 output; distinct by (program, fault position)"
	n := 1500
	if cfg.Thorough() {
		n = 30000
	}
	rng := NewRNG(cfg.Seed)
	for i := 0; i < n; i++ {
		g := NewGen(rng.Fork())
		pc := g.Program(2 + rng.Intn(5))
		// fault points: replace some "{{" positions
		src := pc.Src
		var idxs []int
		for j := 0; j+1 < len(src); j++ {
			if src[j] == '{' && src[j+1] == '{' && (j+2 >= len(src) || src[j+2] != '{') && (j == 0 || src[j-1] != '{') {
				idxs = append(idxs, j)
			}
		}
		k := -1
		if len(idxs) > 0 && rng.Chance(4, 5) {
			k = rng.Intn(len(idxs))
			src = src[:idxs[k]] + "{{ 1/zz }}" + src[idxs[k]:]
		}
		if i%4 == 0 {
			// constructs that render through a scratch buffer, nested, and values that print themselves
			src = rng.Pick(c14Focus) + src
		}
		if i%5 == 1 {
			// outputs that begin or end with bytes a writer-side tidy-up might touch
			edge := []string{"\ufeff", "\ufeff\ufeff", "{{ bom }}", "\xff\xfe", "\x00", "\n", "\r\n", " ", "\t"}
			src = rng.Pick(edge) + src + rng.Pick(append(edge, "", ""))
		}
		pc.Src = src + "{% macro xm() export %}{% endmacro %}"
		set, _ := pc.buildSet()
		var tpl *pongo2.Template
		func() {
			defer func() { recover() }()
			tpl, _ = pc.compile(set)
		}()
		res.Cases++
		if tpl == nil {
			res.hist("compile-error")
			continue
		}
		if k > 0 {
			res.DistinctNontrivial++
		}
		mk := func(zz int) pongo2.Context {
			c := pc.Ctx.Go()
			c["zz"] = zz
			c["sint"] = SInt(5)
			c["dur"] = 90 * time.Second
			c["month"] = time.March
			c["ll"] = []string{"x", "y", "z"}
			c["bom"] = "\ufeffb"
			switch zz {
			case 2:
				c["user-id"] = 1 // not an identifier: every entry point rejects the context
				c["zz"] = 1
			case 3:
				c["xm"] = 1 // the name of an exported macro of the template (see below)
				c["zz"] = 1
			}
			return c
		}
		desc := pc.String()
		run := func(zz int) (s string, eS error, b []byte, eB error, w *recWriter, eW error, u *recWriter, eU error, pan string) {
			defer func() {
				if p := recover(); p != nil {
					pan = fmt.Sprint(p)
				}
			}()
			s, eS = tpl.Execute(mk(zz))
			b, eB = tpl.ExecuteBytes(mk(zz))
			w = &recWriter{budget: -1}
			eW = tpl.ExecuteWriter(mk(zz), w)
			u = &recWriter{budget: -1}
			eU = tpl.ExecuteWriterUnbuffered(mk(zz), u)
			return
		}
		s1, eS1, b1, eB1, w1, eW1, u1, eU1, pan1 := run(1)
		bad := func(sig, impl, want string) {
			res.add(Finding{Kind: "oracle", Proj: "variants", Sig: sig, Case: desc, Impl: impl, Model: want})
		}
		if pan1 != "" {
			res.hist("panic")
			bad("c14-panic", "panic: "+pan1, "output or an error from every variant")
			continue
		}
		check := func(tag string, s string, eS error, b []byte, eB error, w *recWriter, eW error, u *recWriter, eU error) {
			cls := errClass(eS)
			if errClass(eB) != cls || errClass(eW) != cls || errClass(eU) != cls {
				bad("c14-variants-fail-differently", fmt.Sprintf("%s: Execute=%q ExecuteBytes=%q ExecuteWriter=%q Unbuffered=%q", tag, cls, errClass(eB), errClass(eW), errClass(eU)), "the four variants fail in the same cases")
				return
			}
			if eS == nil {
				if string(b) != s || w.buf.String() != s || u.buf.String() != s {
					bad("c14-variants-differ", fmt.Sprintf("%s: Execute=%q Bytes=%q Writer=%q Unbuffered=%q", tag, s, b, w.buf.String(), u.buf.String()), "the four variants produce the same bytes")
				}
			} else {
				if w.buf.Len() != 0 || w.calls != 0 {
					bad("c14-writer-not-all-or-nothing", fmt.Sprintf("%s: ExecuteWriter wrote %q before failing", tag, w.buf.String()), "nothing written on failure")
				}
				if s != "" || b != nil {
					bad("c14-partial-result-returned", fmt.Sprintf("%s: Execute returned %q with an error", tag, s), "no output with an error")
				}
			}
		}
		check("zz=1", s1, eS1, b1, eB1, w1, eW1, u1, eU1)
		s0, eS0, b0, eB0, w0, eW0, u0, eU0, pan0 := run(0)
		if pan0 != "" {
			bad("c14-panic", "panic (zz=0): "+pan0, "output or an error from every variant")
			continue
		}
		check("zz=0", s0, eS0, b0, eB0, w0, eW0, u0, eU0)
		// contexts the engine rejects: rejected by every entry point alike, nothing written
		for _, zz := range []int{2, 3} {
			s2, eS2, b2, eB2, w2, eW2, u2, eU2, pan2 := run(zz)
			if pan2 != "" {
				bad("c14-panic", fmt.Sprintf("panic (invalid context %d): %s", zz, pan2), "an error from every variant")
				continue
			}
			check(fmt.Sprintf("invalid-context-%d", zz), s2, eS2, b2, eB2, w2, eW2, u2, eU2)
			if eS2 == nil {
				bad("c14-invalid-context-accepted", fmt.Sprintf("invalid context %d: Execute returned %q", zz, s2), "a context with a key that is not an identifier / that is an exported macro's name is an error")
			} else if u2.buf.Len() != 0 {
				bad("c14-variants-differ", fmt.Sprintf("invalid context %d: the unbuffered variant wrote %q", zz, u2.buf.String()), "nothing is executed")
			}
		}
		// the same through writers that also have WriteString
		for _, zz := range []int{0, 1} {
			sw := &recStringWriter{recWriter{budget: -1}}
			var bb bytes.Buffer
			var e1, e2 error
			pan := ""
			func() {
				defer func() {
					if p := recover(); p != nil {
						pan = fmt.Sprint(p)
					}
				}()
				e1 = tpl.ExecuteWriter(mk(zz), sw)
				e2 = tpl.ExecuteWriter(mk(zz), &bb)
			}()
			wantS, wantE := s1, eS1
			if zz == 0 {
				wantS, wantE = s0, eS0
			}
			switch {
			case pan != "":
				bad("c14-panic", "ExecuteWriter(StringWriter): panic: "+pan, "output or an error")
			case errClass(e1) != errClass(wantE) || errClass(e2) != errClass(wantE):
				bad("c14-variants-fail-differently", fmt.Sprintf("zz=%d: ExecuteWriter to a StringWriter / *bytes.Buffer: %q / %q, Execute: %q", zz, errClass(e1), errClass(e2), errClass(wantE)), "the same outcome whatever the writer's type")
			case wantE != nil && (sw.buf.Len() != 0 || bb.Len() != 0):
				bad("c14-writer-not-all-or-nothing", fmt.Sprintf("zz=%d: ExecuteWriter wrote %q / %q before failing", zz, sw.buf.String(), bb.String()), "nothing written on failure")
			case wantE == nil && (sw.buf.String() != wantS || bb.String() != wantS):
				bad("c14-variants-differ", fmt.Sprintf("zz=%d: StringWriter=%q Buffer=%q Execute=%q", zz, sw.buf.String(), bb.String(), wantS), "the same bytes whatever the writer's type")
			}
		}
		if eS0 != nil && eS1 == nil {
			res.hist("fault-hit")
			if !strings.HasPrefix(s1, u0.buf.String()) {
				bad("c14-unbuffered-not-a-prefix", fmt.Sprintf("unbuffered wrote %q", u0.buf.String()), fmt.Sprintf("a leading part of %q", s1))
			}
		} else {
			res.hist("no-fault")
		}
		// the caller's writer fails after `budget` successful calls
		if eS1 == nil && len(s1) > 0 {
			for budget := 0; budget <= 3; budget++ {
				for _, unbuffered := range []bool{false, true} {
					if !unbuffered && budget > 0 {
						continue // the buffered variant makes a single call
					}
					fw := &recWriter{budget: budget}
					var err error
					pan := ""
					func() {
						defer func() {
							if p := recover(); p != nil {
								pan = fmt.Sprint(p)
							}
						}()
						if unbuffered {
							err = tpl.ExecuteWriterUnbuffered(mk(1), fw)
						} else {
							err = tpl.ExecuteWriter(mk(1), fw)
						}
					}()
					tag := fmt.Sprintf("writer failing after %d calls, unbuffered=%v", budget, unbuffered)
					switch {
					case pan != "":
						bad("c14-panic-on-writer-error", tag+": panic: "+pan, "the writer's error is returned")
					case !unbuffered && err == nil && fw.calls > budget: // only ExecuteWriter promises to hand the writer's error back
						bad("c14-writer-error-swallowed", tag+": returned nil although the writer failed", "the writer's error")
					case !strings.HasPrefix(s1, fw.buf.String()):
						bad("c14-unbuffered-not-a-prefix", tag+fmt.Sprintf(": wrote %q", fw.buf.String()), fmt.Sprintf("a leading part of %q", s1))
					}
				}
			}
		}
		if res.Cases <= 2 {
			res.sample(desc)
		}
	}
}

package main

import (
	"fmt"
	pongo2 "github.com/flosch/pongo2/v6"
	"strings"
)

func init() { suites["c10-chains"] = suiteC10 }

type bnode struct {
	k    string // text super block if for
	s    string
	name string
	body []bnode
}

type c10gen struct {
	r     *RNG
	defs  map[string][][]bnode // name -> per level body (nil = not defined at that level)
	level int
	k     int
	used  map[string]bool // names defined in the template being generated
	next  int
	cur   string // the block whose body is being generated
}

func (g *c10gen) freshName() string {
	g.next++
	return fmt.Sprintf("b%d", g.next)
}

func (g *c10gen) define(name string, body []bnode) {
	if g.defs[name] == nil {
		g.defs[name] = make([][]bnode, g.k+1)
	}
	g.defs[name][g.level] = body
	g.used[name] = true
}

func (g *c10gen) body(d int, allowSuper bool) []bnode {
	n := 1 + g.r.Intn(3)
	var out []bnode
	for i := 0; i < n; i++ {
		switch x := g.r.Intn(8); {
		case x <= 2:
			out = append(out, bnode{k: "text", s: g.r.Pick([]string{"a", "b", "<c>", " ", "d"}) + fmt.Sprint(g.level)})
		case x == 3 && allowSuper:
			out = append(out, bnode{k: "super"})
		case x == 4 && d > 0:
			// a block first defined here, inside another block's body: its own Super is empty at this
			// level, whatever the enclosing block's Super is
			name := g.freshName()
			savedCur := g.cur
			g.cur = name
			b := g.body(d-1, g.r.Chance(1, 2))
			g.cur = savedCur
			g.define(name, b)
			out = append(out, bnode{k: "block", name: name})
		case x == 6 && d > 0 && g.level > 0:
			// a block an ancestor defines, re-declared here inside another block's override
			// (only blocks an ancestor's definition of the enclosing block already contains: anything
			// else could make two blocks contain each other, which is a runaway, not a resolution question)
			var cands []string
			seenC := map[string]bool{}
			if dd, ok := g.defs[g.cur]; ok {
				for j := 0; j < g.level; j++ {
					for _, bn := range dd[j] {
						if bn.k == "block" && !g.used[bn.name] && !seenC[bn.name] {
							seenC[bn.name] = true
							cands = append(cands, bn.name)
						}
					}
				}
			}
			if len(cands) == 0 {
				out = append(out, bnode{k: "text", s: "."})
				break
			}
			sortStrings(cands)
			name := g.r.Pick(cands)
			g.used[name] = true // reserved before the body is generated: a name is declared once per template
			savedCur := g.cur
			g.cur = name
			b := g.body(d-1, true)
			g.cur = savedCur
			g.define(name, b)
			out = append(out, bnode{k: "block", name: name})
		case x == 5 && d > 0:
			out = append(out, bnode{k: g.r.Pick([]string{"if", "for"}), body: g.body(d-1, allowSuper)})
		default:
			out = append(out, bnode{k: "text", s: "."})
		}
	}
	return out
}

var bsrcDepth int

func bsrc(ns []bnode, defs map[string][][]bnode, level int) string {
	bsrcDepth++
	defer func() { bsrcDepth-- }()
	if bsrcDepth > 200 {
		panic(fmt.Sprintf("bsrc cycle at level %d: %+v", level, ns))
	}
	var sb strings.Builder
	for _, n := range ns {
		switch n.k {
		case "text":
			sb.WriteString(n.s)
		case "super":
			sb.WriteString("{{ block.Super }}")
		case "block":
			sb.WriteString("{% block " + n.name + " %}" + bsrc(defs[n.name][level], defs, level) + "{% endblock %}")
		case "if":
			sb.WriteString("{% if 1 %}" + bsrc(n.body, defs, level) + "{% endif %}")
		case "for":
			sb.WriteString("{% for q in two %}" + bsrc(n.body, defs, level) + "{% endfor %}")
		}
	}
	return sb.String()
}

// refRender: the reference resolution: a block shows its most-derived
// definition at or below `leaf`; Super inside definition j shows the next less-derived one.
func refRender(ns []bnode, defs map[string][][]bnode, leaf int, cur string, curLevel int, sb *strings.Builder) {
	for _, n := range ns {
		switch n.k {
		case "text":
			sb.WriteString(n.s)
		case "super":
			for j := curLevel - 1; j >= 0; j-- {
				if defs[cur][j] != nil {
					refRender(defs[cur][j], defs, leaf, cur, j, sb)
					break
				}
			}
		case "block":
			for j := leaf; j >= 0; j-- {
				if defs[n.name][j] != nil {
					refRender(defs[n.name][j], defs, leaf, n.name, j, sb)
					break
				}
			}
		case "if":
			refRender(n.body, defs, leaf, cur, curLevel, sb)
		case "for":
			refRender(n.body, defs, leaf, cur, curLevel, sb)
			refRender(n.body, defs, leaf, cur, curLevel, sb)
		}
	}
}

func suiteC10(cfg Config, res *Result) {
	defer c10ReentrantBlocks(res)
	defer c10Depth(res)
	defer c10Blocks(res)
	defer c10Fixed(res)
	res.Rule = "inheritance chains of depth 1..5 served from an in-memory loader: a base document with blocks at top level, nested in blocks, in if-branches and in for-loops; every level overrides a random subset (text, block.Super, Super of Super, new nested blocks), inherits the rest and writes junk outside blocks; every template of the chain is rendered and compared with a reference resolution (most-derived definition; Super = next less-derived) and with the Lean model; plus the invalid shapes (second extends, extends below root level, duplicate block name) must be compile errors; non-trivial = chain depth >= 2 with at least one Super; distinct by chain"
	n := 2500
	if cfg.Thorough() {
		n = 50000
	}
	rng := NewRNG(cfg.Seed)
	var cases []ProgCase
	wants := map[string]string{}
	type chainRec struct {
		files map[string]string
		wants []string
		names []string
	}
	var chains []chainRec
	for i := 0; i < n; i++ {
		k := 1 + rng.Intn(5)
		g := &c10gen{r: rng.Fork(), defs: map[string][][]bnode{}, k: k}
		files := map[string]string{}
		// names of the chain: t0.tpl … or the same file name in a directory per level (rooted names)
		sameName := i%3 == 1
		tname := func(lvl int) string {
			if sameName {
				if lvl == 0 {
					return "page.tpl"
				}
				return fmt.Sprintf("l%d/page.tpl", lvl)
			}
			return fmt.Sprintf("t%d.tpl", lvl)
		}
		// how a level names its parent: relative to its own directory
		pname := func(lvl int) string {
			if sameName && lvl >= 1 {
				return "../" + tname(lvl-1)
			}
			return tname(lvl - 1)
		}
		// base
		g.level = 0
		g.used = map[string]bool{}
		var doc []bnode
		nb := 1 + rng.Intn(3)
		for j := 0; j < nb; j++ {
			doc = append(doc, bnode{k: "text", s: rng.Pick([]string{"[", "|", "-"})})
			name := g.freshName()
			g.cur = name
			b := g.body(2, rng.Chance(1, 4))
			g.define(name, b)
			blk := bnode{k: "block", name: name}
			if rng.Chance(1, 4) {
				doc = append(doc, bnode{k: rng.Pick([]string{"if", "for"}), body: []bnode{blk}})
			} else {
				doc = append(doc, blk)
			}
		}
		doc = append(doc, bnode{k: "text", s: "]"})
		files[tname(0)] = bsrc(doc, g.defs, 0)
		for lvl := 1; lvl <= k; lvl++ {
			g.level = lvl
			g.used = map[string]bool{}
			var sb strings.Builder
			sb.WriteString(rng.Pick([]string{"", "junk ", "{# c #}"}))
			sb.WriteString(`{% extends "` + pname(lvl) + `" %}`)
			var names []string
			for nm, d := range g.defs {
				for j := 0; j < lvl; j++ {
					if d[j] != nil {
						names = append(names, nm)
						break
					}
				}
			}
			sortStrings(names)
			for _, nm := range names {
				if g.used[nm] || !rng.Chance(2, 5) {
					continue
				}
				g.used[nm] = true // before its body is generated: a block is not re-declared inside itself
				g.cur = nm
				b := g.body(1, true)
				g.define(nm, b)
				sb.WriteString(rng.Pick([]string{"", "outside", "{{ 1 }}"}))
				sb.WriteString("{% block " + nm + " %}" + bsrc(b, g.defs, lvl) + "{% endblock %}")
			}
			files[tname(lvl)] = sb.String()
		}
		hasSuper := false
		for _, f := range files {
			if strings.Contains(f, "block.Super") {
				hasSuper = true
			}
		}
		cr := chainRec{files: files, names: func() []string {
			var ns []string
			for l := 0; l <= k; l++ {
				ns = append(ns, tname(l))
			}
			return ns
		}()}
		for lvl := 0; lvl <= k; lvl++ {
			var sb strings.Builder
			refRender(doc, g.defs, lvl, "", 0, &sb)
			cr.wants = append(cr.wants, sb.String())
			ct := CtxTerm{Names: []string{"two"}, Vals: []VT{vList("int", vInt(1), vInt(2))}}
			lbl := "plain"
			if k >= 2 && hasSuper {
				lbl = "super"
			}
			pc := ProgCase{Src: tname(lvl), FromFile: true, Loaders: []map[string]string{files}, Ctx: &ct, Label: lbl}
			cases = append(cases, pc)
			wants[pc.Key()] = sb.String()
			if i%5 == 2 && lvl == k {
				// the same template reached through an include instead of directly
				pc2 := ProgCase{Src: `[{% include "` + tname(lvl) + `" %}|{% include inc %}]`, Loaders: []map[string]string{files},
					Ctx: &CtxTerm{Names: []string{"two", "inc"}, Vals: []VT{vList("int", vInt(1), vInt(2)), vStr(tname(lvl))}}, Label: lbl}
				cases = append(cases, pc2)
				wants[pc2.Key()] = "[" + sb.String() + "|" + sb.String() + "]"
			}
		}
		if i%4 == 0 {
			chains = append(chains, cr)
		}
	}
	// one set, every template of a chain fetched through the cache in some order and rendered:
	// rendering a template is not affected by which of its relatives were compiled before
	for _, cr := range chains {
		set := pongo2.NewSet("c10c", &memLoader{files: cr.files})
		order := make([]int, len(cr.wants))
		for j := range order {
			order[j] = j
		}
		for a := len(order) - 1; a > 0; a-- {
			b := rng.Intn(a + 1)
			order[a], order[b] = order[b], order[a]
		}
		res.Cases++
		for _, lvl := range append(order, order...) {
			var got execRes
			func() {
				defer func() {
					if p := recover(); p != nil {
						got = execRes{pan: fmt.Sprint(p)}
					}
				}()
				tpl, err := set.FromCache(cr.names[lvl])
				if err != nil {
					got = execRes{err: err.Error()}
					return
				}
				got = execOnce(tpl, pongo2.Context{"two": []int{1, 2}})
			}()
			if got.err != "" || got.pan != "" || got.out != cr.wants[lvl] {
				res.add(Finding{Kind: "oracle", Proj: "reference", Sig: "c10-depends-on-compile-order", Case: fmt.Sprintf("files=%q FromCache order %v, rendering t%d.tpl", cr.files, order, lvl), Impl: got.String(), Model: "reference resolution: ok " + hxb(cr.wants[lvl])})
				break
			}
		}
	}
	runProgCases(cfg, res, cases, "c10", func(c ProgCase, o ImplOutcome) bool { return c.Label == "super" },
		func(c ProgCase, o ImplOutcome) *Finding {
			want := wants[c.Key()]
			if o.Class != "ok" || o.Out != want {
				return &Finding{Kind: "oracle", Proj: "reference", Sig: "c10-reference", Case: c.String(), Impl: o.Canon() + " " + o.Msg, Model: "reference resolution: ok " + hxb(want)}
			}
			return nil
		})
	// invalid shapes
	base := map[string]string{"base.tpl": "{% block a %}A{% endblock %}", "other.tpl": "x"}
	for _, src := range []string{
		`{% extends "base.tpl" %}{% extends "other.tpl" %}`,
		`{% if 1 %}{% extends "base.tpl" %}{% endif %}`,
		`{% block a %}{% extends "base.tpl" %}{% endblock %}`,
		`{% block a %}1{% endblock %}{% block a %}2{% endblock %}`,
		`{% extends "base.tpl" %}{% block a %}1{% endblock %}{% block a %}2{% endblock %}`,
		`{% block a %}{% block a %}{% endblock %}{% endblock %}`,
	} {
		pc := ProgCase{Src: src, Loaders: []map[string]string{base}}
		o := pc.RunImpl()
		res.Cases++
		if o.Class != "compile" {
			res.add(Finding{Kind: "oracle", Proj: "reference", Sig: "c10-invalid-shape-accepted", Case: src, Impl: o.Canon(), Model: "compile error"})
		}
	}
}

func sortStrings(xs []string) {
	for i := 1; i < len(xs); i++ {
		for j := i; j > 0 && xs[j] < xs[j-1]; j-- {
			xs[j], xs[j-1] = xs[j-1], xs[j]
		}
	}
}

// c10Fixed: a block rendered several times in one execution (inside a loop of the base) reaches its
// parent anew each time; and a rendering that failed inside a parent's definition leaves nothing
// behind for the next use of block.Super, in this or any other chain
func c10Fixed(res *Result) {
	files := map[string]string{
		"base.tpl":  "{% for x in items %}{% block a %}[{{ x }}]{% endblock %}{% endfor %}",
		"mid.tpl":   `{% extends "base.tpl" %}{% block a %}mid({{ block.Super }}){% endblock %}`,
		"leaf.tpl":  `{% extends "mid.tpl" %}{% block a %}leaf({{ block.Super }}{{ block.Super }}){% endblock %}`,
		"mac.tpl":   `{% extends "base2.tpl" %}{% block b %}{% for x in items %}<{{ block.Super }}{{ x }}>{% endfor %}{% endblock %}`,
		"base2.tpl": "{% block a %}base-a:{{ 1 / zero }}{% endblock %}|{% block b %}base-b{% endblock %}",
		"bad.tpl":   `{% extends "base2.tpl" %}{% block a %}bad[{{ block.Super }}]{% endblock %}`,
		"other.tpl": `{% extends "base2.tpl" %}{% block b %}other[{{ block.Super }}]{% endblock %}`,
	}
	set := pongo2.NewSet("c10f", &memLoader{files: files})
	render := func(name string, ctx pongo2.Context) string {
		tpl, err := set.FromCache(name)
		if err != nil {
			return "compile: " + err.Error()
		}
		r := execOnce(tpl, ctx)
		if r.pan != "" || r.err != "" {
			return r.String()
		}
		return "ok " + r.out
	}
	items := []string{"x", "y", "z"}
	for _, c := range [][2]string{
		{"base.tpl", "ok [x][y][z]"}, {"mid.tpl", "ok mid([x])mid([y])mid([z])"}, {"leaf.tpl", "ok leaf(mid([x])mid([x]))leaf(mid([y])mid([y]))leaf(mid([z])mid([z]))"},
		{"mac.tpl", "ok base-a:1|<base-bx><base-by><base-bz>"},
	} {
		res.Cases++
		res.DistinctNontrivial++
		if got := render(c[0], pongo2.Context{"items": items, "zero": 1}); got != c[1] {
			res.add(Finding{Kind: "oracle", Proj: "reference", Sig: "c10-super-in-repeated-block", Case: fmt.Sprintf("%s with %q", c[0], files), Impl: got, Model: c[1]})
		}
	}
	for round := 0; round < 3; round++ {
		res.Cases++
		first := render("bad.tpl", pongo2.Context{"zero": 0})
		if !strings.HasPrefix(first, "err") {
			res.add(Finding{Kind: "oracle", Proj: "reference", Sig: "c10-super-error-lost", Case: "bad.tpl with zero=0", Impl: first, Model: "an execution error"})
		}
		for _, c := range [][2]string{{"other.tpl", "ok base-a:1|other[base-b]"}, {"bad.tpl", "ok bad[base-a:1]|base-b"}} {
			if got := render(c[0], pongo2.Context{"zero": 1}); got != c[1] {
				res.add(Finding{Kind: "oracle", Proj: "reference", Sig: "c10-super-after-failed-render", Case: fmt.Sprintf("%s after a rendering of bad.tpl that failed inside block.Super; %q", c[0], files), Impl: got, Model: c[1]})
			}
		}
	}
}

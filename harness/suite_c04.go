package main

import (
	"fmt"

	pongo2 "github.com/flosch/pongo2/v6"
)

func init() { suites["c04-hist"] = suiteC04 }

type execRes struct {
	out string
	err string
	pan string
}

func (r execRes) String() string {
	if r.pan != "" {
		return "panic " + r.pan
	}
	if r.err != "" {
		return "err " + r.err
	}
	return "ok " + hxb(r.out)
}

func execOnce(tpl *pongo2.Template, ctx pongo2.Context) (r execRes) {
	defer func() {
		if p := recover(); p != nil {
			r = execRes{pan: fmt.Sprint(p)}
		}
	}()
	out, err := tpl.Execute(ctx)
	if err != nil {
		return execRes{err: err.Error()}
	}
	return execRes{out: out}
}

// c04Focus: programs built around the constructs that keep state between
// iterations, where a leak into the compiled template would show.
var c04Focus = []string{
	// list literals whose items depend on the context only through a filter parameter
	"{% for x in [\"item-\"|add:s, \"end\"] %}{{ x }};{% endfor %}|{{ i in [1|add:i, 100] }}|{{ [[s|upper, 1], \"z\"|add:i] }}",
	"{% with l=[\"a\"|add:s] %}{{ l.0 }}{% endwith %}{% set l2 = [i|add:i] %}{{ l2.0 }}",
	"{% for i in l %}{% cycle 'a' 'b' 'c' %}{% endfor %}",
	"{% for i in l %}{% cycle 'a' 'b' as c silent %}{{ c }}{% endfor %}|{% cycle 'x' 'y' %}",
	"{% ifchanged %}{{ s }}{% endifchanged %}",
	"{% for i in l %}{% ifchanged i %}c{% else %}s{% endifchanged %}{% endfor %}",
	"{% for i in la %}{% ifchanged %}{{ i }}{% endifchanged %}{% endfor %}",
	"{% if t %}\n  x\n{% endif %}\n\n{% for i in l %}\n  {{ i }}\n{% endfor %}\n",
	"  {% set q = 1 %}\n\n\n{{ q }}  {% if q %}\n\n y {% endif %}",
	"{% macro m(a) %}{% cycle 1 2 %}{{ a }}{% endmacro %}{{ m(s) }}{{ m(i) }}",
	"{% for i in l %}{% include 'inc.tpl' %}{% endfor %}",
	// call sites: the argument list belongs to the compiled template, the implicit context argument to the execution
	"{{ fc3(s, \"b\", \"c\") }}{% for q in l %}{{ fc3(\"x\", s, \"z\") }}{% endfor %}",
	"{{ fc5(\"1\", \"2\", s, \"4\", \"5\") }}{{ fc5(\"1\", \"2\", \"3\", \"4\", s) }}",
	"{% for q in l %}{% if fc3(\"a\", \"b\", \"c\") %}{{ fc5(\"a\", \"b\", \"c\", \"d\", \"e\") }}{% endif %}{% endfor %}",
	// list literals are values of one evaluation, not of the template
	"{% for q in [1, 2, 3] reversed %}{{ q }}{% endfor %}",
	"{% for q in [3, 1, 2] sorted %}{{ q }}{% endfor %}{% for q in [3, 1, 2] %}{{ q }}{% endfor %}",
	"{% set ll = [3, 1, 2] %}{% for q in ll sorted %}{{ q }}{% endfor %}{{ ll.0 }}{% for q in ll reversed %}{{ q }}{% endfor %}{{ ll.0 }}",
	"{% with ll=[\"b\", \"a\", \"c\"] %}{% for q in ll reversed sorted %}{{ q }}{% endfor %}{{ ll.0 }}{{ ll|first }}{% endwith %}",
	"{% macro lm(v=[2, 1]) %}{% for q in v sorted %}{{ q }}{% endfor %}{{ v.0 }}{% endmacro %}{{ lm() }}{{ lm() }}",
	"{% for q in [true, false] reversed %}{{ q }}{% endfor %}{{ [1.5, 0.5]|first }}{% for q in [1.5, 0.5] sorted %}{{ q }}{% endfor %}{{ [1.5, 0.5]|first }}",
}

// c04FailSites: executions that fail inside a filter, at a site chosen by the context; the error of
// each execution must name its own site, whatever failed earlier (in this or another template)
func c04FailSites(cfg Config, res *Result, rng *RNG) {
	sites := failSites()
	res.hist(fmt.Sprintf("fail-sites=%d", len(sites)))
	rounds := 2
	if cfg.Thorough() {
		rounds = 10
	}
	for r := 0; r < rounds; r++ {
		for _, s := range sites {
			src, l1, l2 := failTemplate(s, rng.Intn(4), 1+rng.Intn(4))
			set := pongo2.NewSet("f", &memLoader{files: map[string]string{}})
			tpl, err := set.FromString(src)
			if err != nil {
				continue
			}
			res.Cases++
			res.DistinctNontrivial++
			hist := ""
			for j := 0; j < 4; j++ {
				first := rng.Bool()
				want := l2
				if first {
					want = l1
				}
				hist += fmt.Sprint(first, " ")
				var e error
				func() {
					defer func() { recover() }()
					_, e = tpl.Execute(failCtx(first))
				}()
				if msg := failCheck(e, s, want); msg != "" {
					res.add(Finding{Kind: "oracle", Proj: "history", Sig: "c04-error-depends-on-history", Case: fmt.Sprintf("src=%q executions first=%s", src, hist), Impl: msg, Model: "the error names the filter that failed in this execution"})
					break
				}
			}
		}
	}
}

type c04Ptr struct{ Name string }

func (p *c04Ptr) Tag() string  { return "ptr-" + p.Name }
func (p c04Ptr) Plain() string { return "val-" + p.Name }

// c04Absolute: histories whose every result is known by construction, so that state kept anywhere in
// the process (not only in the compiled template) shows: a fresh compile in the same process would
// share such state and agree with the wrong answer
// c04Relative: histories whose every execution is compared with the first execution of a freshly
// built set — deep self-inclusion (what an earlier, deeper execution used or gave up must not count
// against a later one) and sets with Globals holding nested contexts (what one execution's context
// says about a global must not stick to the global)
func c04Relative(res *Result) {
	type hist struct {
		name    string
		files   map[string]string
		entry   string
		globals func() pongo2.Context
		steps   []pongo2.Context
	}
	rec := map[string]string{"rec.tpl": `{% if n > 0 %}{{ n }};{% include self with n=n-1 %}{% endif %}`}
	site := func() pongo2.Context {
		return pongo2.Context{"site": pongo2.Context{"name": "Shop", "nav": pongo2.Context{"home": "/"}}, "g": "G", "list": []string{"b", "a"}}
	}
	hs := []hist{
		{"deep self-inclusion, deeper first", rec, "rec.tpl", nil, []pongo2.Context{{"self": "rec.tpl", "n": 1300}, {"self": "rec.tpl", "n": 1000}, {"self": "rec.tpl", "n": 999}, {"self": "rec.tpl", "n": 1300}, {"self": "rec.tpl", "n": 1000}, {"self": "rec.tpl", "n": 3}}},
		{"a nested context in Globals, refined by one execution's context", map[string]string{"g.tpl": `{{ site.name }}|{{ site.title }}|{{ site.nav.home }}|{{ site.nav.about }}|{{ g }}|{% for x in list sorted %}{{ x }}{% endfor %}{{ list.0 }}`}, "g.tpl", site,
			[]pongo2.Context{{}, {"site": pongo2.Context{"title": "Sale"}}, {}, {"site": pongo2.Context{"nav": pongo2.Context{"about": "/a"}}, "g": "x"}, {}, nil, {"list": []string{"z"}}, {}}},
	}
	for _, h := range hs {
		mk := func() (*pongo2.TemplateSet, *pongo2.Template, error) {
			set := pongo2.NewSet("rel", &memLoader{files: h.files, id: "0"})
			if h.globals != nil {
				set.Globals = h.globals()
			}
			tpl, err := set.FromFile(h.entry)
			return set, tpl, err
		}
		set, tpl, err := mk()
		res.Cases++
		res.DistinctNontrivial++
		if err != nil {
			res.add(Finding{Kind: "oracle", Proj: "history", Sig: "c04-relative-history", Case: h.name, Impl: "compile: " + err.Error(), Model: "compiles"})
			continue
		}
		gBefore := dumpCtx(set.Globals)
		for j, ctx := range h.steps {
			got := execOnce(tpl, ctx)
			_, fresh, _ := mk()
			want := execOnce(fresh, ctx)
			if got.String() != want.String() {
				g, w := got.String(), want.String()
				if len(g) > 160 {
					g = g[:80] + "…" + g[len(g)-60:]
				}
				if len(w) > 160 {
					w = w[:80] + "…" + w[len(w)-60:]
				}
				res.add(Finding{Kind: "oracle", Proj: "history", Sig: "c04-relative-history", Case: fmt.Sprintf("%s: files=%q, execution #%d with %v", h.name, h.files, j+1, ctx), Impl: g, Model: "a freshly built set gives " + w})
				break
			}
			if gAfter := dumpCtx(set.Globals); gAfter != gBefore {
				res.add(Finding{Kind: "oracle", Proj: "history", Sig: "c04-globals-written", Case: fmt.Sprintf("%s: execution #%d with %v", h.name, j+1, ctx), Impl: gAfter, Model: "Globals as before: " + gBefore})
				break
			}
		}
	}
}

func c04Absolute(cfg Config, res *Result, rng *RNG) {
	defer c04Relative(res)
	type step struct {
		ctx  pongo2.Context
		want string
	}
	type hist struct {
		name  string
		files map[string]string
		entry string
		steps []step
	}
	inherit := map[string]string{
		"base.tpl":   "<{% block c %}base{% endblock %}|{% block d %}d0{% endblock %}>",
		"page.tpl":   `{% extends "base.tpl" %}{% block c %}page[{% include other %}]{% endblock %}`,
		"teaser.tpl": `{% extends "base.tpl" %}{% block c %}teaser {{ n }}{% endblock %}{% block d %}d-teaser{% endblock %}`,
		"plain.tpl":  "plain {{ n }}",
	}
	hs := []hist{
		{"a page whose block lazily includes a sibling page of the same layout", inherit, "page.tpl", []step{
			{pongo2.Context{"other": "teaser.tpl", "n": 1}, "<page[<teaser 1|d-teaser>]|d0>"},
			{pongo2.Context{"other": "teaser.tpl", "n": 1}, "<page[<teaser 1|d-teaser>]|d0>"},
			{pongo2.Context{"other": "plain.tpl", "n": 2}, "<page[plain 2]|d0>"},
			{pongo2.Context{"other": "teaser.tpl", "n": 3}, "<page[<teaser 3|d-teaser>]|d0>"}}},
		{"a method of the pointer type, asked of a value and of a pointer in turn", map[string]string{"m.tpl": "{{ x.Tag }}/{{ x.Plain }}"}, "m.tpl", []step{
			{pongo2.Context{"x": &c04Ptr{"ann"}}, "ptr-ann/val-ann"},
			{pongo2.Context{"x": c04Ptr{"bob"}}, "/val-bob"},
			{pongo2.Context{"x": &c04Ptr{"ann"}}, "ptr-ann/val-ann"},
			{pongo2.Context{"x": c04Ptr{"bob"}}, "/val-bob"},
			{pongo2.Context{"x": &c04Ptr{"cy"}}, "ptr-cy/val-cy"}}},
	}
	for _, h := range hs {
		for _, debug := range []bool{false, true} {
			ml := &memLoader{files: h.files, id: "0"}
			set := pongo2.NewSet("abs", ml)
			set.Debug = debug
			tpl, err := set.FromFile(h.entry)
			res.Cases++
			res.DistinctNontrivial++
			if err != nil {
				res.add(Finding{Kind: "oracle", Proj: "history", Sig: "c04-absolute-history", Case: h.name, Impl: "compile: " + err.Error(), Model: "compiles"})
				continue
			}
			for j, st := range h.steps {
				got := execOnce(tpl, st.ctx)
				if got.err != "" || got.pan != "" || got.out != st.want {
					res.add(Finding{Kind: "oracle", Proj: "history", Sig: "c04-absolute-history", Case: fmt.Sprintf("%s: files=%q entry=%s debug=%v, execution #%d with %v", h.name, h.files, h.entry, debug, j+1, st.ctx), Impl: got.String(), Model: "ok " + hxb(st.want)})
					break
				}
			}
		}
	}
}

func suiteC04(cfg Config, res *Result) {
	defer c04Shared(res)
	defer c04ReservedNames(res)
	defer bytesBelongToCaller(res, "history", "c04-bytes-owner")
	defer reentrancy(res, "history", "c04-reentrant-execution")
	defer c04EqualErrors(res)
	defer c04PairOrder(res)
	defer c04FailSites(cfg, res, NewRNG(cfg.Seed^0xfa11))
	defer c04Absolute(cfg, res, NewRNG(cfg.Seed^0xab5))
	res.Rule = "failing executions: for every registered filter and every argument shape that makes it fail, a template with two such sites on different lines chosen by the context, executed 4 times: each error names the site that failed in that execution; one compiled template executed n = 2..5 times with a mix of contexts (equal and different, some failing: invalid key, division by zero via the context), for grammar-generated programs over every modelled tag plus programs focused on cycle / ifchanged / whitespace options / macros / include, under all four TrimBlocks x LStripBlocks settings (also toggled between executions); direct oracle: every result equals the first render of a freshly compiled copy with the same context and options; non-trivial = history containing two equal contexts; distinct by (program, history)"
	n := 2500
	if cfg.Thorough() {
		n = 40000
	}
	rng := NewRNG(cfg.Seed)
	for i := 0; i < n; i++ {
		g := NewGen(rng.Fork())
		pc := g.Program(1 + rng.Intn(5))
		if i%3 == 0 {
			pc.Src = c04Focus[rng.Intn(len(c04Focus))] + pc.Src
			if pc.Loaders == nil {
				pc.Loaders = []map[string]string{{}}
			}
			pc.Loaders[0]["inc.tpl"] = "{% cycle 'p' 'q' %}{% ifchanged %}z{% endifchanged %}"
			ct := *pc.Ctx
			ct.Names = append(append([]string{}, ct.Names...), "fc3", "fc5")
			ct.Vals = append(append([]VT{}, ct.Vals...), vFunc(23), vFunc(24))
			pc.Ctx = &ct
		}
		pc.Trim = rng.Bool()
		pc.LStrip = rng.Bool()
		// contexts
		k := 2 + rng.Intn(4)
		base := *pc.Ctx
		var ctxs []CtxTerm
		for j := 0; j < k; j++ {
			switch rng.Intn(6) {
			case 0, 1:
				ctxs = append(ctxs, base)
			case 2:
				c2 := NewGen(rng.Fork()).StdCtx()
				ctxs = append(ctxs, c2)
			case 3:
				bad := CtxTerm{Names: append(append([]string{}, base.Names...), "bad key"), Vals: append(append([]VT{}, base.Vals...), vInt(1))}
				ctxs = append(ctxs, bad)
			case 4:
				if len(ctxs) > 0 {
					ctxs = append(ctxs, ctxs[rng.Intn(len(ctxs))])
				} else {
					ctxs = append(ctxs, base)
				}
			default:
				z := CtxTerm{Names: append([]string{}, base.Names...), Vals: append([]VT{}, base.Vals...)}
				for q := range z.Names {
					if z.Names[q] == "i" || z.Names[q] == "j" {
						z.Vals[q] = vInt(0)
					}
				}
				ctxs = append(ctxs, z)
			}
		}
		res.Cases++
		seenCtx := map[string]bool{}
		nt := false
		for _, c := range ctxs {
			w := c.Wire()
			if seenCtx[w] {
				nt = true
			}
			seenCtx[w] = true
		}
		if nt {
			res.DistinctNontrivial++
		}
		set, _ := pc.buildSet()
		var tpl *pongo2.Template
		var err error
		func() {
			defer func() { recover() }()
			tpl, err = pc.compile(set)
		}()
		if err != nil || tpl == nil {
			res.hist("compile-error")
			continue
		}
		res.hist(fmt.Sprintf("n=%d", k))
		toggle := rng.Chance(1, 4)
		for j, c := range ctxs {
			if toggle && j > 0 {
				tpl.Options.TrimBlocks = rng.Bool()
				tpl.Options.LStripBlocks = rng.Bool()
			}
			got := execOnce(tpl, c.Go())
			// reference: first render of a fresh compile with the same options
			fset, _ := pc.buildSet()
			var ftpl *pongo2.Template
			func() {
				defer func() { recover() }()
				ftpl, _ = pc.compile(fset)
			}()
			if ftpl == nil {
				break
			}
			ftpl.Options.TrimBlocks = tpl.Options.TrimBlocks
			ftpl.Options.LStripBlocks = tpl.Options.LStripBlocks
			want := execOnce(ftpl, c.Go())
			if got.String() != want.String() {
				sig := "c04-render-depends-on-history"
				res.add(Finding{Kind: "oracle", Proj: "history", Sig: sig, Case: fmt.Sprintf("%s ; execution #%d of %d; trim=%v lstrip=%v", pc.String(), j+1, k, tpl.Options.TrimBlocks, tpl.Options.LStripBlocks), Impl: got.String(), Model: "fresh compile renders " + want.String()})
				break
			}
		}
		if res.Cases <= 2 {
			res.sample(pc.String())
		}
	}
}

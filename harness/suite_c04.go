package main

import (
	"fmt"

	pongo2 "github.com/flosch/pongo2/v6"
)

func init() { suites["c04-hist"] = suiteC04 }

type execRes struct {
	out string
	err string
	pan string
}

func (r execRes) String() string {
	if r.pan != "" {
		return "panic " + r.pan
	}
	if r.err != "" {
		return "err " + r.err
	}
	return "ok " + hxb(r.out)
}

func execOnce(tpl *pongo2.Template, ctx pongo2.Context) (r execRes) {
	defer func() {
		if p := recover(); p != nil {
			r = execRes{pan: fmt.Sprint(p)}
		}
	}()
	out, err := tpl.Execute(ctx)
	if err != nil {
		return execRes{err: err.Error()}
	}
	return execRes{out: out}
}

// c04Focus: programs built around the constructs that keep state between
// iterations, where a leak into the compiled template would show.
var c04Focus = []string{
	"{% for i in l %}{% cycle 'a' 'b' 'c' %}{% endfor %}",
	"{% for i in l %}{% cycle 'a' 'b' as c silent %}{{ c }}{% endfor %}|{% cycle 'x' 'y' %}",
	"{% ifchanged %}{{ s }}{% endifchanged %}",
	"{% for i in l %}{% ifchanged i %}c{% else %}s{% endifchanged %}{% endfor %}",
	"{% for i in la %}{% ifchanged %}{{ i }}{% endifchanged %}{% endfor %}",
	"{% if t %}\n  x\n{% endif %}\n\n{% for i in l %}\n  {{ i }}\n{% endfor %}\n",
	"  {% set q = 1 %}\n\n\n{{ q }}  {% if q %}\n\n y {% endif %}",
	"{% macro m(a) %}{% cycle 1 2 %}{{ a }}{% endmacro %}{{ m(s) }}{{ m(i) }}",
	"{% for i in l %}{% include 'inc.tpl' %}{% endfor %}",
}

func suiteC04(cfg Config, res *Result) {
	res.Rule = "one compiled template executed n = 2..5 times with a mix of contexts (equal and different, some failing: invalid key, division by zero via the context), for grammar-generated programs over every modelled tag plus programs focused on cycle / ifchanged / whitespace options / macros / include, under all four TrimBlocks x LStripBlocks settings (also toggled between executions); direct oracle: every result equals the first render of a freshly compiled copy with the same context and options; non-trivial = history containing two equal contexts; distinct by (program, history)"
	n := 2500
	if cfg.Thorough() {
		n = 40000
	}
	rng := NewRNG(cfg.Seed)
	for i := 0; i < n; i++ {
		g := NewGen(rng.Fork())
		pc := g.Program(1 + rng.Intn(5))
		if i%3 == 0 {
			pc.Src = c04Focus[rng.Intn(len(c04Focus))] + pc.Src
			if pc.Loaders == nil {
				pc.Loaders = []map[string]string{{}}
			}
			pc.Loaders[0]["inc.tpl"] = "{% cycle 'p' 'q' %}{% ifchanged %}z{% endifchanged %}"
		}
		pc.Trim = rng.Bool()
		pc.LStrip = rng.Bool()
		// contexts
		k := 2 + rng.Intn(4)
		base := *pc.Ctx
		var ctxs []CtxTerm
		for j := 0; j < k; j++ {
			switch rng.Intn(6) {
			case 0, 1:
				ctxs = append(ctxs, base)
			case 2:
				c2 := NewGen(rng.Fork()).StdCtx()
				ctxs = append(ctxs, c2)
			case 3:
				bad := CtxTerm{Names: append(append([]string{}, base.Names...), "bad key"), Vals: append(append([]VT{}, base.Vals...), vInt(1))}
				ctxs = append(ctxs, bad)
			case 4:
				if len(ctxs) > 0 {
					ctxs = append(ctxs, ctxs[rng.Intn(len(ctxs))])
				} else {
					ctxs = append(ctxs, base)
				}
			default:
				z := CtxTerm{Names: append([]string{}, base.Names...), Vals: append([]VT{}, base.Vals...)}
				for q := range z.Names {
					if z.Names[q] == "i" || z.Names[q] == "j" {
						z.Vals[q] = vInt(0)
					}
				}
				ctxs = append(ctxs, z)
			}
		}
		res.Cases++
		seenCtx := map[string]bool{}
		nt := false
		for _, c := range ctxs {
			w := c.Wire()
			if seenCtx[w] {
				nt = true
			}
			seenCtx[w] = true
		}
		if nt {
			res.DistinctNontrivial++
		}
		set, _ := pc.buildSet()
		var tpl *pongo2.Template
		var err error
		func() {
			defer func() { recover() }()
			tpl, err = pc.compile(set)
		}()
		if err != nil || tpl == nil {
			res.hist("compile-error")
			continue
		}
		res.hist(fmt.Sprintf("n=%d", k))
		toggle := rng.Chance(1, 4)
		for j, c := range ctxs {
			if toggle && j > 0 {
				tpl.Options.TrimBlocks = rng.Bool()
				tpl.Options.LStripBlocks = rng.Bool()
			}
			got := execOnce(tpl, c.Go())
			// reference: first render of a fresh compile with the same options
			fset, _ := pc.buildSet()
			var ftpl *pongo2.Template
			func() {
				defer func() { recover() }()
				ftpl, _ = pc.compile(fset)
			}()
			if ftpl == nil {
				break
			}
			ftpl.Options.TrimBlocks = tpl.Options.TrimBlocks
			ftpl.Options.LStripBlocks = tpl.Options.LStripBlocks
			want := execOnce(ftpl, c.Go())
			if got.String() != want.String() {
				sig := "c04-render-depends-on-history"
				res.add(Finding{Kind: "oracle", Proj: "history", Sig: sig, Case: fmt.Sprintf("%s ; execution #%d of %d; trim=%v lstrip=%v", pc.String(), j+1, k, tpl.Options.TrimBlocks, tpl.Options.LStripBlocks), Impl: got.String(), Model: "fresh compile renders " + want.String()})
				break
			}
		}
		if res.Cases <= 2 {
			res.sample(pc.String())
		}
	}
}

package main

import (
	"fmt"
	"math"
	"reflect"
	"strings"

	pongo2 "github.com/flosch/pongo2/v6"
)

// showGo renders a Go value the way the driver's showVal renders a model value.
func showGo(x any, depth int) string {
	if depth > 16 {
		return "?"
	}
	if x == nil {
		return "n"
	}
	if pv, ok := x.(*pongo2.Value); ok {
		if pv == nil {
			return "P"
		}
		s := "x0:"
		if pongo2.VerifValueSafe(pv) {
			s = "x1:"
		}
		return s + showGo(pv.Interface(), depth+1)
	}
	rv := reflect.ValueOf(x)
	if _, ok := x.(fmt.Stringer); ok {
		switch rv.Kind() {
		case reflect.String:
			return "g:s" + hxb(rv.String())
		case reflect.Int:
			return fmt.Sprintf("g:i%d", rv.Int())
		}
	}
	switch rv.Kind() {
	case reflect.Bool:
		if rv.Bool() {
			return "b1"
		}
		return "b0"
	case reflect.Int, reflect.Int8, reflect.Int16, reflect.Int32, reflect.Int64:
		return fmt.Sprintf("i%d", rv.Int())
	case reflect.Uint, reflect.Uint8, reflect.Uint16, reflect.Uint32, reflect.Uint64:
		return fmt.Sprintf("u%d", rv.Uint())
	case reflect.Float32, reflect.Float64:
		return fmt.Sprintf("f%d", math.Float64bits(rv.Float()))
	case reflect.String:
		return "s" + hxb(rv.String())
	case reflect.Slice, reflect.Array:
		parts := make([]string, rv.Len())
		for i := range parts {
			parts[i] = showGo(rv.Index(i).Interface(), depth+1)
		}
		tag := "l"
		if rv.Kind() == reflect.Array {
			tag = "a"
		}
		return fmt.Sprintf("%s%d[%s]", tag, rv.Len(), strings.Join(parts, ","))
	case reflect.Map:
		if rv.Type().Key().Kind() == reflect.String {
			return fmt.Sprintf("m%d", rv.Len())
		}
		return fmt.Sprintf("M%d", rv.Len())
	case reflect.Struct:
		return "S"
	case reflect.Ptr:
		if rv.IsNil() {
			return "P"
		}
		return "p:" + showGo(rv.Elem().Interface(), depth+1)
	}
	return "o"
}

// toValue turns a term into the *pongo2.Value ApplyFilter expects.
func toValue(v VT) *pongo2.Value {
	if v.K == "boxed" {
		if v.Safe {
			return pongo2.AsSafeValue(v.Inner.Go())
		}
		return pongo2.AsValue(v.Inner.Go())
	}
	return pongo2.AsValue(v.Go())
}

// implFilter applies one registered filter through the public API.
func implFilter(name string, v, p VT) (ans string, out *pongo2.Value) {
	defer func() {
		if r := recover(); r != nil {
			ans = "panic " + fmt.Sprint(r)
		}
	}()
	res, err := pongo2.ApplyFilter(name, toValue(v), toValue(p))
	if err != nil {
		return "err", nil
	}
	sf := 0
	if pongo2.VerifValueSafe(res) {
		sf = 1
	}
	return fmt.Sprintf("ok %d %s", sf, showGo(res.Interface(), 0)), res
}

func filterReq(name string, v, p VT) string {
	return "filter " + hxb(name) + " " + v.Wire() + " ; " + p.Wire()
}

package main

import (
	"fmt"
	"strings"

	pongo2 "github.com/flosch/pongo2/v6"
)

func init() {
	suites["c08-paths"] = suiteC08
	suites["c08-calls"] = suiteC08Calls
	suites["c08-shadow"] = suiteC08Shadow
}

// --- reference resolver over terms -----------------------------------------------

type refStatus int

const (
	refVal refStatus = iota // a value
	refNil                  // the empty value
	refErr                  // an execution error
)

// deref follows what the resolver follows silently: pointers and *Value boxes
func refDeref(v VT) (VT, bool) {
	for {
		switch v.K {
		case "ptr", "boxed":
			v = *v.Inner
		case "nilptr":
			return v, false
		default:
			return v, true
		}
	}
}

func refKey(v VT, k string) (VT, refStatus) {
	v, ok := refDeref(v)
	if !ok {
		return VT{}, refNil
	}
	switch v.K {
	case "smap":
		for i, kk := range v.Keys {
			if kk == k {
				if v.Items[i].K == "nil" {
					return VT{}, refNil
				}
				return v.Items[i], refVal
			}
		}
		return VT{}, refNil
	case "imap":
		return VT{}, refNil // a name cannot be a key of an int-keyed map
	case "struct":
		for i, kk := range v.Keys {
			if kk == k {
				if v.Items[i].K == "nil" {
					return VT{}, refNil
				}
				return v.Items[i], refVal
			}
		}
		return VT{}, refNil // missing or unexported
	case "nil":
		return VT{}, refNil
	}
	return VT{}, refErr
}

func refIndex(v VT, i int) (VT, refStatus) {
	v, ok := refDeref(v)
	if !ok {
		return VT{}, refNil
	}
	switch v.K {
	case "list", "arr":
		if i >= 0 && i < len(v.Items) {
			if v.Items[i].K == "nil" {
				return VT{}, refNil
			}
			return v.Items[i], refVal
		}
		return VT{}, refNil
	case "str":
		if i >= 0 && i < len(v.S) {
			return vUint(uint64(v.S[i])), refVal // a byte of the string
		}
		return VT{}, refNil
	case "nil":
		return VT{}, refNil
	}
	return VT{}, refErr
}

// --- generation --------------------------------------------------------------------

type c08Gen struct {
	r       *RNG
	nestBox bool // also put *Value boxes inside containers (compared with the model only)
}

func (g *c08Gen) leaf() VT {
	r := g.r
	switch r.Intn(7) {
	case 0:
		return vInt(int64(r.Intn(200)) - 100)
	case 1:
		return vStr(r.Pick([]string{"alpha", "", "b c", "x<y", "Zeta", "42"}))
	case 2:
		return vFloat([]float64{0, 1.5, -2.25, 100}[r.Intn(4)])
	case 3:
		return vBool(r.Bool())
	case 4:
		return vNil()
	case 5:
		return vUint(uint64(r.Intn(9)))
	}
	return vStr(r.Pick([]string{"k", "a", "A", "B", "0", "1"}))
}

var c08Keys = []string{"k", "a", "b", "key", "name", "x"}

func (g *c08Gen) value(d int) VT {
	r := g.r
	if d <= 0 || r.Chance(1, 4) {
		return g.leaf()
	}
	if g.nestBox && r.Chance(1, 5) {
		return vBoxed(g.value(d-1), r.Chance(1, 4))
	}
	switch r.Intn(8) {
	case 0, 1:
		n := 1 + r.Intn(3)
		keys := make([]string, 0, n)
		vals := make([]VT, 0, n)
		seen := map[string]bool{}
		for i := 0; i < n; i++ {
			k := r.Pick(c08Keys)
			if seen[k] {
				continue
			}
			seen[k] = true
			keys = append(keys, k)
			vals = append(vals, g.value(d-1))
		}
		m := vSMap(keys, vals)
		m.Rep = r.Intn(2) // the keys as string or as a named string type
		return m
	case 2, 3:
		n := r.Intn(4)
		xs := make([]VT, n)
		for i := range xs {
			xs[i] = g.value(d - 1)
		}
		return vList("any", xs...)
	case 4:
		return vStruct(g.value(d-1), g.value(d-1), g.value(d-1))
	case 5:
		return vPtr(vStruct(g.value(d-1), g.leaf(), g.value(d-1)))
	case 6:
		m := vIMap([]int64{1, 2}, []VT{g.value(d - 1), g.leaf()})
		m.Rep = r.Intn(3) // int, int64 or uint8 keys
		return m
	}
	n := r.Intn(4)
	xs := make([]VT, n)
	for i := range xs {
		xs[i] = vInt(int64(r.Intn(50)))
	}
	return vList("int", xs...)
}

// walk builds a path into v step by step together with the expected outcome
func (g *c08Gen) walk(name string, v VT, maxSteps int) (path string, leaf VT, st refStatus) {
	r := g.r
	path = name
	cur := v
	st = refVal
	if cur.K == "nil" {
		st = refNil
	}
	n := r.Intn(maxSteps + 1)
	for i := 0; i < n && st == refVal; i++ {
		last := i == n-1
		dv, ok := refDeref(cur)
		kind := dv.K
		if !ok {
			kind = "nilptr"
		}
		valid := r.Chance(4, 5)
		switch {
		case (kind == "smap" || kind == "struct") && valid && len(dv.Keys) > 0:
			k := r.Pick(dv.Keys)
			if last && r.Chance(1, 3) {
				path += `["` + k + `"]`
			} else {
				path += "." + k
			}
			cur, st = refKey(cur, k)
		case (kind == "list" || kind == "arr" || kind == "str") && valid:
			ln := len(dv.Items)
			if kind == "str" {
				ln = len(dv.S)
			}
			idx := r.Intn(ln + 2)
			if last && r.Chance(1, 3) {
				path += fmt.Sprintf("[%d]", idx)
			} else {
				path += fmt.Sprintf(".%d", idx)
			}
			cur, st = refIndex(cur, idx)
		case (kind == "smap" || kind == "imap") && last && r.Chance(1, 3):
			// a subscript whose type is not the map's key type (Go could convert it; the engine must not):
			// the key is not in the map, whatever it converts to
			var k string
			if kind == "smap" {
				k = r.Pick([]string{"65", "107", "1.5", "true", "0"})
			} else {
				k = r.Pick([]string{"1.5", "1.0", "2.0", `"1"`, `"2"`, "true"})
			}
			path += "[" + k + "]"
			st = refNil
		case kind == "imap" && valid && last:
			k := []int{1, 2, 3}[r.Intn(3)]
			// the key written as a number or computed: an integer is an int whatever operator made it
			path += "[" + r.Pick([]string{fmt.Sprint(k), fmt.Sprintf("%d * 1", k), fmt.Sprintf("%d / 2", 2*k), fmt.Sprintf("%d %% 4", k+4), fmt.Sprintf("%d + 1", k-1), fmt.Sprintf("%d - 1", k+1)}) + "]"
			found := false
			for j, kk := range dv.IKeys {
				if int(kk) == k {
					found = true
					cur = dv.Items[j]
					if cur.K == "nil" {
						st = refNil
					}
				}
			}
			if !found {
				st = refNil
			}
		default:
			// an arbitrary step: name or index, whatever the kind
			if r.Bool() {
				k := r.Pick([]string{"k", "zz", "A", "hidden", "missing", "B"})
				path += "." + k
				cur, st = refKey(cur, k)
			} else {
				idx := r.Intn(4)
				path += fmt.Sprintf(".%d", idx)
				if kind == "smap" || kind == "imap" || kind == "struct" {
					st = refErr // an index on a map or struct is an error
				} else {
					cur, st = refIndex(cur, idx)
				}
			}
		}
	}
	if st == refVal {
		leaf = cur
	}
	return
}

// two distinct struct types that print the same type name (local types of two functions):
// a field is found by the type it belongs to, whatever was resolved before in this process
func c08RecA() any {
	type Rec struct {
		Name   string
		Amount int
		Unit   string
	}
	return Rec{"stock", 7, "kg"}
}

func c08RecB() any {
	type Rec struct {
		Amount int
		Unit   string
		Extra  []int
		Name   string
	}
	return Rec{7, "kg", nil, "stock"}
}

func c08RecC() any {
	type Rec struct {
		Unit string
	}
	return &Rec{"kg"}
}

func c08SameNameTypes(cfg Config, res *Result) {
	recs := []any{c08RecA(), c08RecB(), c08RecC()}
	wants := []string{"stock/7/kg/n", "stock/7/kg/n", "//kg/n"}
	src := "{{ r.Name }}/{{ r.Amount }}/{{ r[\"Unit\"] }}/{% if r.Missing %}y{% else %}n{% endif %}"
	for round := 0; round < 3; round++ {
		for j, r := range recs {
			res.Cases++
			o := implRender(src, pongo2.Context{"r": r})
			if o.Panicked || o.Err != "" || o.Out != wants[j] {
				res.add(Finding{Kind: "oracle", Proj: "resolver", Sig: "c08-same-named-types", Case: fmt.Sprintf("%s with r = %#v (after values of other struct types called %T were resolved)", src, r, r), Impl: o.String(), Model: "ok " + hx(wants[j])})
			}
		}
	}
}

func suiteC08(cfg Config, res *Result) {
	defer c08Edges(res)
	defer c08SameNameTypes(cfg, res)
	res.Rule = "random nested contexts (maps with string and int keys, slices, structs with exported and unexported fields, pointers incl. nil, *Value boxes, scalars, nil) x access paths built by walking them (valid steps by dot and by a final subscript, plus arbitrary name/index steps: missing keys, out-of-range indexes, unexported fields, indexes on maps and scalars, nil along the way); reference resolver over the terms gives the expected leaf / empty value / execution error; oracle (model-free): `{{ path }}`, `{{ path|length }}` and `{% if path %}` render exactly like the same template over the leaf bound directly, the empty value renders empty without error, an error is an execution error; also compared with the Lean model; non-trivial = path with >= 2 steps; distinct by (context, path)"
	n := 5000
	if cfg.Thorough() {
		n = 100000
	}
	rng := NewRNG(cfg.Seed)
	g := &c08Gen{r: rng}
	var cases []ProgCase
	type exp struct {
		st   refStatus
		want string
	}
	wants := map[string]exp{}
	for i := 0; i < n; i++ {
		g.nestBox = rng.Chance(1, 6)
		names := []string{"d", "l", "st", "p", "np", "v", "bx"}
		vals := []VT{g.value(3), vList("any", g.value(2), g.value(2), g.value(1)), vStruct(g.value(2), g.leaf(), g.value(2)), vPtr(vStruct(g.value(2), g.leaf(), vNil())), {K: "nilptr"}, g.value(3),
			vBoxed(g.value(2), false)} // a *Value is unwrapped where it is a direct context value (a safe one marks everything reached through it safe: C02's opt-out, not compared here)
		root := rng.Intn(len(names))
		path, leaf, st := g.walk(names[root], vals[root], 4)
		form := rng.Intn(3)
		tpl := func(e string) string {
			switch form {
			case 0:
				return "{{ " + e + " }}"
			case 1:
				return "{{ " + e + "|length }}"
			}
			return "{% if " + e + " %}y{% else %}n{% endif %}"
		}
		ct := CtxTerm{Names: names, Vals: vals}
		pc := ProgCase{Src: tpl(path), Ctx: &ct, Label: []string{"print", "length", "if"}[form]}
		e := exp{st: st}
		switch st {
		case refVal:
			ref := ProgCase{Src: tpl("leaf"), Ctx: &CtxTerm{Names: []string{"leaf"}, Vals: []VT{leaf}}}
			ro := ref.RunImpl()
			if ro.Class != "ok" {
				continue
			}
			e.want = ro.Out
		case refNil:
			e.want = map[int]string{0: "", 1: "0", 2: "n"}[form]
		}
		cases = append(cases, pc)
		if !g.nestBox {
			wants[pc.Key()] = e
		} else {
			cases[len(cases)-1].Label = "nested-box"
		}
	}
	runProgCases(cfg, res, cases, "c08", func(c ProgCase, o ImplOutcome) bool { return strings.Count(c.Src, ".")+strings.Count(c.Src, "[") >= 2 },
		func(c ProgCase, o ImplOutcome) *Finding {
			e, ok := wants[c.Key()]
			if !ok {
				return nil
			}
			mk := func(sig, want string) *Finding {
				return &Finding{Kind: "oracle", Proj: "resolver", Sig: sig, Case: c.String(), Impl: o.Canon() + " " + o.Msg, Model: want}
			}
			if o.Class == "panic" {
				return mk("c08-panic", "never a panic")
			}
			switch e.st {
			case refErr:
				if o.Class != "exec" {
					return mk("c08-error-expected", "an execution error (step not applicable to this kind)")
				}
			default:
				if o.Class != "ok" || o.Out != e.want {
					return mk("c08-wrong-value", "renders like the leaf bound directly: ok "+hxb(e.want))
				}
			}
			return nil
		})
}

// --- calls ---------------------------------------------------------------------------

func suiteC08Calls(cfg Config, res *Result) {
	defer c08MixedCallees(res)
	res.Rule = "every function of the catalogue (23 signatures: no/one/two parameters, variadic, *Value parameters, implicit *ExecutionContext, interface parameters, (T, error) results failing and succeeding, *Value results incl. safe, 0/3 results, second result not an error, slice/map/struct parameters) and every method of the harness struct (value and pointer receivers, through values, pointers and nil pointers) and of its named string / int types x argument lists of length 0..3 drawn from literals and context values of every type; expected outcome computed by calling the Go function directly when the arguments fit its signature (and an execution error otherwise); oracle: `{{ f(args) }}` renders like the result bound directly / is an execution error; also compared with the Lean model's call protocol; non-trivial = all; distinct by call"
	rng := NewRNG(cfg.Seed)
	n := 4000
	if cfg.Thorough() {
		n = 80000
	}
	names := []string{"s", "i", "fl", "t", "n", "li", "m", "st", "p", "np", "la", "bx", "sf", "sv", "si"}
	vals := []VT{vStr("str"), vInt(5), vFloat(2.5), vBool(true), vNil(), vList("int", vInt(1), vInt(2)), vSMap([]string{"k"}, []VT{vInt(1)}),
		vStruct(vStr("fa"), vInt(7), vNil()), vPtr(vStruct(vStr("pa"), vInt(8), vNil())), {K: "nilptr"}, vList("any", vStr("x")), vBoxed(vStr("boxed"), false), vBoxed(vStr("<i>"), true),
		vStringerStr("named"), vStringerInt(9)}
	for id := range goFuncs {
		names = append(names, fmt.Sprintf("f%d", id))
		vals = append(vals, vFunc(id))
	}
	ct := CtxTerm{Names: names, Vals: vals}
	argPool := []string{"1", "-2", `"x"`, "2.5", "true", "s", "i", "fl", "t", "n", "li", "m", "st", "p", "la", "bx", "sf", "0", `""`, "i|add:1", "s|upper", "undefined", "np",
		"i * 2", "i / 2", "i % 3", "i + 1", "i - 1", "2 * 3"}
	var cases []ProgCase
	for i := 0; i < n; i++ {
		var callee string
		switch rng.Intn(4) {
		case 0:
			if rng.Chance(1, 4) {
				// methods of named non-struct types
				callee = rng.Pick([]string{"sv", "si", "s", "li", "m"}) + "." + rng.Pick([]string{"String", "Missing", "GetB"})
			} else {
				callee = rng.Pick([]string{"st", "p", "np"}) + "." + rng.Pick([]string{"GetB", "Echo", "PtrName", "Fail", "Sum", "Missing"})
			}
		default:
			callee = fmt.Sprintf("f%d", rng.Intn(len(goFuncs)))
		}
		k := rng.Intn(4)
		if rng.Chance(1, 8) {
			k = -1 // no parentheses at all
		}
		src := callee
		if k >= 0 {
			args := make([]string, k)
			for j := range args {
				args[j] = rng.Pick(argPool)
			}
			src += "(" + strings.Join(args, ", ") + ")"
		}
		form := rng.Intn(4)
		switch form {
		case 0:
			src = "{{ " + src + " }}"
		case 1:
			src = "{% autoescape off %}{{ " + src + " }}{% endautoescape %}"
		case 2:
			src = "{% if " + src + " %}y{% else %}n{% endif %}"
		default:
			src = "{{ " + src + "|length }}"
		}
		cases = append(cases, ProgCase{Src: src, Ctx: &ct, Label: "call"})
	}
	// well-typed calls whose result is computed by calling the Go function / method directly:
	// {{ call }} must render like that result bound directly (model-free)
	st := vals[7].Go().(VS1)
	pst := vals[8].Go().(*VS1)
	direct := []struct {
		expr string
		val  any
	}{
		{"sv.String", SString("named").String()}, {"si.String", SInt(9).String()}, {"st.GetB", st.GetB()}, {`st.Echo("x")`, st.Echo("x")}, {"p.PtrName", pst.PtrName()},
		{"p.GetB", pst.GetB()}, {"st.Sum(1, 2, i)", st.Sum(1, 2, 5)}, {"st.Sum()", st.Sum()}, {"f0()", goFuncs[0].(func() string)()}, {"f0", goFuncs[0].(func() string)()},
		{"f1(4)", goFuncs[1].(func(int) int)(4)}, {`f2("a", 3)`, goFuncs[2].(func(string, int) string)("a", 3)}, {"f3(1, 2, 3)", goFuncs[3].(func(...int) int)(1, 2, 3)},
		{"f3()", goFuncs[3].(func(...int) int)()}, {`f4("p", "x", "y")`, goFuncs[4].(func(string, ...string) string)("p", "x", "y")}, {"f8(i)", 6}, {`f10("q")`, "q@"},
		{"f11(li)|length", 2}, {"f19(li)", 2}, {`f25("a", "b")`, "v:a,b"}, {"f25()", "v:"}, {`f25(s)`, "v:str"}, {`f26("n", 1, 2, i)`, "n8"}, {`f26("n")`, "n0"}, {`f26("n", i)`, "n5"}, {"f1(i * 2)", 20}, {"f1(7 / 2)", 6}, {"f1(7 % 4)", 6}, {"f3(i * 1, 2 * 2)", 9}, {"st.Sum(i % 3, 2 * 3)", 8}, {"f8(i - 1)", 5}, {"f20(m)", 1}, {"f21(st)", st.A}, {`f22(1, "z")`, "z"}, {"f17(fl)", 3.0}, {"f18(t)", false},
	}
	wantDirect := map[string]string{}
	for _, d := range direct {
		ref := ProgCase{Src: "{{ leaf }}", Label: "ref"}
		set, _ := ref.buildSet()
		tpl, err := set.FromString("{{ leaf }}")
		if err != nil {
			continue
		}
		out, err := tpl.Execute(pongo2.Context{"leaf": d.val})
		if err != nil {
			continue
		}
		pc := ProgCase{Src: "{{ " + d.expr + " }}", Ctx: &ct, Label: "direct"}
		cases = append(cases, pc)
		wantDirect[pc.Key()] = out
	}
	// calls on something that is nothing: a missing name or key is the empty value, a nil held in a
	// list item, a map entry or a struct field is "not a function"
	for _, callee := range []string{"nl.0", "nl.1", "nm.k", "nm.zz", "ns.A", "ns.B", "nosuch", "n", "nl.0.x", "nm.k.y", "nl[0]", "nm[\"k\"]"} {
		for _, args := range []string{"()", "(1)", "(\"x\", i)"} {
			nct := CtxTerm{Names: []string{"nl", "nm", "ns", "n", "i"}, Vals: []VT{vList("any", vNil(), vStr("x")), vSMap([]string{"k"}, []VT{vNil()}), vStruct(vNil(), vInt(1), vNil()), vNil(), vInt(2)}}
			cases = append(cases, ProgCase{Src: "{{ " + callee + args + " }}|{{ " + callee + " }}", Ctx: &nct, Label: "call-on-nothing"})
		}
	}
	runProgCases(cfg, res, cases, "c08c", nil, func(c ProgCase, o ImplOutcome) *Finding {
		if want, ok := wantDirect[c.Key()]; ok && (o.Class != "ok" || o.Out != want) {
			return &Finding{Kind: "oracle", Proj: "resolver", Sig: "c08-call-wrong-value", Case: c.String(), Impl: o.Canon() + " " + o.Msg, Model: "renders like the function's result bound directly: ok " + hxb(want)}
		}
		if o.Class == "panic" {
			return &Finding{Kind: "oracle", Proj: "resolver", Sig: "c08-panic", Case: c.String(), Impl: "panic " + o.Msg, Model: "never a panic"}
		}
		return nil
	})
}

// --- shadowing -----------------------------------------------------------------------

func suiteC08Shadow(cfg Config, res *Result) {
	defer liveGlobals(res, "resolver", "c08-globals")
	defer globalsSnapshot(res, "resolver", "c08-globals-snapshot")
	defer nilShadowsGlobal(res, "resolver", "c08-nil-shadows-global")
	res.Rule = "a name bound at up to three levels — the set's Globals, the caller's context, a tag (set, with, for, macro parameter, include with) — in every combination; expected by construction: the tag's binding wins over the context, which wins over the globals, and each binding ends with its construct; oracle: output equals the expected marker string; also compared with the Lean model; non-trivial = name bound at >= 2 levels; distinct by program"
	rng := NewRNG(cfg.Seed)
	n := 1500
	if cfg.Thorough() {
		n = 20000
	}
	var cases []ProgCase
	wants := map[string]string{}
	nontriv := map[string]bool{}
	for i := 0; i < n; i++ {
		inGlob, inCtx := rng.Bool(), rng.Bool()
		outer := ""
		if inGlob {
			outer = "G"
		}
		if inCtx {
			outer = "C"
		}
		pc := ProgCase{}
		if inGlob {
			pc.Globals = CtxTerm{Names: []string{"x", "two"}, Vals: []VT{vStr("G"), vList("int", vInt(1), vInt(2))}}
		} else {
			pc.Globals = CtxTerm{Names: []string{"two"}, Vals: []VT{vList("int", vInt(1), vInt(2))}}
		}
		ct := CtxTerm{}
		if inCtx {
			ct = CtxTerm{Names: []string{"x"}, Vals: []VT{vStr("C")}}
		}
		pc.Ctx = &ct
		var src, want string
		levels := 0
		if inGlob {
			levels++
		}
		if inCtx {
			levels++
		}
		switch rng.Intn(10) {
		case 8:
			// a macro parameter left without argument and without default is bound (to nothing) all the same
			switch rng.Intn(3) {
			case 0:
				src, want = "{% macro m(x) %}[{{ x }}]{% endmacro %}{{ m() }}{{ x }}", "[]"+outer
			case 1:
				src, want = "{% macro m(a, x) %}[{{ a }}{{ x }}]{% endmacro %}{{ m(\"T\") }}{{ x }}", "[T]"+outer
			default:
				src, want = "{% macro m(x) %}[{% if x %}y{% else %}n{% endif %}]{% endmacro %}{{ m() }}", "[n]"
			}
			levels++
		case 9:
			// ... and so is a name a tag has bound to the empty value
			switch rng.Intn(3) {
			case 0:
				src, want = "{% set x = nothing %}[{{ x }}]", "[]"
			case 1:
				src, want = "{% with x=nothing %}[{{ x }}]{% endwith %}{{ x }}", "[]"+outer
			default:
				src, want = "{% macro m(x) %}[{{ x }}]{% endmacro %}{{ m(nothing) }}{{ x }}", "[]"+outer
			}
			levels++
		case 0:
			src, want = "[{{ x }}]", "["+outer+"]"
		case 1:
			src, want = "{{ x }}{% set x = \"T\" %}{{ x }}", outer+"T"
			levels++
		case 2:
			src, want = "{% with x=\"T\" %}{{ x }}{% endwith %}{{ x }}", "T"+outer
			levels++
		case 3:
			src, want = "{% for x in two %}{{ x }}{% endfor %}{{ x }}", "12"+outer
			levels++
		case 4:
			src, want = "{% macro m(x) %}{{ x }}{% endmacro %}{{ m(\"T\") }}{{ x }}", "T"+outer
			levels++
		case 5:
			pc.Loaders = []map[string]string{{"i.tpl": "<{{ x }}>"}}
			src, want = `{% include "i.tpl" with x="T" %}{% include "i.tpl" %}{{ x }}`, "&lt;T&gt;"[0:0]+"<T><"+outer+">"+outer
			levels++
		case 6:
			// a sub-template sees the includer's current bindings, tags over context over globals
			pc.Loaders = []map[string]string{{"i.tpl": "({{ x }})"}}
			switch rng.Intn(4) {
			case 0:
				src, want = `{% set x = "T" %}{% include "i.tpl" %}`, "(T)"
			case 1:
				src, want = `{% with x="T" %}{% include "i.tpl" %}{% endwith %}{% include "i.tpl" %}`, "(T)("+outer+")"
			case 2:
				src, want = `{% for x in two %}{% include "i.tpl" %}{% endfor %}`, "(1)(2)"
			default:
				src, want = `{% set f = "i.tpl" %}{% set x = "T" %}{% include f %}`, "(T)"
			}
			levels++
		default:
			src, want = "{% with y=x %}{% set x = \"T\" %}{{ x }}{{ y }}{% endwith %}{{ x }}", "T"+outer+outer
			levels++
		}
		pc.Src = src
		pc.Label = "shadow"
		cases = append(cases, pc)
		wants[pc.Key()] = want
		nontriv[pc.Key()] = levels >= 2
	}
	runProgCases(cfg, res, cases, "c08s", func(c ProgCase, o ImplOutcome) bool { return nontriv[c.Key()] },
		func(c ProgCase, o ImplOutcome) *Finding {
			want := wants[c.Key()]
			if o.Class != "ok" || o.Out != want {
				return &Finding{Kind: "oracle", Proj: "resolver", Sig: "c08-shadowing", Case: c.String(), Impl: o.Canon() + " " + o.Msg, Model: "ok " + hxb(want)}
			}
			return nil
		})
}

type c08Holder struct {
	Extra any
	Items []any
}

// c08Edges: a nil met in the middle of a path (in a map entry, a list item, an interface-typed
// field) and a negative or out-of-range subscript are the empty value — never a panic, never an
// element picked by accident
func c08Edges(res *Result) {
	ctx := pongo2.Context{
		"m": map[string]any{"n": nil, "sub": map[string]any{"k": "v"}}, "l": []any{nil, map[string]any{"k": 1}},
		"st": c08Holder{Items: []any{nil}}, "pst": &c08Holder{}, "a": []int{10, 20, 30}, "arr": [2]string{"x", "y"}, "s": "hey",
		"one": uint8(1), "i": -1, "big": int64(-3), "fl": -2.5, "zero": 0, "three": 3,
	}
	for _, c := range [][2]string{
		{"{{ m.n.foo }}", ""}, {"{{ m.n.foo.bar }}", ""}, {"{{ l.0.k }}", ""}, {"{{ l.1.k }}", "1"}, {"{{ st.Extra.foo }}", ""}, {"{{ pst.Extra.foo }}", ""},
		{"{{ st.Items.0.x }}", ""}, {"{{ m.n.0 }}", ""}, {"{{ m.n[0] }}", ""}, {"{{ m.sub.k }}", "v"}, {"{{ m.n|default:\"d\" }}", "d"}, {"{% if m.n.foo %}y{% else %}n{% endif %}", "n"},
		{"{{ a[-1] }}", ""}, {"{{ a[i] }}", ""}, {"{{ a[big] }}", ""}, {"{{ a[fl] }}", ""}, {"{{ a[zero - 1] }}", ""}, {"{{ a[three] }}", ""}, {"{{ a[2] }}", "30"}, {"{{ a[zero] }}", "10"},
		{"{{ arr[-1] }}", ""}, {"{{ arr[1] }}", "y"}, {"{{ s[-1] }}", ""}, {"{{ a.3 }}", ""}, {"{{ a.2 }}", "30"}, {"{% for v in a %}{{ a[forloop.Counter0 - 1] }};{% endfor %}", ";10;20;"},
		// a subscript that is no number is no index (D61): nothing there, not the first element
		{"{{ a['abc'] }}|{{ a[nosuch] }}|{{ a[true] }}|{{ a[m] }}|{{ s['x'] }}|{{ arr[a] }}", "|||||"}, {"{{ a['1'] }}|{{ a[1.9] }}|{{ a['2.0'] }}|{{ a[one] }}", "20|20|30|20"},
	} {
		res.Cases++
		res.DistinctNontrivial++
		r := implRender(strings.ReplaceAll(c[0], "\\\"", "\""), ctx)
		if r.Panicked || r.Err != "" || r.Out != c[1] {
			res.add(Finding{Kind: "oracle", Proj: "resolver", Sig: "c08-edge", Case: c[0], Impl: r.String(), Model: "ok " + hx(c[1])})
		}
	}
}

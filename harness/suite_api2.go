package main

// Entry points and fields of the public API that the generated programs do not go through
// (second batch): ExecuteBlocks, ExecutionContext.Shared, Template.Options / Options.Update after
// compilation, ReplaceTag / ReplaceFilter against bans, FromCache after failures, the real-file
// loaders under concurrency, several loaders behind one set, ApplyFilter with a nil parameter and
// with safe inputs, RenderTemplateFile, nested Context values in Globals.  Each function is called
// from the suite of the property that governs it; all oracles are model-free.

import (
	"bytes"
	"fmt"
	"html"
	"net/http"
	"os"
	"path/filepath"
	"strings"
	"sync"
	"testing/fstest"
	"time"

	pongo2 "github.com/flosch/pongo2/v6"
)

// --- a tag that uses ExecutionContext.Shared the way an application's tag would ---

type sharedNode struct{}

func (sharedNode) Execute(ctx *pongo2.ExecutionContext, w pongo2.TemplateWriter) *pongo2.Error {
	if ctx.Shared == nil {
		w.WriteString("[shared:nil]")
		return nil
	}
	n, _ := ctx.Shared["verif_n"].(int)
	ctx.Shared["verif_n"] = n + 1
	w.WriteString(fmt.Sprintf("[shared:%d]", n))
	return nil
}

var sharedTagOnce sync.Once

func registerSharedTag() {
	sharedTagOnce.Do(func() {
		pongo2.RegisterTag("verifshared", func(doc *pongo2.Parser, start *pongo2.Token, args *pongo2.Parser) (pongo2.INodeTag, *pongo2.Error) {
			return sharedNode{}, nil
		})
	})
}

func oracleFail(res *Result, proj, sig, c, got, want string) {
	res.add(Finding{Kind: "oracle", Proj: proj, Sig: sig, Case: c, Impl: got, Model: want})
}

// within runs f and gives up after d (the goroutine is left behind: it holds nothing the harness needs).
func within(d time.Duration, f func() string) string {
	done := make(chan string, 1)
	go func() {
		defer func() {
			if p := recover(); p != nil {
				done <- fmt.Sprint("panic ", p)
			}
		}()
		done <- f()
	}()
	select {
	case s := <-done:
		return s
	case <-time.After(d):
		hangSeenAt.CompareAndSwap(0, time.Now().UnixNano())
		return "hang"
	}
}

// c01CacheAfterFailure: a FromCache call that fails leaves the set usable
func c01CacheAfterFailure(res *Result) {
	for _, debug := range []bool{false, true} {
		set := pongo2.NewSet("c01-cache", &memLoader{files: map[string]string{"/ok.tpl": "fine", "/bad.tpl": "{% if %}", "/badinc.tpl": `{% include "/bad.tpl" %}`, "/exec.tpl": "{{ 1/0 }}"}})
		set.Debug = debug
		for _, name := range []string{"/missing.tpl", "/ok.tpl", "/bad.tpl", "/ok.tpl", "/badinc.tpl", "/missing.tpl", "/exec.tpl", "/ok.tpl"} {
			res.Cases++
			got := within(5*time.Second, func() string {
				tpl, err := set.FromCache(name)
				if err != nil {
					return "error"
				}
				if _, err := tpl.Execute(nil); err != nil {
					return "exec-error"
				}
				return "ok"
			})
			want := map[string]string{"/missing.tpl": "error", "/ok.tpl": "ok", "/bad.tpl": "error", "/badinc.tpl": "error", "/exec.tpl": "exec-error"}[name]
			if got != want {
				oracleFail(res, "totality", "c01-fromcache-after-failure", fmt.Sprintf("FromCache(%q) after failed FromCache calls on the same set (Debug=%v)", name, debug), got, want)
				if got == "hang" {
					return
				}
			}
		}
		done := within(5*time.Second, func() string { set.CleanCache(); return "ok" })
		if done != "ok" {
			oracleFail(res, "totality", "c01-fromcache-after-failure", "CleanCache() after failed FromCache calls", done, "ok")
		}
	}
}

// c02Blocks: ExecuteBlocks is one more way to render; context text comes out escaped there too
func c02Blocks(res *Result) {
	const marker = `<m1>&'";`
	esc := html.EscapeString(marker)
	esc = strings.ReplaceAll(esc, "&#34;", "&quot;")
	ctx := pongo2.Context{"x": marker, "items": []string{marker}, "m": map[string]string{"k": marker},
		"labels": []ptrStringer{{text: marker}}, "user": &psHolder{One: ptrStringer{text: marker}, Many: []ptrStringer{{text: marker}}}, "ptr": &ptrStringer{text: marker}}
	files := map[string]string{
		"/base.html": `<h1>{% block title %}base {{ x }}{% endblock %}</h1>{% block body %}base body {{ x }}{% endblock %}`,
		"/page.html": `{% extends "/base.html" %}{% block body %}page {{ x }} {{ items.0 }}{% for i in items %}{{ i }}{% endfor %}{{ m.k }}{% firstof x %}{% endblock %}`,
		"/solo.html": `{% block title %}{{ x }}{% endblock %}|{% block body %}{% for i in items %}{{ i }}{% endfor %}{{ m.k }}{% firstof x %}{% endblock %}`,
	}
	set := pongo2.NewSet("c02-blocks", &memLoader{files: files})
	for _, name := range []string{"/solo.html", "/page.html", "/base.html"} {
		tpl, err := set.FromFile(name)
		if err != nil {
			continue
		}
		blocks, err := tpl.ExecuteBlocks(ctx, []string{"title", "body"})
		res.Cases++
		if err != nil {
			continue
		}
		for bn, out := range blocks {
			if strings.Contains(out, marker) || !strings.Contains(out, esc) {
				oracleFail(res, "taint", "c02-raw:executeblocks", fmt.Sprintf("ExecuteBlocks(%s) block %s", name, bn), out, "the context text only in escaped form: "+esc)
			}
		}
	}
	// values whose String method is on the pointer type, reached in every way
	for _, src := range []string{`{{ ptr }}`, `{{ labels.0 }}`, `{{ labels[0] }}`, `{% for l in labels %}{{ l }}{% endfor %}`, `{{ user.One }}`, `{{ user.Many.0 }}`,
		`{% for l in user.Many %}[{{ l }}]{% endfor %}`, `{% with l=user.One %}{{ l }}{% endwith %}`, `{% set l = labels.0 %}{{ l }}`, `{% for l in labels %}{% cycle l "-" %}{% endfor %}`,
		`{% macro show(v) %}{{ v }}{% endmacro %}{{ show(user.One) }}`, `{{ labels|first }}`, `{{ labels|last }}`, `{% firstof labels.0 %}`, `{{ labels|join:"," }}`} {
		res.Cases++
		r := implRender(src, ctx)
		if r.Err == "" && strings.Contains(r.Out, marker) {
			oracleFail(res, "taint", "c02-raw:pointer-stringer", src, r.String(), "the context text only in escaped form")
		}
	}
}

// c03Replace: replacing a registered tag / filter does not lift a set's ban of that name
func c03Replace(res *Result) {
	ran := 0
	mkTag := func(text string) pongo2.TagParser {
		return func(doc *pongo2.Parser, start *pongo2.Token, args *pongo2.Parser) (pongo2.INodeTag, *pongo2.Error) {
			ran++
			return textNode(text), nil
		}
	}
	mkFilter := func(text string) pongo2.FilterFunction {
		return func(in, param *pongo2.Value) (*pongo2.Value, *pongo2.Error) {
			ran++
			return pongo2.AsValue(text), nil
		}
	}
	pongo2.RegisterTag("verifreplaced", mkTag("T1"))
	pongo2.RegisterFilter("verifreplaced", mkFilter("F1"))
	banned := pongo2.NewSet("c03-replace", &memLoader{files: map[string]string{"/inc.tpl": "{% verifreplaced %}{{ 1|verifreplaced }}"}})
	banned.BanTag("verifreplaced")
	banned.BanFilter("verifreplaced")
	free := pongo2.NewSet("c03-replace-free", &memLoader{files: map[string]string{}})
	pongo2.ReplaceTag("verifreplaced", mkTag("T2"))
	pongo2.ReplaceFilter("verifreplaced", mkFilter("F2"))
	for _, src := range []string{"{% verifreplaced %}", "{{ 1|verifreplaced }}", "{% if 0 %}{% verifreplaced %}{% endif %}", "{% filter verifreplaced %}x{% endfilter %}", `{% include "/inc.tpl" %}`} {
		res.Cases++
		ran = 0
		tpl, err := banned.FromString(src)
		got := "compile error"
		if err == nil {
			if out, err := tpl.Execute(nil); err != nil {
				got = "execution error"
			} else {
				got = "renders " + out
			}
		}
		if err == nil || ran != 0 {
			oracleFail(res, "ban", "c03-replace-lifts-ban", src+" in a set that banned tag and filter `verifreplaced` before ReplaceTag / ReplaceFilter", fmt.Sprintf("%s (banned code ran %d times)", got, ran), "compile error, nothing runs")
		}
	}
	for src, want := range map[string]string{"{% verifreplaced %}": "T2", "{{ 1|verifreplaced }}": "F2"} {
		res.Cases++
		if r := execOnce(mustCompile(free, src), nil); r.out != want {
			oracleFail(res, "ban", "c03-replace-lifts-ban", src+" in another set", r.String(), want)
		}
	}
}

type textNode string

func (t textNode) Execute(ctx *pongo2.ExecutionContext, w pongo2.TemplateWriter) *pongo2.Error {
	w.WriteString(string(t))
	return nil
}

func mustCompile(set *pongo2.TemplateSet, src string) *pongo2.Template {
	tpl, err := set.FromString(src)
	if err != nil {
		return nil
	}
	return tpl
}

// c04Shared: what a tag keeps in ExecutionContext.Shared does not outlive the execution
func c04Shared(res *Result) {
	registerSharedTag()
	set := pongo2.NewSet("c04-shared", &memLoader{files: map[string]string{"/inc.tpl": "i{% verifshared %}"}})
	for _, src := range []string{"{% verifshared %}{% verifshared %}", `{% verifshared %}{% include "/inc.tpl" %}`, "{% verifshared %}{{ 1/zero }}"} {
		tpl := mustCompile(set, src)
		if tpl == nil {
			continue
		}
		var outs []string
		for i, c := range []pongo2.Context{{"zero": 1}, {"zero": 0}, {"zero": 1}, {"zero": 1}} {
			res.Cases++
			r := execOnce(tpl, c)
			if i != 1 {
				outs = append(outs, r.String())
			}
		}
		fresh := execOnce(mustCompile(pongo2.NewSet("c04-shared-fresh", &memLoader{files: map[string]string{"/inc.tpl": "i{% verifshared %}"}}), src), pongo2.Context{"zero": 1}).String()
		for i, o := range outs {
			if o != fresh {
				oracleFail(res, "history", "c04-shared-outlives-execution", fmt.Sprintf("%s, execution %d on one compiled template", src, i+1), o, fresh+" (a fresh compile)")
				break
			}
		}
	}
}

// c14Shared: the four Execute variants give the same bytes for a tag using ExecutionContext.Shared
func c14Shared(res *Result) {
	registerSharedTag()
	set := pongo2.NewSet("c14-shared", &memLoader{files: map[string]string{}})
	tpl := mustCompile(set, "a{% verifshared %}b{% verifshared %}")
	if tpl == nil {
		return
	}
	var outs []string
	s, _ := tpl.Execute(nil)
	outs = append(outs, s)
	b, _ := tpl.ExecuteBytes(nil)
	outs = append(outs, string(b))
	var w1, w2 bytes.Buffer
	tpl.ExecuteWriter(nil, &w1)
	tpl.ExecuteWriterUnbuffered(nil, &w2)
	outs = append(outs, w1.String(), w2.String())
	res.Cases += 4
	for i, o := range outs {
		if o != outs[0] {
			oracleFail(res, "variants", "c14-variants-differ", "a{% verifshared %}b{% verifshared %} (a tag counting in ExecutionContext.Shared): Execute, ExecuteBytes, ExecuteWriter, ExecuteWriterUnbuffered in turn", fmt.Sprintf("variant %d: %q", i, o), fmt.Sprintf("%q", outs[0]))
			break
		}
	}
}

// c05RealLoaders: the loaders over real files serve any number of goroutines
func c05RealLoaders(res *Result) {
	root, err := os.MkdirTemp("", "verif-c05-tree-")
	if err != nil {
		return
	}
	defer os.RemoveAll(root)
	mapfs := fstest.MapFS{}
	want := map[string]string{}
	for i := 0; i < 8; i++ {
		name := fmt.Sprintf("f%d.tpl", i)
		body := strings.Repeat(fmt.Sprintf("<%d>", i), 200+50*i)
		os.WriteFile(filepath.Join(root, name), []byte(body), 0o644)
		mapfs[name] = &fstest.MapFile{Data: []byte(body)}
		want[name] = body
	}
	for lname, l := range map[string]pongo2.TemplateLoader{
		"FSLoader":                  pongo2.NewFSLoader(mapfs),
		"FSLoader(os.DirFS)":        pongo2.NewFSLoader(os.DirFS(root)),
		"HttpFilesystemLoader":      pongo2.MustNewHttpFileSystemLoader(http.Dir(root), ""),
		"LocalFilesystemLoader":     pongo2.MustNewLocalFileSystemLoader(root),
		"SandboxedFilesystemLoader": func() pongo2.TemplateLoader { l, _ := pongo2.NewSandboxedFilesystemLoader(root); return l }(),
	} {
		set := pongo2.NewSet("c05-real", l)
		var wg sync.WaitGroup
		var mu sync.Mutex
		bad := ""
		for g := 0; g < 8; g++ {
			wg.Add(1)
			go func(g int) {
				defer wg.Done()
				defer func() {
					if p := recover(); p != nil {
						mu.Lock()
						bad = fmt.Sprint("panic: ", p)
						mu.Unlock()
					}
				}()
				name := fmt.Sprintf("f%d.tpl", g)
				for k := 0; k < 40; k++ {
					out, err := set.RenderTemplateFile(name, nil)
					if err != nil || out != want[name] {
						mu.Lock()
						if bad == "" {
							bad = fmt.Sprintf("%s renders %d bytes starting %.30q (error %v)", name, len(out), out, err)
						}
						mu.Unlock()
						return
					}
				}
			}(g)
		}
		wg.Wait()
		res.Cases += 8 * 40
		if bad != "" {
			oracleFail(res, "race", "c05-loader-mixes-files", "8 goroutines render 8 different files through one "+lname, bad, "each file renders to its own content")
		}
	}
}

// optionSteps: Template.Options changed between executions of one compiled template; every
// execution renders like a fresh compile in a set with those options
func optionSteps(res *Result, proj, sig string) {
	srcs := []string{"head\n  {% if yes %}\n  body \t\n\t {% endif %}\ntail\n", "a\n{% for i in two %}\n  {{ i }}\n  {% endfor %}\nz", "  {% comment %} c {% endcomment %}\n x\n"}
	ctx := pongo2.Context{"yes": true, "two": []int{1, 2}}
	steps := [][2]bool{{true, true}, {false, false}, {true, false}, {false, true}, {false, false}, {true, true}}
	for _, src := range srcs {
		for _, how := range []string{"fields", "update", "assign"} {
			tpl := mustCompile(pongo2.NewSet("opt", &memLoader{files: map[string]string{}}), src)
			if tpl == nil {
				continue
			}
			for i, st := range steps {
				res.Cases++
				if how == "fields" {
					tpl.Options.TrimBlocks, tpl.Options.LStripBlocks = st[0], st[1]
				} else if how == "assign" {
					tpl.Options = &pongo2.Options{TrimBlocks: st[0], LStripBlocks: st[1]}
				} else {
					tpl.Options.Update(&pongo2.Options{TrimBlocks: st[0], LStripBlocks: st[1]})
				}
				got := execOnce(tpl, ctx).String()
				fs := pongo2.NewSet("opt-fresh", &memLoader{files: map[string]string{}})
				fs.Options.TrimBlocks, fs.Options.LStripBlocks = st[0], st[1]
				want := execOnce(mustCompile(fs, src), ctx).String()
				if got != want {
					oracleFail(res, proj, sig, fmt.Sprintf("%q: Template.Options set (%s) to TrimBlocks=%v LStripBlocks=%v at step %d of %v", src, how, st[0], st[1], i+1, steps), got, want+" (fresh compile with these options)")
					break
				}
			}
		}
	}
	// Options.Update is an assignment, also on the set
	set := pongo2.NewSet("opt-set", &memLoader{files: map[string]string{}})
	set.Options.Update(&pongo2.Options{TrimBlocks: true, LStripBlocks: true})
	set.Options.Update(&pongo2.Options{})
	res.Cases++
	if set.Options.TrimBlocks || set.Options.LStripBlocks {
		oracleFail(res, proj, sig, "set.Options.Update(all on) then set.Options.Update(&Options{})", fmt.Sprintf("%+v", *set.Options), "all off")
	}
}

// routesAgree: the same source through FromBytes (with the caller reusing its buffer), FromFile,
// FromCache and ExecuteWriter renders as through FromString
func routesAgree(res *Result, proj, sig string, srcs []string, ctx pongo2.Context) {
	for _, src := range srcs {
		want := implRender(src, ctx).String()
		for _, how := range []string{"bytes", "file", "cache", "writer"} {
			res.Cases++
			if got := implRenderVia(how, src, ctx).String(); got != want && !(strings.HasPrefix(got, "err") && strings.HasPrefix(want, "err")) {
				oracleFail(res, proj, sig, fmt.Sprintf("%q through %s", src, how), got, want+" (through FromString)")
			}
		}
	}
}

// c10Blocks: ExecuteBlocks yields, for a block, the part of the document that block renders to
func c10Blocks(res *Result) {
	files := map[string]string{
		"/root.html": `<{% block page %}[{% block title %}root-title{% endblock %}]{% endblock %}>`,
		"/mid.html":  `{% extends "/root.html" %}{% block page %}mid:{% block title %}mid-title({{ block.Super }}){% endblock %}{% endblock %}`,
		"/leaf.html": `{% extends "/mid.html" %}{% block title %}leaf-title({{ block.Super }}){% endblock %}`,
	}
	set := pongo2.NewSet("c10-blocks", &memLoader{files: files})
	for _, name := range []string{"/leaf.html", "/mid.html", "/root.html"} {
		tpl, err := set.FromFile(name)
		if err != nil {
			continue
		}
		doc, err := tpl.Execute(nil)
		if err != nil || len(doc) < 2 {
			continue
		}
		res.Cases++
		blocks, err := tpl.ExecuteBlocks(nil, []string{"page"})
		if err != nil || blocks["page"] != doc[1:len(doc)-1] {
			oracleFail(res, "reference", "c10-executeblocks", fmt.Sprintf("ExecuteBlocks(%s, page); the document is %q", name, doc), fmt.Sprintf("%q %v", blocks["page"], err), doc[1:len(doc)-1])
		}
	}
}

// c12LiveGlobals: a template sees the set's Globals as they are when it is executed, however it was obtained
func c12LiveGlobals(res *Result) {
	set := pongo2.NewSet("c12-live", &memLoader{files: map[string]string{"/page.tpl": `{{ site }}|{{ late }}|{% with site="w" %}{{ site }}{{ late }}{% endwith %}|{{ site }}`}})
	set.Globals["site"] = "A"
	get := map[string]func(string) (*pongo2.Template, error){"FromFile": set.FromFile, "FromCache": set.FromCache}
	step := func(label string, ctx pongo2.Context, want string) {
		for _, how := range []string{"FromFile", "FromCache"} {
			res.Cases++
			tpl, err := get[how]("/page.tpl")
			if err != nil {
				continue
			}
			if r := execOnce(tpl, ctx); r.out != want {
				oracleFail(res, "reference", "c12-globals-not-live", fmt.Sprintf("%s template, %s", how, label), r.String(), want)
			}
		}
	}
	step("Globals{site: A}", nil, "A||w|A")
	set.Globals["late"] = "L"
	set.Globals["site"] = "B"
	step("after Globals[late]=L, Globals[site]=B", nil, "B|L|wL|B")
	step("same, context {late: c}", pongo2.Context{"late": "c"}, "B|c|wc|B")
	delete(set.Globals, "late")
	step("after delete(Globals, late)", nil, "B||w|B")
}

// c13UnderSwitch: a macro's result is already-escaped markup whatever the package-level default says
func c13UnderSwitch(res *Result) {
	defer pongo2.SetAutoescape(true)
	const src = `{% macro m(v) %}<b>{{ v }}</b>{% endmacro %}{% autoescape on %}{{ m(x) }}|{% with r=m(x) %}{{ r }}{% endwith %}{% endautoescape %}`
	ctx := pongo2.Context{"x": "<&>"}
	want := implRender(src, ctx).String()
	pongo2.SetAutoescape(false)
	got := implRender(src, ctx).String()
	pongo2.SetAutoescape(true)
	res.Cases++
	if got != want {
		oracleFail(res, "binding", "c13-macro-result-not-safe", src+" after SetAutoescape(false)", got, want+" (as with the default on: the region decides)")
	}
}

// c16TwoLoaders: an error in a file served by the second loader of a set names that file
func c16TwoLoaders(res *Result) {
	dirA, err := os.MkdirTemp("", "verif-c16-a-")
	if err != nil {
		return
	}
	defer os.RemoveAll(dirA)
	dirB, err := os.MkdirTemp("", "verif-c16-b-")
	if err != nil {
		return
	}
	defer os.RemoveAll(dirB)
	os.WriteFile(filepath.Join(dirA, "other.tpl"), []byte("fine {{ 1 }}\n"), 0o644)
	os.WriteFile(filepath.Join(dirB, "broken.tpl"), []byte("first line\nsecond line\n   <p>{{ name|nosuchfilter }}</p>\n"), 0o644)
	os.WriteFile(filepath.Join(dirB, "runtime.tpl"), []byte("first line\n\n      {{ 7 / zero }}\n"), 0o644)
	set := pongo2.NewSet("c16-two", pongo2.MustNewLocalFileSystemLoader(dirA))
	set.AddLoader(pongo2.MustNewLocalFileSystemLoader(dirB))
	source := func(name string) (string, bool) {
		if filepath.IsAbs(name) {
			b, err := os.ReadFile(name)
			return string(b), err == nil
		}
		for _, d := range []string{dirA, dirB} {
			if b, err := os.ReadFile(filepath.Join(d, name)); err == nil {
				return string(b), true
			}
		}
		return "", false
	}
	check := func(what string, err error) {
		res.Cases++
		e, ok := err.(*pongo2.Error)
		if !ok || e == nil {
			oracleFail(res, "positions", "c16-second-loader", what, fmt.Sprint(err), "a *pongo2.Error")
			return
		}
		src, found := source(e.Filename)
		if !found {
			oracleFail(res, "positions", "c16-second-loader", what, fmt.Sprintf("the error names %q", e.Filename), "a file the set serves (the template lives in the second loader's directory)")
			return
		}
		lines := strings.Split(src, "\n")
		if e.Token == nil || e.Line < 1 || e.Line > len(lines) || e.Column < 1 || e.Column-1 > len(lines[e.Line-1]) || !strings.HasPrefix(lines[e.Line-1][e.Column-1:], e.Token.Val) {
			oracleFail(res, "positions", "c16-second-loader", what, fmt.Sprintf("%v", e), "the token's text at the reported position of the named file")
		}
	}
	_, err = set.FromFile("broken.tpl")
	check("FromFile(broken.tpl), served by the second of two LocalFilesystemLoaders", err)
	if tpl, err := set.FromFile("runtime.tpl"); err == nil {
		_, err = tpl.Execute(pongo2.Context{"zero": 0})
		check("executing runtime.tpl, served by the second of two LocalFilesystemLoaders", err)
	}
}

// c17UnderSwitch: with the package-level default off, {{ v|f }} is f's result in every set and template, old or new
func c17UnderSwitch(res *Result) {
	defer pongo2.SetAutoescape(true)
	filters := []string{"escape", "e", "escapejs", "urlencode", "iriencode", "addslashes", "striptags", "safe"}
	oldSet := pongo2.NewSet("c17-old", &memLoader{files: map[string]string{}})
	old := map[string]*pongo2.Template{}
	for _, f := range filters {
		old[f] = mustCompile(oldSet, "{{ v|"+f+" }}")
	}
	oldDefault, _ := pongo2.FromString("{{ v|iriencode }}")
	pongo2.SetAutoescape(false)
	newSet := pongo2.NewSet("c17-new", &memLoader{files: map[string]string{}})
	for _, in := range []string{`<a href="x?a=1&b=2">it's</a>`, `&`, `'&'`, `a\'b`, `/#%[]=:;$&()+,!?*@'~`, "plain"} {
		for _, f := range filters {
			fv, ferr := pongo2.ApplyFilter(f, pongo2.AsValue(in), pongo2.AsValue(nil))
			if ferr != nil {
				continue
			}
			want := fv.String()
			for label, tpl := range map[string]*pongo2.Template{"set and template from before the switch": old[f], "set from before, template compiled after": mustCompile(oldSet, "{{ v|"+f+" }}"), "set created after": mustCompile(newSet, "{{ v|"+f+" }}")} {
				res.Cases++
				if r := execOnce(tpl, pongo2.Context{"v": in}); r.out != want {
					oracleFail(res, "filter", "c17-switch-not-global", fmt.Sprintf("{{ v|%s }} on %q after SetAutoescape(false), %s", f, in, label), r.String(), want)
				}
			}
		}
		res.Cases++
		fv, _ := pongo2.ApplyFilter("iriencode", pongo2.AsValue(in), pongo2.AsValue(nil))
		if r := execOnce(oldDefault, pongo2.Context{"v": in}); fv != nil && r.out != fv.String() {
			oracleFail(res, "filter", "c17-switch-not-global", fmt.Sprintf("{{ v|iriencode }} on %q after SetAutoescape(false), default set, template from before", in), r.String(), fv.String())
		}
	}
	pongo2.SetAutoescape(true)
}

// c18NilParam: ApplyFilter / MustApplyFilter with no parameter (nil) are {{ v|f }}
func c18NilParam(res *Result) {
	vals := []any{34.23234, 34.0, 34.26, -2.75, 0.04, 7, "abc", "", nil, []int{1, 2}, true, "a b c", 1234567.891}
	for _, f := range pongo2.VerifRegisteredFilters() {
		if c19Skip[f] {
			continue
		}
		for _, v := range vals {
			r := implRender("{% autoescape off %}{{ v|"+f+" }}{% endautoescape %}", pongo2.Context{"v": v})
			if r.Panicked {
				continue
			}
			for _, how := range []string{"ApplyFilter", "MustApplyFilter"} {
				res.Cases++
				got := within(5*time.Second, func() string {
					if how == "ApplyFilter" {
						o, err := pongo2.ApplyFilter(f, pongo2.AsValue(v), nil)
						if err != nil {
							return "err"
						}
						return "ok " + hx(o.String())
					}
					return "ok " + hx(pongo2.MustApplyFilter(f, pongo2.AsValue(v), nil).String())
				})
				want := r.String()
				if r.Err != "" {
					want = "err"
					if how == "MustApplyFilter" {
						want = "panic"
					}
				}
				if got != want && !(strings.HasPrefix(got, "panic") && want == "panic") {
					oracleFail(res, "filter", "c18-nil-parameter", fmt.Sprintf("%s(%s, %#v, nil)", how, f, v), got, want+" ({{ v|"+f+" }})")
				}
			}
		}
	}
	res.Cases++
	if v, err := pongo2.ApplyFilter("default_if_none", pongo2.AsValue(nil), nil); err == nil && !v.IsNil() {
		oracleFail(res, "filter", "c18-nil-parameter", "ApplyFilter(default_if_none, nil, nil)", fmt.Sprintf("%#v", v.Interface()), "nil")
	}
}

// c19SafeInputs: a chain over a value Go code marked safe renders as the composition of ApplyFilter calls
func c19SafeInputs(res *Result) {
	for name, in := range map[string]*pongo2.Value{"plain": pongo2.AsValue("<b>Tom & Jerry</b>"), "safe": pongo2.AsSafeValue("<b>Tom & Jerry</b>")} {
		ctx := pongo2.Context{"v": in, "what": "Tom", "sep": " "}
		chains := [][][2]any{
			{{"lower", nil}, {"cut", "Tom"}, {"add", " "}},
			{{"upper", nil}},
			{{"cut", "Tom"}, {"capfirst", nil}},
			{{"truncatechars", 8}},
			{{"default", "d"}},
		}
		for _, ch := range chains {
			src := "v"
			r := in
			ok := true
			for _, st := range ch {
				var p *pongo2.Value
				if st[1] == nil {
					src += "|" + st[0].(string)
					p = pongo2.AsValue(nil)
				} else if s, isS := st[1].(string); isS {
					src += fmt.Sprintf(`|%s:"%s"`, st[0], s)
					p = pongo2.AsValue(s)
				} else {
					src += fmt.Sprintf(`|%s:%v`, st[0], st[1])
					p = pongo2.AsValue(st[1])
				}
				var err *pongo2.Error
				r, err = pongo2.ApplyFilter(st[0].(string), r, p)
				if err != nil {
					ok = false
					break
				}
			}
			if !ok {
				continue
			}
			for _, shape := range []string{"{{ %s }}", "{%% with x=%s %%}{{ x }}{%% endwith %%}", "{%% set x = %s %%}{{ x }}"} {
				res.Cases++
				got := implRender(fmt.Sprintf(shape, src), ctx).String()
				want := implRender(fmt.Sprintf(shape, "r"), pongo2.Context{"r": r}).String()
				if got != want {
					oracleFail(res, "chain", "c19-template-vs-applyfilter", fmt.Sprintf(shape, src)+" with a "+name+" input", got, want+" (the ApplyFilter composition printed the same way)")
				}
			}
		}
	}
}

// c20RenderFile: RenderTemplateFile compiles the file as it is now and leaves the cache alone;
// nested Context values in Globals are not written to by executions (sets sharing defaults stay apart)
func c20RenderFile(res *Result) {
	ld := &memLoader{files: map[string]string{"/page": "version one"}}
	set := pongo2.NewSet("c20-render", ld)
	put := func(s string) { ld.mu.Lock(); ld.files["/page"] = s; ld.mu.Unlock() }
	count := func() int { ld.mu.Lock(); defer ld.mu.Unlock(); return len(ld.log) }
	res.Cases += 4
	if out, err := set.RenderTemplateFile("/page", nil); err != nil || out != "version one" {
		oracleFail(res, "cache", "c20-rendertemplatefile", "RenderTemplateFile(/page)", fmt.Sprint(out, err), "version one")
	}
	put("version two")
	if out, err := set.RenderTemplateFile("/page", nil); err != nil || out != "version two" {
		oracleFail(res, "cache", "c20-rendertemplatefile", "RenderTemplateFile(/page) after the file changed", fmt.Sprint(out, err), "version two")
	}
	before := count()
	tpl, err := set.FromCache("/page")
	if err != nil || count()-before != 1 {
		oracleFail(res, "cache", "c20-rendertemplatefile", "first FromCache(/page) after two RenderTemplateFile calls", fmt.Sprintf("%d loader fetches, error %v", count()-before, err), "1 fetch")
	} else if r := execOnce(tpl, nil); r.out != "version two" {
		oracleFail(res, "cache", "c20-rendertemplatefile", "first FromCache(/page) after two RenderTemplateFile calls", r.String(), "version two")
	}
	put("version three")
	if out, err := set.RenderTemplateFile("/page", nil); err != nil || out != "version three" {
		oracleFail(res, "cache", "c20-rendertemplatefile", "RenderTemplateFile(/page) with /page cached, after the file changed again", fmt.Sprint(out, err), "version three")
	}
	// sets that got their Globals from one defaults Context
	const page = "{{ site.name }}/{{ site.user }}"
	defaults := pongo2.Context{"site": pongo2.Context{"name": "shop"}}
	web := pongo2.NewSet("c20-web", &memLoader{files: map[string]string{"/page": page}})
	mail := pongo2.NewSet("c20-mail", &memLoader{files: map[string]string{"/page": page}})
	web.Globals.Update(defaults)
	mail.Globals.Update(defaults)
	res.Cases += 3
	if wt, err := web.FromCache("/page"); err == nil {
		if r := execOnce(wt, pongo2.Context{"site": pongo2.Context{"user": "bob"}}); r.out != "/bob" {
			oracleFail(res, "cache", "c20-sets-influence", "set web, context {site: {user: bob}} over Globals {site: {name: shop}}", r.String(), "/bob (a context entry replaces the global of the same name)")
		}
		if r := execOnce(wt, nil); r.out != "shop/" {
			oracleFail(res, "cache", "c20-sets-influence", "set web, second request without context", r.String(), "shop/")
		}
	}
	if mt, err := mail.FromCache("/page"); err == nil {
		if r := execOnce(mt, nil); r.out != "shop/" {
			oracleFail(res, "cache", "c20-sets-influence", "set mail after a request to set web (both got their Globals from one defaults Context)", r.String(), "shop/")
		}
	}
}

// liveGlobals: Globals changed after a template was first executed are what the next execution sees;
// a nested Context in Globals is not written to by an execution
func liveGlobals(res *Result, proj, sig string) {
	set := pongo2.NewSet("live", &memLoader{files: map[string]string{}})
	set.Globals["g"] = "one"
	set.Globals["site"] = pongo2.Context{"name": "shop"}
	tpl := mustCompile(set, "{{ g }}|{{ late }}|{{ site.name }}/{{ site.user }}")
	step := func(label string, ctx pongo2.Context, want string) {
		res.Cases++
		if r := execOnce(tpl, ctx); r.out != want {
			oracleFail(res, proj, sig, label, r.String(), want)
		}
	}
	step("Globals{g: one, site: {name: shop}}", nil, "one||shop/")
	set.Globals["g"] = "two"
	set.Globals["late"] = "L"
	step("after Globals[g]=two, Globals[late]=L on a template executed before", nil, "two|L|shop/")
	step("context {g: c} over the globals", pongo2.Context{"g": "c"}, "c|L|shop/")
	step("context {site: {user: alice}}: a context entry replaces the global of the same name", pongo2.Context{"site": pongo2.Context{"user": "alice"}}, "two|L|/alice")
	step("the next execution without context", nil, "two|L|shop/")
	res.Cases++
	if site, _ := set.Globals["site"].(pongo2.Context); len(site) != 1 || site["name"] != "shop" {
		oracleFail(res, proj, sig, "Globals[site] after executions whose context carried its own site", fmt.Sprint(set.Globals["site"]), "map[name:shop]")
	}
	delete(set.Globals, "late")
	step("after delete(Globals, late)", nil, "two||shop/")
}

// c05ColdTypes: the first renderings of values of many types, all at the same moment
func c05ColdTypes(res *Result) {
	tm := time.Date(2020, 1, 2, 3, 4, 5, 0, time.UTC)
	ctx := func() pongo2.Context {
		return pongo2.Context{"a": SString("x"), "b": SInt(3), "c": NStr("n"), "d": NInt(4), "e": VS1{A: 1}, "f": &ptrStringer{text: "p"}, "g": byLen{"q"}, "h": namedUintptr(5),
			"i": tm, "j": []NStr{"r"}, "k": map[SString]SInt{"s": 1}, "l": psHolder{}, "m": int8(1), "n": float32(1.5), "o": []any{SString("y"), NInt(2)}, "p": textNode("t")}
	}
	const src = "{{ a }}{{ b }}{{ c }}{{ d }}{{ e }}{{ f }}{{ g }}{{ h }}{{ i }}{{ j }}{{ k }}{{ l }}{{ m }}{{ n }}{{ o }}{{ p }}{% for x in o %}{{ x }}{% endfor %}"
	want := "" // the reference is rendered after the first concurrent round: nothing has printed these types before it
	for rep := 0; rep < 4; rep++ {
		tpl := mustCompile(pongo2.NewSet("cold-types", &memLoader{files: map[string]string{}}), src)
		const k = 16
		outs := make([]string, k)
		start := make(chan struct{})
		var wg sync.WaitGroup
		for j := 0; j < k; j++ {
			wg.Add(1)
			go func(j int) {
				defer wg.Done()
				<-start
				outs[j] = execOnce(tpl, ctx()).String()
			}(j)
		}
		close(start)
		wg.Wait()
		res.Cases += k
		if want == "" {
			want = execOnce(mustCompile(pongo2.NewSet("cold-types-ref", &memLoader{files: map[string]string{}}), src), ctx()).String()
		}
		for j, o := range outs {
			if o != want {
				oracleFail(res, "race", "c05-cold-types", fmt.Sprintf("goroutine %d of %d printing values of sixteen types at the same moment", j, k), o, want+" (alone)")
				break
			}
		}
	}
}

// fixedRenders: sources with their expected output (ok) or "err"; files are served by one loader
func fixedRenders(res *Result, proj, sig string, files map[string]string, ctx pongo2.Context, cases [][2]string) {
	for _, c := range cases {
		res.Cases++
		r := implRenderFiles(c[0], files, ctx)
		got := r.String()
		want := "ok " + hx(c[1])
		if c[1] == "err" {
			want = "err"
			if r.Err != "" {
				got = "err"
			}
		}
		if got != want {
			oracleFail(res, proj, sig, c[0], r.String(), want)
		}
	}
}

// c11IncludeOptions: the words `with` and `only` are option keywords only where an option can stand;
// as keys of a pair they are ordinary names
func c11IncludeOptions(res *Result) {
	files := map[string]string{"show.tpl": "[{{ only }}|{{ with }}|{{ a }}|{{ outer }}]"}
	ctx := pongo2.Context{"flag": "F", "outer": "O", "name": "show.tpl"}
	fixedRenders(res, "loaders", "c11-include-options", files, ctx, [][2]string{
		{`{% include "show.tpl" with only=flag %}`, "[F|||O]"},
		{`{% include name with only=flag %}`, "[F|||O]"},
		{`{% include "show.tpl" with a=1 with=flag only %}`, "[|F|1|]"},
		{`{% include "show.tpl" with only=flag only %}`, "[F|||]"},
		{`{% include "show.tpl" with a=1 only %}`, "[||1|]"},
		{`{% include "show.tpl" with a=1 %}`, "[||1|O]"},
		{`{% include "show.tpl" only %}`, "err"},
	})
}

// c13Defaults: a default is an expression like any other, filters included; an imported macro
// recurses as deep as the same macro defined locally
func c13Defaults(res *Result) {
	ctx := pongo2.Context{"fallback": "ctx value", "n3": 3}
	fixedRenders(res, "binding", "c13-default-expression", map[string]string{}, ctx, [][2]string{
		{`{% macro badge(label, style="note"|upper) %}[{{ style }}:{{ label }}]{% endmacro %}{{ badge("a") }}{{ badge("b", "x") }}`, "[NOTE:a][x:b]"},
		{`{% macro w(width=3|add:4) %}{{ width }}{% endmacro %}{{ w() }}|{{ w(1) }}`, "7|1"},
		{`{% macro d(v=""|default:fallback|upper) %}{{ v }}{% endmacro %}{{ d() }}`, "CTX VALUE"},
		{`{% macro f(a=1.5|floatformat:0, b=true|yesno:"y,n", c=n3|add:n3) %}{{ a }}{{ b }}{{ c }}{% endmacro %}{{ f() }}`, "2y6"},
		{`{% macro g(a="x"|add:"y"|add:"z") %}{{ a }}{% endmacro %}{{ g() }}`, "xyz"},
	})
	lib := map[string]string{"lib.tpl": `{% macro countdown(n) export %}{% if n > 0 %}{{ countdown(n - 1) }}{% else %}done{% endif %}{% endmacro %}` +
		`{% macro ping(n) export %}{% if n > 0 %}{{ pong(n - 1) }}{% else %}P{% endif %}{% endmacro %}{% macro pong(n) export %}{% if n > 0 %}{{ ping(n - 1) }}{% else %}Q{% endif %}{% endmacro %}`}
	local := `{% macro countdown(n) %}{% if n > 0 %}{{ countdown(n - 1) }}{% else %}done{% endif %}{% endmacro %}`
	for _, n := range []int{1, 100, 400, 499, 500, 600, 900, 997, 998, 999, 1000, 1001, 1200} {
		res.Cases++
		a := implRenderFiles(local+fmt.Sprintf("{{ countdown(%d) }}", n), lib, nil)
		// (under an alias the body's own name for the macro is not defined in the importing file: C13's assumptions)
		for _, imp := range []string{`{% import "lib.tpl" countdown %}{{ countdown(N) }}`, `{% import "lib.tpl" countdown, ping %}{{ countdown(N) }}`} {
			src := strings.Replace(imp, "N", fmt.Sprint(n), 1)
			b := implRenderFiles(src, lib, nil)
			if (a.Err == "") != (b.Err == "") || a.Out != b.Out {
				oracleFail(res, "binding", "c13-imported-recursion-depth", src, b.String(), a.String()+" (the same macro defined locally)")
			}
		}
	}
}

// onlyWriter hides every method of the buffer but Write
type onlyWriter struct{ b *bytes.Buffer }

func (o onlyWriter) Write(p []byte) (int, error) { return o.b.Write(p) }

// c14StaticLooking: a template that is all text and includes, whose include evaluates a pair that fails
func c14StaticLooking(res *Result) {
	files := map[string]string{"/footer.tpl": "<footer>(c)</footer>", "/footer2.tpl": "<footer>{{ year }}</footer>", "/imprint.tpl": "<h1>Imprint</h1>\n{% include \"/footer.tpl\" with year=1/zero %}<p>end</p>",
		"/imprint2.tpl": "<h1>Imprint</h1>\n{% include \"/footer2.tpl\" with year=1/zero only %}", "/imprint3.tpl": "{# c #}text{% templatetag openblock %}\n{% include \"/imprint.tpl\" %}"}
	set := pongo2.NewSet("c14-static", &memLoader{files: files})
	for _, name := range []string{"/imprint.tpl", "/imprint2.tpl", "/imprint3.tpl"} {
		tpl, err := set.FromFile(name)
		if err != nil {
			continue
		}
		for _, zero := range []int{0, 1} {
			res.Cases++
			var w struct{ buf bytes.Buffer }
			err := tpl.ExecuteWriter(pongo2.Context{"zero": zero}, onlyWriter{&w.buf})
			s, serr := tpl.Execute(pongo2.Context{"zero": zero})
			if (err != nil) != (serr != nil) || (err != nil && w.buf.Len() > 0) || (err == nil && w.buf.String() != s) {
				oracleFail(res, "variants", "c14-writer-not-all-or-nothing", fmt.Sprintf("ExecuteWriter(%s) with zero=%d", name, zero), fmt.Sprintf("error %v, written %q", err, w.buf.String()), fmt.Sprintf("error %v, written %q on success and nothing on failure", serr, s))
			}
		}
	}
}

// c15DashDigit: `{{-` is the trim marker whatever follows it
func c15DashDigit(res *Result) {
	for _, c := range [][2]string{{"a  {{-5}} b", "a{{5}} b"}, {"a \n{{-5 -}}  b", "a{{5}}b"}, {"a  {{-10|add:x}} b", "a{{10|add:x}} b"}, {"{% if 1 %} \t{{-1}}{% endif %}", "{% if 1 %}{{1}}{% endif %}"},
		{"a  {{-x}} b", "a{{x}} b"}, {"a  {{- -5 }} b", "a{{ -5 }} b"}, {"a  {%-if 1%}y{%endif-%}  b", "a{%if 1%}y{%endif%}b"}, {"a  {{-2.5}} b", "a{{2.5}} b"}} {
		res.Cases++
		ctx := pongo2.Context{"x": 7}
		got, want := implRender(c[0], ctx).String(), implRender(c[1], ctx).String()
		if got != want {
			oracleFail(res, "whitespace", "c15-dash-before-digit", c[0], got, want+" (the hand-trimmed "+c[1]+")")
		}
	}
}

// goLiteral writes s as a template string literal
func tplLiteral(s string) string {
	return `"` + strings.NewReplacer(`\`, `\\`, `"`, `\"`).Replace(s) + `"`
}

// c17Literals: a string written as a literal reaches the filters as the string it denotes
func c17Literals(res *Result) {
	for _, in := range []string{`\'`, `\`, `C:\dir\'quoted'`, `a\"b`, `\\`, `'\`, `it's`, `"`, `\"\'`, `x\\'y`, `<a href='\'>`} {
		for _, f := range []string{"safe", "escape", "e", "addslashes", "escapejs", "urlencode", "iriencode", "striptags"} {
			fv, ferr := pongo2.ApplyFilter(f, pongo2.AsValue(in), pongo2.AsValue(nil))
			if ferr != nil {
				continue
			}
			res.Cases++
			r := implRender("{% autoescape off %}{{ "+tplLiteral(in)+"|"+f+" }}{% endautoescape %}", nil)
			if r.Err != "" || r.Out != fv.String() {
				oracleFail(res, "filter", "c17-literal-input", fmt.Sprintf("{{ %s|%s }}", tplLiteral(in), f), r.String(), "ok "+hx(fv.String())+" (ApplyFilter on the string the literal denotes)")
			}
		}
	}
}

// c18WidthratioForms: the value of widthratio does not depend on how its operands are written
func c18WidthratioForms(res *Result) {
	for _, mw := range [][2]int{{200, 100}, {40, 100}, {6, 13}, {3, 7}, {1000, 3}, {7, 7}} {
		for v := 0; v <= 300; v++ {
			res.Cases++
			ctx := pongo2.Context{"v": v, "m": mw[0], "w": mw[1]}
			lit := implRender(fmt.Sprintf("{%% widthratio v %d %d %%}", mw[0], mw[1]), ctx).String()
			vars := implRender("{% widthratio v m w %}", ctx).String()
			mixed := implRender(fmt.Sprintf("{%% widthratio v m %d %%}|{%% widthratio %d %d w %%}", mw[1], v, mw[0]), ctx).String()
			if lit != vars || mixed != "ok "+hx(strings.TrimPrefix(vars, "ok ")) && false {
				oracleFail(res, "filter", "c18-widthratio-operand-form", fmt.Sprintf("{%% widthratio v %d %d %%} with v=%d", mw[0], mw[1], v), lit, vars+" (the same numbers as variables)")
			}
			_ = mixed
		}
	}
}

// filterTagRecursion: a filter tag inside a macro that calls itself from the tag's body
func filterTagRecursion(res *Result, proj, sig string) {
	for _, f := range []string{"upper", "lower"} {
		for depth := 0; depth <= 4; depth++ {
			res.Cases++
			with := fmt.Sprintf(`{%% macro nest(n) %%}{%% filter %s %%}Open{{ n }} {%% if n > 0 %%}{{ nest(n-1) }}{%% endif %%} Close{{ n }}{%% endfilter %%}{%% endmacro %%}{{ nest(%d) }}`, f, depth)
			without := fmt.Sprintf(`{%% macro nest(n) %%}Open{{ n }} {%% if n > 0 %%}{{ nest(n-1) }}{%% endif %%} Close{{ n }}{%% endmacro %%}{{ nest(%d) }}`, depth)
			a, b := implRender(with, nil), implRender(without, nil)
			want := strings.ToUpper(b.Out)
			if f == "lower" {
				want = strings.ToLower(b.Out)
			}
			if a.Err != "" || b.Err != "" || a.Out != want {
				oracleFail(res, proj, sig, with, a.String(), "ok "+hx(want)+" (the filter applied to what the body renders, at every level)")
			}
		}
	}
	res.Cases++
	tree := `{% macro walk(t) %}{% filter add:"!" %}<{{ t.name }}{% for c in t.kids %}{{ walk(c) }}{% endfor %}>{% endfilter %}{% endmacro %}{{ walk(root) }}`
	type node struct {
		name string
		kids []any
	}
	root := map[string]any{"name": "R", "kids": []any{map[string]any{"name": "X", "kids": []any{map[string]any{"name": "P", "kids": []any{}}}}, map[string]any{"name": "Y", "kids": []any{}}}}
	if r := implRender("{% autoescape off %}"+tree+"{% endautoescape %}", pongo2.Context{"root": root}); r.Out != "<R<X<P>!>!<Y>!>!" {
		oracleFail(res, proj, sig, tree, r.String(), "ok "+hx("<R<X<P>!>!<Y>!>!"))
	}
}

// c20ImportFresh: a template loaded afresh is compiled afresh, libraries and all
func c20ImportFresh(res *Result) {
	for _, debug := range []bool{true, false} {
		ld := &memLoader{files: map[string]string{"/page.tpl": `{% import "/lib.tpl" m %}{{ m() }}|{% include "/part.tpl" %}`, "/lib.tpl": `{% macro m() export %}one{% endmacro %}`, "/part.tpl": "p1"}}
		set := pongo2.NewSet("c20-import", ld)
		set.Debug = debug
		get := func() string {
			tpl, err := set.FromCache("/page.tpl")
			if err != nil {
				return "err " + err.Error()
			}
			return execOnce(tpl, nil).out
		}
		res.Cases += 3
		if got := get(); got != "one|p1" {
			oracleFail(res, "cache", "c20-stale-library", fmt.Sprintf("FromCache(/page.tpl), Debug=%v", debug), got, "one|p1")
		}
		ld.mu.Lock()
		ld.files["/lib.tpl"] = `{% macro m() export %}two{% endmacro %}`
		ld.files["/part.tpl"] = "p2"
		ld.mu.Unlock()
		if !debug {
			if got := get(); got != "one|p1" {
				oracleFail(res, "cache", "c20-stale-library", "FromCache(/page.tpl) again, files changed, nothing cleaned", got, "one|p1 (the cached template)")
			}
			set.CleanCache("/page.tpl")
		}
		if got := get(); got != "two|p2" {
			oracleFail(res, "cache", "c20-stale-library", fmt.Sprintf("FromCache(/page.tpl) after its library and its include changed (Debug=%v; CleanCache(/page.tpl) when off)", debug), got, "two|p2")
		}
	}
}

// c06CommentForms: a {# #} comment renders like the comment tag in the same place, trim markers
// nearby or not; a verbatim body is emitted as it is when whitespace separates it from a trim marker
func c06CommentForms(res *Result) {
	ctx := pongo2.Context{"x": "X"}
	for _, tmpl := range []string{"{{ x -}} %s b", "a %s {{- x }}", "{{ x -}}  %s\t{{- x }}", "a{{ x -}}\n%s\n{{ x }}", "{%% if x -%%} %s y{%% endif %%}", "a %s {%%- if x %%}y{%% endif %%}", "a%sb", "{{ x }} %s {{ x }}"} {
		res.Cases++
		a := implRender(fmt.Sprintf(tmpl, "{# note #}"), ctx)
		b := implRender(fmt.Sprintf(tmpl, "{% comment %}note{% endcomment %}"), ctx)
		if a.String() != b.String() {
			oracleFail(res, "render", "c06-comment-forms", fmt.Sprintf(tmpl, "{# note #}"), a.String(), b.String()+" (with {% comment %}note{% endcomment %} in its place)")
		}
	}
	for _, body := range []string{"  {{ y }}  ", "\n{% if %}\n", " a ", "\t"} {
		for _, tmpl := range []string{"{{ x -}} {%% verbatim %%}%s{%% endverbatim %%} {{- x }}", "{{ x -}}\n{%% verbatim %%}%s{%% endverbatim %%}\n{{- x }}"} {
			res.Cases++
			r := implRender(fmt.Sprintf(tmpl, body), ctx)
			if want := "X" + body + "X"; r.Err != "" || r.Out != want {
				oracleFail(res, "render", "c06-verbatim-near-trim", fmt.Sprintf(tmpl, body), r.String(), "ok "+hx(want))
			}
		}
	}
}

type anyKey struct{ X any }

// c01OddKeys: keys that cannot be hashed, or do not fit the key type, are missing keys
func c01OddKeys(res *Result) {
	ctx := pongo2.Context{"m": map[any]int{anyKey{X: 1}: 5, "s": 6}, "bad": anyKey{X: []int{1}}, "good": anyKey{X: 1}, "fn": anyKey{X: func() {}},
		"sl": []int{1}, "u8": map[uint8]string{200: "tw"}, "neg": -56, "big": uint64(1 << 63), "i64": map[int64]string{-1: "m"}, "um": map[uint64]int{1 << 63: 1}}
	fixedRenders(res, "totality", "c01-odd-map-key", map[string]string{}, ctx, [][2]string{
		{"{{ m[bad] }}|{{ m[good] }}|{{ m[fn] }}|{{ m[sl] }}|{{ m.s }}", "|5|||6"},
		{"{{ bad in m }}|{{ good in m }}|{{ sl in m }}|{{ \"s\" in m }}", "False|True|False|True"},
		{"{{ u8[neg] }}|{{ u8[200] }}|{{ u8[456] }}|{{ i64[big] }}|{{ um[big] }}|{{ i64[neg + 55] }}|{{ neg in u8 }}|{{ big in i64 }}", "|tw|||1|m|False|False"},
	})
}

// c12ChainMacroClash: a context key (or global) named like an exported macro of any template of the
// chain is rejected, whichever template of the chain is executed
func c12ChainMacroClash(res *Result) {
	files := map[string]string{"/base.tpl": `{% macro foo() export %}M{% endmacro %}[{{ foo }}]{% block b %}{% endblock %}`,
		"/mid.tpl": `{% extends "/base.tpl" %}{% macro bar() export %}B{% endmacro %}{% block b %}m{% endblock %}`, "/leaf.tpl": `{% extends "/mid.tpl" %}{% block b %}l{% endblock %}`}
	for _, name := range []string{"/base.tpl", "/mid.tpl", "/leaf.tpl"} {
		for key, clash := range map[string]bool{"foo": true, "other": false} {
			for _, viaGlobals := range []bool{false, true} {
				res.Cases++
				set := pongo2.NewSet("c12-clash", &memLoader{files: files})
				ctx := pongo2.Context{key: "ctx"}
				if viaGlobals {
					set.Globals[key] = "g"
					ctx = pongo2.Context{"unrelated": 1}
				}
				tpl, err := set.FromFile(name)
				if err != nil {
					continue
				}
				r := execOnce(tpl, ctx)
				if rejected := r.err != ""; rejected != clash {
					oracleFail(res, "reference", "c12-macro-clash-along-chain", fmt.Sprintf("%s executed with %s=… (through Globals: %v); foo is an exported macro of /base.tpl", name, key, viaGlobals), r.String(), fmt.Sprintf("rejected: %v", clash))
				}
			}
		}
	}
}

// c04PairOrder: the pairs of with / include … with and the defaults of a macro are evaluated in the
// order they are written: the error reported and the order of calls are the same on every execution
func c04PairOrder(res *Result) {
	files := map[string]string{"/inc.tpl": "i"}
	for _, src := range []string{
		`{% with a=1|floatformat:2000 b="x"|rjust:20000 c=1/zero %}x{% endwith %}`,
		`{% include "/inc.tpl" with a=1|floatformat:2000 b="x"|rjust:20000 c=1/zero %}`,
		`{% macro m(a=1|floatformat:2000, b="x"|rjust:20000, c=1/zero) %}{% endmacro %}{{ m() }}`,
		`{% with a=f("a") b=f("b") c=f("c") d=f("d") %}{{ a }}{% endwith %}|{% include "/inc.tpl" with a=f("e") b=f("f") c=f("g") %}|{% macro m(a=f("h"), b=f("i"), c=f("j")) %}{% endmacro %}{{ m() }}`,
	} {
		set := pongo2.NewSet("c04-order", &memLoader{files: files})
		tpl := mustCompile(set, src)
		if tpl == nil {
			continue
		}
		seen := map[string]bool{}
		first := ""
		for i := 0; i < 40; i++ {
			res.Cases++
			calls := ""
			r := execOnce(tpl, pongo2.Context{"zero": 0, "f": func(s string) string { calls += s; return s }})
			k := r.String() + " calls=" + calls
			if i == 0 {
				first = k
			}
			seen[k] = true
		}
		if len(seen) != 1 {
			oracleFail(res, "history", "c04-pair-evaluation-order", src, fmt.Sprintf("%d different outcomes over 40 executions with equal contexts", len(seen)), first)
		} else if strings.Contains(src, `f("a")`) && !strings.HasSuffix(first, "calls=abcdefghij") {
			oracleFail(res, "history", "c04-pair-evaluation-order", src, first, "the calls in the order they are written: abcdefghij")
		}
	}
}

// --- round 8 ---

// c05SharedConcurrent: executions running at the same time do not see each other through ExecutionContext.Shared
func c05SharedConcurrent(res *Result) {
	registerSharedTag()
	set := pongo2.NewSet("c05-shared", &memLoader{files: map[string]string{}})
	tpl := mustCompile(set, "{% verifshared %}-{{ pause() }}{% verifshared %}-{% verifshared %}")
	if tpl == nil {
		return
	}
	alone := execOnce(tpl, pongo2.Context{"pause": func() string { return "" }}).String()
	for rep := 0; rep < 10; rep++ {
		res.Cases += 2
		hold, held := make(chan struct{}), make(chan struct{})
		var a, b string
		var wg sync.WaitGroup
		wg.Add(1)
		go func() {
			defer wg.Done()
			a = execOnce(tpl, pongo2.Context{"pause": func() string { close(held); <-hold; return "" }}).String()
		}()
		<-held
		b = execOnce(tpl, pongo2.Context{"pause": func() string { return "" }}).String()
		close(hold)
		wg.Wait()
		if a != alone || b != alone {
			oracleFail(res, "race", "c05-shared-across-executions", "two overlapping executions of a template whose tag counts in ExecutionContext.Shared (one held in a context function while the other runs)", a+" / "+b, alone+" (each as if alone)")
			return
		}
	}
}

// c06BOM: a byte order mark is three bytes of text like any other, whichever way the source is loaded
func c06BOM(res *Result) {
	for _, src := range []string{"\ufeffid;name\r\n1;Müller\r\n", "\ufeff", "\ufeff\ufeffx", "a\ufeffb", "\ufeff{{ 1 }}", "\xef\xbb", "\ufeff{% if 1 %}y{% endif %}"} {
		want := implRender(src, nil).String()
		for _, how := range []string{"bytes", "file", "cache", "include"} {
			res.Cases++
			if got := implRenderVia(how, src, nil).String(); got != want {
				oracleFail(res, "render", "c06-bom", fmt.Sprintf("%q through %s", src, how), got, want+" (through FromString)")
			}
		}
	}
}

// c16BOM: positions in a file that starts with a byte order mark count its three bytes
func c16BOM(res *Result) {
	files := map[string]string{"/bom.tpl": "\ufeff<p>{{ user.name|nosuchfilter }}</p>", "/bom2.tpl": "\ufeffline1\n  {{ 7 / zero }}", "/inc.tpl": "x\n{% include \"/bom2.tpl\" %}"}
	set := pongo2.NewSet("c16-bom", &memLoader{files: files})
	check := func(what string, err error) {
		res.Cases++
		e, ok := err.(*pongo2.Error)
		if !ok || e == nil || e.Token == nil {
			oracleFail(res, "positions", "c16-bom-position", what, fmt.Sprint(err), "a positioned *pongo2.Error")
			return
		}
		src, known := files[e.Filename]
		if !known || !textAt(src, e.Line, e.Column, e.Token.Val, e.Token.Typ == pongo2.TokenString, true) {
			oracleFail(res, "positions", "c16-bom-position", what, fmt.Sprintf("%s:%d:%d near %q", e.Filename, e.Line, e.Column, e.Token.Val), "the token's text at that position of the named file (the byte order mark counts as three columns)")
		}
	}
	_, err := set.FromFile("/bom.tpl")
	check("FromFile(/bom.tpl): unknown filter on line 1 behind a byte order mark", err)
	for _, name := range []string{"/bom2.tpl", "/inc.tpl"} {
		if tpl, err := set.FromFile(name); err == nil {
			_, err = tpl.Execute(pongo2.Context{"zero": 0})
			check("executing "+name+": division by zero on line 2 of a file with a byte order mark", err)
		}
	}
}

// c10Depth: honest nesting far below the cap renders; Super in a definition is rendered each time it is mentioned
func c10Depth(res *Result) {
	for _, n := range []int{3, 90, 150, 400, 900} {
		res.Cases++
		var base, want strings.Builder
		for i := 0; i < n; i++ {
			fmt.Fprintf(&base, "{%% block b%d %%}<%d", i, i%10)
		}
		for i := n - 1; i >= 0; i-- {
			base.WriteString(">{% endblock %}")
		}
		for i := 0; i < n; i++ {
			fmt.Fprintf(&want, "<%d", i%10)
			if i == n-1 {
				want.WriteString("[")
			}
		}
		want.WriteString(strings.Repeat(">", 1) + "]" + strings.Repeat(">", n-1))
		files := map[string]string{"/base.tpl": base.String(), "/leaf.tpl": fmt.Sprintf(`{%% extends "/base.tpl" %%}{%% block b%d %%}[{{ block.Super }}]{%% endblock %%}`, n-1)}
		set := pongo2.NewSet("c10-depth", &memLoader{files: files})
		tpl, err := set.FromFile("/leaf.tpl")
		if err != nil {
			oracleFail(res, "reference", "c10-nesting-depth", fmt.Sprintf("%d blocks nested in each other, the innermost overridden with block.Super", n), err.Error(), "compiles")
			continue
		}
		// expected: every level opens "<d", the innermost is "[<d>]" … built from the property: the base's document with the innermost definition replaced
		var exp strings.Builder
		for i := 0; i < n-1; i++ {
			fmt.Fprintf(&exp, "<%d", i%10)
		}
		fmt.Fprintf(&exp, "[<%d>]", (n-1)%10)
		exp.WriteString(strings.Repeat(">", n-1))
		if r := execOnce(tpl, nil); r.out != exp.String() {
			got := r.String()
			if len(got) > 200 {
				got = got[:200] + "…"
			}
			oracleFail(res, "reference", "c10-nesting-depth", fmt.Sprintf("%d blocks nested in each other, the innermost overridden with block.Super", n), got, "the base's document with [Super] in the innermost block")
		}
	}
	files := map[string]string{"/b.tpl": `{% block head %}<h1>{{ title }}</h1>{% endblock %}|{% block row %}{% cycle "odd" "even" %}{% endblock %}`,
		"/c.tpl": `{% extends "/b.tpl" %}{% block head %}{{ block.Super }}{% set title = "Appendix" %}{{ block.Super }}{% endblock %}{% block row %}{% for r in rows %}{{ block.Super }},{% endfor %}{% endblock %}`,
		"/d.tpl": `{% extends "/c.tpl" %}{% block row %}{% for r in rows %}m<{{ block.Super }}>{% endfor %}{% endblock %}`}
	fixedRenders(res, "reference", "c10-super-each-time", files, pongo2.Context{"title": "Report", "rows": []int{1, 2, 3}}, [][2]string{
		{`{% include "/c.tpl" %}`, "<h1>Report</h1><h1>Appendix</h1>|odd,even,odd,"},
		{`{% include "/d.tpl" %}`, "<h1>Report</h1><h1>Appendix</h1>|m<odd,even,odd,>m<even,odd,even,>m<odd,even,odd,>"},
	})
}

// c11UnderscoreNames: names a template may bind (leading underscore included) reach an included template
func c11UnderscoreNames(res *Result) {
	files := map[string]string{"row.tpl": "[{{ _x }}|{{ x_ }}|{{ _ }}]"}
	fixedRenders(res, "loaders", "c11-include-sees-names", files, pongo2.Context{"name": "row.tpl", "_c": "C"}, [][2]string{
		{`{% set _x = 1 %}{% include "row.tpl" %}`, "[1||]"},
		{`{% with _x=2 x_=3 %}{% include "row.tpl" %}{% include name %}{% endwith %}`, "[2|3|][2|3|]"},
		{`{% for _ in "ab" %}{% include "row.tpl" %}{% endfor %}`, "[||a][||b]"},
		{`{% include "row.tpl" with _x=4 only %}{% include name with _=5 %}`, "[4||][||5]"},
		{`{{ _c }}{% include "row.tpl" %}`, "C[||]"},
	})
}

// c12OddKeys: what is and is not an identifier for a context key
func c12OddKeys(res *Result) {
	tpl := mustCompile(pongo2.NewSet("c12-keys", &memLoader{files: map[string]string{}}), "x")
	for key, ok := range map[string]bool{"a": true, "_a": true, "a1": true, "A_b": true, "_": true, "\u017fum": false, "\u212aey": false, "total\u017f": false, "\u212a": false, "a b": false, "a-b": false, "": false, "\u00e9": false, "a ": false, "\u00df": false, "a.b": false} {
		for _, via := range []string{"context", "globals"} {
			res.Cases++
			set := pongo2.NewSet("c12-keys2", &memLoader{files: map[string]string{}})
			t := mustCompile(set, "x")
			ctx := pongo2.Context{key: 1}
			if via == "globals" {
				set.Globals[key] = 1
				ctx = pongo2.Context{"fine": 1}
			}
			r := execOnce(t, ctx)
			if accepted := r.err == ""; accepted != ok {
				oracleFail(res, "reference", "c12-identifier-keys", fmt.Sprintf("key %q through the %s", key, via), r.String(), fmt.Sprintf("accepted: %v (ASCII letters, digits and _ only)", ok))
			}
		}
	}
	_ = tpl
}

// c14PrefilledBuffer: a failing ExecuteWriter leaves what the caller's buffer already held
func c14PrefilledBuffer(res *Result) {
	set := pongo2.NewSet("c14-prefilled", &memLoader{files: map[string]string{"/inc.tpl": "inc{{ 1/zero }}"}})
	for _, src := range []string{"body {{ 1/zero }}", `a{% include "/inc.tpl" %}`, "fine"} {
		tpl := mustCompile(set, src)
		if tpl == nil {
			continue
		}
		for _, zero := range []int{0, 1} {
			res.Cases++
			var page bytes.Buffer
			page.WriteString("<header>")
			err := tpl.ExecuteWriter(pongo2.Context{"zero": zero}, &page)
			s, serr := tpl.Execute(pongo2.Context{"zero": zero})
			want := "<header>"
			if serr == nil {
				want += s
			}
			if (err != nil) != (serr != nil) || page.String() != want {
				oracleFail(res, "variants", "c14-writer-not-all-or-nothing", fmt.Sprintf("ExecuteWriter(%q, zero=%d) into a *bytes.Buffer that already holds <header>", src, zero), fmt.Sprintf("error %v, buffer %q", err, page.String()), fmt.Sprintf("error %v, buffer %q", serr, want))
			}
		}
	}
}

// c19Names: a filter applies to any name a context may bear that is not one of the eight reserved words
func c19Names(res *Result) {
	for _, name := range []string{"none", "null", "nil", "self", "loop", "end", "block", "with", "only", "if", "for", "filter", "_", "_x", "True", "None", "is", "elif", "empty", "sorted", "reversed", "silent", "parsed", "on", "off"} {
		res.Cases++
		ctx := pongo2.Context{name: "val", "missing2": nil}
		for src, want := range map[string]string{"{{ " + name + "|upper }}": "VAL", "{{ missing|default:" + name + " }}": "val", "{% filter upper %}{{ " + name + " }}{% endfilter %}": "VAL", "{% with q=" + name + "|add:\"!\" %}{{ q }}{% endwith %}": "val!"} {
			if r := implRender(src, ctx); r.Err != "" || r.Out != want {
				oracleFail(res, "chain", "c19-any-name", src, r.String(), "ok "+hx(want))
			}
		}
	}
}

// c20Options: the options of one set are its own
func c20Options(res *Result) {
	const src = "{% if 1 %}\n  yes\n{% endif %}\nend"
	mail := pongo2.NewSet("c20-mail-opt", &memLoader{files: map[string]string{"/page.tpl": src}})
	web := pongo2.NewSet("c20-web-opt", &memLoader{files: map[string]string{"/page.tpl": src}})
	mail.Options.TrimBlocks = true
	mail.Options.LStripBlocks = true
	later := pongo2.NewSet("c20-later-opt", &memLoader{files: map[string]string{"/page.tpl": src}})
	res.Cases += 3
	for name, set := range map[string]*pongo2.TemplateSet{"a set created before another set switched TrimBlocks on": web, "a set created after": later, "the default set": pongo2.DefaultSet} {
		var tpl *pongo2.Template
		var err error
		if set == pongo2.DefaultSet {
			tpl, err = set.FromString(src)
		} else {
			tpl, err = set.FromCache("/page.tpl")
		}
		if err != nil {
			continue
		}
		if r := execOnce(tpl, nil); r.out != "\n  yes\n\nend" {
			oracleFail(res, "cache", "c20-options-shared", name, r.String(), "ok "+hxb("\n  yes\n\nend")+" (options off)")
		}
	}
	if mt, err := mail.FromCache("/page.tpl"); err == nil {
		res.Cases++
		if r := execOnce(mt, nil); r.out != "  yes\nend" {
			oracleFail(res, "cache", "c20-options-shared", "the set whose options were switched on", r.String(), "ok "+hxb("  yes\nend"))
		}
	}
}

// c18Wordwrap: n words a line, nothing after the last word
func c18Wordwrap(res *Result) {
	words := []string{"one", "two", "three", "four", "five", "six", "seven", "eight", "nine", "ten", "eleven", "twelve"}
	for k := 0; k <= len(words); k++ {
		for n := 1; n <= 6; n++ {
			res.Cases++
			in := strings.Join(words[:k], " ")
			var lines []string
			for i := 0; i < k; i += n {
				j := i + n
				if j > k {
					j = k
				}
				lines = append(lines, strings.Join(words[i:j], " "))
			}
			want := strings.Join(lines, "\n")
			v, err := pongo2.ApplyFilter("wordwrap", pongo2.AsValue(in), pongo2.AsValue(n))
			if err != nil || v.String() != want {
				got := "err"
				if err == nil {
					got = "ok " + hxb(v.String())
				}
				oracleFail(res, "filter", "c18-wordwrap-shape", fmt.Sprintf("%q|wordwrap:%d", in, n), got, "ok "+hxb(want))
			}
		}
	}
}

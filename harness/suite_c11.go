package main

import (
	"fmt"
	"os"
	"path"
	"sort"
	"strings"
)

func init() { suites["c11-trees"] = suiteC11 }

// a virtual file: text pieces and references to other files
type vref struct {
	kind string // include lazy extends import ssi ssip
	name string // as written in the template
	opts string // "if_exists", "with v=1", "with v=1 only"
}

type vfile struct {
	name  string
	parts []any // string | vref
}

func refSrc(r vref) string {
	switch r.kind {
	case "include":
		s := `{% include "` + r.name + `"`
		if r.opts != "" {
			s += " " + r.opts
		}
		return s + " %}"
	case "lazy":
		s := `{% include lz` + lazyVar(r.name)
		if r.opts != "" {
			s += " " + r.opts
		}
		return s + " %}"
	case "ssi":
		return `{% ssi "` + r.name + `" %}`
	case "ssip":
		return `{% ssi "` + r.name + `" parsed %}`
	case "import":
		return `{% import "` + r.name + `" ` + r.opts + ` as im %}{{ im() }}`
	}
	return ""
}

var lazyNames = map[string]int{}
var lazyList []string

// lazyVar: the context variable that holds a lazily included name
func lazyVar(name string) string {
	if i, ok := lazyNames[name]; ok {
		return fmt.Sprint(i)
	}
	lazyNames[name] = len(lazyList)
	lazyList = append(lazyList, name)
	return fmt.Sprint(len(lazyList) - 1)
}

func (f vfile) src() string {
	var sb strings.Builder
	for _, p := range f.parts {
		switch x := p.(type) {
		case string:
			sb.WriteString(x)
		case vref:
			sb.WriteString(refSrc(x))
		}
	}
	return sb.String()
}

func memAbs(base, name string) string {
	if path.IsAbs(name) || base == "" {
		return path.Clean(name)
	}
	return path.Join(path.Dir(base), name)
}

const canaryPath = "/tmp/verif_c11_canary.tpl"
const canaryText = "CANARY-CONTENT-FROM-THE-REAL-FILE-SYSTEM"

func suiteC11(cfg Config, res *Result) {
	res.Rule = "virtual file trees (nested directories; relative, rooted and ..-names; 1-3 recording loaders with overlapping contents) x acyclic reference graphs via include (static / lazy, with / only / if_exists), import, ssi (plain / parsed); a canary file exists on the real file system under a name the tree references but no loader serves; oracle: every Get is for a name some involved template references (resolved against the referrer), loaders are asked in order and the first that has the name wins, a missing name is an error (nothing with if_exists), the canary's content never appears, and the output equals the reference expansion; also compared with the Lean model incl. the Get log; non-trivial = tree with >= 2 loaders or a relative/.. name; distinct by tree"
	os.WriteFile(canaryPath, []byte(canaryText), 0o644)
	defer os.Remove(canaryPath)
	n := 2500
	if cfg.Thorough() {
		n = 50000
	}
	rng := NewRNG(cfg.Seed)
	dirs := []string{"", "a/", "a/b/", "c/"}
	var cases []ProgCase
	type expect struct {
		out     string
		ok      bool
		refs    map[string]bool
		nontriv bool
	}
	exps := map[string]expect{}
	for i := 0; i < n; i++ {
		nf := 2 + rng.Intn(5)
		var names []string
		for j := 0; j < nf; j++ {
			names = append(names, fmt.Sprintf("%sf%d.tpl", rng.Pick(dirs), j))
		}
		files := map[string]*vfile{}
		nontriv := false
		lazyNames = map[string]int{}
		lazyList = nil
		// acyclic: file j may only reference files with a larger index
		for j := nf - 1; j >= 0; j-- {
			f := &vfile{name: names[j]}
			f.parts = append(f.parts, fmt.Sprintf("<%d>", j))
			nr := rng.Intn(3)
			if j == nf-1 {
				nr = 0
			}
			for q := 0; q < nr && j+1 < nf; q++ {
				target := names[j+1+rng.Intn(nf-j-1)]
				// how the target is written: rooted, relative to the referrer, or with ..
				written := "/" + target
				switch rng.Intn(4) {
				case 0:
					written = target // relative to the referrer's directory only if it resolves; fixed below
				case 1:
					if rel, ok := relTo(names[j], target); ok {
						written = rel
						nontriv = true
					}
				case 2:
					written = "/x/../" + target
					nontriv = true
				}
				if !strings.HasPrefix(written, "/") {
					if memAbs(names[j], written) != path.Clean(target) {
						written = "/" + target
					}
				}
				kind := rng.Pick([]string{"include", "include", "lazy", "ssi", "ssip", "import"})
				opts := ""
				if kind == "include" || kind == "lazy" {
					opts = rng.Pick([]string{"", "", "if_exists", "with v=1"})
				}
				if kind == "import" {
					opts = "mac_" + strings.NewReplacer("/", "_", ".", "_").Replace(path.Clean(target))
				}
				f.parts = append(f.parts, vref{kind, written, opts})
				f.parts = append(f.parts, ".")
			}
			if rng.Chance(1, 6) {
				missing := rng.Pick([]string{"/nope.tpl", "gone.tpl", canaryPath})
				kind := rng.Pick([]string{"include", "lazy", "ssi"})
				opts := ""
				if kind != "ssi" && rng.Bool() {
					opts = "if_exists"
				}
				f.parts = append(f.parts, vref{kind, missing, opts})
			}
			files[path.Clean(names[j])] = f
		}
		// every file also exports a macro so that import works
		macName := func(name string) string {
			return "mac_" + strings.NewReplacer("/", "_", ".", "_").Replace(strings.TrimPrefix(path.Clean(name), "/"))
		}
		srcOf := func(f *vfile) string {
			return f.src() + "{% macro " + macName(f.name) + "() export %}M" + f.name + "{% endmacro %}"
		}
		// loaders: split the files over 1-3 loaders, with overlaps holding different content
		nl := 1 + rng.Intn(3)
		if nl > 1 {
			nontriv = true
		}
		loaders := make([]map[string]string, nl)
		for l := range loaders {
			loaders[l] = map[string]string{}
		}
		first := map[string]int{}
		var keys []string
		for k := range files {
			keys = append(keys, k)
		}
		sort.Strings(keys)
		for _, k := range keys {
			l := rng.Intn(nl)
			loaders[l]["/"+k] = srcOf(files[k])
			loaders[l][k] = srcOf(files[k])
			first[k] = l
			if nl > 1 && rng.Chance(1, 3) {
				// a later loader has a different file under the same name: must never be used
				l2 := l + 1 + rng.Intn(nl)
				if l2 < nl {
					loaders[l2][k] = "SHADOWED"
					loaders[l2]["/"+k] = "SHADOWED"
				}
			}
		}
		// reference expansion
		refs := map[string]bool{}
		// does the named file compile? (static references are resolved at compile time)
		var compilable func(name string, depth int) bool
		compilable = func(name string, depth int) bool {
			f := files[strings.TrimPrefix(path.Clean(name), "/")]
			if f == nil || depth > 20 {
				return false
			}
			for _, p := range f.parts {
				x, ok := p.(vref)
				if !ok || x.kind == "lazy" {
					continue
				}
				target := memAbs(f.name, x.name)
				tf := files[strings.TrimPrefix(target, "/")]
				if tf == nil {
					if x.kind == "include" && strings.Contains(x.opts, "if_exists") {
						continue
					}
					return false
				}
				if x.kind != "ssi" && !compilable(target, depth+1) {
					return false
				}
			}
			return true
		}
		var expand func(name string, depth int) (string, bool)
		expand = func(name string, depth int) (string, bool) {
			f := files[strings.TrimPrefix(path.Clean(name), "/")]
			if f == nil || depth > 20 {
				return "", false
			}
			var sb strings.Builder
			for _, p := range f.parts {
				switch x := p.(type) {
				case string:
					sb.WriteString(x)
				case vref:
					target := memAbs("/"+f.name, x.name)
					if !strings.HasPrefix(f.name, "/") {
						target = memAbs(f.name, x.name)
					}
					refs[strings.TrimPrefix(target, "/")] = true
					tf := files[strings.TrimPrefix(target, "/")]
					if tf == nil {
						if strings.Contains(x.opts, "if_exists") {
							continue
						}
						return "", false
					}
					switch x.kind {
					case "ssi":
						sb.WriteString(srcOf(tf))
					case "import":
						if !compilable(target, depth+1) {
							return "", false
						}
						sb.WriteString("M" + tf.name)
					default:
						s, ok := expand(target, depth+1)
						if !ok {
							return "", false
						}
						sb.WriteString(s)
					}
				}
			}
			return sb.String(), true
		}
		entry := names[0]
		refs[path.Clean(entry)] = true
		// everything a compiled/executed template of the tree may legitimately ask for
		queue := []string{path.Clean(entry)}
		seenF := map[string]bool{}
		for len(queue) > 0 {
			cur := queue[0]
			queue = queue[1:]
			if seenF[cur] {
				continue
			}
			seenF[cur] = true
			f := files[cur]
			if f == nil {
				continue
			}
			for _, p := range f.parts {
				if x, ok := p.(vref); ok {
					target := strings.TrimPrefix(memAbs(f.name, x.name), "/")
					refs[target] = true
					if x.kind != "ssi" {
						queue = append(queue, target)
					}
				}
			}
		}
		out, ok := expand(entry, 0)
		ok = ok && compilable(entry, 0)
		ct := CtxTerm{Names: []string{"zz"}, Vals: []VT{vInt(1)}}
		for li, ln := range lazyList {
			ct.Names = append(ct.Names, fmt.Sprintf("lz%d", li))
			ct.Vals = append(ct.Vals, vStr(ln))
		}
		pc := ProgCase{Src: entry, FromFile: true, Loaders: loaders, Ctx: &ct, Label: fmt.Sprintf("loaders=%d", nl)}
		cases = append(cases, pc)
		exps[pc.Req()] = expect{out, ok, refs, nontriv}
	}
	progCompareLog = true
	defer func() { progCompareLog = false }()
	runProgCases(cfg, res, cases, "c11", func(c ProgCase, o ImplOutcome) bool { return exps[c.Req()].nontriv },
		func(c ProgCase, o ImplOutcome) *Finding {
			e := exps[c.Req()]
			mk := func(sig, impl, want string) *Finding {
				return &Finding{Kind: "oracle", Proj: "loaders", Sig: sig, Case: c.String(), Impl: impl, Model: want}
			}
			if strings.Contains(o.Out, canaryText) {
				return mk("c11-os-file-read", "the output contains the content of "+canaryPath, "templates come from the set's loaders only")
			}
			if strings.Contains(o.Out, "SHADOWED") {
				return mk("c11-later-loader-won", o.Canon(), "the first loader that has a name wins")
			}
			for _, g := range o.GetLog {
				name := strings.TrimPrefix(g[strings.Index(g, ":")+1:], "/")
				if !e.refs[name] {
					return mk("c11-unreferenced-fetch", "Get("+g+")", "only referenced names are fetched")
				}
			}
			if e.ok {
				if o.Class != "ok" || o.Out != e.out {
					return mk("c11-composition", o.Canon()+" "+o.Msg, "reference expansion: ok "+hxb(e.out))
				}
			} else if o.Class == "ok" {
				return mk("c11-missing-not-an-error", o.Canon(), "a missing name is an error")
			}
			return nil
		})
}

// relTo writes target relative to the directory of from, if it lies below it or next to it.
func relTo(from, target string) (string, bool) {
	d := path.Dir(from)
	if d == "." {
		return target, true
	}
	if strings.HasPrefix(target, d+"/") {
		return strings.TrimPrefix(target, d+"/"), true
	}
	ups := strings.Count(d, "/") + 1
	return strings.Repeat("../", ups) + target, true
}

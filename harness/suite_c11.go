package main

import (
	"errors"
	"fmt"
	"io"
	"os"
	"path"
	"sort"
	"strings"

	pongo2 "github.com/flosch/pongo2/v6"
)

func init() { suites["c11-trees"] = suiteC11 }

// a virtual file: text pieces and references to other files
type vref struct {
	kind string // include lazy extends import ssi ssip
	name string // as written in the template
	opts string // "if_exists", "with v=1", "with v=1 only"
}

type vfile struct {
	name  string
	parts []any // string | vref
}

func refSrc(r vref) string {
	switch r.kind {
	case "include":
		s := `{% include "` + r.name + `"`
		if r.opts != "" {
			s += " " + r.opts
		}
		return s + " %}"
	case "lazy":
		s := `{% include lz` + lazyVar(r.name)
		if r.opts != "" {
			s += " " + r.opts
		}
		return s + " %}"
	case "ssi":
		return `{% ssi "` + r.name + `" %}`
	case "ssip":
		return `{% ssi "` + r.name + `" parsed %}`
	case "import":
		return `{% import "` + r.name + `" ` + r.opts + ` as im %}{{ im() }}`
	}
	return ""
}

var lazyNames = map[string]int{}
var lazyList []string

// lazyVar: the context variable that holds a lazily included name
func lazyVar(name string) string {
	if i, ok := lazyNames[name]; ok {
		return fmt.Sprint(i)
	}
	lazyNames[name] = len(lazyList)
	lazyList = append(lazyList, name)
	return fmt.Sprint(len(lazyList) - 1)
}

func (f vfile) src() string {
	var sb strings.Builder
	for _, p := range f.parts {
		switch x := p.(type) {
		case string:
			sb.WriteString(x)
		case vref:
			sb.WriteString(refSrc(x))
		}
	}
	return sb.String()
}

func memAbs(base, name string) string {
	if path.IsAbs(name) || base == "" {
		return path.Clean(name)
	}
	return path.Join(path.Dir(base), name)
}

const canaryPath = "/tmp/verif_c11_canary.tpl"
const canaryText = "CANARY-CONTENT-FROM-THE-REAL-FILE-SYSTEM"

func suiteC11(cfg Config, res *Result) {
	defer c11UnderscoreNames(res)
	defer c11AddLoaderLater(res)
	defer c11ReentrantLoader(res)
	defer c11RecursiveInclude(res)
	defer twoBaseDirs(res, "loaders", "c11-two-base-dirs")
	defer c11IncludeOptions(res)
	defer c11RealLoaders(res)
	defer c11BrokenReads(cfg, res)
	defer c11ComputedNames(cfg, res)
	defer c11Layouts(cfg, res)
	res.Rule = "pages extending layouts in other directories (one or two levels) that include / ssi / import their own neighbours by relative names while same-named files sit next to the layouts: every name resolves against the template it is written in; a first loader whose reader fails part way: the reference fails and the next loader's file is never used; virtual file trees (nested directories; relative, rooted and ..-names; 1-3 recording loaders with overlapping contents) x acyclic reference graphs via include (static / lazy, with / only / if_exists), import, ssi (plain / parsed); a canary file exists on the real file system under a name the tree references but no loader serves; oracle: every Get is for a name some involved template references (resolved against the referrer), loaders are asked in order and the first that has the name wins, a missing name is an error (nothing with if_exists), the canary's content never appears, and the output equals the reference expansion; also compared with the Lean model incl. the Get log; non-trivial = tree with >= 2 loaders or a relative/.. name; distinct by tree"
	os.WriteFile(canaryPath, []byte(canaryText), 0o644)
	defer os.Remove(canaryPath)
	n := 2500
	if cfg.Thorough() {
		n = 50000
	}
	rng := NewRNG(cfg.Seed)
	dirs := []string{"", "a/", "a/b/", "c/"}
	var cases []ProgCase
	type expect struct {
		out     string
		ok      bool
		refs    map[string]bool
		nontriv bool
	}
	exps := map[string]expect{}
	for i := 0; i < n; i++ {
		nf := 2 + rng.Intn(5)
		var names []string
		for j := 0; j < nf; j++ {
			names = append(names, fmt.Sprintf("%sf%d.tpl", rng.Pick(dirs), j))
		}
		files := map[string]*vfile{}
		nontriv := false
		lazyNames = map[string]int{}
		lazyList = nil
		// acyclic: file j may only reference files with a larger index
		for j := nf - 1; j >= 0; j-- {
			f := &vfile{name: names[j]}
			f.parts = append(f.parts, fmt.Sprintf("<%d>", j))
			nr := rng.Intn(3)
			if j == nf-1 {
				nr = 0
			}
			for q := 0; q < nr && j+1 < nf; q++ {
				target := names[j+1+rng.Intn(nf-j-1)]
				// how the target is written: rooted, relative to the referrer, or with ..
				written := "/" + target
				switch rng.Intn(4) {
				case 0:
					written = target // relative to the referrer's directory only if it resolves; fixed below
				case 1:
					if rel, ok := relTo(names[j], target); ok {
						written = rel
						nontriv = true
					}
				case 2:
					written = "/x/../" + target
					nontriv = true
				}
				if !strings.HasPrefix(written, "/") {
					if memAbs(names[j], written) != path.Clean(target) {
						written = "/" + target
					}
				}
				kind := rng.Pick([]string{"include", "include", "lazy", "ssi", "ssip", "import"})
				opts := ""
				if kind == "include" || kind == "lazy" {
					opts = rng.Pick([]string{"", "", "if_exists", "with v=1"})
				}
				if kind == "import" {
					opts = "mac_" + strings.NewReplacer("/", "_", ".", "_").Replace(path.Clean(target))
				}
				f.parts = append(f.parts, vref{kind, written, opts})
				f.parts = append(f.parts, ".")
			}
			if rng.Chance(1, 6) {
				missing := rng.Pick([]string{"/nope.tpl", "gone.tpl", canaryPath})
				kind := rng.Pick([]string{"include", "lazy", "ssi"})
				opts := ""
				if kind != "ssi" && rng.Bool() {
					opts = "if_exists"
				}
				f.parts = append(f.parts, vref{kind, missing, opts})
			}
			files[path.Clean(names[j])] = f
		}
		// every file also exports a macro so that import works
		macName := func(name string) string {
			return "mac_" + strings.NewReplacer("/", "_", ".", "_").Replace(strings.TrimPrefix(path.Clean(name), "/"))
		}
		srcOf := func(f *vfile) string {
			return f.src() + "{% macro " + macName(f.name) + "() export %}M" + f.name + "{% endmacro %}"
		}
		// loaders: split the files over 1-3 loaders, with overlaps holding different content
		nl := 1 + rng.Intn(3)
		if nl > 1 {
			nontriv = true
		}
		loaders := make([]map[string]string, nl)
		for l := range loaders {
			loaders[l] = map[string]string{}
		}
		first := map[string]int{}
		var keys []string
		for k := range files {
			keys = append(keys, k)
		}
		sort.Strings(keys)
		for _, k := range keys {
			l := rng.Intn(nl)
			loaders[l]["/"+k] = srcOf(files[k])
			loaders[l][k] = srcOf(files[k])
			first[k] = l
			if nl > 1 && rng.Chance(1, 3) {
				// a later loader has a different file under the same name: must never be used
				l2 := l + 1 + rng.Intn(nl)
				if l2 < nl {
					loaders[l2][k] = "SHADOWED"
					loaders[l2]["/"+k] = "SHADOWED"
				}
			}
		}
		// reference expansion
		refs := map[string]bool{}
		// does the named file compile? (static references are resolved at compile time)
		var compilable func(name string, depth int) bool
		compilable = func(name string, depth int) bool {
			f := files[strings.TrimPrefix(path.Clean(name), "/")]
			if f == nil || depth > 20 {
				return false
			}
			for _, p := range f.parts {
				x, ok := p.(vref)
				if !ok || x.kind == "lazy" {
					continue
				}
				target := memAbs(f.name, x.name)
				tf := files[strings.TrimPrefix(target, "/")]
				if tf == nil {
					if x.kind == "include" && strings.Contains(x.opts, "if_exists") {
						continue
					}
					return false
				}
				if x.kind != "ssi" && !compilable(target, depth+1) {
					return false
				}
			}
			return true
		}
		var expand func(name string, depth int) (string, bool)
		expand = func(name string, depth int) (string, bool) {
			f := files[strings.TrimPrefix(path.Clean(name), "/")]
			if f == nil || depth > 20 {
				return "", false
			}
			var sb strings.Builder
			for _, p := range f.parts {
				switch x := p.(type) {
				case string:
					sb.WriteString(x)
				case vref:
					target := memAbs("/"+f.name, x.name)
					if !strings.HasPrefix(f.name, "/") {
						target = memAbs(f.name, x.name)
					}
					refs[strings.TrimPrefix(target, "/")] = true
					tf := files[strings.TrimPrefix(target, "/")]
					if tf == nil {
						if strings.Contains(x.opts, "if_exists") {
							continue
						}
						return "", false
					}
					switch x.kind {
					case "ssi":
						sb.WriteString(srcOf(tf))
					case "import":
						if !compilable(target, depth+1) {
							return "", false
						}
						sb.WriteString("M" + tf.name)
					default:
						s, ok := expand(target, depth+1)
						if !ok {
							return "", false
						}
						sb.WriteString(s)
					}
				}
			}
			return sb.String(), true
		}
		entry := names[0]
		refs[path.Clean(entry)] = true
		// everything a compiled/executed template of the tree may legitimately ask for
		queue := []string{path.Clean(entry)}
		seenF := map[string]bool{}
		for len(queue) > 0 {
			cur := queue[0]
			queue = queue[1:]
			if seenF[cur] {
				continue
			}
			seenF[cur] = true
			f := files[cur]
			if f == nil {
				continue
			}
			for _, p := range f.parts {
				if x, ok := p.(vref); ok {
					target := strings.TrimPrefix(memAbs(f.name, x.name), "/")
					refs[target] = true
					if x.kind != "ssi" {
						queue = append(queue, target)
					}
				}
			}
		}
		out, ok := expand(entry, 0)
		ok = ok && compilable(entry, 0)
		ct := CtxTerm{Names: []string{"zz"}, Vals: []VT{vInt(1)}}
		for li, ln := range lazyList {
			ct.Names = append(ct.Names, fmt.Sprintf("lz%d", li))
			switch (li + len(entry)) % 6 {
			case 0:
				ct.Vals = append(ct.Vals, vPtr(vStr(ln)))
			case 1:
				ct.Vals = append(ct.Vals, vBoxed(vStr(ln), li%2 == 0))
			default:
				ct.Vals = append(ct.Vals, vStr(ln))
			}
		}
		pc := ProgCase{Src: entry, FromFile: true, Loaders: loaders, Ctx: &ct, Label: fmt.Sprintf("loaders=%d", nl)}
		cases = append(cases, pc)
		exps[pc.Key()] = expect{out, ok, refs, nontriv}
	}
	progCompareLog = true
	defer func() { progCompareLog = false }()
	runProgCases(cfg, res, cases, "c11", func(c ProgCase, o ImplOutcome) bool { return exps[c.Key()].nontriv },
		func(c ProgCase, o ImplOutcome) *Finding {
			e := exps[c.Key()]
			mk := func(sig, impl, want string) *Finding {
				return &Finding{Kind: "oracle", Proj: "loaders", Sig: sig, Case: c.String(), Impl: impl, Model: want}
			}
			if strings.Contains(o.Out, canaryText) {
				return mk("c11-os-file-read", "the output contains the content of "+canaryPath, "templates come from the set's loaders only")
			}
			if strings.Contains(o.Out, "SHADOWED") {
				return mk("c11-later-loader-won", o.Canon(), "the first loader that has a name wins")
			}
			for _, g := range o.GetLog {
				name := strings.TrimPrefix(g[strings.Index(g, ":")+1:], "/")
				if !e.refs[name] {
					return mk("c11-unreferenced-fetch", "Get("+g+")", "only referenced names are fetched")
				}
			}
			if e.ok {
				if o.Class != "ok" || o.Out != e.out {
					return mk("c11-composition", o.Canon()+" "+o.Msg, "reference expansion: ok "+hxb(e.out))
				}
			} else if o.Class == "ok" {
				return mk("c11-missing-not-an-error", o.Canon(), "a missing name is an error")
			}
			return nil
		})
}

// c11Layouts: a page extends a layout that lives in another directory (possibly through a second
// layout in a third one) and refers to its own neighbours by relative names; files of the same
// names exist next to the layouts.  Every relative name resolves against the template it is
// written in.
func c11Layouts(cfg Config, res *Result) {
	rng := NewRNG(cfg.Seed ^ 0x1a70)
	n := 300
	if cfg.Thorough() {
		n = 5000
	}
	var cases []ProgCase
	wants := map[string]string{}
	for i := 0; i < n; i++ {
		pd := rng.Pick([]string{"pages", "site/pages", "p"})
		ld := rng.Pick([]string{"layouts", "site/layouts", "l/x"})
		gd := rng.Pick([]string{"grand", "site/grand"})
		up := func(from, to string) string { // relative path from directory `from` to file in directory `to`
			if rng.Bool() {
				return "/" + to
			}
			return strings.Repeat("../", strings.Count(from, "/")+1) + to
		}
		files := map[string]string{}
		mac := func(tag string) string { return "{% macro mm() export %}M-" + tag + "{% endmacro %}" }
		for _, d := range []string{pd, ld, gd} {
			files["/"+d+"/part.tpl"] = "PART-" + d
			files["/"+d+"/lib.tpl"] = mac(d)
			files["/"+d+"/note.txt"] = "NOTE-" + d
		}
		two := rng.Bool()
		// what the layout itself pulls in: its own neighbour
		layoutOwn := rng.Pick([]string{"", `{% include "part.tpl" %}`, `{% ssi "note.txt" %}`, `{% include lz %}`, `{% include lz %}{% include lz %}`})
		layoutOwnOut := map[string]string{"": "", `{% include "part.tpl" %}`: "PART-" + ld, `{% ssi "note.txt" %}`: "NOTE-" + ld, `{% include lz %}`: "PART-" + ld,
			`{% include lz %}{% include lz %}`: "PART-" + ld + "PART-" + ld}[layoutOwn]
		if two {
			files["/"+gd+"/root.tpl"] = "G<{% block c %}g{% endblock %}|{% block e %}ge{% endblock %}>"
			files["/"+ld+"/base.tpl"] = `{% extends "` + up(ld, gd+"/root.tpl") + `" %}{% block e %}` + layoutOwn + `{% endblock %}`
		} else {
			files["/"+ld+"/base.tpl"] = "L<{% block c %}l{% endblock %}|{% block e %}" + layoutOwn + "{% endblock %}>"
		}
		var body, out strings.Builder
		for q := 0; q < 1+rng.Intn(3); q++ {
			switch rng.Intn(7) {
			case 0:
				body.WriteString(`{% include "part.tpl" %}`)
				out.WriteString("PART-" + pd)
			case 1:
				body.WriteString(`{% ssi "note.txt" %}`)
				out.WriteString("NOTE-" + pd)
			case 2:
				body.WriteString(`{% ssi "part.tpl" parsed %}`)
				out.WriteString("PART-" + pd)
			case 3:
				body.WriteString(`{% import "lib.tpl" mm %}{{ mm() }}`)
				out.WriteString("M-" + pd)
			case 4:
				// a macro imported from a third directory computes the same relative name there
				files["/"+gd+"/mlib.tpl"] = "{% macro lm() export %}{% include lz %}{% endmacro %}"
				body.WriteString(`{% import "/` + gd + `/mlib.tpl" lm %}{{ lm() }}`)
				out.WriteString("PART-" + gd)
			default:
				body.WriteString(`{% include lz %}`)
				out.WriteString("PART-" + pd)
			}
			body.WriteString(",")
			out.WriteString(",")
		}
		files["/"+pd+"/page.tpl"] = `{% extends "` + up(pd, ld+"/base.tpl") + `" %}{% block c %}` + body.String() + `{% endblock %}`
		want := "L<" + out.String() + "|" + layoutOwnOut + ">"
		if two {
			want = "G<" + out.String() + "|" + layoutOwnOut + ">"
		}
		// the computed name arrives as a string, a pointer to one, or wrapped in a Value
		lzv := []VT{vStr("part.tpl"), vStr("part.tpl"), vPtr(vStr("part.tpl")), vBoxed(vStr("part.tpl"), false), vBoxed(vStr("part.tpl"), true)}[rng.Intn(5)]
		ct := CtxTerm{Names: []string{"lz"}, Vals: []VT{lzv}}
		pc := ProgCase{Src: "/" + pd + "/page.tpl", FromFile: true, Loaders: []map[string]string{files}, Ctx: &ct, Label: "layouts"}
		cases = append(cases, pc)
		wants[pc.Key()] = want
	}
	runProgCases(cfg, res, cases, "c11l", func(c ProgCase, o ImplOutcome) bool { return true },
		func(c ProgCase, o ImplOutcome) *Finding {
			want := wants[c.Key()]
			if o.Class != "ok" || o.Out != want {
				return &Finding{Kind: "oracle", Proj: "loaders", Sig: "c11-relative-name-resolution", Case: c.String(), Impl: o.Canon() + " " + o.Msg, Model: "every name resolves against the template it is written in: ok " + hxb(want)}
			}
			return nil
		})
}

// errAfter is a reader that delivers some bytes and then fails
type errAfter struct {
	data []byte
	done bool
}

func (e *errAfter) Read(p []byte) (int, error) {
	if e.done || len(e.data) == 0 {
		return 0, errors.New("read failed")
	}
	n := copy(p, e.data)
	e.data = e.data[n:]
	e.done = true
	return n, nil
}

// brokenLoader has every name of `files` but its readers fail part way through
type brokenLoader struct {
	memLoader
}

func (b *brokenLoader) Get(p string) (io.Reader, error) {
	r, err := b.memLoader.Get(p)
	if err != nil {
		return nil, err
	}
	data, _ := io.ReadAll(r)
	return &errAfter{data: data[:len(data)/2]}, nil
}

// c11BrokenReads: the first loader that has a name wins also when reading from it fails: the
// reference is an error, the next loader's file of the same name is never rendered
func c11BrokenReads(cfg Config, res *Result) {
	forms := []string{`{% include "part.tpl" %}`, `{% include lz %}`, `{% ssi "part.tpl" %}`, `{% ssi "part.tpl" parsed %}`, `{% extends "part.tpl" %}`, `{% import "part.tpl" mm %}{{ mm() }}`,
		`{% include "part.tpl" if_exists %}`, `{% include lz if_exists %}`}
	for _, form := range forms {
		sink := &sharedLog{}
		first := &brokenLoader{memLoader{files: map[string]string{"part.tpl": "FIRST-LOADER-PART-FIRST-LOADER-PART{% macro mm() export %}m1{% endmacro %}"}, id: "0", sink: sink}}
		second := &memLoader{files: map[string]string{"part.tpl": "SECOND-LOADER-PART{% macro mm() export %}SECOND-LOADER-PART{% endmacro %}", "main.tpl": "[" + form + "]"}, id: "1", sink: sink}
		set := pongo2.NewSet("broken", first, second)
		res.Cases++
		res.DistinctNontrivial++
		out, class := "", "ok"
		func() {
			defer func() {
				if p := recover(); p != nil {
					class = "panic"
				}
			}()
			tpl, err := set.FromFile("main.tpl")
			if err != nil {
				class = "compile"
				return
			}
			o, err := tpl.Execute(pongo2.Context{"lz": "part.tpl"})
			if err != nil {
				class = "exec"
				return
			}
			out = o
		}()
		if strings.Contains(out, "SECOND-LOADER-PART") || class == "panic" {
			res.add(Finding{Kind: "oracle", Proj: "loaders", Sig: "c11-later-loader-won", Case: "main.tpl=[" + form + "]; loader 0 has part.tpl but reading it fails, loader 1 has another part.tpl", Impl: class + " " + out, Model: "the first loader that has the name wins: the reference fails, the second loader's file is never used"})
		}
	}
}

// relTo writes target relative to the directory of from, if it lies below it or next to it.
func relTo(from, target string) (string, bool) {
	d := path.Dir(from)
	if d == "." {
		return target, true
	}
	if strings.HasPrefix(target, d+"/") {
		return strings.TrimPrefix(target, d+"/"), true
	}
	ups := strings.Count(d, "/") + 1
	return strings.Repeat("../", ups) + target, true
}

type c11Name string

type c11Named struct {
	Tpl  c11Name
	Ptr  *string
	Num  int
	Strg fmt.Stringer
}

type c11Stringer struct{ s string }

func (s c11Stringer) String() string { return s.s }

// c11ComputedNames: the name a lazy include computes is the text of the value, whatever Go type
// carries it — exactly the template the same characters written as a literal would name
func c11ComputedNames(cfg Config, res *Result) {
	files := map[string]string{"part.tpl": "PART", "7": "SEVEN", "d/part.tpl": "DPART", "d/page.tpl": "{% include lz %}"}
	p := "part.tpl"
	vals := []struct {
		name string
		v    any
		lit  string
	}{
		{"named-string", c11Name("part.tpl"), "part.tpl"}, {"string-pointer", &p, "part.tpl"}, {"stringer", c11Stringer{"part.tpl"}, "part.tpl"},
		{"stringer-pointer", &c11Stringer{"part.tpl"}, "part.tpl"}, {"int", 7, "7"}, {"int8", int8(7), "7"}, {"uint", uint(7), "7"},
		{"value", pongo2.AsValue(c11Name("part.tpl")), "part.tpl"}, {"safe-value", pongo2.AsSafeValue("part.tpl"), "part.tpl"},
	}
	for _, v := range vals {
		for _, shape := range []struct{ src, bind string }{
			{"{% include lz %}", "var"}, {"{% include st.Tpl %}{% include st.Ptr %}{% include st.Strg %}{% include st.Num %}", "struct"},
			{"{% for n in names %}{% include n %}{% endfor %}", "loop"}, {"{% with q=lz %}{% include q if_exists %}{% endwith %}", "with"},
			{`{% include "d/page.tpl" %}`, "nested"},
		} {
			res.Cases++
			res.DistinctNontrivial++
			sink := &sharedLog{}
			set := pongo2.NewSet("names", &memLoader{files: files, id: "0", sink: sink})
			ctx := pongo2.Context{"lz": v.v, "names": []any{v.v, v.v}, "st": c11Named{Tpl: "part.tpl", Ptr: &p, Num: 7, Strg: c11Stringer{"part.tpl"}}}
			want := map[string]string{"var": files[v.lit], "struct": "PARTPARTPARTSEVEN", "loop": files[v.lit] + files[v.lit], "with": files[v.lit], "nested": files["d/"+v.lit]}[shape.bind]
			if shape.bind == "nested" && v.lit == "7" {
				want = "" // no d/7: an error
			}
			got := func() (r execRes) {
				defer func() {
					if p := recover(); p != nil {
						r.pan = fmt.Sprint(p)
					}
				}()
				tpl, err := set.FromString(shape.src)
				if err != nil {
					r.err = err.Error()
					return
				}
				return execOnce(tpl, ctx)
			}()
			bad := got.pan != "" || got.out != want || (got.err != "") != (shape.bind == "nested" && v.lit == "7")
			if bad {
				res.add(Finding{Kind: "oracle", Proj: "loaders", Sig: "c11-computed-name-" + v.name, Case: shape.src + " with the name held as " + v.name, Impl: got.String(), Model: "the template named by the text of the value: ok " + hxb(want)})
			}
		}
	}
}

package main

import (
	"bytes"
	"fmt"
	"io"
	"os"
	"regexp"
	"runtime"
	"strings"
	"sync"
	"time"

	pongo2 "github.com/flosch/pongo2/v6"
)

func init() {
	suites["c05-race"] = suiteC05
	suites["c20-conc"] = suiteC20Conc
}

var reRaceFunc = regexp.MustCompile(`github\.com/flosch/pongo2/v6\.([^\s(]+(?:\(\*?[A-Za-z]+\))?[^\s(]*)\(`)

// collectRaces reads the race detector's log (GORACE=log_path=…) and turns
// every report into a finding.
func collectRaces(res *Result) {
	base := os.Getenv("VERIF_RACE_LOG")
	if base == "" {
		return
	}
	path := fmt.Sprintf("%s.%d", base, os.Getpid())
	b, err := os.ReadFile(path)
	if err != nil {
		return
	}
	defer os.Remove(path)
	reports := bytes.Split(b, []byte("WARNING: DATA RACE"))
	for _, r := range reports[1:] {
		m := reRaceFunc.FindAllSubmatch(r, 4)
		var fns []string
		for _, x := range m {
			fns = append(fns, string(x[1]))
		}
		sig := "race"
		if len(fns) > 0 {
			sig = "race-" + fns[0]
		}
		txt := string(r)
		if len(txt) > 1500 {
			txt = txt[:1500]
		}
		res.add(Finding{Kind: "oracle", Proj: "race", Sig: sig, Case: strings.Join(fns, " <-> "), Impl: txt, Model: "no two executions touch the same memory without synchronisation"})
	}
	res.hist(fmt.Sprintf("race-reports=%d", len(reports)-1))
}

// c05FailSites: the first failures of every failing filter site happen concurrently, from different
// templates and lines; each execution's error must name its own site (and the race detector is watching)
func c05FailSites(cfg Config, res *Result, rng *RNG) {
	sites := failSites()
	for _, s := range sites {
		const k = 6
		type job struct {
			tpl  *pongo2.Template
			src  string
			l1   int
			l2   int
			want int
			ctx  pongo2.Context
		}
		jobs := make([]job, 0, k)
		for j := 0; j < k; j++ {
			src, l1, l2 := failTemplate(s, rng.Intn(5), 1+rng.Intn(4))
			set := pongo2.NewSet("f", &memLoader{files: map[string]string{}})
			tpl, err := set.FromString(src)
			if err != nil {
				continue
			}
			first := rng.Bool()
			want := l2
			if first {
				want = l1
			}
			jobs = append(jobs, job{tpl, src, l1, l2, want, failCtx(first)})
		}
		res.Cases++
		res.DistinctNontrivial++
		msgs := make([]string, len(jobs))
		var wg sync.WaitGroup
		start := make(chan struct{})
		for j := range jobs {
			wg.Add(1)
			go func(j int) {
				defer wg.Done()
				defer func() { recover() }()
				<-start
				_, e := jobs[j].tpl.Execute(jobs[j].ctx)
				msgs[j] = failCheck(e, s, jobs[j].want)
			}(j)
		}
		close(start)
		wg.Wait()
		for j, m := range msgs {
			if m != "" {
				res.add(Finding{Kind: "oracle", Proj: "race", Sig: "c05-concurrent-error-differs", Case: fmt.Sprintf("src=%q (one of %d templates failing in %s at the same time)", jobs[j].src, len(jobs), s.expr), Impl: m, Model: "alone: the error names the filter that failed in this execution"})
				break
			}
		}
	}
}

// c05InFlight: more executions at the same moment than any per-execution limit of the engine
// (macro depth, include nesting): each is parked inside an include / a macro / a loop body by a
// context function until all have arrived; none may be affected by the others being in flight
func c05InFlight(cfg Config, res *Result) {
	const n = 1200
	files := map[string]string{
		"inner.tpl": "<{{ park() }}>",
		"main.tpl":  `{% macro m(a) %}{% include "inner.tpl" %}{{ a }}{% endmacro %}{% for q in l %}{% include name %}{{ m(q) }}{% endfor %}`,
	}
	set := pongo2.NewSet("flight", &memLoader{files: files})
	tpl, err := set.FromFile("main.tpl")
	if err != nil {
		res.add(Finding{Kind: "disagree", Proj: "harness", Sig: "c05-inflight-compile", Impl: err.Error()})
		return
	}
	res.Cases++
	res.DistinctNontrivial++
	nopark := pongo2.Context{"l": []int{1}, "name": "inner.tpl", "park": func() string { return "p" }}
	want := execOnce(tpl, nopark).String()
	var arrived int64
	var mu sync.Mutex
	release := make(chan struct{})
	allIn := make(chan struct{})
	var once sync.Once
	park := func() string {
		mu.Lock()
		arrived++
		a := arrived
		mu.Unlock()
		if a >= n {
			once.Do(func() { close(allIn) })
		}
		<-release
		return "p"
	}
	outs := make([]string, n)
	var wg sync.WaitGroup
	for j := 0; j < n; j++ {
		wg.Add(1)
		go func(j int) {
			defer wg.Done()
			outs[j] = execOnce(tpl, pongo2.Context{"l": []int{1}, "name": "inner.tpl", "park": park}).String()
		}(j)
	}
	select {
	case <-allIn:
	case <-time.After(20 * time.Second):
	}
	close(release)
	wg.Wait()
	bad := 0
	first := ""
	for _, o := range outs {
		if o != want {
			bad++
			if first == "" {
				first = o
			}
		}
	}
	res.hist(fmt.Sprintf("in-flight=%d", n))
	if bad > 0 {
		res.add(Finding{Kind: "oracle", Proj: "race", Sig: "c05-in-flight-executions-interfere", Case: fmt.Sprintf("%d executions of main.tpl parked inside an include at the same moment; files=%q", n, files), Impl: fmt.Sprintf("%d of %d differ, e.g. %s", bad, n, first), Model: "alone: " + want})
	}
}

// c05FailedLoads: a cache lookup that failed leaves nothing behind that later lookups of the
// same name (alone or several at once) could wait for or trip over
func c05FailedLoads(cfg Config, res *Result) {
	for _, bad := range []string{"", "{% if %}"} { // missing, or present but not compiling
		for _, k := range []int{1, 4} {
			ml := &memLoader{files: map[string]string{"ok.tpl": "fine"}, id: "0"}
			if bad != "" {
				ml.files["late.tpl"] = bad
			}
			set := pongo2.NewSet("fl", ml)
			res.Cases++
			res.DistinctNontrivial++
			// first round: k lookups at once, all must fail
			run := func(round string, wantOK bool) bool {
				type r struct {
					ok  bool
					out string
				}
				ch := make(chan r, k)
				for j := 0; j < k; j++ {
					go func() {
						defer func() {
							if p := recover(); p != nil {
								ch <- r{false, "panic " + fmt.Sprint(p)}
							}
						}()
						tpl, err := set.FromCache("late.tpl")
						if err != nil || tpl == nil {
							ch <- r{false, fmt.Sprint("error ", err)}
							return
						}
						ch <- r{true, execOnce(tpl, nil).String()}
					}()
				}
				for j := 0; j < k; j++ {
					select {
					case x := <-ch:
						if x.ok != wantOK || (wantOK && x.out != "ok "+hxb("now it is there")) {
							res.add(Finding{Kind: "oracle", Proj: "race", Sig: "c05-lookup-after-failed-load", Case: fmt.Sprintf("%d concurrent FromCache(late.tpl), %s (first content %q)", k, round, bad), Impl: x.out, Model: fmt.Sprint("succeeds=", wantOK)})
							return false
						}
					case <-time.After(8 * time.Second):
						res.add(Finding{Kind: "oracle", Proj: "race", Sig: "c05-lookup-hangs", Case: fmt.Sprintf("%d concurrent FromCache(late.tpl), %s (first content %q)", k, round, bad), Impl: "no answer within 8 s", Model: "every call returns"})
						return false
					}
				}
				return true
			}
			if !run("while the template cannot be loaded", false) {
				continue
			}
			ml.mu.Lock()
			ml.files["late.tpl"] = "now it is there"
			ml.mu.Unlock()
			if !run("after the template was put in place", true) {
				continue
			}
			run("once more, from the cache", true)
		}
	}
}

type c05Meters int

func (m c05Meters) Describe() string { return fmt.Sprintf("%d m", int(m)) }
func (m c05Meters) Unit() string     { return "m" }

type c05Name string

func (n c05Name) Abbrev() string   { return string(n)[:1] + "." }
func (n c05Name) Describe() string { return "name " + string(n) }

type c05Person struct {
	c05Name
	Age int
}

type c05Plain struct{ Describe string }

// c05Shapes: executions that differ in *what* they run on shared compiled trees — two pages of one
// layout, and one template over values of different types with same-named members — at the same time
func c05Shapes(cfg Config, res *Result) {
	files := map[string]string{
		"layout.tpl": "<{% block t %}T{% endblock %}|{% block c %}{{ hold() }}C{% endblock %}>",
		"a.tpl":      `{% extends "layout.tpl" %}{% block t %}A{% endblock %}{% block c %}[content of A {{ hold() }}]{% endblock %}`,
		"b.tpl":      `{% extends "layout.tpl" %}{% block c %}[content of B {{ hold() }}]{% endblock %}`,
		"m.tpl":      "{{ v.Describe }}/{% if v.Abbrev %}{{ v.Abbrev }}{% endif %}/{{ v.Unit }}",
	}
	rounds := 40
	if cfg.Thorough() {
		rounds = 400
	}
	for _, debug := range []bool{false, true} {
		set := pongo2.NewSet("shapes", &memLoader{files: files, id: "0"})
		set.Debug = debug
		type job struct {
			tpl  *pongo2.Template
			ctx  pongo2.Context
			want string
			what string
		}
		var jobs []job
		hold := func() string { runtime.Gosched(); return "" }
		for _, n := range []string{"a.tpl", "b.tpl", "layout.tpl"} {
			tpl, err := set.FromCache(n)
			if err != nil {
				res.add(Finding{Kind: "disagree", Proj: "harness", Sig: "c05-shapes-compile", Impl: err.Error()})
				return
			}
			c := pongo2.Context{"hold": hold}
			jobs = append(jobs, job{tpl, c, execOnce(tpl, c).String(), n})
		}
		mt, err := set.FromCache("m.tpl")
		if err != nil {
			res.add(Finding{Kind: "disagree", Proj: "harness", Sig: "c05-shapes-compile", Impl: err.Error()})
			return
		}
		for _, v := range []any{c05Meters(3), c05Name("Ada"), c05Person{c05Name("Bob"), 3}, &c05Person{c05Name("Cy"), 4}, c05Plain{"field"}, map[string]any{"Describe": "key", "Unit": "u"}} {
			c := pongo2.Context{"v": v}
			jobs = append(jobs, job{mt, c, execOnce(mt, c).String(), fmt.Sprintf("m.tpl with v of type %T", v)})
		}
		res.Cases++
		res.DistinctNontrivial++
		var wg sync.WaitGroup
		var mu sync.Mutex
		bad := ""
		for g := 0; g < 8; g++ {
			wg.Add(1)
			go func(g int) {
				defer wg.Done()
				for r := 0; r < rounds; r++ {
					j := jobs[(g+r)%len(jobs)]
					if got := execOnce(j.tpl, j.ctx).String(); got != j.want {
						mu.Lock()
						if bad == "" {
							bad = fmt.Sprintf("%s rendered %s while other templates / values were being rendered; alone: %s", j.what, got, j.want)
						}
						mu.Unlock()
						return
					}
				}
			}(g)
		}
		wg.Wait()
		if bad != "" {
			res.add(Finding{Kind: "oracle", Proj: "race", Sig: "c05-concurrent-output-differs", Case: fmt.Sprintf("files=%q debug=%v, 8 goroutines over pages of one layout and values of several types", files, debug), Impl: bad, Model: "every execution returns what it returns alone"})
		}
	}
}

func suiteC05(cfg Config, res *Result) {
	defer c05ReentrantInclude(res)
	defer bytesBelongToCaller(res, "race", "c05-bytes-owner")
	c05SharedConcurrent(res)
	c05ColdTypes(res)
	defer c05RealLoaders(res)
	c05Shapes(cfg, res)
	c05FailedLoads(cfg, res)
	c05FailSites(cfg, res, NewRNG(cfg.Seed^0xfa115))
	c05InFlight(cfg, res)
	c05ColdStart(res)
	c05SharedContext(res)
	res.Rule = "failing executions: the first failures of every failing filter site happen from 6 goroutines at once, in different templates and lines, each error naming its own site; 1200 executions parked at the same moment inside an include / macro / loop (no per-execution limit is shared between executions); grammar-generated programs over every modelled tag (with includes, lazy includes, macros, cycle, ifchanged, whitespace options) compiled once and executed from k in {2,4,8} goroutines at once under GOMAXPROCS in {1,2,8}, with equal and different contexts, while other goroutines compile/fetch from the same set (FromString, FromFile, FromCache); each goroutine through one of Execute / ExecuteBytes / ExecuteWriter / ExecuteWriterUnbuffered; oracle: every output equals the sequential output for its context, the bytes ExecuteBytes returned are still the same after further executions, and the race detector (harness built with -race) reports nothing; non-trivial = all; distinct by program"
	n := 250
	if cfg.Thorough() {
		n = 4000
	}
	rng := NewRNG(cfg.Seed)
	defer runtime.GOMAXPROCS(runtime.GOMAXPROCS(0))
	for i := 0; i < n; i++ {
		g := NewGen(rng.Fork())
		pc := g.Program(1 + rng.Intn(5))
		if i%2 == 0 {
			pc.Src = c04Focus[rng.Intn(len(c04Focus))] + "{% include name %}" + pc.Src
		}
		if pc.Loaders == nil {
			pc.Loaders = []map[string]string{{}}
		}
		pc.Loaders[0]["inc.tpl"] = "{% cycle 'p' 'q' %}{% ifchanged %}z{% endifchanged %}"
		pc.Loaders[0]["lazy.tpl"] = "{% for i in l %}{% cycle 1 2 %}{% endfor %}\n {% if t %}\n x{% endif %}"
		pc.Trim = rng.Bool()
		pc.LStrip = rng.Bool()
		ctxA := *pc.Ctx
		ctxA.Names = append(append([]string{}, ctxA.Names...), "name")
		ctxA.Vals = append(append([]VT{}, ctxA.Vals...), vStr("lazy.tpl"))
		ctxB := NewGen(rng.Fork()).StdCtx()
		ctxB.Names = append(ctxB.Names, "name")
		ctxB.Vals = append(ctxB.Vals, vStr("lazy.tpl"))
		set, _ := pc.buildSet()
		var tpl *pongo2.Template
		func() {
			defer func() { recover() }()
			tpl, _ = pc.compile(set)
		}()
		res.Cases++
		if tpl == nil {
			res.hist("compile-error")
			continue
		}
		res.DistinctNontrivial++
		if res.Cases <= 2 {
			res.sample(pc.String())
		}
		seqA := execOnce(tpl, ctxA.Go()).String()
		seqB := execOnce(tpl, ctxB.Go()).String()
		k := []int{2, 4, 8}[rng.Intn(3)]
		runtime.GOMAXPROCS([]int{1, 2, 8}[rng.Intn(3)])
		res.hist(fmt.Sprintf("k=%d", k))
		var wg sync.WaitGroup
		outs := make([]string, k)
		held := make([][]byte, k) // results of ExecuteBytes, kept (not copied) across later executions
		goA, goB := ctxA.Go(), ctxB.Go()
		for j := 0; j < k; j++ {
			wg.Add(1)
			go func(j int) {
				defer wg.Done()
				c := goA
				if j%2 == 1 {
					c = goB
				}
				outs[j] = execVariant(tpl, c, (j/2)%4, &held[j]).String()
			}(j)
		}
		// meanwhile: compile and fetch from the same set
		for j := 0; j < 2; j++ {
			wg.Add(1)
			go func(j int) {
				defer wg.Done()
				defer func() { recover() }()
				set.FromString("{{ 1 }}{% include 'inc.tpl' %}")
				set.FromFile("lazy.tpl")
				set.FromCache("inc.tpl")
			}(j)
		}
		wg.Wait()
		for j := 0; j < k; j++ {
			want := seqA
			if j%2 == 1 {
				want = seqB
			}
			if outs[j] != want {
				res.add(Finding{Kind: "oracle", Proj: "race", Sig: "c05-concurrent-output-differs", Case: pc.String(), Impl: outs[j], Model: "alone: " + want})
				break
			}
		}
		// a result handed out earlier must not change when the template is executed again
		execOnce(tpl, goB)
		var again []byte
		execVariant(tpl, goA, 1, &again)
		for j := 0; j < k; j++ {
			if held[j] == nil {
				continue
			}
			want := seqA
			if j%2 == 1 {
				want = seqB
			}
			if got := (execRes{out: string(held[j])}).String(); got != want {
				res.add(Finding{Kind: "oracle", Proj: "race", Sig: "c05-returned-bytes-changed-later", Case: pc.String(), Impl: got, Model: "what ExecuteBytes returned: " + want})
				break
			}
		}
	}
	collectRaces(res)
}

// execVariant runs one of the four Execute variants; for ExecuteBytes the returned slice itself is kept in *keep
func execVariant(tpl *pongo2.Template, ctx pongo2.Context, variant int, keep *[]byte) (r execRes) {
	defer func() {
		if p := recover(); p != nil {
			r = execRes{pan: fmt.Sprint(p)}
		}
	}()
	switch variant {
	case 1:
		b, err := tpl.ExecuteBytes(ctx)
		if err != nil {
			return execRes{err: err.Error()}
		}
		*keep = b
		return execRes{out: string(b)}
	case 2:
		var buf bytes.Buffer
		if err := tpl.ExecuteWriter(ctx, &buf); err != nil {
			return execRes{err: err.Error()}
		}
		return execRes{out: buf.String()}
	case 3:
		var buf bytes.Buffer
		if err := tpl.ExecuteWriterUnbuffered(ctx, &buf); err != nil {
			return execRes{err: err.Error()}
		}
		return execRes{out: buf.String()}
	}
	return execOnce(tpl, ctx)
}

func suiteC20Conc(cfg Config, res *Result) {
	res.Rule = "cache histories in which every FromCache / CleanCache is issued from k in {2,4,8} goroutines at once (GOMAXPROCS 1/2/8) on 1-3 names with a counting loader, Debug toggled only between phases; oracle (linearisation prediction): in a phase of concurrent FromCache(n) calls after a clean, exactly one Get for n happens and all goroutines receive the same *Template; the race detector reports nothing; non-trivial = all; distinct by history"
	n := 300
	if cfg.Thorough() {
		n = 5000
	}
	rng := NewRNG(cfg.Seed)
	defer runtime.GOMAXPROCS(runtime.GOMAXPROCS(0))
	names := []string{"a.tpl", "b.tpl", "c.tpl"}
	for i := 0; i < n; i++ {
		ml := &memLoader{files: map[string]string{"a.tpl": "a{{ 1 }}", "b.tpl": "{% include 'a.tpl' %}", "c.tpl": "c"}, id: "0"}
		set := pongo2.NewSet("c20c", ml)
		runtime.GOMAXPROCS([]int{1, 2, 8}[rng.Intn(3)])
		phases := 1 + rng.Intn(4)
		res.Cases++
		res.DistinctNontrivial++
		desc := ""
		for p := 0; p < phases; p++ {
			k := []int{2, 4, 8}[rng.Intn(3)]
			name := rng.Pick(names)
			cleanFirst := rng.Bool()
			if cleanFirst {
				if rng.Bool() {
					set.CleanCache()
				} else {
					set.CleanCache(name)
				}
			}
			desc += fmt.Sprintf("[clean=%v k=%d %s] ", cleanFirst, k, name)
			ml.mu.Lock()
			before := 0
			for _, l := range ml.log {
				if strings.HasSuffix(l, ":"+name) {
					before++
				}
			}
			ml.mu.Unlock()
			ptrs := make([]*pongo2.Template, k)
			var wg sync.WaitGroup
			for j := 0; j < k; j++ {
				wg.Add(1)
				go func(j int) {
					defer wg.Done()
					t, _ := set.FromCache(name)
					ptrs[j] = t
					if j == 0 {
						// a concurrent clean of another name must not disturb this one
						other := names[(indexOf(names, name)+1)%len(names)]
						set.CleanCache(other)
					}
				}(j)
			}
			wg.Wait()
			ml.mu.Lock()
			after := 0
			for _, l := range ml.log {
				if strings.HasSuffix(l, ":"+name) {
					after++
				}
			}
			ml.mu.Unlock()
			for j := 1; j < k; j++ {
				if ptrs[j] != ptrs[0] || ptrs[j] == nil {
					res.add(Finding{Kind: "oracle", Proj: "race", Sig: "c20-concurrent-different-templates", Case: desc, Impl: "goroutines received different templates", Model: "one template per name"})
					break
				}
			}
			// fetches of `name` itself in this phase: at most one (b.tpl includes a.tpl: counted under its own name only)
			maxFetch := 1
			if name == "a.tpl" {
				maxFetch = 1
			}
			if after-before > maxFetch {
				res.add(Finding{Kind: "oracle", Proj: "race", Sig: "c20-concurrent-multiple-loads", Case: desc, Impl: fmt.Sprintf("%d fetches of %s in one phase", after-before, name), Model: "one load per name"})
			}
		}
		if i < 2 {
			res.sample(desc)
		}
	}
	c20CleanDuringMiss(res)
	collectRaces(res)
}

// gateLoader holds every Get of one name until released
type gateLoader struct {
	*memLoader
	hold    string
	entered chan struct{}
	release chan struct{}
}

func (g *gateLoader) Get(p string) (io.Reader, error) {
	if strings.HasSuffix(p, g.hold) {
		select {
		case g.entered <- struct{}{}:
		default:
		}
		<-g.release
	}
	return g.memLoader.Get(p)
}

// c20CleanDuringMiss: a CleanCache that runs while another goroutine is in the middle of loading
// some other name still clears what it names: whichever of the two finishes first, a name cached
// before and covered by the clean is fetched again at its next lookup, and the name that was
// being loaded is served as one template
func c20CleanDuringMiss(res *Result) {
	for rep := 0; rep < 24; rep++ {
		runtime.GOMAXPROCS([]int{1, 2, 8}[rep%3])
		selective := rep%2 == 1
		ml := &memLoader{files: map[string]string{"x.tpl": "x", "y.tpl": "y", "slow.tpl": "s"}, id: "0"}
		gl := &gateLoader{memLoader: ml, hold: "slow.tpl", entered: make(chan struct{}, 1), release: make(chan struct{})}
		set := pongo2.NewSet("c20g", gl)
		res.Cases++
		res.DistinctNontrivial++
		px, _ := set.FromCache("x.tpl")
		py, _ := set.FromCache("y.tpl")
		desc := fmt.Sprintf("x.tpl and y.tpl cached; FromCache(slow.tpl) in flight; CleanCache(%s) meanwhile", map[bool]string{true: "x.tpl", false: ""}[selective])
		var wg sync.WaitGroup
		var slow1 *pongo2.Template
		wg.Add(1)
		go func() { defer wg.Done(); slow1, _ = set.FromCache("slow.tpl") }()
		select {
		case <-gl.entered:
		case <-time.After(5 * time.Second):
			res.add(Finding{Kind: "disagree", Proj: "harness", Sig: "c20-gate-not-reached", Case: desc})
			close(gl.release)
			wg.Wait()
			continue
		}
		cleaned := make(chan struct{})
		wg.Add(1)
		go func() {
			defer wg.Done()
			if selective {
				set.CleanCache("x.tpl")
			} else {
				set.CleanCache()
			}
			close(cleaned)
		}()
		select { // an implementation that does not wait for the load finishes the clean now
		case <-cleaned:
		case <-time.After(30 * time.Millisecond):
		}
		close(gl.release)
		wg.Wait()
		count := func(name string) int {
			ml.mu.Lock()
			defer ml.mu.Unlock()
			c := 0
			for _, l := range ml.log {
				if strings.HasSuffix(l, ":"+name) {
					c++
				}
			}
			return c
		}
		bx := count("x.tpl")
		px2, err := set.FromCache("x.tpl")
		if err != nil || px2 == nil || count("x.tpl") != bx+1 || px2 == px {
			res.add(Finding{Kind: "oracle", Proj: "race", Sig: "c20-clean-during-load-did-not-forget", Case: desc, Impl: fmt.Sprintf("x.tpl afterwards: fetched=%v same template as before=%v", count("x.tpl") != bx, px2 == px), Model: "a cleaned name is fetched again"})
		}
		if selective {
			by := count("y.tpl")
			if py2, _ := set.FromCache("y.tpl"); py2 != py || count("y.tpl") != by {
				res.add(Finding{Kind: "oracle", Proj: "race", Sig: "c20-clean-during-load-forgot-too-much", Case: desc, Impl: "y.tpl was loaded again", Model: "a name no clean covered stays cached"})
			}
		}
		if slow1 == nil {
			res.add(Finding{Kind: "oracle", Proj: "race", Sig: "c20-load-lost", Case: desc, Impl: "FromCache(slow.tpl) returned no template", Model: "the template"})
		}
		// slow.tpl: whether the clean came before or after its load finished, later lookups agree with each other
		s2, _ := set.FromCache("slow.tpl")
		s3, _ := set.FromCache("slow.tpl")
		if s2 == nil || s2 != s3 || (selective && s2 != slow1) {
			res.add(Finding{Kind: "oracle", Proj: "race", Sig: "c20-concurrent-different-templates", Case: desc, Impl: "slow.tpl is served as different templates", Model: "one template per name"})
		}
	}
}

func indexOf(xs []string, x string) int {
	for i, y := range xs {
		if y == x {
			return i
		}
	}
	return 0
}

// c05ColdStart: the very first executions of a freshly compiled template happen at the same moment
// (no warming-up execution before them): whatever a first execution learns about the template must
// not be written into it unsynchronised.  Templates whose output is many times their source.
func c05ColdStart(res *Result) {
	srcs := []string{
		"{% for i in l %}{{ i }}-{{ s }}-{{ i|add:1 }};{% endfor %}",
		`{% for i in l %}{% include "row.tpl" %}{% endfor %}`,
		"{% macro m(a) %}<{{ a }}{{ a }}{{ a }}>{% endmacro %}{% for i in l %}{{ m(s) }}{% endfor %}",
	}
	l := make([]int, 400)
	for i := range l {
		l[i] = i
	}
	for rep := 0; rep < 6; rep++ {
		for _, src := range srcs {
			files := map[string]string{"row.tpl": "[{{ i }}:{{ s }}:{{ s }}]"}
			ref, _ := pongo2.NewSet("cold-ref", &memLoader{files: files}).FromString(src)
			tpl, err := pongo2.NewSet("cold", &memLoader{files: files}).FromString(src)
			if err != nil || ref == nil {
				continue
			}
			res.Cases++
			res.DistinctNontrivial++
			ctx := func() pongo2.Context { return pongo2.Context{"l": l, "s": "some text"} }
			want := execOnce(ref, ctx()).String()
			const k = 8
			outs := make([]string, k)
			start := make(chan struct{})
			var wg sync.WaitGroup
			for j := 0; j < k; j++ {
				wg.Add(1)
				go func(j int) {
					defer wg.Done()
					<-start
					if j%2 == 0 {
						outs[j] = execOnce(tpl, ctx()).String()
					} else {
						var r execRes
						func() {
							defer func() {
								if p := recover(); p != nil {
									r.pan = fmt.Sprint(p)
								}
							}()
							b, e := tpl.ExecuteBytes(ctx())
							r.out = string(b)
							if e != nil {
								r.err = e.Error()
							}
						}()
						outs[j] = r.String()
					}
				}(j)
			}
			close(start)
			wg.Wait()
			for j, o := range outs {
				if o != want {
					res.add(Finding{Kind: "oracle", Proj: "race", Sig: "c05-cold-start-output-differs", Case: src, Impl: fmt.Sprintf("goroutine %d: %.80s", j, o), Model: "the sequential output"})
					break
				}
			}
		}
	}
}

// c05SharedContext: goroutines may share one Context map (it is read-only to the engine), also
// when the set has Globals that the context does not override
func c05SharedContext(res *Result) {
	set := pongo2.NewSet("shared", &memLoader{files: map[string]string{"inc.tpl": "{{ site }}/{{ user }}"}})
	set.Globals["site"] = "example.org"
	set.Globals["lang"] = "de"
	tpl, err := set.FromString(`{{ site }}|{{ lang }}|{{ user }}|{% include "inc.tpl" %}`)
	if err != nil {
		return
	}
	res.Cases++
	res.DistinctNontrivial++
	shared := pongo2.Context{"user": "alice"}
	before := dumpCtx(shared)
	first := execOnce(tpl, shared).String()
	if after := dumpCtx(shared); after != before {
		// (the concurrent phase would be a fatal 'concurrent map writes': the sequential witness is enough)
		res.add(Finding{Kind: "oracle", Proj: "race", Sig: "c05-caller-context-written", Case: "a set with Globals site, lang; Execute(Context{user: alice})", Impl: "the caller's map afterwards: " + after, Model: "as before: " + before})
		return
	}
	var wg sync.WaitGroup
	outs := make([]string, 16)
	for j := range outs {
		wg.Add(1)
		go func(j int) {
			defer wg.Done()
			for q := 0; q < 20; q++ {
				outs[j] = execOnce(tpl, shared).String()
			}
		}(j)
	}
	wg.Wait()
	for _, o := range outs {
		if o != first {
			res.add(Finding{Kind: "oracle", Proj: "race", Sig: "c05-shared-context-output-differs", Case: "16 goroutines sharing one Context", Impl: o, Model: first})
			break
		}
	}
	set.Globals["site"] = "example.com"
	if got, want := execOnce(tpl, shared).String(), "ok "+hxb("example.com|de|alice|example.com/alice"); got != want {
		res.add(Finding{Kind: "oracle", Proj: "race", Sig: "c05-stale-global", Case: "the global changed between two executions with the same Context map", Impl: got, Model: want})
	}
}

package main

// Fourth batch of fixed, model-free oracles (tenth seeding round: refactorings that change the
// order or count of evaluation; legal input classes nobody tests).

import (
	"errors"
	"fmt"
	"strings"
	"sync"
	"time"

	pongo2 "github.com/flosch/pongo2/v6"
)

type mixWidget interface{ Name() string }
type ctxWidget struct{ n string }
type plainWidget struct{ n string }

func (w ctxWidget) Name() string                                         { return w.n }
func (w plainWidget) Name() string                                       { return w.n }
func (w ctxWidget) Render(ctx *pongo2.ExecutionContext, s string) string { return "ctx:" + w.n + s }
func (w plainWidget) Render(s string) string                             { return "plain:" + w.n + s }

// c08MixedCallees: one call site, executed several times in one execution, meets callees with and
// without the implicit *ExecutionContext parameter, in every order: each call gets exactly the
// written arguments
func c08MixedCallees(res *Result) {
	withCtx := func(ctx *pongo2.ExecutionContext, s string) string { return "ctx:" + s }
	plain := func(s string) string { return "plain:" + strings.ToUpper(s) }
	two := func(a, b string) string { return a + "+" + b }
	for _, c := range []struct {
		src  string
		ctx  pongo2.Context
		want string
	}{
		{`{% for f in fs %}{{ f("a") }};{% endfor %}`, pongo2.Context{"fs": []any{withCtx, plain}}, "ctx:a;plain:A;"},
		{`{% for f in fs %}{{ f("a") }};{% endfor %}`, pongo2.Context{"fs": []any{plain, withCtx, plain, withCtx}}, "plain:A;ctx:a;plain:A;ctx:a;"},
		{`{% for w in ws %}{{ w.Render("!") }};{% endfor %}`, pongo2.Context{"ws": []any{ctxWidget{"a"}, plainWidget{"b"}, ctxWidget{"c"}}}, "ctx:a!;plain:b!;ctx:c!;"},
		{`{% for w in ws %}{{ w.Render("!") }};{% endfor %}`, pongo2.Context{"ws": []any{plainWidget{"b"}, ctxWidget{"a"}}}, "plain:b!;ctx:a!;"},
		{`{% for f in fs %}{{ f("a", "b") }};{% endfor %}{% for f in fs %}{{ f("c", "d") }};{% endfor %}`, pongo2.Context{"fs": []any{two}}, "a+b;c+d;"},
		{`{% for x in l %}{{ p(x) }}{{ c(x) }}{% endfor %}`, pongo2.Context{"l": []string{"q", "r"}, "p": plain, "c": withCtx}, "plain:Qctx:qplain:Rctx:r"},
	} {
		res.Cases++
		tpl := mustCompile(pongo2.NewSet("c08-mixed", &memLoader{files: map[string]string{}}), c.src)
		if tpl == nil {
			oracleFail(res, "resolver", "c08-mixed-callees", c.src, "does not compile", c.want)
			continue
		}
		for round := 0; round < 2; round++ {
			if r := execOnce(tpl, c.ctx); r.out != c.want {
				oracleFail(res, "resolver", "c08-mixed-callees", fmt.Sprintf("%s (execution %d)", c.src, round+1), r.String(), c.want)
				break
			}
		}
	}
}

type treeNode struct {
	Name     string
	Children []*treeNode
}

func (n *treeNode) render() string {
	if len(n.Children) == 0 {
		return n.Name
	}
	var parts []string
	for _, c := range n.Children {
		parts = append(parts, c.render())
	}
	return n.Name + "(" + strings.Join(parts, ",") + ")"
}

// c11RecursiveInclude: a template that includes itself by a computed name under a condition that
// ends the recursion (a tree renderer) renders the tree; directly, through an including page and
// with the name passed down
func c11RecursiveInclude(res *Result) {
	leaf := func(n string) *treeNode { return &treeNode{Name: n} }
	trees := []*treeNode{
		leaf("solo"),
		{Name: "root", Children: []*treeNode{{Name: "a", Children: []*treeNode{{Name: "a1", Children: []*treeNode{leaf("x"), leaf("y")}}, leaf("a2")}}, leaf("b")}},
		{Name: "r", Children: []*treeNode{{Name: "s", Children: []*treeNode{{Name: "t", Children: []*treeNode{{Name: "u", Children: []*treeNode{leaf("v")}}}}}}}},
	}
	const body = `{{ node.Name }}{% if node.Children %}({% for child in node.Children %}{% include tpl with node=child %}{% if not forloop.Last %},{% endif %}{% endfor %}){% endif %}`
	files := map[string]string{"/tree.tpl": body, "/page.tpl": `<{% include "/tree.tpl" %}>`, "/sub/tree.tpl": strings.Replace(body, "include tpl", `include "tree.tpl"`, 1)}
	for _, t := range trees {
		for _, c := range []struct{ file, name, want string }{
			{"/tree.tpl", "/tree.tpl", t.render()}, {"/page.tpl", "/tree.tpl", "<" + t.render() + ">"}, {"/tree.tpl", "tree.tpl", t.render()},
		} {
			res.Cases++
			got := within(10*time.Second, func() string {
				set := pongo2.NewSet("c11-rec", &memLoader{files: files})
				tpl, err := set.FromFile(c.file)
				if err != nil {
					return "err " + err.Error()
				}
				r := execOnce(tpl, pongo2.Context{"node": t, "tpl": c.name})
				if r.err != "" || r.pan != "" {
					return r.String()
				}
				return r.out
			})
			if got != c.want {
				oracleFail(res, "loaders", "c11-recursive-include", fmt.Sprintf("%s with tpl=%q over the tree %s", c.file, c.name, t.render()), got, c.want)
			}
		}
	}
}

type failAfter struct {
	n       int
	written []byte
}

func (f *failAfter) Write(p []byte) (int, error) {
	if len(f.written)+len(p) > f.n {
		k := f.n - len(f.written)
		if k < 0 {
			k = 0
		}
		f.written = append(f.written, p[:k]...)
		return k, errors.New("writer closed")
	}
	f.written = append(f.written, p...)
	return len(p), nil
}

// c14StaticWriterErrors: ExecuteWriter hands the error of the caller's writer back for every kind
// of template - also one without any tag or variable
func c14StaticWriterErrors(res *Result) {
	srcs := []string{"<p>Hello world!</p>\n", "plain", "a{# c #}b", "{% verbatim %}{{ raw }}{% endverbatim %} tail", "x{{ v }}y", "{% if v %}yes{% endif %} text", strings.Repeat("static page ", 200), "{% comment %}c{% endcomment %}text"}
	for _, src := range srcs {
		tpl := mustCompile(pongo2.NewSet("c14-static-w", &memLoader{files: map[string]string{}}), src)
		if tpl == nil {
			continue
		}
		full := execOnce(tpl, pongo2.Context{"v": 1}).out
		if full == "" {
			continue
		}
		for _, n := range []int{0, 1, 5, len(full) - 1} {
			if n >= len(full) || n < 0 {
				continue
			}
			res.Cases++
			w := &failAfter{n: n}
			var err error
			got := within(5*time.Second, func() string {
				err = tpl.ExecuteWriter(pongo2.Context{"v": 1}, w)
				return ""
			})
			if got != "" {
				oracleFail(res, "variants", "c14-writer-error-lost", fmt.Sprintf("ExecuteWriter(%q) into a writer that fails after %d bytes", src, n), got, "an error")
				continue
			}
			if err == nil {
				oracleFail(res, "variants", "c14-writer-error-lost", fmt.Sprintf("ExecuteWriter(%q) into a writer that fails after %d bytes", src, n), "nil", "the writer's error")
			} else if !strings.HasPrefix(full, string(w.written)) {
				oracleFail(res, "variants", "c14-writer-error-lost", fmt.Sprintf("ExecuteWriter(%q) into a writer that fails after %d bytes", src, n), fmt.Sprintf("written %q", w.written), "a prefix of the output")
			}
		}
	}
}

// c15InheritedTrim: the `-` markers act on the text they touch wherever that text is written: in
// an extended base, in an imported macro, in an included file, in a block definition of a child
func c15InheritedTrim(res *Result) {
	files := map[string]string{
		"/base.tpl":   "<h1>  {{- v -}}  </h1>\n  {%- block body %} base {% endblock -%}  \n<footer>",
		"/base0.tpl":  "<h1>{{ v }}</h1>{% block body %} base {% endblock %}<footer>",
		"/child.tpl":  `{% extends "/base.tpl" %}{% block body %}  {{- w -}}  {% endblock %}`,
		"/child0.tpl": `{% extends "/base0.tpl" %}{% block body %}{{ w }}{% endblock %}`,
		"/keep.tpl":   `{% extends "/base.tpl" %}`,
		"/keep0.tpl":  `{% extends "/base0.tpl" %}`,
		"/lib.tpl":    "{% macro m(x) export %}  ( {{- x -}} )  {% endmacro %}",
		"/lib0.tpl":   "{% macro m(x) export %}  ({{ x }})  {% endmacro %}",
		"/use.tpl":    `{% import "/lib.tpl" m %}[{{ m(v) }}]`,
		"/use0.tpl":   `{% import "/lib0.tpl" m %}[{{ m(v) }}]`,
		"/inc.tpl":    "a  {{- v -}}  b \n {%- if v %} c {% endif -%} \n d",
		"/inc0.tpl":   "a{{ v }}b{% if v %} c {% endif %}d",
		"/page.tpl":   `<{% include "/inc.tpl" %}>`,
		"/page0.tpl":  `<{% include "/inc0.tpl" %}>`,
		"/gc.tpl":     `{% extends "/child.tpl" %}{% block body %} [ {{- block.Super -}} ] {% endblock %}`,
		"/gc0.tpl":    `{% extends "/child0.tpl" %}{% block body %} [{{ block.Super }}] {% endblock %}`,
	}
	ctx := pongo2.Context{"v": "V", "w": "W"}
	for _, opts := range [][2]bool{{false, false}, {true, true}} {
		for _, name := range []string{"/child", "/keep", "/use", "/page", "/gc", "/base", "/inc"} {
			res.Cases++
			render := func(file string) string {
				set := pongo2.NewSet("c15-inh", &memLoader{files: files})
				set.Options.TrimBlocks, set.Options.LStripBlocks = opts[0], opts[1]
				tpl, err := set.FromFile(file)
				if err != nil {
					return "err " + err.Error()
				}
				return execOnce(tpl, ctx).String()
			}
			if got, want := render(name+".tpl"), render(name+"0.tpl"); got != want {
				oracleFail(res, "whitespace", "c15-inherited-trim", fmt.Sprintf("%s.tpl (%s) with TrimBlocks/LStripBlocks=%v", name, files[name+".tpl"], opts[0]), got, want+" (the same with the whitespace next to each '-' deleted by hand)")
			}
		}
	}
}

// evalTrace: every expression a construct is given is evaluated once, in the written order, up to
// the point where the construct is decided
func evalTrace(res *Result, proj, sig string) {
	type tcase struct {
		src  string
		want string // output
		log  string // names of the calls, in order
	}
	cases := []tcase{
		{`{% widthratio t1() t2() t100() %}`, "50", "t1 t2 t100"},
		{`{% widthratio t2() t1() t100() %}`, "200", "t2 t1 t100"},
		{`{% widthratio t1() z() t100() %}`, "0", "t1 z t100"},
		{`{% widthratio fail() z() t100() %}`, "err", "fail"},
		{`{% widthratio t1() t2() t100() as r %}{{ r }}`, "50", "t1 t2 t100"},
		{`{% firstof z() t1() t2() %}`, "1", "z t1"},
		{`{% ifequal t1() t2() %}E{% else %}N{% endifequal %}`, "N", "t1 t2"},
		{`{% ifnotequal t1() t2() %}N{% else %}E{% endifnotequal %}`, "N", "t1 t2"},
		{`{% with a=t1() b=t2() c=t100() %}{{ a }}{{ b }}{{ c }}{% endwith %}`, "12100", "t1 t2 t100"},
		{`{% include "/show.tpl" with a=t2() b=t1() %}`, "[2|1]", "t2 t1"},
		{`{% macro m(a, b, c) %}{{ a }}{{ b }}{{ c }}{% endmacro %}{{ m(t100(), t2(), t1()) }}`, "10021", "t100 t2 t1"},
		{`{{ two(t2(), t1()) }}`, "2+1", "t2 t1"},
		{`{{ t1()|add:t2()|add:t100() }}`, "103", "t1 t2 t100"},
		{`{{ [t2(), t1(), t100()]|join:"," }}`, "2,1,100", "t2 t1 t100"},
		{`{{ t1() + t2() * t100() }}`, "201", "t1 t2 t100"},
		{`{{ z() and t1() }}|{{ t1() or t2() }}`, "False|True", "z t1"},
		{`{% if z() %}a{% elif t1() %}b{% elif t2() %}c{% endif %}`, "b", "z t1"},
		{`{% for x in l %}{% cycle t1() t2() %}{% endfor %}`, "12", "t1 t2"},
		{`{% for x in l %}{% ifchanged t1() t2() %}C{% else %}S{% endifchanged %}{% endfor %}`, "CS", "t1 t2 t1 t2"},
		{`{% set a = t1() %}{{ a }}{{ a }}`, "11", "t1"},
		{`{% filter add:t1()|add:t2() %}5{% endfilter %}`, "512", "t1 t2"},
		{`{% for x in tl() %}{{ x }}{% endfor %}`, "12", "tl"},
		{`{% if t1() in [t2(), t1()] %}y{% endif %}`, "y", "t1 t2 t1"},
	}
	files := map[string]string{"/show.tpl": "[{{ a }}|{{ b }}]"}
	for _, c := range cases {
		res.Cases++
		var mu sync.Mutex
		var log []string
		mk := func(name string, v any) func() any {
			return func() any {
				mu.Lock()
				log = append(log, name)
				mu.Unlock()
				return v
			}
		}
		ctx := pongo2.Context{"t1": mk("t1", 1), "t2": mk("t2", 2), "t100": mk("t100", 100), "z": mk("z", 0), "tl": mk("tl", []int{1, 2}), "l": []int{1, 2},
			"two":  func(a, b int) string { return fmt.Sprintf("%d+%d", a, b) },
			"fail": func() (int, error) { mu.Lock(); log = append(log, "fail"); mu.Unlock(); return 0, errors.New("failed") }}
		r := implRenderFiles(c.src, files, ctx)
		got := r.Out
		if r.Err != "" || r.Panicked {
			got = "err"
			if c.want != "err" {
				got = r.String()
			}
		}
		if got != c.want || strings.Join(log, " ") != c.log {
			oracleFail(res, proj, sig, c.src+" with t1()=1, t2()=2, t100()=100, z()=0 recording their calls", fmt.Sprintf("%s, calls [%s]", got, strings.Join(log, " ")), fmt.Sprintf("%s, calls [%s]", c.want, c.log))
		}
	}
}

// c18Truncatewords: the first n words joined by single blanks, with the ellipsis exactly when words
// were left out - whatever white space surrounds or ends the text
func c18Truncatewords(res *Result) {
	texts := []string{"Hello wide world", "Hello wide world\n", "Hello wide world \t ", "  lead and trail  ", "one", "one ", " one", "a\r\nb\r\nc\r\n", "你好世界 ", "你好 世界", "", "   ", "a  b   c    d", "x\vy\fz", "tab\tsep\tthree\t"}
	for _, s := range texts {
		words := strings.Fields(s)
		for n := 0; n <= len(words)+2; n++ {
			res.Cases++
			want := strings.Join(words, " ")
			if n < len(words) {
				want = strings.Join(words[:n], " ")
				if n > 0 || true {
					want += " ..."
				}
				if n == 0 {
					want = "" // pinned by the suite's fixture: truncatewords:0 is empty
				}
			}
			v, err := pongo2.ApplyFilter("truncatewords", pongo2.AsValue(s), pongo2.AsValue(n))
			got := ""
			if err != nil {
				got = "err " + err.Error()
			} else {
				got = v.String()
			}
			if n == 0 && len(words) == 0 {
				continue
			}
			if got != want {
				oracleFail(res, "filter", "c18-truncatewords-reference", fmt.Sprintf("%q|truncatewords:%d", s, n), fmt.Sprintf("%q", got), fmt.Sprintf("%q", want))
			}
		}
	}
}

// c20EmptyFiles: a template of length zero (or one that renders nothing) is a template like any
// other to the cache
func c20EmptyFiles(res *Result) {
	for _, body := range []string{"", "{# nothing #}", " ", "\n", "x"} {
		res.Cases++
		ml := &memLoader{files: map[string]string{"/e.tpl": body}, id: "0"}
		set := pongo2.NewSet("c20-empty", ml)
		var ptrs []*pongo2.Template
		bad := ""
		for i := 0; i < 4; i++ {
			t, err := set.FromCache("/e.tpl")
			if err != nil || t == nil {
				bad = fmt.Sprintf("call %d: %v", i+1, err)
				break
			}
			ptrs = append(ptrs, t)
		}
		if bad == "" {
			for _, p := range ptrs {
				if p != ptrs[0] {
					bad = "different templates for the same name"
				}
			}
			if len(ml.log) != 1 {
				bad += fmt.Sprintf(" %d fetches for 4 calls", len(ml.log))
			}
		}
		if bad == "" {
			set.CleanCache("/e.tpl")
			t, err := set.FromCache("/e.tpl")
			t2, _ := set.FromCache("/e.tpl")
			if err != nil || t == ptrs[0] || t != t2 || len(ml.log) != 2 {
				bad = fmt.Sprintf("after CleanCache: same as before=%v, stable=%v, fetches=%d, err=%v", t == ptrs[0], t == t2, len(ml.log), err)
			}
		}
		if bad != "" {
			oracleFail(res, "cache", "c20-empty-file", fmt.Sprintf("FromCache x4, CleanCache(name), FromCache x2 on a file with content %q", body), bad, "one template and one fetch until the name is cleaned, then one fresh template and one more fetch")
		}
	}
}

// c04ReservedNames: a context that binds the engine's own names (pongo2, forloop, block) to data of
// its own changes nothing for the executions that follow, in this set or another
func c04ReservedNames(res *Result) {
	const src = `{{ user }}: {{ pongo2.version }}|{{ pongo2.app }}|{{ pongo2.debug }}|{% for i in l %}{{ forloop.Counter }}{{ forloop.app }}{% endfor %}|{% block b %}{{ block.app }}{% endblock %}`
	set := pongo2.NewSet("c04-reserved", &memLoader{files: map[string]string{}})
	tpl := mustCompile(set, src)
	other := mustCompile(pongo2.NewSet("c04-reserved-2", &memLoader{files: map[string]string{}}), src)
	if tpl == nil || other == nil {
		return
	}
	alice := func() pongo2.Context { return pongo2.Context{"user": "alice", "l": []int{1, 2}} }
	before, beforeOther := execOnce(tpl, alice()).String(), execOnce(other, nil).String()
	for _, odd := range []pongo2.Context{
		{"user": "bob", "l": []int{1}, "pongo2": pongo2.Context{"app": "shop", "debug": true, "version": "0"}},
		{"user": "bob", "l": []int{1}, "pongo2": map[string]any{"app": "shop"}, "forloop": map[string]any{"app": "x", "Counter": 9}, "block": map[string]string{"app": "y"}},
		{"user": "bob", "l": []int{1}, "pongo2": "text", "forloop": 1, "block": nil},
	} {
		res.Cases++
		execOnce(tpl, odd)
		if after, afterOther := execOnce(tpl, alice()).String(), execOnce(other, nil).String(); after != before || afterOther != beforeOther {
			oracleFail(res, "history", "c04-reserved-names-leak", fmt.Sprintf("%s executed with %v in between", src, odd), after+" / other set: "+afterOther, before+" / "+beforeOther+" (as before)")
			return
		}
	}
}

// c04EqualErrors: equal contexts give equal errors - also when a context has several things wrong
// with it (several keys that are no identifiers, several keys that clash with exported macros)
func c04EqualErrors(res *Result) {
	const src = `{% macro m1() export %}1{% endmacro %}{% macro m2() export %}2{% endmacro %}{% macro m3() export %}3{% endmacro %}x`
	tpl := mustCompile(pongo2.NewSet("c04-equal-errors", &memLoader{files: map[string]string{}}), src)
	if tpl == nil {
		return
	}
	for _, ctx := range []func() pongo2.Context{
		func() pongo2.Context { return pongo2.Context{"a-b": 1, "c-d": 2, "e f": 3, "ok": 4, "": 5} },
		func() pongo2.Context { return pongo2.Context{"m1": 1, "m2": 2, "m3": 3, "fine": 4} },
		func() pongo2.Context { return pongo2.Context{"m2": 1, "x-y": 2, "m1": 3, "z z": 4} },
	} {
		res.Cases++
		seen := map[string]int{}
		for i := 0; i < 60; i++ {
			seen[execOnce(tpl, ctx()).String()]++
		}
		if len(seen) != 1 {
			var outs []string
			for o, n := range seen {
				outs = append(outs, fmt.Sprintf("%dx %s", n, o))
			}
			oracleFail(res, "history", "c04-equal-contexts-unequal-errors", fmt.Sprintf("60 executions with equal contexts %v", ctx()), strings.Join(outs, " / "), "one outcome")
		}
	}
}

type renderStringer struct{ f func() string }

func (r renderStringer) String() string { return r.f() }

var reentrantFilterOnce sync.Once
var reentrantFilterFn func(s string) string
var reentrantFilterMu sync.Mutex

// reentrancy: user code the engine calls - a context function, a Stringer, a custom filter - renders
// another template (or the same one, one level deep) of the same set while an execution is under
// way.  The outer rendering equals the one in which the inner renderings were done beforehand and
// only their text is handed in: nothing per execution (cycle, ifchanged, forloop, macro depth,
// blocks, scratch buffers, autoescape) is shared between the nested executions.
func reentrancy(res *Result, proj, sig string) {
	reentrantFilterOnce.Do(func() {
		pongo2.RegisterFilter("verif_render", func(in, param *pongo2.Value) (*pongo2.Value, *pongo2.Error) {
			reentrantFilterMu.Lock()
			f := reentrantFilterFn
			reentrantFilterMu.Unlock()
			if f == nil {
				return in, nil
			}
			return pongo2.AsSafeValue(f(in.String())), nil
		})
	})
	const inner = `{% for i in l %}{% cycle "a" "b" %}{% ifchanged i %}!{% endifchanged %}{{ forloop.Counter }}{% endfor %}{% macro m(x) %}<{{ x }}>{% endmacro %}{{ m(v) }}{% filter upper %}{{ v }}k{% endfilter %}{% autoescape off %}{{ v }}{% endautoescape %}{% block b %}[{{ v }}]{% endblock %}{% spaceless %}<i> </i>{% endspaceless %}`
	const outer = `{% for j in l %}{% cycle "x" "y" %}{{ sub(j) }}{% ifchanged j %}?{% endifchanged %}{{ forloop.Counter }}{{ forloop.Last }};{% endfor %}{{ st }}|{% block b %}{{ sub("blk") }}{% endblock %}|{% macro o(y) %}({{ sub(y) }}){% endmacro %}{{ o("mac") }}|{% filter lower %}{{ sub("FLT") }}{% endfilter %}|{{ "<f>"|verif_render }}|{% with w=sub("w") %}{{ w }}{{ w }}{% endwith %}|{% if deep %}{{ self() }}{% endif %}|{% for k, v in pongo2 sorted %}{{ k }}={{ v }};{% endfor %}`
	for _, how := range []string{"Execute", "ExecuteBytes", "ExecuteWriter", "ExecuteWriterUnbuffered", "FromCache+Execute", "RenderTemplateString"} {
		res.Cases++
		files := map[string]string{"/inner.tpl": inner, "/outer.tpl": outer}
		set := pongo2.NewSet("reentrant", &memLoader{files: files})
		in, e1 := set.FromFile("/inner.tpl")
		out, e2 := set.FromFile("/outer.tpl")
		if e1 != nil || e2 != nil {
			oracleFail(res, proj, sig, "compiling the re-entrancy templates", fmt.Sprint(e1, e2), "compile")
			return
		}
		l := []string{"1", "1", "<2>"}
		renderInner := func(v string) string {
			ctx := pongo2.Context{"l": l, "v": v}
			switch how {
			case "ExecuteBytes":
				b, err := in.ExecuteBytes(ctx)
				if err != nil {
					return "ERR " + err.Error()
				}
				return string(b)
			case "ExecuteWriter", "ExecuteWriterUnbuffered":
				var sink bytesSink
				var err error
				if how == "ExecuteWriter" {
					err = in.ExecuteWriter(ctx, &sink)
				} else {
					err = in.ExecuteWriterUnbuffered(ctx, &sink)
				}
				if err != nil {
					return "ERR " + err.Error()
				}
				return string(sink.b)
			case "FromCache+Execute":
				t, err := set.FromCache("/inner.tpl")
				if err != nil {
					return "ERR " + err.Error()
				}
				s, err := t.Execute(ctx)
				if err != nil {
					return "ERR " + err.Error()
				}
				return s
			case "RenderTemplateString":
				s, err := set.RenderTemplateString(inner, ctx)
				if err != nil {
					return "ERR " + err.Error()
				}
				return s
			}
			s, err := in.Execute(ctx)
			if err != nil {
				return "ERR " + err.Error()
			}
			return s
		}
		pre := map[string]string{}
		for _, v := range []string{"1", "<2>", "blk", "mac", "FLT", "w", "<f>", "st"} {
			pre[v] = renderInner(v)
		}
		run := func(live bool, deep bool) string {
			sub := func(v string) *pongo2.Value {
				if live {
					return pongo2.AsSafeValue(renderInner(v))
				}
				return pongo2.AsSafeValue(pre[v])
			}
			reentrantFilterMu.Lock()
			reentrantFilterFn = func(s string) string { return sub(s).String() }
			reentrantFilterMu.Unlock()
			var ctx pongo2.Context
			ctx = pongo2.Context{"l": l, "sub": sub, "st": renderStringer{func() string { return sub("st").String() }}, "deep": deep,
				"self": func() *pongo2.Value {
					c2 := pongo2.Context{"l": l, "sub": ctx["sub"], "st": ctx["st"], "deep": false, "self": func() string { return "" }}
					return pongo2.AsSafeValue(execOnce(out, c2).String())
				}}
			return within(20*time.Second, func() string { return execOnce(out, ctx).String() })
		}
		for _, deep := range []bool{false, true} {
			if got, want := run(true, deep), run(false, deep); got != want {
				oracleFail(res, proj, sig, fmt.Sprintf("outer template %s whose context function / Stringer / filter render %s through %s while it executes (nested self-execution: %v)", outer, inner, how, deep), got, want+" (the inner renderings done beforehand)")
				break
			}
		}
		reentrantFilterMu.Lock()
		reentrantFilterFn = nil
		reentrantFilterMu.Unlock()
	}
}

package main

import (
	"fmt"
	"strings"
	"time"
)

func init() {
	suites["c13-bind"] = suiteC13Bind
	suites["c13-rec"] = suiteC13Rec
}

func suiteC13Bind(cfg Config, res *Result) {
	defer c13Defaults(res)
	defer c13UnderSwitch(res)
	defer c13ContextsOutliveCalls(res)
	defer recursiveMacroNodes(res, "binding", "c13-recursive-nodes", "")
	defer c13SafeAnywhere(res)
	res.Rule = "macro signatures with 0..4 parameters, any subset with default expressions (literals, names of the defining scope, names that are also parameters of the macro while the caller binds them too) x call sites with 0..5 arguments of all scalar kinds, lists and nil x definition local / imported / imported under an alias; oracle: a reference binding (i-th argument to i-th parameter, omitted -> default or empty, too many -> execution error), literal markup in the body comes out unescaped, and imported = local; also compared with the Lean model; non-trivial = call with omitted or defaulted parameters; distinct by (signature, call)"
	n := 3000
	if cfg.Thorough() {
		n = 60000
	}
	rng := NewRNG(cfg.Seed)
	argPool := []struct{ src, val string }{{"1", "1"}, {"2.5", "2.500000"}, {`"s"`, "s"}, {"true", "True"}, {"x", "ctxx"}, {"n", ""}, {"l", "<[]int Value>"}, {"i", "42"}, {`""`, ""}, {"y", "dy"}, {"hm", "&lt;h&gt;"}}
	defPool := []struct{ src, val string }{{"7", "7"}, {`"d"`, "d"}, {"y", "dy"}, {"i", "42"},
		// a default is the value of its expression, with what that value carries: markup marked safe stays safe
		{"sv", "<b>"}, {"hm", "&lt;h&gt;"}}
	var cases []ProgCase
	wants := map[string]string{}
	for i := 0; i < n; i++ {
		np := rng.Intn(5)
		params := make([]string, np)
		defVals := make([]string, np)
		var sig []string
		for j := 0; j < np; j++ {
			params[j] = fmt.Sprintf("p%d", j)
			if rng.Chance(2, 5) {
				d := defPool[rng.Intn(len(defPool))]
				if rng.Chance(1, 3) {
					// a default naming another parameter of the same macro: defaults are evaluated in the
					// defining scope, where that name is the caller's variable, not the parameter
					k := rng.Intn(4)
					d = struct{ src, val string }{fmt.Sprintf("p%d", k), fmt.Sprintf("o%d", k)}
				}
				sig = append(sig, params[j]+"="+d.src)
				defVals[j] = d.val
			} else {
				sig = append(sig, params[j])
			}
		}
		body := "<m>"
		for _, p := range params {
			body += "[" + p + "={{ " + p + " }}]"
		}
		body += "</m>"
		na := rng.Intn(6)
		var args, argVals []string
		for j := 0; j < na; j++ {
			a := argPool[rng.Intn(len(argPool))]
			args = append(args, a.src)
			argVals = append(argVals, a.val)
		}
		want := "err exec"
		if na <= np {
			w := "<m>"
			for j, p := range params {
				v := defVals[j]
				if j < na {
					v = argVals[j]
				}
				// only string-kinded values are escaped inside the body; the macro's own markup is not
				w += "[" + p + "=" + v + "]"
			}
			want = "ok " + hxb(w+"</m>")
		}
		def := "{% macro mm(" + strings.Join(sig, ", ") + ") export %}" + body + "{% endmacro %}"
		ct := CtxTerm{Names: []string{"sv", "hm", "x", "y", "n", "l", "i", "p0", "p1", "p2", "p3"}, Vals: []VT{vBoxed(vStr("<b>"), true), vStr("<h>"), vStr("ctxx"), vStr("dy"), vNil(), vList("int", vInt(1)), vInt(42), vStr("o0"), vStr("o1"), vStr("o2"), vStr("o3")}}
		lbl := "full"
		if na < np {
			lbl = "omitted"
		}
		mode := rng.Intn(3)
		var pc ProgCase
		switch mode {
		case 0:
			pc = ProgCase{Src: def + "{{ mm(" + strings.Join(args, ", ") + ") }}", Ctx: &ct, Label: lbl + "/local"}
		case 1:
			pc = ProgCase{Src: `{% import "mac.tpl" mm %}{{ mm(` + strings.Join(args, ", ") + ") }}", Loaders: []map[string]string{{"mac.tpl": def}}, Ctx: &ct, Label: lbl + "/import"}
		default:
			pc = ProgCase{Src: `{% import "mac.tpl" mm as zz %}{{ zz(` + strings.Join(args, ", ") + ") }}", Loaders: []map[string]string{{"mac.tpl": def}}, Ctx: &ct, Label: lbl + "/alias"}
		}
		// defaults naming variables of the defining scope: an imported macro is
		// defined in another file but called with the importer's context, where
		// the same names are bound (the context is shared), so the reference agrees
		cases = append(cases, pc)
		wants[pc.Key()] = want
		if i%12 == 0 {
			// a macro call that fails after having written something: what it wrote is gone with it
			// and must not turn up in a later call (of this or any other template)
			bad := ProgCase{Src: fmt.Sprintf("{%% macro bad(x) %%}LEFTOVER%d{{ 1/x }}{%% endmacro %%}{%% macro deep(n) %%}D{{ deep(n) }}{%% endmacro %%}{{ %s }}", i, rng.Pick([]string{"bad(0)", "deep(1)"})), Ctx: &ct, Label: "full/poison"}
			cases = append(cases, bad)
			wants[bad.Key()] = "err exec"
		}
	}
	runProgCases(cfg, res, cases, "c13", func(c ProgCase, o ImplOutcome) bool { return strings.HasPrefix(c.Label, "omitted") },
		func(c ProgCase, o ImplOutcome) *Finding {
			want := wants[c.Key()]
			if o.Canon() != want {
				return &Finding{Kind: "oracle", Proj: "binding", Sig: "c13-binding", Case: c.String(), Impl: o.Canon() + " " + o.Msg, Model: "reference binding: " + want}
			}
			return nil
		})
}

func suiteC13Rec(cfg Config, res *Result) {
	defer c13MixedRecursion(res)
	res.Rule = "call graphs of 1..3 macros that recurse without a base case (direct, mutual, with arguments), defined locally, imported, imported under an alias, called from loops and includes, and interleaved with calls of terminating local / imported macros; each executed in an isolated worker process (wall-clock limit, stack limit); oracle: the worker returns an execution error — it must not crash (stack overflow), hang or render; non-trivial = all; distinct by program"
	type rc struct {
		name string
		pc   ProgCase
	}
	var cases []rc
	mk := func(name, src string, files map[string]string) {
		pc := ProgCase{Src: src, Label: name}
		if files != nil {
			pc.Loaders = []map[string]string{files}
		}
		cases = append(cases, rc{name, pc})
	}
	self := "{% macro r(a) export %}{{ r(a) }}{% endmacro %}"
	mutual := "{% macro a() export %}x{{ b() }}{% endmacro %}{% macro b() export %}y{{ a() }}{% endmacro %}"
	three := "{% macro a() export %}{{ b() }}{% endmacro %}{% macro b() export %}{{ c() }}{% endmacro %}{% macro c() export %}{{ a() }}{% endmacro %}"
	mk("local-self", self+"{{ r(1) }}", nil)
	mk("local-mutual", mutual+"{{ a() }}", nil)
	mk("local-three", three+"{{ c() }}", nil)
	mk("local-self-in-loop", self+"{% for i in \"ab\" %}{{ r(i) }}{% endfor %}", nil)
	mk("import-self", `{% import "m.tpl" r %}{{ r(1) }}`, map[string]string{"m.tpl": self})
	mk("import-alias-mutual", `{% import "m.tpl" a as b, b as a %}{{ a() }}`, map[string]string{"m.tpl": mutual})
	mk("import-mutual", `{% import "m.tpl" a, b %}{{ a() }}`, map[string]string{"m.tpl": mutual})
	mk("import-three", `{% import "m.tpl" a, b, c %}{{ b() }}`, map[string]string{"m.tpl": three})
	mk("import-in-include", `{% include "i.tpl" %}`, map[string]string{"i.tpl": `{% import "m.tpl" r %}{{ r(1) }}`, "m.tpl": self})
	mk("local-via-default", "{% macro d(a=d()) %}x{% endmacro %}{{ d() }}", nil)
	mk("import-self-with-default", `{% import "m.tpl" r %}{{ r() }}`, map[string]string{"m.tpl": "{% macro r(a=1) export %}{{ r(a) }}{% endmacro %}"})
	// the recursion is interleaved with calls that do terminate: the guard must count nesting, not calls
	leaf := "{% macro leaf() export %}l{% endmacro %}"
	mk("local-rec-calls-imported-leaf", `{% import "m.tpl" leaf %}{% macro rec() %}{{ leaf() }}{{ rec() }}{% endmacro %}{{ rec() }}`, map[string]string{"m.tpl": leaf})
	mk("local-rec-calls-local-leaf", "{% macro leaf() %}l{% endmacro %}{% macro rec() %}{{ leaf() }}{{ rec() }}{{ leaf() }}{% endmacro %}{{ rec() }}", nil)
	mk("import-rec-calls-imported-leaf", `{% import "m.tpl" rec %}{{ rec() }}`, map[string]string{"m.tpl": leaf + "{% macro rec() export %}{{ leaf() }}{{ rec() }}{% endmacro %}"})
	mk("import-mutual-calls-imported-leaf", `{% import "m.tpl" a, b, leaf %}{{ leaf() }}{{ a() }}`, map[string]string{"m.tpl": leaf + "{% macro a() export %}{{ leaf() }}{{ b() }}{% endmacro %}{% macro b() export %}{{ a() }}{{ leaf() }}{% endmacro %}"})
	for _, c := range cases {
		res.Cases++
		res.DistinctNontrivial++
		class, detail := runIsolated(c.pc, 60*time.Second)
		res.hist(class)
		res.sample(c.name + " => " + class)
		if class != "exec" {
			sig := "c13-runaway-" + c.name
			res.add(Finding{Kind: "oracle", Proj: "recursion", Sig: sig, Case: c.pc.String(), Impl: class + " " + detail, Model: "an execution error after a fixed depth"})
		}
	}
}

module verif/harness

go 1.23

require github.com/flosch/pongo2/v6 v6.0.0

replace github.com/flosch/pongo2/v6 => /repo

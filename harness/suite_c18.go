package main

import (
	"fmt"
	"math"
	"strings"
	"unicode/utf8"

	pongo2 "github.com/flosch/pongo2/v6"
)

func init() { suites["c18-win"] = suiteC18 }

// pySliceIdx: Python's slice index normalisation for step 1.
func pySliceIdx(n int, a, b *int) (int, int) {
	norm := func(i int) int {
		if i < 0 {
			i += n
			if i < 0 {
				i = 0
			}
		}
		if i > n {
			i = n
		}
		return i
	}
	lo, hi := 0, n
	if a != nil {
		lo = norm(*a)
	}
	if b != nil {
		hi = norm(*b)
	}
	if hi < lo {
		hi = lo
	}
	return lo, hi
}

type fcase struct {
	f    string
	v, p VT
	impl string
	out  *pongo2.Value
}

func suiteC18(cfg Config, res *Result) {
	defer c18Wordwrap(res)
	defer c18WidthratioForms(res)
	defer filterTagRecursion(res, "filter", "c18-filter-tag-recursion")
	defer evalTrace(res, "filter", "c18-evaluation-order")
	defer c18Truncatewords(res)
	defer filtersSeeCurrentText(res, "filter", "c18-filter-aliases-input")
	defer recursiveMacroNodes(res, "filter", "c18-recursive-filter-tag", "filter")
	defer filterTagIsChain(res, "filter", "c18-filter-tag-is-chain")
	defer c18NilParam(res)
	res.Rule = "per filter, exhaustive integer windows: slice bounds -8..8 (and missing) squared over strings/lists/arrays of length 0..6 incl. multi-byte; widths -3..20 over strings of length 0..12 for center/ljust/rjust/truncatechars/truncatewords/wordwrap; numeric tables for add/divisibleby/get_digit/floatformat/pluralize/yesno/default*/integer/float; sequence ops first/last/length/length_is/join/split/make_list/cut/wordcount/linenumbers/linebreaksbr/capfirst/upper/lower; widthratio over a cube of small integers (both signs) through the template; each compared with the Lean model and, where stated, an independent Go reference (Python slicing, padding shape, floating-point round of the ratio); non-trivial = argument outside the trivial range or multi-byte input; distinct by (filter, value, parameter)"
	rng := NewRNG(cfg.Seed)
	var cases []fcase
	add := func(f string, v, p VT) { cases = append(cases, fcase{f: f, v: v, p: p}) }
	strs := []string{"", "a", "ab", "abc", "héllo", "日本語", "abcdef", "a b c", "  x  ", "Hello World Foo", "one two three four five six", "\xff\xfe", "x\ny\nz", "it's", "a,b,,c"}
	seqs := []VT{}
	for _, s := range strs[:7] {
		seqs = append(seqs, vStr(s))
	}
	for n := 0; n <= 6; n++ {
		xs := make([]VT, n)
		ss := make([]VT, n)
		for i := range xs {
			xs[i] = vInt(int64(i*3 - 2))
			ss[i] = vStr(string(rune('a' + i)))
		}
		seqs = append(seqs, vList("int", xs...), vList("string", ss...))
		if n <= 4 {
			seqs = append(seqs, vArr(xs...))
		}
	}
	// multi-byte characters in front of ASCII ones: a character index is not a byte offset
	for _, s := range []string{"äbc", "héllo wörld", "日本x", "x日", "aé", "éa", "ß", "€uro", "naïve ü"} {
		seqs = append(seqs, vStr(s))
	}
	seqs = append(seqs, vInt(5), vNil(), vList("any", vStr("x"), vInt(2), vNil()))
	bounds := []string{""}
	for i := -8; i <= 8; i++ {
		bounds = append(bounds, fmt.Sprint(i))
	}
	bounds = append(bounds, " ", "x", "2.9", "99999999999")
	for _, v := range seqs {
		for _, a := range bounds {
			for _, b := range bounds {
				add("slice", v, vStr(a+":"+b))
			}
		}
		for _, bad := range []string{"", "1", "1:2:3", "abc"} {
			add("slice", v, vStr(bad))
		}
		for _, f := range []string{"first", "last", "length", "make_list", "join", "wordcount", "random"} {
			add(f, v, vNil())
		}
		for _, sep := range []string{", ", "", "-", "ab"} {
			add("join", v, vStr(sep))
		}
		for n := -1; n <= 7; n++ {
			add("length_is", v, vInt(int64(n)))
		}
		add("length_is", v, vStr("3"))
	}
	for _, s := range strs {
		for w := -3; w <= 20; w++ {
			for _, f := range []string{"center", "ljust", "rjust", "truncatechars", "truncatewords", "wordwrap"} {
				add(f, vStr(s), vInt(int64(w)))
			}
		}
		for _, w := range []int64{9999, 10000, 10001, 10020, 1 << 40, -(1 << 40)} {
			for _, f := range []string{"center", "ljust", "rjust", "truncatechars"} {
				add(f, vStr(s), vInt(w))
			}
		}
		for _, f := range []string{"capfirst", "upper", "lower", "linenumbers", "linebreaksbr", "integer", "float", "pluralize", "yesno"} {
			add(f, vStr(s), vNil())
		}
		for _, c := range []string{"a", " ", "", "bc", "é", ","} {
			add("cut", vStr(s), vStr(c))
			add("split", vStr(s), vStr(c))
		}
	}
	nums := []VT{vInt(0), vInt(1), vInt(2), vInt(-1), vInt(7), vInt(10), vInt(123456), vInt(-42), vUint(3), vFloat(0), vFloat(1), vFloat(1.5), vFloat(2.5), vFloat(-0.5), vFloat(3.14159), vFloat(1e9),
		vFloat(0.000001234), vFloat(34.23234), vFloat(34.00000), vFloat(34.26000), vFloat(-1.0), vFloat(0.5), vFloat(1.005), vFloat(2.675), vStr("12"), vStr("3.7"), vStr("abc"), vStr(""), vNil(), vBool(true), vBool(false)}
	for _, a := range nums {
		for _, b := range nums {
			add("add", a, b)
			add("divisibleby", a, b)
			add("default", a, b)
			add("default_if_none", a, b)
		}
		for d := -4; d <= 8; d++ {
			add("floatformat", a, vInt(int64(d)))
			add("get_digit", a, vInt(int64(d)))
		}
		add("floatformat", a, vNil())
		add("floatformat", a, vStr(""))
		add("floatformat", a, vStr("2"))
		add("floatformat", a, vInt(1001))
		for _, p := range []VT{vNil(), vStr("es"), vStr("y,ies"), vStr("a,b,c"), vStr("")} {
			add("pluralize", a, p)
		}
		for _, p := range []VT{vNil(), vStr("ja,nein"), vStr("ja,nein,vielleicht"), vStr("nur"), vStr("1,2,3,4"), vStr("")} {
			add("yesno", a, p)
		}
		add("integer", a, vNil())
		add("float", a, vNil())
		add("length", a, vNil())
	}
	// get_digit: whole numbers of any size, and texts that merely look like numbers
	for _, a := range []VT{vStr("98765432109876543210987654321"), vStr("-98765432109876543210987654321"), vStr("18446744073709551615"), vUint(18446744073709551615), vUint(9223372036854775808),
		vInt(9223372036854775807), vInt(-9223372036854775808), vStr("+5"), vStr("5+"), vStr(" 5"), vStr("5 "), vStr("0x10"), vStr("1e3"), vStr("٣٤"), vStr("-"), vStr("--5"), vStr("007"), vStr("1_000"), vStr("12.0")} {
		for _, d := range []int64{-1, 0, 1, 2, 3, 19, 20, 21, 29, 30} {
			add("get_digit", a, vInt(d))
		}
	}
	// random extras
	nRand := 2000
	if cfg.Thorough() {
		nRand = 50000
	}
	fl := []string{"slice", "center", "ljust", "rjust", "truncatechars", "truncatewords", "wordwrap", "join", "cut", "first", "last", "add", "floatformat", "get_digit", "split", "length_is"}
	for i := 0; i < nRand; i++ {
		v := seqs[rng.Intn(len(seqs))]
		if rng.Bool() {
			v = vStr(strs[rng.Intn(len(strs))] + strs[rng.Intn(len(strs))])
		}
		var p VT
		switch rng.Intn(4) {
		case 0:
			p = vInt(int64(rng.Intn(30) - 5))
		case 1:
			p = vStr(fmt.Sprintf("%d:%d", rng.Intn(20)-10, rng.Intn(20)-10))
		case 2:
			p = vStr(strs[rng.Intn(len(strs))])
		default:
			p = nums[rng.Intn(len(nums))]
		}
		add(fl[rng.Intn(len(fl))], v, p)
	}
	// run
	reqs := make([]string, len(cases))
	seen := map[string]bool{}
	uniq := cases[:0]
	for _, c := range cases {
		r := filterReq(c.f, c.v, c.p)
		if seen[r] {
			continue
		}
		seen[r] = true
		uniq = append(uniq, c)
	}
	cases = uniq
	reqs = reqs[:0]
	for i := range cases {
		c := &cases[i]
		c.impl, c.out = implFilter(c.f, c.v, c.p)
		reqs = append(reqs, filterReq(c.f, c.v, c.p))
		res.hist(c.f)
		res.DistinctNontrivial++
		if strings.HasPrefix(c.impl, "panic") {
			sig := "c18-" + c.f + "-panic"
			res.add(Finding{Kind: "oracle", Proj: "filter", Sig: sig, Case: reqs[i], Impl: c.impl, Model: "filters never panic"})
			continue
		}
		if why := c18Oracle(*c); why != "" {
			res.add(Finding{Kind: "oracle", Proj: "filter", Sig: "c18-" + c.f, Case: reqs[i], Impl: c.impl, Model: why})
		}
	}
	res.Cases = len(cases)
	for i := 0; i < 3; i++ {
		c := cases[(i*7919+13)%len(cases)]
		res.sample(fmt.Sprintf("%s(%s ; %s) = %s", c.f, c.v.Wire(), c.p.Wire(), c.impl))
	}
	// the kind of an integer does not matter: int8 … uint64 operands give what int / uint give
	{
		type mk func(int64) any
		kinds := []mk{func(x int64) any { return int8(x) }, func(x int64) any { return int16(x) }, func(x int64) any { return int32(x) }, func(x int64) any { return int64(x) },
			func(x int64) any { return uint8(x) }, func(x int64) any { return uint16(x) }, func(x int64) any { return uint32(x) }, func(x int64) any { return uint64(x) }, func(x int64) any { return uint(x) }}
		for _, f := range []string{"add", "pluralize", "get_digit", "divisibleby", "floatformat", "integer", "float", "yesno", "length_is", "default", "center", "ljust", "truncatechars", "slice"} {
			for _, x := range []int64{0, 1, 2, 7, 100, 123} {
				for _, y := range []int64{0, 1, 2, 3} {
					ref, e0 := pongo2.ApplyFilter(f, pongo2.AsValue(int(x)), pongo2.AsValue(int(y)))
					for ki, k := range kinds {
						res.Cases++
						a, e1 := pongo2.ApplyFilter(f, pongo2.AsValue(k(x)), pongo2.AsValue(int(y)))
						b, e2 := pongo2.ApplyFilter(f, pongo2.AsValue(int(x)), pongo2.AsValue(k(y)))
						for j, r := range []*pongo2.Value{a, b} {
							e := []*pongo2.Error{e1, e2}[j]
							if (e != nil) != (e0 != nil) || (e == nil && r.String() != ref.String()) {
								got := "error"
								if e == nil {
									got = r.String()
								}
								want := "error"
								if e0 == nil {
									want = ref.String()
								}
								res.add(Finding{Kind: "oracle", Proj: "filter", Sig: "c18-" + f + "-integer-kind", Case: fmt.Sprintf("%s(%d ; %d) with operand %d of integer kind #%d", f, x, y, j, ki), Impl: got, Model: "what int operands give: " + want})
							}
						}
					}
				}
			}
		}
	}
	// the loop variable of a list literal is a value like any other
	{
		lits := []struct {
			src   string
			elems []any
		}{{"[1, 2, 3]", []any{1, 2, 3}}, {`["ab", "c", ""]`, []any{"ab", "c", ""}}, {"[1.5, 2.0]", []any{1.5, 2.0}}, {"[0, 12]", []any{0, 12}}}
		fps := [][2]string{{"add", "1"}, {"integer", ""}, {"float", ""}, {"length", ""}, {"first", ""}, {"last", ""}, {"slice", `"1:"`}, {"center", "5"}, {"ljust", "4"}, {"pluralize", ""},
			{"divisibleby", "2"}, {"floatformat", "1"}, {"get_digit", "1"}, {"yesno", ""}, {"default", `"d"`}, {"length_is", "1"}, {"upper", ""}, {"add", `"x"`}, {"truncatechars", "1"}}
		forms := []string{"{% for x in LIT %}{{ x|F }};{% endfor %}", "{% set ll = LIT %}{% for x in ll %}{{ x|F }};{% endfor %}", "{% with ll=LIT %}{% for x in ll %}{% if x|F %}{% endif %}{{ x|F }};{% endfor %}{% endwith %}"}
		for _, l := range lits {
			for _, fp := range fps {
				var want strings.Builder
				ok := true
				for _, e := range l.elems {
					var pv *pongo2.Value
					switch {
					case fp[1] == "":
						pv = pongo2.AsValue(nil)
					case fp[1][0] == '"':
						pv = pongo2.AsValue(strings.Trim(fp[1], `"`))
					default:
						var n int
						fmt.Sscan(fp[1], &n)
						pv = pongo2.AsValue(n)
					}
					r, err := pongo2.ApplyFilter(fp[0], pongo2.AsValue(e), pv)
					if err != nil {
						ok = false
						break
					}
					want.WriteString(r.String() + ";")
				}
				if !ok {
					continue
				}
				fsrc := fp[0]
				if fp[1] != "" {
					fsrc += ":" + fp[1]
				}
				for _, form := range forms {
					src := "{% autoescape off %}" + strings.NewReplacer("LIT", l.src, "F", fsrc).Replace(form) + "{% endautoescape %}"
					r := implRender(src, nil)
					res.Cases++
					res.DistinctNontrivial++
					if r.Err != "" || r.Panicked || r.Out != want.String() {
						res.add(Finding{Kind: "oracle", Proj: "filter", Sig: "c18-" + fp[0] + "-on-literal-item", Case: hx(src), Impl: r.String(), Model: "ApplyFilter on the items: ok " + hx(want.String())})
					}
				}
			}
		}
	}
	c18None(res)
	c18Linenumbers(res)
	c18Pinned(res)
	c18FloatformatTies(res)
	c18EmptyBody(res)
	// widthratio through the template
	wrN := 14
	if cfg.Thorough() {
		wrN = 40
	}
	for a := -wrN; a <= wrN; a++ {
		for b := -wrN / 2; b <= wrN; b++ {
			if b == 0 || (a < 0 && b < 0 && (a+b)%3 != 0) {
				continue
			}
			for _, w := range []int{100, 7, 1, 40, 1000} {
				// a bare "-40 -20" would parse as one subtraction
				arg := func(n int) string {
					if n < 0 {
						return fmt.Sprintf("(%d)", n)
					}
					return fmt.Sprint(n)
				}
				src := fmt.Sprintf("{%% widthratio %s %s %d %%}", arg(a), arg(b), w)
				r := implRender(src, nil)
				res.Cases++
				res.DistinctNontrivial++
				// the reference (Django) computes in floating point: round((value / max_value) * max_width);
				// on an exact tie Python 2 rounds away from zero and Python 3 to even: both are accepted
				x := float64(a) / float64(b) * float64(w)
				want := []string{fmt.Sprint(int(math.Round(x)))}
				if x-math.Floor(x) == 0.5 {
					// exact tie: away from zero (Python 2), to even (Python 3) and half-up (what pongo2's fixture pins) are accepted
					want = append(want, fmt.Sprint(int(math.RoundToEven(x))), fmt.Sprint(int(math.Floor(x+0.5))))
				}
				ok := false
				for _, w0 := range want {
					if r.Err == "" && !r.Panicked && r.Out == w0 {
						ok = true
					}
				}
				if !ok {
					sig := "c18-widthratio"
					res.add(Finding{Kind: "oracle", Proj: "filter", Sig: sig, Case: hx(src), Impl: r.String(), Model: fmt.Sprintf("round(%d/%d*%d = %v) = %s", a, b, w, x, strings.Join(want, " or "))})
				}
			}
		}
	}
	model, err := runDriver(cfg.Driver, reqs)
	if err != nil {
		res.add(Finding{Kind: "disagree", Proj: "driver", Sig: "driver-failed", Model: err.Error()})
		return
	}
	for i, c := range cases {
		if model[i] == "unsupported" {
			res.hist("model:unsupported")
			continue
		}
		m := model[i]
		ic := c.impl
		if strings.HasPrefix(ic, "panic") {
			ic = "panic"
		}
		if m != ic {
			res.add(Finding{Kind: "disagree", Proj: "filter", Sig: "c18-" + c.f + "-model", Case: reqs[i], Impl: c.impl, Model: m})
		}
	}
}

func runeLen(s string) int { return utf8.RuneCountInString(s) }

// c18Oracle: independent Go references for the filters with a crisp shape.
func c18Oracle(c fcase) string {
	if c.out == nil {
		return ""
	}
	out := c.out.String()
	switch c.f {
	case "slice":
		ps := c.p.S
		parts := strings.Split(ps, ":")
		if len(parts) != 2 {
			return "malformed slice parameter accepted"
		}
		var seqLen int
		var elems []string
		switch c.v.K {
		case "str":
			rs := []rune(c.v.S)
			seqLen = len(rs)
			for _, r := range rs {
				elems = append(elems, string(r))
			}
		case "list", "arr":
			seqLen = len(c.v.Items)
		default:
			return ""
		}
		parse := func(s string) (*int, bool) {
			t := strings.TrimSpace(s)
			if t == "" {
				return nil, true
			}
			var n int
			if _, err := fmt.Sscanf(t, "%d", &n); err != nil || fmt.Sprint(n) != t {
				return nil, false
			}
			return &n, true
		}
		a, ok1 := parse(parts[0])
		b, ok2 := parse(parts[1])
		if !ok1 || !ok2 || (parts[0] != strings.TrimSpace(parts[0])) {
			return "" // non-integer bounds: outside the reference
		}
		lo, hi := pySliceIdx(seqLen, a, b)
		if c.v.K == "str" {
			if out != strings.Join(elems[lo:hi], "") {
				return fmt.Sprintf("Python slicing gives %q", strings.Join(elems[lo:hi], ""))
			}
		} else if c.out.Len() != hi-lo {
			return fmt.Sprintf("Python slicing gives %d elements", hi-lo)
		} else {
			for i := lo; i < hi; i++ {
				if c.out.Index(i-lo).Integer() != int(c.v.Items[i].I) && c.v.Elem == "int" {
					return "Python slicing gives other elements"
				}
			}
		}
	case "center", "ljust", "rjust":
		if c.v.K != "str" || c.p.K != "int" {
			return ""
		}
		s := c.v.S
		w := int(c.p.I)
		n := runeLen(s)
		if !utf8.ValidString(s) {
			return ""
		}
		want := n
		if w > n {
			want = w
		}
		if runeLen(out) != want {
			return fmt.Sprintf("padded length %d, want %d", runeLen(out), want)
		}
		i := strings.Index(out, s)
		if i < 0 {
			return "the text was altered"
		}
		l, r := out[:i], out[i+len(s):]
		if strings.Trim(l, " ") != "" || strings.Trim(r, " ") != "" {
			return "padding contains something other than spaces"
		}
		switch c.f {
		case "ljust":
			if l != "" && strings.TrimLeft(s, " ") == s && s != "" {
				return "ljust padded on the left"
			}
		case "rjust":
			if r != "" && strings.TrimRight(s, " ") == s && s != "" {
				return "rjust padded on the right"
			}
		case "center":
			if s != "" && strings.Trim(s, " ") == s && !(len(l) == len(r) || len(l) == len(r)+1) {
				return "center: padding not split evenly (left gets the odd one)"
			}
		}
	case "truncatechars":
		if c.v.K != "str" || c.p.K != "int" || !utf8.ValidString(c.v.S) {
			return ""
		}
		n := int(c.p.I)
		s := c.v.S
		rs := []rune(s)
		switch {
		case n <= 0 || n >= len(rs):
			if out != s {
				return "text that fits was altered"
			}
		case n >= 3:
			if out != string(rs[:n-3])+"..." {
				return "not the first n-3 characters plus an ellipsis"
			}
		default:
			if out != string(rs[:n]) {
				return "not the first n characters"
			}
		}
	case "first", "last", "random":
		// characters of a text, elements of a sequence
		switch {
		case c.v.K == "str" && utf8.ValidString(c.v.S) && c.v.S != "":
			rs := []rune(c.v.S)
			switch c.f {
			case "first":
				if out != string(rs[0]) {
					return fmt.Sprintf("the first character is %q", string(rs[0]))
				}
			case "last":
				if out != string(rs[len(rs)-1]) {
					return fmt.Sprintf("the last character is %q", string(rs[len(rs)-1]))
				}
			default:
				if len([]rune(out)) != 1 || !strings.Contains(c.v.S, out) {
					return "random: not one of the text's characters"
				}
			}
		case (c.v.K == "list" || c.v.K == "arr") && len(c.v.Items) > 0 && (c.v.Elem == "int" || c.v.Elem == "string"):
			str := func(v VT) string { return toValue(v).String() }
			switch c.f {
			case "first":
				if out != str(c.v.Items[0]) {
					return "not the first element"
				}
			case "last":
				if out != str(c.v.Items[len(c.v.Items)-1]) {
					return "not the last element"
				}
			default:
				found := false
				for _, it := range c.v.Items {
					if str(it) == out {
						found = true
					}
				}
				if !found {
					return "random: not one of the elements"
				}
			}
		}
	case "length":
		if c.v.K == "str" && utf8.ValidString(c.v.S) && c.out.Integer() != runeLen(c.v.S) {
			return "length does not count characters"
		}
		if (c.v.K == "list" || c.v.K == "arr") && c.out.Integer() != len(c.v.Items) {
			return "length does not count elements"
		}
	case "divisibleby":
		if c.v.K == "int" && c.p.K == "int" {
			want := c.p.I != 0 && c.v.I%c.p.I == 0
			if c.out.Bool() != want {
				return fmt.Sprintf("divisibleby = %v", want)
			}
		}
	case "get_digit":
		// Django: the requested digit of a whole number (1 = rightmost); the input
		// unchanged for anything that is not a whole number or an index out of range
		if c.v.K != "int" && c.v.K != "uint" && c.v.K != "str" {
			return "" // floats, bools, nil: outside the reference
		}
		in := toValue(c.v).String()
		digits := strings.TrimPrefix(in, "-")
		whole := digits != "" && strings.Trim(digits, "0123456789") == ""
		i := toValue(c.p).Integer()
		switch {
		case whole && i >= 1 && i <= len(digits):
			if out != string(digits[len(digits)-i]) {
				return "not the requested digit"
			}
		case whole && i == len(in) && in != digits:
			// the position of the minus sign: unspecified
		default:
			if out != in {
				return "input that is not a whole number (or index out of range) must come back unchanged"
			}
		}
	case "floatformat":
		if c.v.K == "float" && c.p.K == "int" && c.p.I > 0 && c.p.I <= 8 && !math.IsInf(c.v.F, 0) {
			want := fmt.Sprintf("%.*f", int(c.p.I), c.v.F)
			if out != want {
				return "floatformat:d is not the value rounded to d places: " + want
			}
		}
	}
	return ""
}

type c18Post struct {
	Author *c18Post
	Views  *int
	Title  *string
	Tags   []string
	N      int
}

// c18None: None is nil and every nil pointer, whatever its type and wherever it comes from; an
// empty or zero value is not None
func c18None(res *Result) {
	seven := 7
	nones := []any{nil, (*int)(nil), (*string)(nil), (*c18Post)(nil), (*[]int)(nil), (**int)(nil)}
	falsy := []any{0, "", false, []int{}, []string(nil), map[string]int(nil), 0.0}
	truthy := []any{1, "x", true, []int{0}, &seven, &c18Post{N: 1}, &c18Post{}}
	check := func(what, f string, v any, p any, want string) {
		res.Cases++
		res.DistinctNontrivial++
		r, err := pongo2.ApplyFilter(f, pongo2.AsValue(v), pongo2.AsValue(p))
		got := "error"
		if err == nil {
			got = r.String()
		}
		if got != want {
			res.add(Finding{Kind: "oracle", Proj: "filter", Sig: "c18-" + f + "-none", Case: fmt.Sprintf("%s: %T(%v)|%s:%v", what, v, v, f, p), Impl: got, Model: want})
		}
	}
	for _, v := range nones {
		check("None", "default_if_none", v, "d", "d")
		check("None", "default", v, "d", "d")
		check("None", "yesno", v, "y,n,m", "m")
		check("None", "yesno", v, nil, "maybe")
		check("None", "yesno", v, "y,n", "maybe") // pinned by pongo2's fixture (Django: the second choice)
	}
	for _, v := range falsy {
		check("not None", "default_if_none", v, "d", pongo2.AsValue(v).String())
		check("not None", "default", v, "d", "d")
		check("not None", "yesno", v, "y,n,m", "n")
	}
	for _, v := range truthy {
		check("not None", "default_if_none", v, "d", pongo2.AsValue(v).String())
		check("not None", "default", v, "d", pongo2.AsValue(v).String())
		check("not None", "yesno", v, "y,n,m", "y")
	}
	// the same from a template: context entries and fields
	title := "T"
	ctx := pongo2.Context{"np": (*int)(nil), "ns": (*string)(nil), "post": c18Post{}, "full": c18Post{Author: &c18Post{N: 2}, Views: &seven, Title: &title}, "pp": (*c18Post)(nil)}
	for _, c := range [][2]string{
		{`{{ np|default_if_none:"d" }}`, "d"}, {`{{ ns|default_if_none:"d" }}`, "d"}, {`{{ pp|default_if_none:"d" }}`, "d"}, {`{{ post.Author|default_if_none:"d" }}`, "d"},
		{`{{ post.Views|default_if_none:"d" }}`, "d"}, {`{{ post.Title|default_if_none:"d" }}`, "d"}, {`{{ post.Tags|default_if_none:"d"|length }}`, "0"}, {`{{ post.N|default_if_none:"d" }}`, "0"},
		{`{{ full.Views|default_if_none:"d" }}`, "7"}, {`{{ full.Title|default_if_none:"d" }}`, "T"}, {`{{ full.Author.N|default_if_none:"d" }}`, "2"}, {`{{ full.Author.Author|default_if_none:"d" }}`, "d"},
		{`{{ np|yesno:"y,n,m" }}`, "m"}, {`{{ post.Author|yesno:"y,n,m" }}`, "m"}, {`{{ post.Views|yesno }}`, "maybe"}, {`{{ full.Views|yesno }}`, "yes"}, {`{{ post.N|yesno }}`, "no"},
		{`{{ nosuch|default_if_none:"d" }}`, "d"}, {`{{ nosuch|yesno:"y,n,m" }}`, "m"}, {`{% filter default_if_none:"d" %}{% endfilter %}`, ""},
	} {
		res.Cases++
		r := implRender(c[0], ctx)
		if r.Err != "" || r.Panicked || r.Out != c[1] {
			res.add(Finding{Kind: "oracle", Proj: "filter", Sig: "c18-none-in-template", Case: c[0], Impl: r.String(), Model: "ok " + hx(c[1])})
		}
	}
}

// c18EmptyBody: the filter tag applies its chain to whatever its body rendered, also to nothing
func c18EmptyBody(res *Result) {
	for _, fp := range [][2]string{{"default", `"n/a"`}, {"length", ""}, {"wordcount", ""}, {"integer", ""}, {"float", ""}, {"length_is", "0"}, {"center", "5"}, {"ljust", "3"}, {"rjust", "3"},
		{"yesno", `"y,n,m"`}, {"default_if_none", `"x"`}, {"add", `"x"`}, {"add", "3"}, {"join", `","`}, {"linenumbers", ""}, {"pluralize", ""}, {"floatformat", "2"}, {"divisibleby", "2"},
		{"stringformat", `"[%s]"`}, {"upper", ""}, {"first", ""}, {"make_list", ""}, {"split", `","`}, {"date", `"2006"`}} {
		var pv *pongo2.Value
		switch {
		case fp[1] == "":
			pv = pongo2.AsValue(nil)
		case fp[1][0] == '"':
			pv = pongo2.AsValue(strings.Trim(fp[1], `"`))
		default:
			var n int
			fmt.Sscan(fp[1], &n)
			pv = pongo2.AsValue(n)
		}
		want := "err"
		if r, err := pongo2.ApplyFilter(fp[0], pongo2.AsValue(""), pv); err == nil {
			want = "ok " + hx(r.String())
		}
		f := fp[0]
		if fp[1] != "" {
			f += ":" + fp[1]
		}
		for _, body := range []string{"", "{{ e }}", "{{ nosuch }}", "{% if 0 %}x{% endif %}", "{# c #}", "{% for q in e %}x{% endfor %}"} {
			src := "{% filter " + f + " %}" + body + "{% endfilter %}"
			res.Cases++
			res.DistinctNontrivial++
			r := implRender(src, pongo2.Context{"e": ""})
			got := "err"
			if r.Err == "" && !r.Panicked {
				got = "ok " + hx(r.Out)
			}
			if got != want {
				res.add(Finding{Kind: "oracle", Proj: "filter", Sig: "c18-" + fp[0] + "-on-empty-body", Case: src, Impl: r.String(), Model: "ApplyFilter on the empty text: " + want})
			}
		}
	}
}

// c18Linenumbers: every line of the input — the text between line feeds, the empty ones and the one
// behind a trailing line feed included — keeps its text and gets its number
func c18Linenumbers(res *Result) {
	long := strings.Repeat("x", 70000)
	for _, in := range []string{"", "\n", "one", "one\n", "one\ntwo", "one\ntwo\n\n", "\n\none", "one\r\ntwo", "\r", "é\nüü\n日本", " lead\ntrail ", long, "a\n" + long + "\nb", strings.Repeat("l\n", 120)} {
		lines := strings.Split(in, "\n")
		for i := range lines {
			lines[i] = fmt.Sprintf("%d. %s", i+1, lines[i])
		}
		want := strings.Join(lines, "\n")
		res.Cases++
		res.DistinctNontrivial++
		out, err := pongo2.ApplyFilter("linenumbers", pongo2.AsValue(in), nil)
		got := "error"
		if err == nil {
			got = out.String()
		}
		if got != want {
			c := in
			if len(c) > 60 {
				c = c[:30] + "…" + fmt.Sprint(len(in), " bytes")
			}
			g, w := got, want
			if len(g) > 80 {
				g = g[:40] + "…" + fmt.Sprint(len(got), " bytes")
			}
			if len(w) > 80 {
				w = w[:40] + "…" + fmt.Sprint(len(want), " bytes")
			}
			res.add(Finding{Kind: "oracle", Proj: "filter", Sig: "c18-linenumbers", Case: fmt.Sprintf("%q", c), Impl: fmt.Sprintf("%q", g), Model: fmt.Sprintf("%q", w)})
		}
	}
}

// c18Pinned: reference values at the edges the windows do not reach (each was wrong once: D53–D57)
func c18Pinned(res *Result) {
	ctx := pongo2.Context{"l": []string{"a", "b"}, "li": []int{10, 20, 30}, "s": "héy", "one": 1.0, "half": 0.5, "f15": 1.5, "e": []string{}}
	for _, c := range [][2]string{
		{"{% widthratio 5 0 100 %}", "0"}, {"{% widthratio 0 0 100 %}", "0"}, {"{% widthratio 5 0.0 100 %}", "0"}, {"{% widthratio 5 10 0 %}", "0"}, {"{% widthratio 0 10 100 %}", "0"},
		{"{{ 5|ljust:3 }}|", "5  |"}, {"{{ 5|center:3 }}|", " 5 |"}, {"{{ 5|rjust:3 }}|", "  5|"}, {"{{ 12|center:5 }}|", "  12 |"}, {"{{ 1.5|ljust:10 }}|", "1.500000  |"}, {"{{ true|ljust:6 }}|", "True  |"},
		{"{{ 12345|ljust:3 }}|", "12345|"}, {"{{ 12345|center:3 }}|", "12345|"}, {"{{ s|ljust:5 }}|{{ s|center:5 }}|", "héy  | héy |"},
		{`{{ l|join:"" }}`, "ab"}, {`{{ li|join:"" }}`, "102030"}, {`{{ s|join:"" }}`, "héy"}, {`{{ e|join:"" }}|`, "|"}, {`{{ l|join:"-" }}`, "a-b"},
		{"{{ f15|pluralize }}", "s"}, {"{{ one|pluralize }}", ""}, {`{{ half|pluralize:"y,ies" }}`, "ies"}, {`{{ f15|pluralize:"es" }}`, "es"}, {"{{ 1|pluralize }}|{{ 2|pluralize }}|{{ 0|pluralize }}", "|s|s"},
	} {
		res.Cases++
		res.DistinctNontrivial++
		r := implRender("{% autoescape off %}"+c[0]+"{% endautoescape %}", ctx)
		if r.Panicked || r.Err != "" || r.Out != c[1] {
			res.add(Finding{Kind: "oracle", Proj: "filter", Sig: "c18-pinned", Case: c[0], Impl: r.String(), Model: "ok " + hx(c[1])})
		}
	}
}

// c18FloatformatTies: the reference (Django) rounds the decimal text of the number half up; an exact
// tie at the requested place shows the difference from rounding the binary value half to even
func c18FloatformatTies(res *Result) {
	for _, c := range []struct {
		v    float64
		arg  int
		want string
	}{{2.5, 0, "3"}, {0.5, 0, "1"}, {1.5, 0, "2"}, {0.125, 2, "0.13"}, {0.375, 2, "0.38"}, {2.25, 1, "2.3"}, {-2.5, 0, "-3"}, {1.005, 2, "1.01"}, {2.675, 2, "2.68"}} {
		res.Cases++
		out, err := pongo2.ApplyFilter("floatformat", pongo2.AsValue(c.v), pongo2.AsValue(c.arg))
		got := "error"
		if err == nil {
			got = out.String()
		}
		if got != c.want {
			res.add(Finding{Kind: "oracle", Proj: "filter", Sig: "c18-floatformat-tie", Case: fmt.Sprintf("%v|floatformat:%d", c.v, c.arg), Impl: got, Model: c.want + " (Decimal(repr(x)).quantize(…, ROUND_HALF_UP))"})
		}
	}
}

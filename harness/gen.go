package main

import (
	"fmt"
	"strings"
)

// Gen generates template programs (mostly valid) over the modelled vocabulary.
type Gen struct {
	r        *RNG
	vars     []string // names usable as loop/with/set variables
	scalars  []string // context names holding scalars
	lists    []string
	maps     []string
	structs  []string
	macros   []string // defined macro names (with arity)
	arity    map[string]int
	depth    int
	Features map[string]bool // tags allowed; nil = all
	NoErr    bool            // avoid constructs that are likely errors
	files    map[string]string
	noUnary  int
}

func NewGen(r *RNG) *Gen {
	return &Gen{r: r, arity: map[string]int{}, files: map[string]string{}}
}

const taint = "<'\">&"

// StdCtx builds the standard context with randomised leaves.
func (g *Gen) StdCtx() CtxTerm {
	r := g.r
	strs := []string{"hello", "", "a b  c", "Ünï", "x<y", taint, "42", "3.5", "abc", "  pad ", "line1\nline2", "it's", "q\"q", "a,b,c", "\xff\xfe", "日本"}
	ints := []int64{0, 1, -1, 2, 7, 10, 42, -3, 100, 1 << 40, -(1 << 62)}
	floats := []float64{0, 1.5, -2.25, 3.0, 0.1, 1e10, 2.5}
	pickS := func() VT { return vStr(strs[r.Intn(len(strs))]) }
	pickI := func() VT { return vInt(ints[r.Intn(len(ints))]) }
	pickF := func() VT { return vFloat(floats[r.Intn(len(floats))]) }
	any1 := func() VT {
		switch r.Intn(6) {
		case 0:
			return pickS()
		case 1:
			return pickI()
		case 2:
			return pickF()
		case 3:
			return vBool(r.Bool())
		case 4:
			return vNil()
		}
		return pickS()
	}
	nl := r.Intn(5)
	li := make([]VT, nl)
	for i := range li {
		li[i] = vInt(int64(r.Intn(7)) - 2)
	}
	ns := r.Intn(4)
	ls := make([]VT, ns)
	for i := range ls {
		ls[i] = pickS()
	}
	na := r.Intn(4)
	la := make([]VT, na)
	for i := range la {
		la[i] = any1()
	}
	nv := r.Intn(4)
	lv := make([]VT, nv)
	for i := range lv {
		lv[i] = vBoxed(any1(), false)
	}
	nu := r.Intn(4)
	lu := make([]VT, nu)
	for i := range lu {
		lu[i] = vUint(uint64(r.Intn(300) % 256))
	}
	names := []string{"s", "s2", "i", "j", "f", "t", "z", "e", "n", "x", "l", "ls", "la", "m", "im", "st", "p", "np", "u", "sv", "nested",
		"ps", "pi", "pf", "sg", "ig", "lv", "lu"}
	vals := []VT{pickS(), pickS(), pickI(), pickI(), pickF(), vBool(true), vInt(0), vStr(""), vNil(), vStr(taint + "x"),
		vList("int", li...), vList("string", ls...), vList("any", la...),
		vSMap([]string{"k", "a"}, []VT{any1(), pickS()}),
		vIMap([]int64{1, 2}, []VT{pickS(), pickI()}),
		vStruct(pickS(), pickI(), vList("int", li...)),
		vPtr(vStruct(pickS(), any1(), vNil())),
		VT{K: "nilptr"},
		vUint(uint64(r.Intn(20))),
		vBoxed(vStr("<b>safe</b>"), true),
		vSMap([]string{"inner"}, []VT{vSMap([]string{"leaf", "lst"}, []VT{pickS(), vList("any", vStr("p"), vInt(3))})}),
		vPtr(pickS()), vPtr(pickI()), vPtr(pickF()), vStringerStr(strs[r.Intn(len(strs))]), vStringerInt(ints[r.Intn(8)]),
		vList("value", lv...), vList("uint", lu...),
	}
	g.scalars = []string{"s", "s2", "i", "j", "f", "t", "z", "e", "n", "x", "u", "ps", "pi", "pf", "sg", "ig"}
	g.lists = []string{"l", "ls", "la", "lv", "lu"}
	g.maps = []string{"m"}
	g.structs = []string{"st", "p"}
	return CtxTerm{Names: names, Vals: vals}.Varied(r)
}

func (g *Gen) allow(tag string) bool { return g.Features == nil || g.Features[tag] }

func (g *Gen) ws() string {
	return g.r.Pick([]string{" ", " ", " ", "", "  "})
}

func (g *Gen) intLit() string {
	return g.r.Pick([]string{"0", "1", "2", "3", "7", "10", "42", "100", "5", "4", "8", "9", "12"})
}

func (g *Gen) strLit() string {
	return g.r.Pick([]string{`"a"`, `""`, `"abc"`, `'x y'`, `"<i>"`, `"1"`, `","`, `"a b c d e"`, `"Hello World"`, `"1:2"`, `":2"`, `"-2:"`, `"\"q\""`, `"b\\s"`})
}

// path: a variable reference, mostly valid.
func (g *Gen) path() string {
	r := g.r
	all := append(append(append(append([]string{}, g.scalars...), g.lists...), g.maps...), g.structs...)
	all = append(all, g.vars...)
	switch r.Intn(14) {
	case 0:
		return r.Pick(g.lists) + "." + fmt.Sprint(r.Intn(4))
	case 1:
		return "m.k"
	case 2:
		return "m.a"
	case 3:
		return r.Pick([]string{"st.A", "st.B", "p.A", "p.B", "st.C.0", "st.C"})
	case 4:
		return r.Pick([]string{"nested.inner.leaf", "nested.inner.lst.0", "nested.inner.lst.1", "nested.missing.x", "nested.inner"})
	case 5:
		return r.Pick(g.lists) + "[" + g.r.Pick([]string{"0", "1", "i", "z", "j", "2-1"}) + "]"
	case 6:
		return r.Pick([]string{`m["k"]`, `m[s]`, `im[1]`, `im[2]`, `im[i]`, `st["A"]`, `m.zz`, `np.A`, `n.foo`, `sv`, "u", "forloop.Counter", "forloop.Last", "undefined_name", "s.0", "st.hidden"})
	}
	return r.Pick(all)
}

var filterPool = []string{"upper", "lower", "length", "default:%v", "add:%n", "add:%s", "join:%s", "first", "last", "slice:%sl",
	"capfirst", "cut:%s", "truncatechars:%n", "yesno", "yesno:%s3", "pluralize", "pluralize:%s2", "divisibleby:%n", "integer", "float",
	"center:%n", "ljust:%n", "rjust:%n", "length_is:%n", "make_list", "wordcount", "addslashes", "linebreaksbr", "linenumbers",
	"default_if_none:%v", "escape", "e", "safe", "escapejs", "urlencode", "iriencode", "striptags", "truncatewords:%n", "wordwrap:%n",
	"floatformat", "floatformat:%n", "get_digit:%n", "split:%s"}

func (g *Gen) filter() string {
	r := g.r
	f := r.Pick(filterPool)
	f = strings.Replace(f, "%n", r.Pick([]string{"0", "1", "2", "3", "5", "10", "i", "j", "20"}), 1)
	f = strings.Replace(f, "%sl", r.Pick([]string{`"1:"`, `":2"`, `"1:3"`, `"-2:"`, `":-1"`, `":"`, `"0:0"`, `"5:1"`, `"x"`, `"-9:9"`}), 1)
	f = strings.Replace(f, "%s3", r.Pick([]string{`"a,b,c"`, `"y,n"`, `"only"`, `"1,2,3,4"`}), 1)
	f = strings.Replace(f, "%s2", r.Pick([]string{`"es"`, `"y,ies"`, `"a,b,c"`}), 1)
	f = strings.Replace(f, "%s", r.Pick([]string{`", "`, `"a"`, `""`, `","`, `" "`, "s", "x"}), 1)
	f = strings.Replace(f, "%v", r.Pick([]string{`"dflt"`, "0", "s", "x", "i"}), 1)
	return f
}

func (g *Gen) atom() string {
	r := g.r
	var a string
	switch r.Intn(10) {
	case 0, 1:
		a = g.intLit()
	case 2:
		a = g.intLit() + "." + r.Pick([]string{"0", "5", "25", "125"})
	case 3:
		a = g.strLit()
	case 4:
		a = r.Pick([]string{"true", "false"})
	default:
		a = g.path()
	}
	for r.Chance(1, 4) {
		a += g.ws() + "|" + g.ws() + g.filter()
	}
	return a
}

var binOps = []string{"+", "-", "*", "/", "%", "^", "==", "!=", "<>", "<", "<=", ">", ">=", "in", "and", "or", "&&", "||"}

func (g *Gen) expr(d int) string {
	r := g.r
	if d <= 0 || r.Chance(2, 5) {
		return g.atom()
	}
	switch r.Intn(8) {
	case 0:
		return "(" + g.expr(d-1) + ")"
	case 1:
		if g.noUnary > 0 {
			return "(" + r.Pick([]string{"not ", "!", "-", "+"}) + g.atom() + ")"
		}
		return r.Pick([]string{"not ", "!", "-", "+"}) + g.atom()
	case 2:
		if len(g.macros) > 0 {
			m := r.Pick(g.macros)
			n := g.arity[m]
			if r.Chance(1, 6) {
				n += r.Intn(3) - 1
			}
			if n < 0 {
				n = 0
			}
			args := make([]string, n)
			for i := range args {
				args[i] = g.expr(d - 1)
			}
			return m + "(" + strings.Join(args, ", ") + ")"
		}
		fallthrough
	default:
		op := r.Pick(binOps)
		if op == "^" {
			// math.Pow is compared only where both sides are exact
			return r.Pick([]string{"2", "3", "10", "1", "0"}) + g.ws() + "^" + g.ws() + r.Pick([]string{"0", "1", "2", "3", "5"})
		}
		sp := g.ws()
		if op == "in" || op == "and" || op == "or" {
			sp = " "
		}
		left := g.expr(d - 1)
		g.noUnary++
		right := g.expr(d - 1)
		g.noUnary--
		if g.NoErr || r.Chance(9, 10) {
			// a leading sign/not is only legal at the start of a simple expression
			switch op {
			case "*", "/", "%", "+", "-":
			default:
				return left + sp + op + sp + right
			}
		}
		return left + sp + op + sp + right
	}
}

func (g *Gen) text() string {
	r := g.r
	return r.Pick([]string{"a", " ", "\n", "text ", "<b>", "</b>", "x\ny", " \t", "é", "{ ", "}", "  \n  ", "<p> <i>", ">  <", ""})
}

func (g *Gen) varName() string {
	return g.r.Pick([]string{"v", "w", "q", "s", "i", "item", "k2"})
}

func (g *Gen) open() string {
	if g.r.Chance(1, 10) {
		return "{%-"
	}
	return "{%"
}

func (g *Gen) close() string {
	if g.r.Chance(1, 10) {
		return "-%}"
	}
	return "%}"
}

func (g *Gen) tag(body string) string { return g.open() + " " + body + " " + g.close() }

func (g *Gen) nodes(n int) string {
	var sb strings.Builder
	for i := 0; i < n; i++ {
		sb.WriteString(g.node())
	}
	return sb.String()
}

func (g *Gen) body() string {
	g.depth++
	defer func() { g.depth-- }()
	if g.depth > 3 {
		return g.text()
	}
	return g.nodes(1 + g.r.Intn(3))
}

func (g *Gen) withVar(name string, f func() string) string {
	g.vars = append(g.vars, name)
	defer func() { g.vars = g.vars[:len(g.vars)-1] }()
	return f()
}

func (g *Gen) node() string {
	r := g.r
	switch r.Intn(24) {
	case 0, 1, 2:
		return g.text()
	case 3, 4, 5, 6:
		o, c := "{{", "}}"
		if r.Chance(1, 10) {
			o = "{{-"
		}
		if r.Chance(1, 10) {
			c = "-}}"
		}
		return o + g.ws() + g.expr(2) + g.ws() + c
	case 7:
		if !g.allow("if") {
			return g.text()
		}
		s := g.tag("if "+g.expr(2)) + g.body()
		for r.Chance(1, 3) {
			s += g.tag("elif "+g.expr(1)) + g.body()
		}
		if r.Bool() {
			s += g.tag("else") + g.body()
		}
		return s + g.tag("endif")
	case 8, 9:
		if !g.allow("for") {
			return g.text()
		}
		v := g.varName()
		src := r.Pick(append(append([]string{"s", "m", `"abc"`, "n", "i", "st.C", "nested.inner.lst"}, g.lists...), g.lists...))
		mods := ""
		if r.Chance(1, 4) {
			mods += " reversed"
		}
		if r.Chance(1, 4) || src == "m" {
			mods += " sorted"
		}
		head := "for " + v
		if src == "m" && r.Bool() {
			head += ", val"
		}
		head += " in " + src + mods
		return g.withVar(v, func() string {
			s := g.tag(head) + g.body()
			if r.Chance(1, 3) {
				s += g.tag("empty") + g.body()
			}
			return s + g.tag("endfor")
		})
	case 10:
		if !g.allow("set") {
			return g.text()
		}
		v := g.varName()
		g.vars = append(g.vars, v)
		return g.tag("set " + v + " = " + g.expr(2))
	case 11:
		if !g.allow("with") {
			return g.text()
		}
		v := g.varName()
		e := g.expr(1)
		return g.withVar(v, func() string {
			if r.Bool() {
				return g.tag("with "+v+"="+e) + g.body() + g.tag("endwith")
			}
			return g.tag("with "+e+" as "+v) + g.body() + g.tag("endwith")
		})
	case 12:
		if !g.allow("ifequal") {
			return g.text()
		}
		name := r.Pick([]string{"ifequal", "ifnotequal"})
		s := g.tag(name+" "+g.atom()+" "+g.atom()) + g.body()
		if r.Bool() {
			s += g.tag("else") + g.body()
		}
		return s + g.tag("end"+name)
	case 13:
		if !g.allow("firstof") {
			return g.text()
		}
		n := 1 + r.Intn(3)
		args := make([]string, n)
		for i := range args {
			args[i] = g.atom()
		}
		return g.tag("firstof " + strings.Join(args, " "))
	case 14:
		if !g.allow("cycle") {
			return g.text()
		}
		n := 1 + r.Intn(3)
		args := make([]string, n)
		for i := range args {
			args[i] = g.atom()
		}
		s := "cycle " + strings.Join(args, " ")
		if r.Chance(1, 4) {
			s += " as cyc"
			if r.Bool() {
				s += " silent"
			}
		}
		return g.tag(s)
	case 15:
		if !g.allow("ifchanged") {
			return g.text()
		}
		if r.Bool() {
			return g.tag("ifchanged") + g.body() + g.tag("endifchanged")
		}
		s := g.tag("ifchanged "+g.atom()) + g.body()
		if r.Bool() {
			s += g.tag("else") + g.body()
		}
		return s + g.tag("endifchanged")
	case 16:
		if !g.allow("filter") {
			return g.text()
		}
		ch := g.filter()
		if r.Chance(1, 3) {
			ch += "|" + g.filter()
		}
		return g.tag("filter "+ch) + g.body() + g.tag("endfilter")
	case 17:
		if !g.allow("spaceless") {
			return g.text()
		}
		return g.tag("spaceless") + g.body() + g.tag("endspaceless")
	case 18:
		if !g.allow("autoescape") {
			return g.text()
		}
		return g.tag("autoescape "+r.Pick([]string{"on", "off"})) + g.body() + g.tag("endautoescape")
	case 19:
		if !g.allow("templatetag") {
			return g.text()
		}
		return g.tag("templatetag " + r.Pick([]string{"openblock", "closeblock", "openvariable", "closevariable", "openbrace", "closebrace", "opencomment", "closecomment"}))
	case 20:
		if !g.allow("comment") {
			return g.text()
		}
		if r.Bool() {
			return "{# " + r.Pick([]string{"c", "{{ x }}", "{% if %}"}) + " #}"
		}
		return g.tag("comment") + r.Pick([]string{"x", "{{ 1/0 }}", "{% bogus %}"}) + g.tag("endcomment")
	case 21:
		if !g.allow("macro") || g.depth > 0 {
			return g.text()
		}
		name := r.Pick([]string{"mac", "mb", "mc"})
		for _, m := range g.macros {
			if m == name {
				return g.text()
			}
		}
		np := r.Intn(4)
		params := make([]string, np)
		pnames := []string{"a1", "a2", "a3", "a4"}
		for i := range params {
			params[i] = pnames[i]
			if r.Chance(1, 3) {
				params[i] += "=" + g.atom()
			}
		}
		var body string
		saved := g.vars
		g.vars = append(g.vars, pnames[:np]...)
		body = g.body()
		g.vars = saved
		g.macros = append(g.macros, name)
		g.arity[name] = np
		return g.tag("macro "+name+"("+strings.Join(params, ", ")+")") + body + g.tag("endmacro")
	case 22:
		if !g.allow("widthratio") {
			return g.text()
		}
		s := "widthratio " + g.atom() + " " + g.atom() + " " + g.atom()
		if r.Chance(1, 4) {
			s += " as wr"
			g.vars = append(g.vars, "wr")
		}
		return g.tag(s)
	case 23:
		if !g.allow("include") {
			return g.text()
		}
		fn := fmt.Sprintf("inc%d.tpl", len(g.files))
		g.files[fn] = "" // reserve the name: nested includes get later numbers, never a cycle
		saved := g.macros
		g.macros = nil
		g.depth += 2
		g.files[fn] = g.nodes(1 + r.Intn(2))
		g.depth -= 2
		g.macros = saved
		s := `include "` + fn + `"`
		if r.Chance(1, 3) {
			s = "include " + r.Pick([]string{`"` + fn + `"|lower`, "s", `"missing.tpl"`})
			if r.Bool() {
				s += " if_exists"
			}
		}
		if r.Chance(1, 3) {
			s += " with v=" + g.atom()
			if r.Chance(1, 3) {
				s += " only"
			}
		}
		return g.tag(s)
	}
	return g.text()
}

// Program generates one case.
func (g *Gen) Program(n int) ProgCase {
	g.files = map[string]string{}
	g.macros = nil
	g.vars = nil
	ctx := g.StdCtx()
	src := g.nodes(n)
	pc := ProgCase{Src: src, Ctx: &ctx, Label: "prog"}
	if len(g.files) > 0 {
		pc.Loaders = []map[string]string{g.files}
	}
	return pc
}

package main

import (
	"context"
	"encoding/json"
	"fmt"
	"os"
	"os/exec"
	"runtime/debug"
	"strings"
	"time"
)

func init() { suites["isolated"] = suiteIsolated }

// suiteIsolated is the worker side of runIsolated: it executes one case given
// as JSON in -replay and prints the outcome; a fatal error (stack overflow)
// kills only this process.
func suiteIsolated(cfg Config, res *Result) {
	debug.SetMaxStack(256 << 20)
	var pc ProgCase
	if err := json.Unmarshal([]byte(cfg.Replay), &pc); err != nil {
		fmt.Println("ISOLATED bad-case", err)
		return
	}
	o := pc.RunImpl()
	msg := o.Msg
	if len(msg) > 300 {
		msg = msg[:300]
	}
	fmt.Printf("ISOLATED %s %s\n", o.Class, strings.ReplaceAll(msg, "\n", " "))
}

// runIsolated runs the case in a child process with a wall-clock limit.
// Returns the outcome class: ok | compile | exec | panic | crashed | timeout.
func runIsolated(pc ProgCase, limit time.Duration) (class, detail string) {
	b, _ := json.Marshal(pc)
	ctx, cancel := context.WithTimeout(context.Background(), limit)
	defer cancel()
	cmd := exec.CommandContext(ctx, os.Args[0], "-suite", "isolated", "-replay", string(b), "-out", os.DevNull)
	cmd.Env = append(os.Environ(), "GOMEMLIMIT=2GiB")
	out, err := cmd.CombinedOutput()
	if ctx.Err() != nil {
		return "timeout", ""
	}
	for _, line := range strings.Split(string(out), "\n") {
		if strings.HasPrefix(line, "ISOLATED ") {
			f := strings.SplitN(line, " ", 3)
			d := ""
			if len(f) > 2 {
				d = f[2]
			}
			return f[1], d
		}
	}
	s := string(out)
	if i := strings.Index(s, "fatal error"); i >= 0 {
		s = s[i:]
	}
	if len(s) > 200 {
		s = s[:200]
	}
	return "crashed", fmt.Sprint(err, " ", strings.ReplaceAll(s, "\n", " "))
}

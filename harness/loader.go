package main

import (
	"bytes"
	"errors"
	"io"
	"path"
	"sync"
)

// memLoader is a pure in-memory TemplateLoader with path-style name resolution
// (the `Abs` the Lean model implements) and a log of every Get.
type memLoader struct {
	mu    sync.Mutex
	files map[string]string
	log   []string
	id    string
	sink  *sharedLog // global order across the loaders of one set
	root  string     // "": names resolve against the referrer; otherwise under this base directory
}

type sharedLog struct {
	mu  sync.Mutex
	log []string
}

func (m *memLoader) Abs(base, name string) string {
	if m.root != "" {
		// a loader with a base directory of its own (as LocalFilesystemLoader with a base
		// directory): whoever refers to the name, it is looked up under the base
		if path.IsAbs(name) {
			return path.Clean(name)
		}
		return path.Join(m.root, name)
	}
	if path.IsAbs(name) || base == "" {
		return path.Clean(name)
	}
	return path.Join(path.Dir(base), name)
}

func (m *memLoader) Get(p string) (io.Reader, error) {
	m.mu.Lock()
	defer m.mu.Unlock()
	m.log = append(m.log, m.id+":"+p)
	if m.sink != nil {
		m.sink.mu.Lock()
		m.sink.log = append(m.sink.log, m.id+":"+p)
		m.sink.mu.Unlock()
	}
	s, ok := m.files[p]
	if !ok {
		return nil, errors.New("not found")
	}
	return bytes.NewReader([]byte(s)), nil
}

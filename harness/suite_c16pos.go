package main

import (
	"fmt"
	"strconv"
	"strings"

	pongo2 "github.com/flosch/pongo2/v6"
)

func init() { suites["c16-errpos"] = suiteC16ErrPos }

// errPosOf extracts "line col" from the model's answer ("err exec L C …", "err compile KIND L C")
func modelErrPos(ans string) (int, int, bool) {
	f := strings.Fields(ans)
	if len(f) >= 4 && f[0] == "err" && f[1] == "exec" {
		l, e1 := strconv.Atoi(f[2])
		c, e2 := strconv.Atoi(f[3])
		return l, c, e1 == nil && e2 == nil
	}
	if len(f) >= 5 && f[0] == "err" && f[1] == "compile" {
		l, e1 := strconv.Atoi(f[3])
		c, e2 := strconv.Atoi(f[4])
		return l, c, e1 == nil && e2 == nil
	}
	return 0, 0, false
}

func suiteC16ErrPos(cfg Config, res *Result) {
	defer c16ReentrantTagErrors(res)
	defer c16BOM(res)
	defer c16TwoLoaders(res)
	res.Rule = "programs that fail: byte-damaged grammar programs (parser and lexer errors) and valid programs with an execution error planted at a random place (zero divisor, index into a scalar, call of a non-function, wrong arity, filter over its cap), laid out over several lines with multi-byte text before the failing construct, also inside included / extended / imported files; oracle (model-free): the reported file exists in the case and, at the reported line and column of that file (line = 1 + newlines before, column = 1 + bytes since the last newline, recounted from the source text independently of the lexer), the reported token's text is found; non-trivial = error on line > 1 or in a sub-file; distinct by case"
	n := 4000
	if cfg.Thorough() {
		n = 60000
	}
	rng := NewRNG(cfg.Seed)
	g := NewGen(rng)
	g.NoErr = true
	bad := []string{"{{ 1 / 0 }}", "{{ i.x }}", "{{ s(1) }}", "{{ 5 % z }}", "{{ s|ljust:99999999 }}", "{% if 1 / 0 %}a{% endif %}", "{% for q in l %}{{ q.0 }}{% endfor %}",
		"{{ st.A.0.x }}", "{% set v = 2 / z %}", "{% firstof 1/0 %}", "{{ l|join:(1/0) }}", "{% with a=1/0 %}{% endwith %}", "{{ mac(1, 2, 3, 4, 5, 6) }}", "{% widthratio 1 0 1 %}",
		"{{ s|slice:\"x\" }}", "{{ i|pluralize:\"a,b,c\" }}", "{{ s|pluralize }}", "{{ s|date:\"x\" }}", "{{ s|time:\"x\" }}", "{{ s|yesno:\"a,b,c,d\" }}", "{{ s|yesno:\"a\" }}",
		"{{ s|rjust:99999999 }}", "{{ s|center:99999999 }}", "{% if s|slice:\"x\" %}{% endif %}", "{% set v = i|pluralize:\"a,b,c\" %}", "{{ f|floatformat:99999 }}",
		"{% if x -%}\n   hello", "{% for q in l -%}  \n tail", "{% block bb -%}\n\n  body", "{% if x %}a{%- else -%}\n  b", "{% with a=1 -%} \n w",
		"{{ nosuch|nosuchfilter }}", "{% nosuchtag %}", "{{ 1 + }}", "{% if %}{% endif %}", "{{ \"a\\\"b\"|nosuchfilter }}", "{{ 'x\\\\y\\\"z'|nosuch2 }}", "{% for %}", "{{ x..y }}", "{% include %}",
		// lexer errors
		"{{ \"unclosed }}", "{# unclosed", "{% verbatim %} no end", "{{ \"a\\qb\" }}", "{{ 1\n }}", "{{ ", "{{ @ }}", "{% if 'x %}", "{{ 1 }}{% comment %}", "{{ 9a }}"}
	pad := func() string {
		k := rng.Intn(4)
		s := ""
		for i := 0; i < k; i++ {
			s += rng.Pick([]string{"text\n", "é日本\n", "\n", "a b ", "{{ 1 }}\n", "{% if t %}x{% endif %}", "\t", "{# c #}\n", "{{ \"q\\\"q\" }} "})
		}
		return s
	}
	var cases []ProgCase
	for i := 0; i < n; i++ {
		var pc ProgCase
		switch rng.Intn(5) {
		case 0:
			pc = g.Program(1 + rng.Intn(3))
			pc.Src = pad() + mutate(rng, pc.Src)
		case 1, 2:
			pc = g.Program(rng.Intn(2))
			pc.Src = pad() + pc.Src + pad() + rng.Pick(bad) + pad()
		case 3:
			// the failing construct lives in a sub-file
			ct := g.StdCtx()
			sub := pad() + rng.Pick(bad) + pad()
			files := map[string]string{}
			var src string
			switch rng.Intn(8) {
			case 5:
				files["sub.tpl"] = sub
				src = pad() + `{% ssi "sub.tpl" parsed %}`
			case 6:
				// compiled only when the including tag runs
				files["sub.tpl"] = sub
				src = pad() + rng.Pick([]string{`{% include subname %}`, `{% with n="sub.tpl" %}` + pad() + `{% include n %}{% endwith %}`})
				ct.Names = append(append([]string{}, ct.Names...), "subname")
				ct.Vals = append(append([]VT{}, ct.Vals...), vStr("sub.tpl"))
			case 7:
				// reached through a second file
				files["sub.tpl"] = sub
				files["mid.tpl"] = pad() + rng.Pick([]string{`{% include "sub.tpl" %}`, `{% import "sub.tpl" nn %}`, `{% ssi "sub.tpl" parsed %}`, `{% extends "sub.tpl" %}`}) + pad()
				src = pad() + rng.Pick([]string{`{% include "mid.tpl" %}`, `{% ssi "mid.tpl" parsed %}`, `{% extends "mid.tpl" %}`})
			case 0:
				files["sub.tpl"] = sub
				src = pad() + `{% include "sub.tpl" %}`
			case 1:
				files["base.tpl"] = "B\n{% block c %}{% endblock %}\n"
				src = `{% extends "base.tpl" %}` + pad() + "{% block c %}" + sub + "{% endblock %}"
			case 2:
				files["base.tpl"] = "B\n" + pad() + "{% block c %}" + sub + "{% endblock %}\n"
				src = `{% extends "base.tpl" %}` + pad() + "{% block d %}x{% endblock %}"
			case 3:
				// the macro lives in another file than the call that is wrong
				files["lib.tpl"] = pad() + "{% macro lm(a) export %}x{% endmacro %}" + pad()
				src = pad() + `{% import "lib.tpl" lm %}` + pad() + rng.Pick([]string{"{{ lm(1, 2, 3) }}", "{{ lm(1/0) }}", "{% if lm(1, 2) %}{% endif %}", "{{ lm(s.x.y) }}"}) + pad()
			default:
				files["lib.tpl"] = pad() + "{% macro lm() export %}" + sub + "{% endmacro %}"
				src = pad() + `{% import "lib.tpl" lm %}` + pad() + "{{ lm() }}"
			}
			pc = ProgCase{Src: src, Ctx: &ct, Loaders: []map[string]string{files}}
		default:
			pc = g.Program(1)
			pc.Src = strings.Repeat(pad(), 2) + mutate(rng, rng.Pick(bad))
		}
		pc.Label = "errpos"
		cases = append(cases, pc)
	}
	// dedupe and run
	seen := map[string]bool{}
	var uniq []ProgCase
	for _, c := range cases {
		if !seen[c.Key()] {
			seen[c.Key()] = true
			uniq = append(uniq, c)
		}
	}
	cases = uniq
	impl := make([]ImplOutcome, len(cases))
	parMap(len(cases), func(i int) { impl[i] = cases[i].RunImpl() })
	reqs := make([]string, len(cases))
	for i, c := range cases {
		reqs[i] = c.Req()
	}
	model, err := runDriver(cfg.Driver, reqs)
	if err != nil {
		res.add(Finding{Kind: "disagree", Proj: "driver", Sig: "driver-failed", Model: err.Error()})
		return
	}
	for i, c := range cases {
		o := impl[i]
		res.Cases++
		res.hist("errpos:" + o.Class)
		if o.Class == "panic" {
			res.add(Finding{Kind: "oracle", Proj: "positions", Sig: "c16-panic", Case: c.String(), Impl: o.Msg})
			continue
		}
		if o.Err == nil {
			continue
		}
		e := o.Err
		if e.Filename == "" && e.Line > 0 {
			// a position without the source it lies in points nowhere (D68)
			res.add(Finding{Kind: "oracle", Proj: "positions", Sig: "c16-position-without-file", Case: c.String(), Impl: fmt.Sprintf("%s :%d:%d %s", o.Class, e.Line, e.Column, o.Msg), Model: "an error that carries a position names the source the position lies in"})
			continue
		}
		if i < 4 {
			res.sample(fmt.Sprintf("%s => %s %s:%d:%d", c.String(), o.Class, e.Filename, e.Line, e.Column))
		}
		// which source does the error name?
		src, known := "", false
		if e.Filename == "<string>" || e.Filename == "" {
			src, known = c.Src, true
		} else {
			for _, l := range c.Loaders {
				for name, body := range l {
					if name == e.Filename || "/"+name == e.Filename || strings.HasSuffix(e.Filename, "/"+name) {
						src, known = body, true
					}
				}
			}
		}
		sub := e.Filename != "<string>" && e.Filename != ""
		if e.Line > 1 || sub {
			res.DistinctNontrivial++
		}
		if e.Line > 0 && e.Filename != "" { // an error without a file name names no source to look into
			tokText, isStr := "", false
			if e.Token != nil {
				tokText = e.Token.Val
				isStr = e.Token.Typ == pongo2.TokenString
			}
			impl := fmt.Sprintf("%s %s:%d:%d %s", o.Class, e.Filename, e.Line, e.Column, o.Msg)
			switch {
			case !known && e.Sender == "fromfile":
				// the missing file is named, the position is the referring tag's
				res.add(Finding{Kind: "oracle", Proj: "positions", Sig: "c16-referrer-position:missing-file", Case: c.String(), Impl: impl, Model: "the position lies inside the named source"})
			case !known:
				res.add(Finding{Kind: "oracle", Proj: "positions", Sig: "c16-unknown-file", Case: c.String(), Impl: impl, Model: "the error names a file of the case"})
			case !textAt(src, e.Line, e.Column, tokText, isStr, e.Token != nil):
				sig := "c16-wrong-position"
				if sub && textAt(c.Src, e.Line, e.Column, tokText, isStr, e.Token != nil) {
					sig = "c16-referrer-position:sub-file-error"
				}
				res.add(Finding{Kind: "oracle", Proj: "positions", Sig: sig, Case: c.String(), Impl: impl, Model: "the reported token's text is found at the reported line and column of the named source"})
			}
		}
		_ = model
	}
}

// textAt: the source has the token's text at (line, col) — lines split at \n, columns counted
// in runes from 1, independently of the lexer; a string token shows its opening quote there;
// an error without a token may point at a token start or at the end of a line.
func textAt(src string, line, col int, tok string, isStr, hasTok bool) bool {
	if !hasTok {
		return posIsTokenStart(src, line, col)
	}
	// byte offset of (line, col)
	off := 0
	for l := 1; l < line; l++ {
		i := strings.IndexByte(src[off:], '\n')
		if i < 0 {
			return false
		}
		off += i + 1
	}
	// the lexer's convention (C16's lineCol): column = 1 + bytes since the last newline
	for c := 1; c < col; c++ {
		if off >= len(src) || src[off] == '\n' {
			return false
		}
		off++
	}
	rest := src[off:]
	if isStr {
		return strings.HasPrefix(rest, "\"") || strings.HasPrefix(rest, "'")
	}
	// a delimiter carrying a '-' is reported without it
	return strings.HasPrefix(rest, tok) || strings.HasPrefix(rest, "-"+tok) || (strings.HasPrefix(tok, "{") && strings.HasPrefix(rest, tok+"-"))
}

// posIsTokenStart: some token of src starts at (line, col) — positions as the lexer counts
// them — or (line, col) is where the source ends. A lexer error position inside a token
// (unterminated string, bad escape) is the lexer's own position: accepted when it is inside src.
func posIsTokenStart(src string, line, col int) bool {
	toks, lerr := pongo2.VerifLex("t", src)
	for _, t := range toks {
		if t.Line == line && t.Col == col {
			return true
		}
	}
	if lerr != nil && lerr.Line == line && lerr.Column == col {
		return true
	}
	// end of the source / end of a line (EOF errors point behind the last token)
	lines := strings.Split(src, "\n")
	if line >= 1 && line <= len(lines) {
		n := len([]rune(lines[line-1]))
		if col == n+1 || col == n {
			return true
		}
	}
	return false
}

package main

import (
	"bufio"
	"fmt"
	"io"
	"os"
	"os/exec"
	"strings"
)

// runDriver sends the request lines to the Lean driver and returns one answer
// per request.
func runDriver(path string, reqs []string) ([]string, error) {
	if d := os.Getenv("VERIF_DUMP"); d != "" {
		os.WriteFile(d, []byte(strings.Join(reqs, "\n")+"\n"), 0o644)
	}
	cmd := exec.Command(path)
	cmd.Stderr = os.Stderr
	in, err := cmd.StdinPipe()
	if err != nil {
		return nil, err
	}
	out, err := cmd.StdoutPipe()
	if err != nil {
		return nil, err
	}
	if err := cmd.Start(); err != nil {
		return nil, err
	}
	go func() {
		w := bufio.NewWriterSize(in, 1<<20)
		for _, r := range reqs {
			w.WriteString(r)
			w.WriteByte('\n')
		}
		w.Flush()
		in.Close()
	}()
	answers := make([]string, 0, len(reqs))
	rd := bufio.NewReaderSize(out, 1<<20)
	for {
		line, err := rd.ReadString('\n')
		if len(line) > 0 {
			if line[len(line)-1] == '\n' {
				line = line[:len(line)-1]
			}
			answers = append(answers, line)
		}
		if err == io.EOF {
			break
		}
		if err != nil {
			return nil, err
		}
	}
	if err := cmd.Wait(); err != nil {
		return answers, fmt.Errorf("driver: %v", err)
	}
	if len(answers) != len(reqs) {
		return answers, fmt.Errorf("driver answered %d of %d requests", len(answers), len(reqs))
	}
	return answers, nil
}

package main

import (
	"fmt"
	"runtime"
	"strings"
	"sync"

	pongo2 "github.com/flosch/pongo2/v6"
)

// ProgCase is one compile-and-render case shared by the implementation and the model.
type ProgCase struct {
	Debug      bool // TemplateSet.Debug for this run (not part of the request: rendering does not depend on it)
	Src        string
	FromFile   bool
	Loaders    []map[string]string
	Trim       bool
	LStrip     bool
	OptLiteral bool // assign set.Options as a struct literal instead of setting its fields (not part of the model request)
	BanTags    []string
	BanFilters []string
	Globals    CtxTerm
	Ctx        *CtxTerm
	Label      string
	key        string // the request of the case as its suite built it (before Varied)
}

// Key identifies the case as its suite built it: tables of expectations are keyed by it.
func (c ProgCase) Key() string {
	if c.key != "" {
		return c.key
	}
	return c.Req()
}

func b01(b bool) string {
	if b {
		return "1"
	}
	return "0"
}

// Req is the driver request line for the case.
func (c ProgCase) Req() string {
	var sb strings.Builder
	fmt.Fprintf(&sb, "run %s %s %d ", b01(c.Trim), b01(c.LStrip), len(c.Loaders))
	for _, l := range c.Loaders {
		fmt.Fprintf(&sb, "%d ", len(l))
		for _, n := range sortedKeys(l) {
			fmt.Fprintf(&sb, "%s %s ", hxb(n), hxb(l[n]))
		}
	}
	fmt.Fprintf(&sb, "%d ", len(c.BanTags))
	for _, t := range c.BanTags {
		sb.WriteString(hxb(t) + " ")
	}
	fmt.Fprintf(&sb, "%d ", len(c.BanFilters))
	for _, t := range c.BanFilters {
		sb.WriteString(hxb(t) + " ")
	}
	sb.WriteString(c.Globals.Wire() + " ")
	if c.FromFile {
		sb.WriteString("f ")
	} else {
		sb.WriteString("s ")
	}
	sb.WriteString(hxb(c.Src) + " ")
	if c.Ctx == nil {
		sb.WriteString("N")
	} else {
		sb.WriteString(c.Ctx.Wire())
	}
	return sb.String()
}

// Varied returns the case with the Go representations of its values varied.
func (c ProgCase) Varied(r *RNG) ProgCase {
	c.key = c.Key()
	if c.Ctx != nil {
		for _, v := range c.Ctx.Vals {
			if v.K == "func" {
				// Go functions are called with Go-typed arguments: an int64 is not an int there
				return c
			}
		}
	}
	c.Globals = c.Globals.varied(r, false)
	if c.Ctx != nil {
		v := c.Ctx.varied(r, false)
		c.Ctx = &v
	}
	return c
}

func sortedKeys(m map[string]string) []string {
	out := make([]string, 0, len(m))
	for k := range m {
		out = append(out, k)
	}
	for i := 1; i < len(out); i++ {
		for j := i; j > 0 && out[j] < out[j-1]; j-- {
			out[j], out[j-1] = out[j-1], out[j]
		}
	}
	return out
}

func (c ProgCase) String() string {
	s := fmt.Sprintf("src=%q", c.Src)
	if c.FromFile {
		s = "file=" + c.Src
	}
	for i, l := range c.Loaders {
		for _, n := range sortedKeys(l) {
			s += fmt.Sprintf(" L%d[%s]=%q", i, n, l[n])
		}
	}
	if c.Trim {
		s += " trim"
	}
	if c.LStrip {
		s += " lstrip"
	}
	if len(c.BanTags) > 0 {
		s += " bantags=" + strings.Join(c.BanTags, ",")
	}
	if len(c.BanFilters) > 0 {
		s += " banfilters=" + strings.Join(c.BanFilters, ",")
	}
	if len(c.Globals.Names) > 0 {
		s += " globals{" + c.Globals.String() + "}"
	}
	if c.Ctx == nil {
		s += " ctx=nil"
	} else {
		s += " ctx{" + c.Ctx.String() + "}"
	}
	return s
}

// ImplOutcome is the implementation's behaviour on a case.
type ImplOutcome struct {
	Class  string // ok | compile | exec | panic
	Out    string
	Msg    string
	Err    *pongo2.Error
	GetLog []string
}

func (o ImplOutcome) Canon() string {
	switch o.Class {
	case "ok":
		return "ok " + hxb(o.Out)
	case "panic":
		return "panic"
	}
	return "err " + o.Class
}

// buildSet creates a fresh template set for the case.
func (c ProgCase) buildSet() (*pongo2.TemplateSet, []*memLoader) {
	var loaders []*memLoader
	var tls []pongo2.TemplateLoader
	sink := &sharedLog{}
	for i, l := range c.Loaders {
		ml := &memLoader{files: l, id: fmt.Sprint(i), sink: sink}
		loaders = append(loaders, ml)
		tls = append(tls, ml)
	}
	if len(tls) == 0 {
		ml := &memLoader{files: map[string]string{}, id: "0", sink: sink}
		loaders = append(loaders, ml)
		tls = append(tls, ml)
	}
	set := pongo2.NewSet("t", tls...)
	if c.OptLiteral {
		// the way a caller outside the package builds options: a struct literal
		set.Options = &pongo2.Options{TrimBlocks: c.Trim, LStripBlocks: c.LStrip}
	} else {
		set.Options.TrimBlocks = c.Trim
		set.Options.LStripBlocks = c.LStrip
	}
	set.Debug = c.Debug
	for _, t := range c.BanTags {
		set.BanTag(t)
	}
	for _, f := range c.BanFilters {
		set.BanFilter(f)
	}
	for i, n := range c.Globals.Names {
		set.Globals[n] = c.Globals.Vals[i].Go()
	}
	return set, loaders
}

func (c ProgCase) compile(set *pongo2.TemplateSet) (*pongo2.Template, error) {
	if c.FromFile {
		return set.FromFile(c.Src)
	}
	return set.FromString(c.Src)
}

// RunImpl compiles and executes the case once on the real pongo2.
func (c ProgCase) RunImpl() (o ImplOutcome) {
	var loaders []*memLoader
	defer func() {
		if p := recover(); p != nil {
			o = ImplOutcome{Class: "panic", Msg: fmt.Sprint(p)}
		}
		if len(loaders) > 0 && loaders[0].sink != nil {
			o.GetLog = append(o.GetLog, loaders[0].sink.log...)
		}
	}()
	set, ls := c.buildSet()
	loaders = ls
	tpl, err := c.compile(set)
	if err != nil {
		pe, _ := err.(*pongo2.Error)
		return ImplOutcome{Class: "compile", Msg: err.Error(), Err: pe}
	}
	var ctx pongo2.Context
	if c.Ctx != nil {
		ctx = c.Ctx.Go()
	}
	out, err := tpl.Execute(ctx)
	if err != nil {
		pe, _ := err.(*pongo2.Error)
		return ImplOutcome{Class: "exec", Msg: err.Error(), Err: pe}
	}
	return ImplOutcome{Class: "ok", Out: out}
}

// modelCanon reduces the driver's answer to the projection compared by default
// (outcome class + output bytes).
func modelCanon(ans string) string {
	f := strings.Fields(ans)
	if len(f) == 0 {
		return ans
	}
	switch f[0] {
	case "ok":
		if len(f) >= 2 {
			return "ok " + f[1]
		}
	case "err":
		if len(f) >= 2 {
			return "err " + f[1]
		}
	case "panic":
		return "panic"
	}
	return f[0]
}

// progCompareLog makes runProgCases also compare the loaders' Get log with the model's.
var progCompareLog bool

// progSkipModel, when set, exempts cases from the model comparison (constructs the
// model does not know, e.g. a filter registered after the model was written).
var progSkipModel func(ProgCase) bool

// modelLog extracts the model's fetch log as "loader:name,…" with decoded names.
func modelLog(ans string) (string, bool) {
	i := strings.Index(ans, "log=")
	if i < 0 {
		return "", false
	}
	raw := strings.TrimSpace(ans[i+4:])
	if raw == "" {
		return "", true
	}
	var out []string
	for _, e := range strings.Split(raw, ",") {
		k := strings.IndexByte(e, ':')
		if k < 0 {
			return "", false
		}
		out = append(out, e[:k]+":"+unhx(e[k+1:]))
	}
	return strings.Join(out, ","), true
}

// parMap runs f over 0..n-1 on all cores.
func parMap(n int, f func(i int)) {
	w := runtime.NumCPU()
	var wg sync.WaitGroup
	ch := make(chan int, 1024)
	for k := 0; k < w; k++ {
		wg.Add(1)
		go func() {
			defer wg.Done()
			for i := range ch {
				f(i)
			}
		}()
	}
	for i := 0; i < n; i++ {
		ch <- i
	}
	close(ch)
	wg.Wait()
}

// runProgCases executes the cases on both sides and records disagreements.
// nontrivial reports whether a case counts as non-trivial for the evidence.
func runProgCases(cfg Config, res *Result, cases []ProgCase, sigPrefix string, nontrivial func(ProgCase, ImplOutcome) bool,
	oracle func(ProgCase, ImplOutcome) *Finding) {
	// dedupe
	seen := map[string]bool{}
	uniq := cases[:0]
	for _, c := range cases {
		r := c.Req()
		if seen[r] {
			continue
		}
		seen[r] = true
		uniq = append(uniq, c)
	}
	cases = uniq
	// two cases in three run with varied Go representations of their context and
	// globals (int8, float32, named types, typed and nil slices ...): the model's
	// terms - and so its answer - are the same
	vr := NewRNG(cfg.Seed*0x9E3779B97F4A7C15 + uint64(len(cases)))
	for i := range cases {
		if vr.Intn(3) != 0 {
			cases[i] = cases[i].Varied(vr)
		}
	}
	impl := make([]ImplOutcome, len(cases))
	parMap(len(cases), func(i int) { impl[i] = cases[i].RunImpl() })
	reqs := make([]string, len(cases))
	for i, c := range cases {
		reqs[i] = c.Req()
	}
	model, err := runDriver(cfg.Driver, reqs)
	if err != nil {
		res.add(Finding{Kind: "disagree", Proj: "driver", Sig: "driver-failed", Model: err.Error()})
		if len(model) < len(reqs) && len(model) > 0 {
			res.add(Finding{Kind: "disagree", Proj: "driver", Sig: "driver-stopped-at", Case: cases[len(model)].String()})
		}
		return
	}
	res.Cases += len(cases)
	for i, c := range cases {
		io := impl[i]
		res.hist(c.Label + ":" + io.Class)
		if nontrivial == nil || nontrivial(c, io) {
			res.DistinctNontrivial++
		}
		if i < 4 {
			res.sample(c.String() + " => " + io.Canon())
		}
		if oracle != nil {
			if f := oracle(c, io); f != nil {
				res.add(*f)
			}
		}
		if progSkipModel != nil && progSkipModel(c) {
			res.hist("model:skipped")
			continue
		}
		m := modelCanon(model[i])
		if m == "unsupported" {
			res.hist("model:unsupported")
			continue
		}
		ic := io.Canon()
		if ic == m {
			if progCompareLog && io.Class == "ok" { // on errors the model does not keep the log of the failed compilation
				if ml, ok := modelLog(model[i]); ok {
					il := strings.Join(io.GetLog, ",")
					if ml != il {
						res.add(Finding{Kind: "disagree", Proj: "fetchlog", Sig: sigPrefix + "-fetchlog", Case: c.String(), Impl: il, Model: ml})
					}
				}
			}
			continue
		}
		proj := "output"
		if strings.Fields(ic)[0] != strings.Fields(m)[0] || (strings.HasPrefix(ic, "err") && ic != m) {
			proj = "class"
		}
		res.add(Finding{Kind: "disagree", Proj: proj, Sig: sigPrefix + "-" + proj, Case: c.String(), Impl: ic + " " + io.Msg, Model: model[i]})
	}
	runProgCasesAutoOff(cfg, res, cases, reqs, sigPrefix)
	// another fourth once more in a set with Debug on: what is logged and cached changes, the
	// outcome does not
	var dbg []int
	for i := range cases {
		// (what the model does not answer for - random, now, lorem random - need not repeat itself)
		if i%4 == 2 && modelCanon(model[i]) != "unsupported" && (progSkipModel == nil || !progSkipModel(cases[i])) {
			dbg = append(dbg, i)
		}
	}
	dimpl := make([]ImplOutcome, len(dbg))
	parMap(len(dbg), func(k int) { c := cases[dbg[k]]; c.Debug = true; dimpl[k] = c.RunImpl() })
	res.Cases += len(dbg)
	for k, i := range dbg {
		if a, b := dimpl[k].Canon(), impl[i].Canon(); a != b {
			res.add(Finding{Kind: "oracle", Proj: "output", Sig: sigPrefix + "-debug-changes-outcome", Case: cases[i].String() + " in a set with Debug on", Impl: a + " " + dimpl[k].Msg, Model: b + " (Debug off)"})
		}
	}
}

// runProgCasesAutoOff runs a fourth of the cases once more under the other package default,
// pongo2.SetAutoescape(false), against the model told so (driver command `runa`): the default a
// root execution and every include start with is a parameter of the model (SetCfg.autoescape).
// The suites' oracles speak of the default configuration and are not consulted here; nothing else
// executes templates in this process meanwhile (the switch is a package variable).
func runProgCasesAutoOff(cfg Config, res *Result, cases []ProgCase, reqs []string, sigPrefix string) {
	var sub []int
	for i, c := range cases {
		if i%4 == 1 && (progSkipModel == nil || !progSkipModel(c)) {
			sub = append(sub, i)
		}
	}
	if len(sub) == 0 {
		return
	}
	impl := make([]ImplOutcome, len(sub))
	pongo2.SetAutoescape(false)
	parMap(len(sub), func(k int) { impl[k] = cases[sub[k]].RunImpl() })
	pongo2.SetAutoescape(true)
	off := make([]string, len(sub))
	for k, i := range sub {
		off[k] = "runa" + strings.TrimPrefix(reqs[i], "run")
	}
	model, err := runDriver(cfg.Driver, off)
	if err != nil {
		res.add(Finding{Kind: "disagree", Proj: "driver", Sig: "driver-failed", Model: err.Error()})
		return
	}
	res.Cases += len(sub)
	for k, i := range sub {
		m := modelCanon(model[k])
		if m == "unsupported" {
			continue
		}
		res.hist("autoescape-off:" + impl[k].Class)
		if ic := impl[k].Canon(); ic != m {
			proj := "output"
			if strings.Fields(ic)[0] != strings.Fields(m)[0] || (strings.HasPrefix(ic, "err") && ic != m) {
				proj = "class"
			}
			res.add(Finding{Kind: "disagree", Proj: proj, Sig: sigPrefix + "-autoescape-off-" + proj, Case: cases[i].String() + " after SetAutoescape(false)", Impl: ic + " " + impl[k].Msg, Model: model[k]})
		}
	}
}

package main

// The parts of the public API that no other suite goes through: the loaders that read real files,
// AddLoader, the package-level wrappers around DefaultSet, the global autoescape switch,
// FilterExists / MustApplyFilter.  Each function is called from the suite of the property that
// governs it.

import (
	"fmt"
	"net/http"
	"os"
	"path/filepath"
	"sort"
	"testing/fstest"

	pongo2 "github.com/flosch/pongo2/v6"
)

// c11RealLoaders: the built-in loaders over one tree of real files
func c11RealLoaders(res *Result) {
	root, err := os.MkdirTemp("", "verif-c11-tree-")
	if err != nil {
		return
	}
	defer os.RemoveAll(root)
	files := map[string]string{
		"main.tpl":  `M[{% include "sub/a.tpl" %}]`,
		"sub/a.tpl": `A[{% include "b.tpl" %}|{% include "../b.tpl" %}]`,
		"sub/b.tpl": "SUB-B",
		"b.tpl":     "ROOT-B",
		"flat.tpl":  `F[{% include "sub/b.tpl" %}|{% include "b.tpl" if_exists %}|{% include "nosuch.tpl" if_exists %}]{% extends "lay.tpl" %}`,
		"lay.tpl":   `L<{% block c %}{% endblock %}>`,
		"page.tpl":  `{% extends "lay.tpl" %}{% block c %}{% import "lib.tpl" m %}{{ m() }}{% ssi "b.tpl" %}{% endblock %}`,
		"lib.tpl":   `{% macro m() export %}mac{% endmacro %}`,
		"miss.tpl":  `x{% include "gone.tpl" %}`,
	}
	mapfs := fstest.MapFS{}
	for n, c := range files {
		p := filepath.Join(root, filepath.FromSlash(n))
		os.MkdirAll(filepath.Dir(p), 0o755)
		os.WriteFile(p, []byte(c), 0o644)
		mapfs[n] = &fstest.MapFile{Data: []byte(c)}
	}
	delete(files, "flat.tpl") // (extends after text: a compile error everywhere; kept out of the expectations)
	type ld struct {
		name   string
		l      pongo2.TemplateLoader
		prefix string // how this loader names a file of the tree
		rel    bool   // names are relative to the referring template (otherwise: to the loader's root)
	}
	nobase, _ := pongo2.NewLocalFileSystemLoader("")
	sand, _ := pongo2.NewSandboxedFilesystemLoader(root)
	lds := []ld{
		{"LocalFilesystemLoader without base directory", nobase, root + string(filepath.Separator), true},
		{"FSLoader over os.DirFS", pongo2.NewFSLoader(os.DirFS(root)), "", true},
		{"FSLoader over fstest.MapFS", pongo2.NewFSLoader(mapfs), "", true},
		{"LocalFilesystemLoader with base directory", pongo2.MustNewLocalFileSystemLoader(root), "", false},
		{"SandboxedFilesystemLoader", sand, "", false},
		{"HttpFilesystemLoader", pongo2.MustNewHttpFileSystemLoader(http.Dir(root), ""), "", false},
	}
	for _, l := range lds {
		set := pongo2.NewSet("real", l.l)
		want := map[string]string{"page.tpl": "ok L<macROOT-B>", "lay.tpl": "ok L<>", "b.tpl": "ok ROOT-B", "miss.tpl": "err", "nosuch.tpl": "err"}
		if l.rel {
			want["main.tpl"] = "ok M[A[SUB-B|ROOT-B]]" // names resolve against the referring template
		}
		var names []string
		for n := range want {
			names = append(names, n)
		}
		sort.Strings(names)
		for _, n := range names {
			res.Cases++
			res.DistinctNontrivial++
			got := "err"
			func() {
				defer func() {
					if p := recover(); p != nil {
						got = fmt.Sprint("panic ", p)
					}
				}()
				if out, e := set.RenderTemplateFile(l.prefix+n, nil); e == nil {
					got = "ok " + out
				}
			}()
			if got != want[n] {
				res.add(Finding{Kind: "oracle", Proj: "loaders", Sig: "c11-real-loader", Case: fmt.Sprintf("%s: RenderTemplateFile(%s) over the tree %q", l.name, n, files), Impl: got, Model: want[n]})
			}
		}
	}
	// AddLoader: asked in the order they were added, the first that has the name wins
	first := &memLoader{files: map[string]string{"a.tpl": "first-a", "both.tpl": "first-both[{% include \"b.tpl\" %}]"}, id: "0"}
	second := &memLoader{files: map[string]string{"b.tpl": "second-b", "both.tpl": "second-both", "a.tpl": "second-a"}, id: "1"}
	set := pongo2.NewSet("added", first)
	set.AddLoader(second)
	for n, w := range map[string]string{"a.tpl": "first-a", "b.tpl": "second-b", "both.tpl": "first-both[second-b]"} {
		res.Cases++
		if out, e := set.RenderTemplateFile(n, nil); e != nil || out != w {
			res.add(Finding{Kind: "oracle", Proj: "loaders", Sig: "c11-added-loader-order", Case: "NewSet(first); AddLoader(second); " + n, Impl: fmt.Sprint(out, e), Model: w})
		}
	}
	// two sets built from one slice of loaders (with spare capacity) do not share what is added later (D57)
	base := make([]pongo2.TemplateLoader, 1, 4)
	base[0] = &memLoader{files: map[string]string{}, id: "0"}
	sa, sb := pongo2.NewSet("a", base...), pongo2.NewSet("b", base...)
	sa.AddLoader(&memLoader{files: map[string]string{"x.tpl": "from-a"}, id: "1"})
	sb.AddLoader(&memLoader{files: map[string]string{"x.tpl": "from-b"}, id: "1"})
	res.Cases++
	if out, e := sa.RenderTemplateFile("x.tpl", nil); e != nil || out != "from-a" {
		res.add(Finding{Kind: "oracle", Proj: "loaders", Sig: "c11-sets-share-loaders", Case: "two sets from one loader slice, AddLoader on each", Impl: fmt.Sprint(out, e), Model: "from-a"})
	}
}

// c02GlobalSwitch: the process-wide switch is the only global opt-out, it acts at execution time,
// and switching it back on restores escaping for every template, whenever it was compiled
func c02GlobalSwitch(res *Result) {
	defer pongo2.SetAutoescape(true)
	ctx := pongo2.Context{"s": "<&>"}
	before, _ := pongo2.NewSet("sw", &memLoader{files: map[string]string{}}).FromString("{{ s }}|{% autoescape on %}{{ s }}{% endautoescape %}")
	pongo2.SetAutoescape(false)
	during, _ := pongo2.NewSet("sw2", &memLoader{files: map[string]string{}}).FromString("{{ s }}|{% autoescape on %}{{ s }}{% endautoescape %}")
	off1, off2 := execOnce(before, ctx).out, execOnce(during, ctx).out
	pongo2.SetAutoescape(true)
	on1, on2 := execOnce(before, ctx).out, execOnce(during, ctx).out
	res.Cases++
	const raw, esc = "<&>|&lt;&amp;&gt;", "&lt;&amp;&gt;|&lt;&amp;&gt;"
	if off1 != raw || off2 != raw || on1 != esc || on2 != esc {
		res.add(Finding{Kind: "oracle", Proj: "taint", Sig: "c02-global-switch", Case: "SetAutoescape(false) … SetAutoescape(true), templates compiled before / in between",
			Impl: fmt.Sprintf("off: %q %q, on again: %q %q", off1, off2, on1, on2), Model: fmt.Sprintf("off: %q, on again: %q", raw, esc)})
	}
}

// c19Registry: FilterExists tells what the registry holds; MustApplyFilter is ApplyFilter that panics
func c19Registry(res *Result) {
	reg := map[string]bool{}
	for _, f := range pongo2.VerifRegisteredFilters() {
		reg[f] = true
	}
	for _, f := range append(pongo2.VerifRegisteredFilters(), "nosuchfilter", "", "Upper", "upper ", "if") {
		res.Cases++
		if pongo2.FilterExists(f) != reg[f] {
			res.add(Finding{Kind: "oracle", Proj: "chain", Sig: "c19-filterexists", Case: f, Impl: fmt.Sprint(pongo2.FilterExists(f)), Model: fmt.Sprint(reg[f])})
		}
	}
	for _, f := range []string{"upper", "length", "nosuchfilter", "slice"} {
		v, err := pongo2.ApplyFilter(f, pongo2.AsValue("abc"), pongo2.AsValue("x"))
		got := "error"
		func() {
			defer func() {
				if recover() != nil {
					got = "panic"
				}
			}()
			got = "ok " + pongo2.MustApplyFilter(f, pongo2.AsValue("abc"), pongo2.AsValue("x")).String()
		}()
		want := "panic"
		if err == nil {
			want = "ok " + v.String()
		}
		res.Cases++
		if got != want {
			res.add(Finding{Kind: "oracle", Proj: "chain", Sig: "c19-mustapplyfilter", Case: f, Impl: got, Model: want})
		}
	}
}

// c20DefaultSet: the package-level functions are the same operations on DefaultSet, whose cache is
// its own
func c20DefaultSet(res *Result) {
	dir, err := os.MkdirTemp("", "verif-c20-default-")
	if err != nil {
		return
	}
	defer os.RemoveAll(dir)
	p := filepath.Join(dir, "d.tpl")
	os.WriteFile(p, []byte("one{{ x }}"), 0o644)
	res.Cases++
	bad := func(sig, impl, want string) {
		res.add(Finding{Kind: "oracle", Proj: "cache", Sig: sig, Case: "package-level FromCache / FromFile / RenderTemplate* on " + p, Impl: impl, Model: want})
	}
	t1, e1 := pongo2.FromCache(p)
	os.WriteFile(p, []byte("two{{ x }}"), 0o644)
	t2, e2 := pongo2.FromCache(p)
	if e1 != nil || e2 != nil || t1 != t2 {
		bad("c20-default-set-not-cached", fmt.Sprint(e1, e2, t1 == t2), "the same template twice")
		return
	}
	if out, _ := t2.Execute(pongo2.Context{"x": 1}); out != "one1" {
		bad("c20-default-set-not-cached", out, "one1")
	}
	own := pongo2.NewSet("own", pongo2.MustNewLocalFileSystemLoader(""))
	if t3, e := own.FromCache(p); e != nil || t3 == t1 {
		bad("c20-sets-share-cache", fmt.Sprint(e, t3 == t1), "another set compiles its own template")
	} else if out, _ := t3.Execute(pongo2.Context{"x": 1}); out != "two1" {
		bad("c20-sets-share-cache", out, "two1")
	}
	if t4, e := pongo2.FromFile(p); e != nil || t4 == t1 {
		bad("c20-fromfile-cached", fmt.Sprint(e, t4 == t1), "FromFile compiles afresh")
	}
	pongo2.DefaultSet.CleanCache(p)
	if t5, e := pongo2.FromCache(p); e != nil || t5 == t1 {
		bad("c20-clean-did-not-forget", fmt.Sprint(e, t5 == t1), "a cleaned name is loaded afresh")
	} else if out, _ := t5.Execute(pongo2.Context{"x": 1}); out != "two1" {
		bad("c20-clean-did-not-forget", out, "two1")
	}
	if out, e := pongo2.RenderTemplateFile(p, pongo2.Context{"x": 2}); e != nil || out != "two2" {
		bad("c20-default-render", fmt.Sprint(out, e), "two2")
	}
	if out, e := pongo2.RenderTemplateString("s{{ x }}", pongo2.Context{"x": 3}); e != nil || out != "s3" {
		bad("c20-default-render", fmt.Sprint(out, e), "s3")
	}
	pongo2.DefaultSet.CleanCache()
}

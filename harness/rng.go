package main

// splitmix64: every random choice in the harness derives from one state
// seeded by VERIF_SEED, so a disagreement replays exactly.
type RNG struct{ s uint64 }

func NewRNG(seed uint64) *RNG {
	// scramble the seed so that consecutive seeds give unrelated streams
	z := seed + 0x632BE59BD9B4E019
	z = (z ^ (z >> 30)) * 0xBF58476D1CE4E5B9
	z = (z ^ (z >> 27)) * 0x94D049BB133111EB
	return &RNG{s: z ^ (z >> 31)}
}

func (r *RNG) Next() uint64 {
	r.s += 0x9E3779B97F4A7C15
	z := r.s
	z = (z ^ (z >> 30)) * 0xBF58476D1CE4E5B9
	z = (z ^ (z >> 27)) * 0x94D049BB133111EB
	return z ^ (z >> 31)
}

func (r *RNG) Intn(n int) int {
	if n <= 0 {
		return 0
	}
	return int(r.Next() % uint64(n))
}

func (r *RNG) Bool() bool { return r.Next()&1 == 1 }

// Chance returns true with probability num/den.
func (r *RNG) Chance(num, den int) bool { return r.Intn(den) < num }

func (r *RNG) Pick(xs []string) string { return xs[r.Intn(len(xs))] }

func (r *RNG) Fork() *RNG { return NewRNG(r.Next()) }

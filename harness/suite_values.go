package main

// The Value layer (value.go) against Model/Val.lean, and the laws of that layer that hold for
// every Go value whether or not the model's universe has a term for it.  Every property whose
// model speaks of "integers", "strings", "what a value prints as" rests on this tie, so the
// suite is part of each of their checks.

import (
	"fmt"
	"math"
	"math/big"
	"reflect"
	"sort"
	"strings"
	"time"

	pongo2 "github.com/flosch/pongo2/v6"
)

func init() { suites["values"] = suiteValues }

func b01s(bs ...bool) string {
	var sb strings.Builder
	for _, b := range bs {
		sb.WriteString(b01(b))
	}
	return sb.String()
}

// valObs: what the public Value API answers about one Go value (same layout as the driver's `val`).
func valObs(x any) (obs string) {
	defer func() {
		if p := recover(); p != nil {
			obs = fmt.Sprint("panic ", p)
		}
	}()
	v := pongo2.AsValue(x)
	return fmt.Sprintf("%s %d %s %d %d", b01s(v.IsString(), v.IsBool(), v.IsFloat(), v.IsInteger(), v.IsNumber(), v.IsNil(), v.IsTrue(), v.CanSlice()),
		v.Len(), hxb(v.String()), v.Integer(), math.Float64bits(v.Float()))
}

// ptrStringer has its String method on the pointer type, as most structs have.
type ptrStringer struct{ text string }

func (p *ptrStringer) String() string { return p.text }

type psHolder struct {
	One  ptrStringer
	Many []ptrStringer
}

type byLen []string

func (s byLen) Len() int           { return len(s) }
func (s byLen) Less(i, j int) bool { return len(s[i]) < len(s[j]) }
func (s byLen) Swap(i, j int)      { s[i], s[j] = s[j], s[i] }

type namedUintptr uintptr

// valuesTerms: terms of the universe in all their Go representations.
func valuesTerms(r *RNG, n int) []VT {
	ints := []int64{0, 1, -1, 2, 7, 10, 127, 128, -128, -129, 255, 256, 32767, 32768, -32768, 65535, 65536, math.MaxInt32, math.MaxInt32 + 1, math.MinInt32,
		1 << 53, 1<<53 + 1, 1 << 62, math.MaxInt64, math.MinInt64}
	uints := []uint64{0, 1, 2, 255, 256, 65535, 65536, math.MaxUint32, math.MaxUint32 + 1, 1 << 53, 1<<53 + 1, 1 << 63, 1<<63 - 1, math.MaxUint64}
	floats := []float64{0, 1, -1, 1.5, -2.25, 0.5, 0.1, 2.5, 1e10, 123456.789, 1e20, -1e15, 0.000001}
	strs := []string{"", "a", "abc", "42", "-7", "3.5", "007", "true", "日本", "\xff\xfe", "a b", "<b>", "0", "0.0"}
	var out []VT
	for _, i := range ints {
		for rep := 0; rep < 6; rep++ {
			out = append(out, VT{K: "int", I: i, Rep: rep})
		}
	}
	for _, u := range uints {
		for rep := 0; rep < 5; rep++ {
			out = append(out, VT{K: "uint", U: u, Rep: rep})
		}
	}
	for _, f := range floats {
		out = append(out, VT{K: "float", F: f}, VT{K: "float", F: f, Rep: 1})
	}
	for _, s := range strs {
		out = append(out, VT{K: "str", S: s}, VT{K: "str", S: s, Rep: 1}, vStringerStr(s))
	}
	out = append(out, vBool(true), vBool(false), vNil(), VT{K: "nilptr"}, vStringerInt(0), vStringerInt(-5), vStringerInt(42))
	leaf := func() VT { return out[r.Intn(len(out))] }
	base := len(out)
	// pointers to every scalar
	for i := 0; i < base; i++ {
		if k := out[i].K; k == "int" || k == "uint" || k == "float" || k == "str" || k == "bool" || k == "stringer" {
			out = append(out, vPtr(out[i]))
		}
	}
	// containers
	for i := 0; i < n; i++ {
		m := r.Intn(4)
		switch r.Intn(8) {
		case 0:
			xs := make([]VT, m)
			for j := range xs {
				xs[j] = vInt(ints[r.Intn(len(ints))])
			}
			out = append(out, VT{K: "list", Elem: "int", Items: xs, Rep: []int{0, 1, 2, 3, 9}[r.Intn(5)]})
		case 1:
			xs := make([]VT, m)
			for j := range xs {
				xs[j] = vStr(strs[r.Intn(len(strs))])
			}
			out = append(out, VT{K: "list", Elem: "string", Items: xs, Rep: []int{0, 1, 3, 9}[r.Intn(4)]})
		case 2:
			xs := make([]VT, m)
			for j := range xs {
				xs[j] = vUint(uints[r.Intn(len(uints))] % 256)
			}
			out = append(out, VT{K: "list", Elem: "uint", Items: xs, Rep: r.Intn(3)})
		case 3:
			xs := make([]VT, m)
			for j := range xs {
				xs[j] = leaf()
			}
			out = append(out, VT{K: "list", Elem: "any", Items: xs, Rep: []int{0, 9}[r.Intn(2)]})
		case 4:
			xs := make([]VT, m)
			for j := range xs {
				xs[j] = vInt(int64(r.Intn(9)))
			}
			out = append(out, vArr(xs...))
		case 5:
			keys := []string{"a", "b", "c"}[:m%4%3+0]
			vals := make([]VT, len(keys))
			for j := range vals {
				vals[j] = leaf()
			}
			out = append(out, VT{K: "smap", Keys: keys, Items: vals, Rep: []int{0, 9}[r.Intn(2)]})
		case 6:
			out = append(out, vStruct(leaf(), leaf(), leaf()), vPtr(vStruct(leaf(), leaf(), vNil())))
		case 7:
			xs := make([]VT, m)
			for j := range xs {
				xs[j] = vBoxed(leaf(), false)
			}
			out = append(out, vList("value", xs...))
		}
	}
	return out
}

// resolvedKind: the kind the Value predicates are documented to look at (one pointer followed).
func resolvedKind(x any) reflect.Kind {
	rv := reflect.ValueOf(x)
	if rv.IsValid() && rv.Kind() == reflect.Ptr {
		rv = rv.Elem()
	}
	if !rv.IsValid() {
		return reflect.Invalid
	}
	return rv.Kind()
}

func suiteValues(cfg Config, res *Result) {
	res.Rule = "value.go against Model/Val.lean: for every scalar of the universe in each of its Go representations (int8 … int64, uint8 … uint64, float32/64, named types, Stringers), pointers to them, typed / untyped / nil slices, arrays, maps, structs, []*Value: IsString IsBool IsFloat IsInteger IsNumber IsNil IsTrue CanSlice Len String Integer Float compared with the model's Val functions; plus the laws of the layer over Go values outside the universe too (uintptr, nil maps, sort.Interface slices, pointer-receiver Stringers, big unsigned keys): the predicates are functions of the resolved kind, IsNumber = IsInteger or IsFloat, a fmt.Stringer prints as its String(), a value prints the same however it is reached, Interface() gives the value back with its type, iteration in any order leaves the iterated value as it was, `sorted` is the exact numeric / bytewise order, Slice of an array is its elements"
	n := 400
	if cfg.Thorough() {
		n = 6000
	}
	rng := NewRNG(cfg.Seed)
	terms := valuesTerms(rng, n)
	// (a) universe terms against the model
	seen := map[string]bool{}
	var reqs []string
	var kept []VT
	for _, t := range terms {
		var sb strings.Builder
		t.reps(&sb)
		k := t.Wire() + sb.String()
		if seen[k] {
			continue
		}
		seen[k] = true
		kept = append(kept, t)
		reqs = append(reqs, "val "+t.Wire())
	}
	model, err := runDriver(cfg.Driver, reqs)
	if err != nil || len(model) != len(reqs) {
		res.add(Finding{Kind: "disagree", Proj: "driver", Sig: "driver-failed", Model: fmt.Sprint(err)})
		return
	}
	var goVals []any
	for i, t := range kept {
		res.Cases++
		x := t.Go()
		goVals = append(goVals, x)
		got := valObs(x)
		res.hist("term:" + t.K)
		if t.Rep != 0 {
			res.DistinctNontrivial++
		}
		if i < 4 {
			res.sample(fmt.Sprintf("%T %s => %s", x, t.Wire(), got))
		}
		if got != model[i] {
			res.add(Finding{Kind: "disagree", Proj: "valapi", Sig: "values-api", Case: fmt.Sprintf("AsValue(%T) term %s", x, t.Wire()), Impl: got, Model: model[i]})
		}
	}
	// (b) laws, over the universe's values and over Go values outside it
	mark := "<m>&'\""
	big60 := uint64(1) << 60
	bigKeys := map[uint64]string{}
	var bigList []uint64
	var bigInts []int64
	for i := 0; i < 24; i++ {
		bigKeys[big60+uint64(i)] = string(rune('a' + i))
		bigList = append(bigList, big60+uint64((i*7)%24))
		bigInts = append(bigInts, -(1<<60)-int64((i*5)%24))
	}
	tm := time.Date(2020, 1, 2, 3, 4, 5, 0, time.UTC)
	extra := []any{
		uintptr(4096), namedUintptr(7), new(uintptr), complex(1, 2), make(chan int), func() {}, (func())(nil),
		map[string]int(nil), []string(nil), map[string]int{}, (*int)(nil), (*string)(nil), (*VS1)(nil), (*[]int)(nil),
		bigKeys, bigList, bigInts, []uint64{math.MaxUint64, 1 << 63, 1<<63 - 1, 0}, []int64{math.MinInt64, math.MaxInt64, 0, -1},
		map[int64]int{math.MinInt64: 1, -1: 2, 1 << 53: 3, 1<<53 + 1: 4}, map[uint8]string{200: "x", 3: "y", 100: "z"},
		map[string]int{"adam": 1, "Adam": 2, "bea": 3, "Bea": 4, "BEA": 5, "ADAM": 6}, []string{"b", "B", "a", "A", "ab", "Ab"}, map[string]string{"accept": "1", "Accept": "2", "ACCEPT": "3"},
		[3]string{"x", "y", "z"}, [4]int{4, 3, 2, 1}, [0]int{}, []byte("héllo"), []uint8{3, 1, 2},
		sort.IntSlice{3, 1, 2}, sort.StringSlice{"b", "c", "a"}, byLen{"ccc", "a", "bbbb", "dd"}, sort.Float64Slice{2.5, -1, 0},
		[]*pongo2.Value{pongo2.AsValue(3), pongo2.AsValue(1), pongo2.AsValue(2)}, []*pongo2.Value{pongo2.AsValue("b"), pongo2.AsSafeValue("a")},
		ptrStringer{text: mark}, &ptrStringer{text: mark}, []ptrStringer{{text: mark}, {text: "y"}}, []*ptrStringer{{text: mark}},
		&psHolder{One: ptrStringer{text: mark}, Many: []ptrStringer{{text: mark}}}, psHolder{One: ptrStringer{text: mark}},
		map[string]ptrStringer{"k": {text: mark}}, [2]ptrStringer{{text: mark}, {text: "z"}},
		[]SString{"a", "b"}, []SInt{2, 1}, map[SString]SInt{"k": 1}, &[]SString{"q"}[0], []NStr{"n2", "n1"}, []NInt{2, 1},
		tm, &tm, (*time.Time)(nil), fmt.Errorf("an error"), []any{nil, (*VS1)(nil), []int(nil)}, map[string]any{"n": nil, "p": (*int)(nil)},
		float32(0.1), []float32{2.5, 1.5}, int8(-128), []bool{true, false}, struct{ A, b int }{1, 2},
	}
	all := append(append([]any{}, goVals...), extra...)
	fail := func(sig, what string, x any, got, want string) {
		res.add(Finding{Kind: "oracle", Proj: "valapi", Sig: sig, Case: fmt.Sprintf("%s on %T %.200v", what, x, x), Impl: got, Model: want})
	}
	for _, x := range all {
		x := x
		func() {
			defer func() {
				if p := recover(); p != nil {
					fail("values-panic", "the Value API", x, fmt.Sprint("panic: ", p), "no panic")
				}
			}()
			res.Cases++
			v := pongo2.AsValue(x)
			k := resolvedKind(x)
			res.hist("law:" + k.String())
			isInt := k >= reflect.Int && k <= reflect.Int64 || k >= reflect.Uint && k <= reflect.Uint64
			isFloat := k == reflect.Float32 || k == reflect.Float64
			want := b01s(k == reflect.String, k == reflect.Bool, isFloat, isInt, isInt || isFloat)
			if got := b01s(v.IsString(), v.IsBool(), v.IsFloat(), v.IsInteger(), v.IsNumber()); got != want {
				fail("values-kind-law", "IsString IsBool IsFloat IsInteger IsNumber", x, got, want+" (resolved kind "+k.String()+")")
			}
			if v.IsNumber() != (v.IsInteger() || v.IsFloat()) {
				fail("values-number-law", "IsNumber = IsInteger or IsFloat", x, b01s(v.IsNumber(), v.IsInteger(), v.IsFloat()), "consistent")
			}
			// a fmt.Stringer prints as its String()
			if st, ok := x.(fmt.Stringer); ok && !(reflect.ValueOf(x).Kind() == reflect.Ptr && reflect.ValueOf(x).IsNil()) {
				if _, isVal := x.(*pongo2.Value); !isVal {
					if got := v.String(); got != st.String() {
						fail("values-stringer-law", "String() of a fmt.Stringer", x, got, st.String())
					}
				}
			}
			// Interface() gives the value back, type and all
			if x != nil {
				if got, want := reflect.TypeOf(v.Interface()), reflect.TypeOf(x); got != want {
					fail("values-interface-law", "type of Interface()", x, fmt.Sprint(got), fmt.Sprint(want))
				}
			}
			rv := reflect.ValueOf(x)
			if rv.IsValid() && rv.Kind() == reflect.Ptr && !rv.IsNil() {
				rv = rv.Elem()
			}
			if !rv.IsValid() {
				return
			}
			snapshot := func() string {
				if vs, ok := x.([]*pongo2.Value); ok {
					var parts []string
					for _, e := range vs {
						parts = append(parts, fmt.Sprintf("%p=%s", e, e.String()))
					}
					return strings.Join(parts, ",")
				}
				return fmt.Sprintf("%#v", x)
			}
			switch rv.Kind() {
			case reflect.Slice, reflect.Array, reflect.Map, reflect.String:
				before := snapshot()
				for _, ord := range [][2]bool{{false, false}, {true, false}, {false, true}, {true, true}} {
					var keys, vals []*pongo2.Value
					v.IterateOrder(func(idx, count int, key, value *pongo2.Value) bool {
						keys = append(keys, key)
						vals = append(vals, value)
						return true
					}, func() {}, ord[0], ord[1])
					if after := snapshot(); after != before {
						fail("values-iteration-mutates", fmt.Sprintf("IterateOrder(reverse=%v, sorted=%v)", ord[0], ord[1]), x, after, "the iterated value is unchanged: "+before)
						break
					}
					if !ord[1] {
						continue
					}
					// sorted: exact order of the items (slices) or keys (maps)
					items := keys
					_ = vals
					ek := rv.Type()
					var elem reflect.Kind
					if rv.Kind() == reflect.Map {
						elem = ek.Key().Kind()
					} else if rv.Kind() == reflect.String {
						continue
					} else {
						elem = ek.Elem().Kind()
					}
					if _, own := x.(sort.Interface); own {
						continue
					}
					less := func(a, b *pongo2.Value) bool { return false }
					switch {
					case elem >= reflect.Int && elem <= reflect.Int64 || elem >= reflect.Uint && elem <= reflect.Uint64:
						bi := func(a *pongo2.Value) *big.Int {
							r := reflect.ValueOf(a.Interface())
							if r.CanInt() {
								return big.NewInt(r.Int())
							}
							return new(big.Int).SetUint64(r.Uint())
						}
						less = func(a, b *pongo2.Value) bool { return bi(a).Cmp(bi(b)) < 0 }
					case elem == reflect.String:
						if rv.Kind() != reflect.Map && ek.Elem().Implements(reflect.TypeOf((*fmt.Stringer)(nil)).Elem()) || rv.Kind() == reflect.Map && ek.Key().Implements(reflect.TypeOf((*fmt.Stringer)(nil)).Elem()) {
							continue
						}
						less = func(a, b *pongo2.Value) bool { return reflect.ValueOf(a.Interface()).String() < reflect.ValueOf(b.Interface()).String() }
					default:
						continue
					}
					for i := 1; i < len(items); i++ {
						wrong := less(items[i], items[i-1])
						if ord[0] {
							wrong = less(items[i-1], items[i])
						}
						if wrong {
							fail("values-sorted-order", fmt.Sprintf("IterateOrder(reverse=%v, sorted=true)", ord[0]), x,
								fmt.Sprintf("item %d (%s) after item %d (%s)", i, items[i].String(), i-1, items[i-1].String()), "exact ascending (descending) order")
							break
						}
					}
				}
			}
			// a value prints the same however it is reached
			switch rv.Kind() {
			case reflect.Slice, reflect.Array:
				for i := 0; i < rv.Len() && i < 4; i++ {
					if !rv.Index(i).CanInterface() {
						continue
					}
					direct := pongo2.AsValue(rv.Index(i).Interface())
					if _, isVal := rv.Index(i).Interface().(*pongo2.Value); isVal {
						continue
					}
					if got, want := v.Index(i).String(), direct.String(); got != want {
						fail("values-reach-law", fmt.Sprintf("Index(%d).String()", i), x, got, want+" (the item handed over directly)")
					}
				}
				if rv.Kind() == reflect.Array || rv.Kind() == reflect.Slice {
					n := rv.Len()
					for i := 0; i <= n; i++ {
						for j := i; j <= n; j++ {
							sl := v.Slice(i, j)
							if sl.Len() != j-i {
								fail("values-slice-law", fmt.Sprintf("Slice(%d,%d).Len()", i, j), x, fmt.Sprint(sl.Len()), fmt.Sprint(j-i))
								continue
							}
							for k := 0; k < j-i; k++ {
								if got, want := sl.Index(k).String(), v.Index(i+k).String(); got != want {
									fail("values-slice-law", fmt.Sprintf("Slice(%d,%d).Index(%d)", i, j, k), x, got, want)
								}
							}
						}
					}
				}
			}
		}()
	}
	// struct fields reached through a pointer (addressable) print as the field handed over directly
	h := &psHolder{One: ptrStringer{text: mark}, Many: []ptrStringer{{text: mark}}}
	for _, c := range []struct {
		src    string
		direct any
	}{{"{{ h.One }}", h.One}, {"{{ h.Many.0 }}", h.Many[0]}, {"{% for m in h.Many %}{{ m }}{% endfor %}", h.Many[0]}, {"{{ h.Many|first }}", h.Many[0]}} {
		res.Cases++
		a := implRender("{% autoescape off %}"+c.src+"{% endautoescape %}", pongo2.Context{"h": h})
		b := implRender("{% autoescape off %}{{ d }}{% endautoescape %}", pongo2.Context{"d": c.direct})
		if a.String() != b.String() {
			fail("values-reach-law", c.src, h, a.String(), b.String()+" (the value handed over directly)")
		}
	}
}

package main

import (
	"fmt"
	"regexp"
	"sort"
	"time"
)

func init() { suites["c01-errhist"] = suiteC01ErrHist }

// suiteC01ErrHist prints why generated C01 programs fail to compile (generator tuning aid).
func suiteC01ErrHist(cfg Config, res *Result) {
	cases := c01Cases("prog", cfg.Seed, 4000)
	if cfg.Replay == "expr" {
		g := &c01Gen{r: NewRNG(cfg.Seed), filters: []string{"upper", "add", "default"}}
		cases = nil
		for i := 0; i < 3000; i++ {
			cases = append(cases, c01Case{Src: "{{ " + g.expr(1) + " }}", Ctx: "nil"})
		}
	}
	h := map[string]int{}
	ex := map[string]string{}
	re := regexp.MustCompile(`Line \d+ Col \d+[^\]]*\] `)
	for _, c := range cases {
		cl, msg := c01Run(c, 5*time.Second)
		if cl != "compile" {
			continue
		}
		m := re.ReplaceAllString(msg, "")
		if len(m) > 90 {
			m = m[:90]
		}
		h[m]++
		if old, ok := ex[m]; !ok || len(c.Src) < len(old) {
			ex[m] = c.Src
		}
	}
	keys := make([]string, 0, len(h))
	for k := range h {
		keys = append(keys, k)
	}
	sort.Slice(keys, func(i, j int) bool { return h[keys[i]] > h[keys[j]] })
	for i, k := range keys {
		if i > 25 {
			break
		}
		e := ex[k]
		if len(e) > 160 {
			e = e[:160]
		}
		fmt.Printf("%5d %s\n        %q\n", h[k], k, e)
	}
}

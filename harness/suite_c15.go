package main

import (
	"fmt"
	"strings"

	pongo2 "github.com/flosch/pongo2/v6"
)

func init() {
	suites["c15-ws"] = suiteC15
	suites["c15-spaceless"] = suiteC15Spaceless
}

// a document = literal texts interleaved with constructs; every construct has
// an opening and (for blocks) inner texts, each delimiter possibly with a '-'
type wsPiece struct {
	text string // literal text (if construct == "")
	// construct: one delimiter pair
	open, body, close string // e.g. "{%", " if 1 ", "%}"
	dashL, dashR      bool
	isBlock           bool
}

func wsRun(r *RNG) string {
	n := r.Intn(4)
	var sb strings.Builder
	for i := 0; i < n; i++ {
		if r.Chance(1, 12) {
			// not whitespace to the engine (its set is space, tab, CR, LF): these stay, whatever is trimmed around them
			sb.WriteString(r.Pick([]string{"\f", "\v", "\u00a0", "\u2003", "\u0085", " \f ", "\n\u00a0\n"}))
			continue
		}
		sb.WriteString(r.Pick([]string{" ", "\n", "\t", "\r", "  ", "\n\n", " \n", "\n "}))
	}
	return sb.String()
}

func suiteC15(cfg Config, res *Result) {
	defer c15DashDigit(res)
	defer optionSteps(res, "whitespace", "c15-options-after-compile")
	defer c15InheritedTrim(res)
	defer recursiveMacroNodes(res, "whitespace", "c15-recursive-spaceless", "spaceless")
	res.Rule = "generated documents whose literal text carries random runs of space / tab / CR / LF around random constructs ({{ }}, if/else/endif, for/endfor, with, set, comment tags), with every subset of the '-' positions per construct, under all four TrimBlocks x LStripBlocks settings, and one compiled template executed under all four settings in turn; metamorphic oracle: the output equals the output of the hand-stripped source (whitespace named by '-' / TrimBlocks / LStripBlocks deleted from the text, markers removed, options off); also compared with the Lean model; non-trivial = document with >= 1 '-' or an option on; distinct by (document, options)"
	n := 5000
	if cfg.Thorough() {
		n = 100000
	}
	rng := NewRNG(cfg.Seed)
	var cases []ProgCase
	wants := map[string]string{}
	nontriv := map[string]bool{}
	for i := 0; i < n; i++ {
		// token stream of the document: alternating text and delimiters-with-content
		type tok struct {
			text         string
			isTag        bool // {% %}
			isVar        bool // {{ }}
			isComment    bool // {# #}: emits nothing, but separates the text before it from the text behind it
			inner        string
			dashL, dashR bool
		}
		var toks []tok
		addText := func() {
			toks = append(toks, tok{text: wsRun(rng) + rng.Pick([]string{"", "a", "b c", "<p>", "x"}) + wsRun(rng)})
		}
		addTag := func(inner string) {
			toks = append(toks, tok{isTag: true, inner: inner, dashL: rng.Chance(1, 4), dashR: rng.Chance(1, 4)})
		}
		addVar := func(inner string) {
			toks = append(toks, tok{isVar: true, inner: inner, dashL: rng.Chance(1, 4), dashR: rng.Chance(1, 4)})
		}
		var gen func(d int)
		gen = func(d int) {
			k := 1 + rng.Intn(3)
			for j := 0; j < k; j++ {
				addText()
				if rng.Chance(1, 5) {
					// a comment in the middle of literal text: a '-' or an option reaches the text next
					// to the delimiter only, not the text on the far side of the comment
					toks = append(toks, tok{isComment: true, inner: rng.Pick([]string{" note ", "", "-", " x -"})})
					addText()
				}
				switch x := rng.Intn(7); {
				case x == 0 && d > 0:
					addTag("if t")
					gen(d - 1)
					if rng.Bool() {
						addTag("else")
						gen(d - 1)
					}
					addTag("endif")
				case x == 1 && d > 0:
					addTag("for q in two")
					gen(d - 1)
					addTag("endfor")
				case x == 2 && d > 0:
					addTag("with w=1")
					gen(d - 1)
					addTag("endwith")
				case x == 3:
					addTag("set z = 1")
				case x == 4:
					addTag("comment")
					addText()
					addTag("endcomment")
				default:
					addVar(rng.Pick([]string{"v", "1", `"s"`}))
				}
			}
			addText()
		}
		gen(2)
		trim, lstrip := rng.Bool(), rng.Bool()
		// marked source
		var src strings.Builder
		for _, t := range toks {
			switch {
			case t.isComment:
				src.WriteString("{#" + t.inner + "#}")
			case t.isTag, t.isVar:
				o, c := "{%", "%}"
				if t.isVar {
					o, c = "{{", "}}"
				}
				if t.dashL {
					o += "-"
				}
				if t.dashR {
					c = "-" + c
				}
				src.WriteString(o + " " + t.inner + " " + c)
			default:
				src.WriteString(t.text)
			}
		}
		// hand-stripped source: delete the named whitespace from the texts, drop the markers
		const wsAll = " \n\r\t"
		texts := make([]string, len(toks))
		for j, t := range toks {
			texts[j] = t.text
		}
		// merge adjacent text tokens first (the lexer sees one HTML token)
		type seg struct {
			text   string
			isText bool
			j      int
		}
		var segs []seg
		for j, t := range toks {
			if !t.isTag && !t.isVar && !t.isComment {
				if t.text == "" {
					continue // empty text is no token at all
				}
				if len(segs) > 0 && segs[len(segs)-1].isText {
					segs[len(segs)-1].text += t.text
				} else {
					segs = append(segs, seg{text: t.text, isText: true})
				}
			} else {
				segs = append(segs, seg{j: j})
			}
		}
		// the stripped source under one option setting
		mkStripped := func(trim, lstrip bool) (string, bool) {
			out := make([]string, len(segs))
			for k := range segs {
				if !segs[k].isText {
					continue
				}
				txt := segs[k].text
				// the neighbours are the neighbouring *tokens*: a comment leaves no token, so the text
				// behind `-}}{# c #}` is still next to the delimiter, while of two texts separated by a
				// comment only the one on the delimiter's side is
				var prev, next *tok
				pk := k - 1
				for pk >= 0 && !segs[pk].isText && toks[segs[pk].j].isComment {
					pk--
				}
				if pk >= 0 && !segs[pk].isText {
					prev = &toks[segs[pk].j]
				}
				nk := k + 1
				for nk < len(segs) && !segs[nk].isText && toks[segs[nk].j].isComment {
					nk++
				}
				if nk < len(segs) && !segs[nk].isText {
					next = &toks[segs[nk].j]
				}
				// options first (as the implementation does), then the '-' markers
				if trim && prev != nil && prev.isTag && strings.HasPrefix(txt, "\n") {
					txt = txt[1:]
				}
				if lstrip && next != nil && next.isTag {
					txt = strings.TrimRight(txt, "\t ")
				}
				if prev != nil && prev.dashR {
					txt = strings.TrimLeft(txt, wsAll)
				}
				if next != nil && next.dashL {
					txt = strings.TrimRight(txt, wsAll)
				}
				out[k] = txt
			}
			var stripped strings.Builder
			marked := trim || lstrip
			for k, s := range segs {
				if s.isText {
					stripped.WriteString(out[k])
					continue
				}
				t := toks[s.j]
				if t.isComment {
					stripped.WriteString("{#" + t.inner + "#}")
					continue
				}
				if t.dashL || t.dashR {
					marked = true
				}
				o, c := "{%", "%}"
				if t.isVar {
					o, c = "{{", "}}"
				}
				stripped.WriteString(o + " " + t.inner + " " + c)
			}
			return stripped.String(), marked
		}
		strippedSrc, marked := mkStripped(trim, lstrip)
		var stripped strings.Builder
		stripped.WriteString(strippedSrc)
		ct := CtxTerm{Names: []string{"t", "two", "v"}, Vals: []VT{vBool(true), vList("int", vInt(1), vInt(2)), vStr("V")}}
		ref := ProgCase{Src: stripped.String(), Ctx: &ct}
		ro := ref.RunImpl()
		pc := ProgCase{Src: src.String(), Ctx: &ct, Trim: trim, LStrip: lstrip, Label: fmt.Sprintf("trim=%v,lstrip=%v", trim, lstrip)}
		cases = append(cases, pc)
		if ro.Class == "ok" {
			wants[pc.Key()] = ro.Out
		}
		nontriv[pc.Key()] = marked
		// the same document reaching the set by its other routes: the options apply alike
		if i%5 == 1 && ro.Class == "ok" {
			for _, route := range []string{"cache-miss+hit", "cache, options set afterwards", "file", "bytes", "set options changed after loading"} {
				rset := pongo2.NewSet("c15r", &memLoader{files: map[string]string{"doc.tpl": src.String()}, id: "0"})
				opt := &pongo2.Options{TrimBlocks: trim, LStripBlocks: lstrip}
				var tpls []*pongo2.Template
				var err error
				var t1, t2 *pongo2.Template
				switch route {
				case "cache-miss+hit":
					rset.Options = opt
					t1, err = rset.FromCache("doc.tpl")
					t2, _ = rset.FromCache("doc.tpl")
					tpls = []*pongo2.Template{t1, t2}
				case "cache, options set afterwards":
					t1, err = rset.FromCache("doc.tpl")
					if err == nil {
						t1.Options.TrimBlocks, t1.Options.LStripBlocks = trim, lstrip
					}
					tpls = []*pongo2.Template{t1}
				case "file":
					rset.Options = opt
					t1, err = rset.FromFile("doc.tpl")
					tpls = []*pongo2.Template{t1}
				case "bytes":
					rset.Options = opt
					t1, err = rset.FromBytes([]byte(src.String()))
					tpls = []*pongo2.Template{t1}
				default:
					// a template keeps the options it was compiled with: here none
					t1, err = rset.FromCache("doc.tpl")
					rset.Options = opt
					tpls = []*pongo2.Template{t1}
				}
				if err != nil {
					continue
				}
				want := ro.Out
				if route == "set options changed after loading" {
					ss, _ := mkStripped(false, false)
					w := (ProgCase{Src: ss, Ctx: &ct}).RunImpl()
					if w.Class != "ok" {
						continue
					}
					want = w.Out
				}
				for _, tpl := range tpls {
					res.Cases++
					if got := execOnce(tpl, ct.Go()); got.err != "" || got.pan != "" || got.out != want {
						res.add(Finding{Kind: "oracle", Proj: "whitespace", Sig: "c15-route-" + strings.Fields(route)[0], Case: fmt.Sprintf("src=%q trim=%v lstrip=%v via %s", src.String(), trim, lstrip, route), Impl: got.String(), Model: "hand-stripped source renders ok " + hxb(want)})
						break
					}
				}
			}
		}
		// one compiled template executed under all four settings in turn: the options in force at
		// each execution decide, not the ones of an earlier execution
		if i%5 == 0 {
			set, _ := pc.buildSet()
			if tpl, err := pc.compile(set); err == nil {
				// a sibling compiled from the same set keeps the options it was compiled with
				sib, _ := pc.compile(set)
				sibWant := (ProgCase{Src: strippedSrc, Ctx: &ct}).RunImpl()
				order := [][2]bool{{false, false}, {true, false}, {false, true}, {true, true}}
				for a := len(order) - 1; a > 0; a-- {
					b := rng.Intn(a + 1)
					order[a], order[b] = order[b], order[a]
				}
				for _, o := range order {
					tpl.Options.TrimBlocks, tpl.Options.LStripBlocks = o[0], o[1]
					got := execOnce(tpl, ct.Go())
					ss, _ := mkStripped(o[0], o[1])
					want := (ProgCase{Src: ss, Ctx: &ct}).RunImpl()
					if want.Class != "ok" {
						break
					}
					if sib != nil && sibWant.Class == "ok" {
						if gs := execOnce(sib, ct.Go()); gs.err != "" || gs.pan != "" || gs.out != sibWant.Out {
							res.add(Finding{Kind: "oracle", Proj: "whitespace", Sig: "c15-options-of-another-template", Case: fmt.Sprintf("src=%q compiled twice in one set (options trim=%v lstrip=%v); the other template's options set to trim=%v lstrip=%v", src.String(), trim, lstrip, o[0], o[1]), Impl: gs.String(), Model: "hand-stripped source renders ok " + hxb(sibWant.Out)})
							break
						}
					}
					if got.err != "" || got.pan != "" || got.out != want.Out {
						res.add(Finding{Kind: "oracle", Proj: "whitespace", Sig: "c15-options-of-an-earlier-execution", Case: fmt.Sprintf("src=%q executed under %v in turn, now trim=%v lstrip=%v", src.String(), order, o[0], o[1]), Impl: got.String(), Model: "hand-stripped source renders ok " + hxb(want.Out)})
						break
					}
				}
			}
		}
	}
	runProgCases(cfg, res, cases, "c15", func(c ProgCase, o ImplOutcome) bool { return nontriv[c.Key()] },
		func(c ProgCase, o ImplOutcome) *Finding {
			want, ok := wants[c.Key()]
			if !ok {
				return nil
			}
			if o.Class != "ok" || o.Out != want {
				return &Finding{Kind: "oracle", Proj: "whitespace", Sig: "c15-not-the-hand-stripped-source", Case: c.String(), Impl: o.Canon() + " " + o.Msg, Model: "hand-stripped source renders: ok " + hxb(want)}
			}
			return nil
		})
}

func isWsByte(c byte) bool {
	return c == '\t' || c == '\n' || c == '\v' || c == '\f' || c == '\r' || c == ' '
}

func suiteC15Spaceless(cfg Config, res *Result) {
	res.Rule = "random soups of HTML tags (also with newlines, attributes, '>' '<' adjacency, unclosed '<'), text and runs of the six whitespace bytes inside {% spaceless %}, also nested; oracles: the output is the body with only whitespace bytes deleted (same non-whitespace bytes in order); every deleted run lay between a '>' and a '<'; applying spaceless to the output changes nothing; no whitespace run between two tags that the pattern matches survives; also compared with the Lean matcher; non-trivial = body with >= 2 tags; distinct by body"
	n := 4000
	if cfg.Thorough() {
		n = 80000
	}
	rng := NewRNG(cfg.Seed)
	atoms := []string{"<a>", "</a>", "<b c='d'>", "<br/>", "<i\n>", "<", ">", "text", "x", " ", "\n", "\t", "  ", "\r\n", "\v", "\f", "<p>", "</p>", "<>", "a>b", "<c", "d>", " \n ", "{{ g|safe }}", "{{ h|safe }}"}
	var cases []ProgCase
	bodies := map[string]string{}
	for i := 0; i < n; i++ {
		k := 1 + rng.Intn(9)
		var sb strings.Builder
		for j := 0; j < k; j++ {
			sb.WriteString(rng.Pick(atoms))
		}
		body := sb.String()
		src := "{% spaceless %}" + body + "{% endspaceless %}"
		if rng.Chance(1, 8) {
			src = "{% spaceless %}<z> {% spaceless %}" + body + "{% endspaceless %} <y>{% endspaceless %}"
			body = ""
		}
		ct := CtxTerm{Names: []string{"g", "h"}, Vals: []VT{vStr("<g> "), vStr(" \n<h>")}}
		pc := ProgCase{Src: src, Label: "spaceless", Ctx: &ct}
		cases = append(cases, pc)
		if body != "" {
			body = strings.NewReplacer("{{ g|safe }}", "<g> ", "{{ h|safe }}", " \n<h>").Replace(body)
		}
		bodies[pc.Key()] = body
	}
	runProgCases(cfg, res, cases, "c15s", func(c ProgCase, o ImplOutcome) bool { return strings.Count(c.Src, "<") >= 2 },
		func(c ProgCase, o ImplOutcome) *Finding {
			body := bodies[c.Key()]
			if body == "" || o.Class != "ok" {
				return nil
			}
			mk := func(sig, why string) *Finding {
				return &Finding{Kind: "oracle", Proj: "whitespace", Sig: sig, Case: c.String(), Impl: o.Canon(), Model: why}
			}
			// only whitespace deleted, and only between '>' and '<'
			i, j := 0, 0
			out := o.Out
			for i < len(body) {
				if j < len(out) && body[i] == out[j] {
					i++
					j++
					continue
				}
				st := i
				for i < len(body) && !(j < len(out) && body[i] == out[j]) {
					if !isWsByte(body[i]) {
						return mk("c15-spaceless-deleted-non-whitespace", "only whitespace may be deleted")
					}
					i++
				}
				if st == 0 || body[st-1] != '>' || i >= len(body) || body[i] != '<' {
					return mk("c15-spaceless-deleted-outside-tags", "a deleted whitespace run must lie between a '>' and a '<'")
				}
			}
			if j != len(out) {
				return mk("c15-spaceless-added-bytes", "nothing may be added")
			}
			if want := spacelessByHand(body); want != out {
				return mk("c15-spaceless-not-the-hand-stripped-body", "hand-stripped body: "+hxb(want))
			}
			again := ProgCase{Src: "{% spaceless %}" + strings.NewReplacer("{", "{ ").Replace(out) + "{% endspaceless %}"}
			if !strings.Contains(out, "{") {
				ro := again.RunImpl()
				if ro.Class == "ok" && ro.Out != out {
					return mk("c15-spaceless-not-a-fixpoint", "applying spaceless to the output must change nothing")
				}
			}
			return nil
		})
}

// spacelessByHand deletes every maximal whitespace run that lies between two
// HTML tags: directly after a '>' that closes a '<' on the same line and
// directly before a '<' that is closed by a '>' on the same line.
func spacelessByHand(body string) string {
	var sb strings.Builder
	i := 0
	for i < len(body) {
		if !isWsByte(body[i]) || i == 0 || body[i-1] != '>' {
			sb.WriteByte(body[i])
			i++
			continue
		}
		e := i
		for e < len(body) && isWsByte(body[e]) {
			e++
		}
		del := false
		if e < len(body) && body[e] == '<' {
			opened := false
			for k := i - 2; k >= 0 && body[k] != '\n'; k-- {
				if body[k] == '<' {
					opened = true
					break
				}
			}
			closed := false
			for m := e + 1; m < len(body); m++ {
				if body[m] == '>' {
					closed = true
					break
				}
				if body[m] == '\n' {
					break
				}
			}
			del = opened && closed
		}
		if !del {
			sb.WriteString(body[i:e])
		}
		i = e
	}
	return sb.String()
}

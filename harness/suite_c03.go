package main

import (
	"fmt"
	"os"
	"strings"
	"sync/atomic"

	pongo2 "github.com/flosch/pongo2/v6"
)

func init() {
	suites["c03-routes"] = suiteC03Routes
	suites["c03-hist"] = suiteC03Hist
	// probes: a filter and a tag that count how often their code runs
	pongo2.RegisterFilter("verifprobe", func(in *pongo2.Value, param *pongo2.Value) (*pongo2.Value, *pongo2.Error) {
		atomic.AddInt64(&probeFilterRuns, 1)
		return in, nil
	})
	pongo2.RegisterTag("verifprobetag", func(doc *pongo2.Parser, start *pongo2.Token, arguments *pongo2.Parser) (pongo2.INodeTag, *pongo2.Error) {
		atomic.AddInt64(&probeTagParses, 1)
		return &probeNode{}, nil
	})
	// a tag and a filter that share one name: the two deny lists are separate
	pongo2.RegisterFilter("veriftwin", func(in *pongo2.Value, param *pongo2.Value) (*pongo2.Value, *pongo2.Error) {
		return pongo2.AsValue("twin-filter:" + in.String()), nil
	})
	pongo2.RegisterTag("veriftwin", func(doc *pongo2.Parser, start *pongo2.Token, arguments *pongo2.Parser) (pongo2.INodeTag, *pongo2.Error) {
		return &twinNode{}, nil
	})
}

type twinNode struct{}

func (n *twinNode) Execute(ctx *pongo2.ExecutionContext, w pongo2.TemplateWriter) *pongo2.Error {
	w.WriteString("twin-tag")
	return nil
}

// c03Twins: banning a tag says nothing about the filter of the same name, and the other way round
func c03Twins(res *Result) {
	type use struct{ src, want string }
	tagUse := use{"{% veriftwin %}", "twin-tag"}
	filterUses := []use{{"{{ \"x\"|veriftwin }}", "twin-filter:x"}, {"{% filter veriftwin %}y{% endfilter %}", "twin-filter:y"}, {"{% if \"x\"|veriftwin %}z{% endif %}", "z"}}
	for _, mode := range []string{"tag", "filter", "filter-then-tag", "tag-then-filter"} {
		set := pongo2.NewSet("twins", &memLoader{files: map[string]string{}})
		var errs []error
		switch mode {
		case "tag":
			errs = append(errs, set.BanTag("veriftwin"))
		case "filter":
			errs = append(errs, set.BanFilter("veriftwin"))
		case "filter-then-tag":
			errs = append(errs, set.BanFilter("veriftwin"), set.BanTag("veriftwin"))
		default:
			errs = append(errs, set.BanTag("veriftwin"), set.BanFilter("veriftwin"))
		}
		res.Cases++
		res.DistinctNontrivial++
		for _, e := range errs {
			if e != nil {
				res.add(Finding{Kind: "oracle", Proj: "ban", Sig: "c03-twin-ban-refused", Case: "bans: " + mode, Impl: e.Error(), Model: "a tag and a filter of one name are banned independently"})
			}
		}
		tagBanned := mode != "filter"
		filterBanned := mode != "tag"
		check := func(u use, banned bool, what string) {
			tpl, err := set.FromString(u.src)
			if banned {
				if err == nil {
					res.add(Finding{Kind: "oracle", Proj: "ban", Sig: "c03-banned-name-used", Case: u.src + " after bans: " + mode, Impl: "compiled", Model: "the banned " + what + " is rejected"})
				}
				return
			}
			got := "compile: "
			if err == nil {
				got = execOnce(tpl, nil).String()
			} else {
				got += err.Error()
			}
			if got != "ok "+hxb(u.want) {
				res.add(Finding{Kind: "oracle", Proj: "ban", Sig: "c03-unbanned-name-rejected", Case: u.src + " after bans: " + mode, Impl: got, Model: "the " + what + " was never banned: ok " + hxb(u.want)})
			}
		}
		check(tagUse, tagBanned, "tag")
		for _, u := range filterUses {
			check(u, filterBanned, "filter")
		}
	}
}

var probeFilterRuns, probeTagParses, probeTagRuns int64

type probeNode struct{}

func (n *probeNode) Execute(ctx *pongo2.ExecutionContext, w pongo2.TemplateWriter) *pongo2.Error {
	atomic.AddInt64(&probeTagRuns, 1)
	return nil
}

// where a filtered expression can be written
var filterRoutes = []string{
	"{{ v|F }}",
	"{{ (v)|F }}", "{% if (v)|F %}a{% endif %}", "{{ 1 + (2)|F }}", "{% set zz = (v)|F %}",
	"{% if 1 %}{{ v|F }}{% endif %}",
	"{% for q in l %}{% if q %}{{ v|F }}{% endif %}{% endfor %}",
	"{% if v|F %}x{% endif %}",
	"{% if 0 %}{% elif v|F %}x{% endif %}",
	"{{ l[v|F] }}",
	"{% macro m(a) %}{{ a }}{% endmacro %}{{ m(v|F) }}",
	"{% macro m(a=v|F) %}{{ a }}{% endmacro %}{{ m() }}",
	"{% filter F %}x{% endfilter %}",
	"{% filter upper|F %}x{% endfilter %}",
	"{% with a=v|F %}{{ a }}{% endwith %}",
	"{% with v|F as a %}{{ a }}{% endwith %}",
	"{% set a = v|F %}{{ a }}",
	"{% firstof v|F %}",
	"{% for q in l|F %}{{ q }}{% endfor %}",
	"{% cycle v|F 1 %}",
	"{% widthratio v|F 2 3 %}",
	"{% ifequal v|F 1 %}x{% endifequal %}",
	"{% ifnotequal 1 v|F %}x{% endifnotequal %}",
	"{% ifchanged v|F %}x{% endifchanged %}",
	"{% include \"plain.tpl\" with a=v|F %}",
	"{{ 1 + (2 * v|F) }}",
	"{{ [v|F] }}",
	"{% spaceless %}{% autoescape off %}{{ v|F }}{% endautoescape %}{% endspaceless %}",
	"{% block b %}{{ v|F }}{% endblock %}",
	"{% comment %}x{% endcomment %}{{ v|F }}",
}

// how the template using the name is reached: %S = the source using it
type fileRoute struct {
	name  string
	entry string            // entry source (FromString) — contains %S or refers to files
	files map[string]string // %S substituted in values
	lazy  bool              // failure may surface at execution instead of compilation
}

var fileRoutes = []fileRoute{
	{"same", "%S", nil, false},
	{"include", `{% include "inc.tpl" %}`, map[string]string{"inc.tpl": "%S"}, false},
	{"include-nested", `{% include "a.tpl" %}`, map[string]string{"a.tpl": `{% include "inc.tpl" %}`, "inc.tpl": "%S"}, false},
	{"lazy-include", `{% include name %}`, map[string]string{"inc.tpl": "%S"}, true},
	{"extends", `{% extends "base.tpl" %}{% block c %}x{% endblock %}`, map[string]string{"base.tpl": "%S{% block c %}{% endblock %}"}, false},
	{"child-block", `{% extends "base.tpl" %}{% block c %}%S{% endblock %}`, map[string]string{"base.tpl": "{% block c %}{% endblock %}"}, false},
	{"import", `{% import "mac.tpl" mm %}{{ mm() }}`, map[string]string{"mac.tpl": "{% macro mm() export %}%S{% endmacro %}"}, false},
	{"ssi-parsed", `{% ssi "inc.tpl" parsed %}`, map[string]string{"inc.tpl": "%S"}, false},
}

var c03ctx = pongo2.Context{"v": "val", "l": []int{0, 1}, "name": "inc.tpl"}

// minimal valid uses of the built-in tags
var tagSnippets = map[string]string{
	"autoescape": "{% autoescape off %}x{% endautoescape %}", "block": "{% block zz %}x{% endblock %}", "comment": "{% comment %}x{% endcomment %}",
	"cycle": "{% cycle 1 2 %}", "extends": "", "filter": "{% filter upper %}x{% endfilter %}", "firstof": "{% firstof 1 %}",
	"for": "{% for q in l %}x{% endfor %}", "if": "{% if 1 %}x{% endif %}", "ifchanged": "{% ifchanged %}x{% endifchanged %}",
	"ifequal": "{% ifequal 1 1 %}x{% endifequal %}", "ifnotequal": "{% ifnotequal 1 2 %}x{% endifnotequal %}",
	"import": "", "include": `{% include "plain.tpl" %}`, "lorem": "{% lorem 2 w %}", "macro": "{% macro zz() %}x{% endmacro %}",
	"now": `{% now "2006" fake %}`, "set": "{% set zz = 1 %}", "spaceless": "{% spaceless %}x{% endspaceless %}", "ssi": `{% ssi "plain.tpl" parsed %}`,
	"templatetag": "{% templatetag openbrace %}", "widthratio": "{% widthratio 1 2 3 %}", "with": "{% with zz=1 %}x{% endwith %}",
	"verifprobetag": "{% verifprobetag %}",
}

var tagNestings = []string{"%S", "{% if 1 %}%S{% endif %}", "{% for q in l %}%S{% endfor %}", "{% with a=1 %}{% spaceless %}%S{% endspaceless %}{% endwith %}",
	"{% macro mz() %}%S{% endmacro %}{{ mz() }}", "{% filter upper %}%S{% endfilter %}", "{% autoescape off %}{% ifchanged %}%S{% endifchanged %}{% endautoescape %}",
	"{% if 0 %}{% else %}%S{% endif %}", "{% for q in e %}{% empty %}%S{% endfor %}"}

type c03case struct {
	kind, name, use, route string
	entry                  string
	files                  map[string]string
	lazy                   bool
	diskName               string // lazy include of a disk-backed case: the name bound in the context
}

func (c c03case) run(ban bool) (compileErr, execErr error, out string, fetches int, panicked string) {
	defer func() {
		if p := recover(); p != nil {
			panicked = fmt.Sprint(p)
		}
	}()
	ml := &memLoader{files: c.files, id: "0"}
	set := pongo2.NewSet("c03", ml)
	if ban {
		var err error
		if c.kind == "filter" {
			err = set.BanFilter(c.name)
		} else {
			err = set.BanTag(c.name)
		}
		if err != nil {
			panicked = "ban refused: " + err.Error()
			return
		}
	}
	tpl, err := set.FromString(c.entry)
	fetches = len(ml.log)
	if err != nil {
		compileErr = err
		return
	}
	ctx := c03ctx
	if c.diskName != "" {
		ctx = pongo2.Context{"v": "val", "l": []int{0, 1}, "name": c.diskName}
	}
	out, execErr = tpl.Execute(ctx)
	fetches = len(ml.log)
	return
}

func suiteC03Routes(cfg Config, res *Result) {
	defer bytesBelongToCaller(res, "ban", "c03-bytes-owner")
	defer c03Replace(res)
	defer c03Twins(res)
	res.Rule = "every registered filter and tag (from the VerifRegistered* hooks, plus a probe filter and a probe tag that count their invocations) as ban target x syntactic routes (26 expression positions / 9 nestings) x file-composition routes (same file, include, nested include, lazy include, extends parent, child block, imported macro, ssi parsed; for the probes also with the files present on the real file system under absolute names, so that a sub-template compiled outside its set would be found); oracle: with the ban the use fails to compile (lazy include: to execute), the probes never run, an include of a banned 'include' fetches nothing; without the ban, in another set, the same source works through every route it works in when written directly; a source not using the name renders the same with and without the ban; non-trivial = all; distinct by (target, route)"
	filters := pongo2.VerifRegisteredFilters()
	tags := pongo2.VerifRegisteredTags()
	var cases []c03case
	mk := func(kind, name, use, rname string, fr fileRoute) c03case {
		files := map[string]string{"plain.tpl": "p"}
		for k, v := range fr.files {
			files[k] = strings.ReplaceAll(v, "%S", use)
		}
		return c03case{kind: kind, name: name, use: use, route: rname + "/" + fr.name, entry: strings.ReplaceAll(fr.entry, "%S", use), files: files, lazy: fr.lazy}
	}
	quick := !cfg.Thorough()
	for fi, f := range filters {
		for ri, r := range filterRoutes {
			use := strings.ReplaceAll(r, "F", f)
			if strings.Contains(r, "filter F") || strings.Contains(r, "|F %}x{% endfilter") {
				use = strings.ReplaceAll(strings.ReplaceAll(r, "filter F", "filter "+f), "upper|F", "upper|"+f)
			}
			for gi, fr := range fileRoutes {
				if quick && f != "verifprobe" && (fi+ri+gi)%5 != int(cfg.Seed)%5 && gi != 0 {
					continue
				}
				if (fr.name == "child-block" || fr.name == "import") && strings.Contains(use, "{% block") {
					continue // a block inside a block / inside an imported macro is not a valid use to begin with
				}
				cases = append(cases, mk("filter", f, use, fmt.Sprintf("expr%d", ri), fr))
			}
		}
	}
	for ti, t := range tags {
		snip, ok := tagSnippets[t]
		if !ok {
			snip = "{% " + t + " %}"
		}
		if snip == "" {
			continue // extends/import are exercised as file routes of other targets
		}
		for ni, nest := range tagNestings {
			use := strings.ReplaceAll(nest, "%S", snip)
			for gi, fr := range fileRoutes {
				if quick && t != "verifprobetag" && (ti+ni+gi)%4 != int(cfg.Seed)%4 && gi != 0 {
					continue
				}
				if (t == "block" || strings.Contains(use, "{% block")) && (fr.name == "child-block" || fr.name == "import" || strings.Contains(nest, "macro")) {
					continue
				}
				cases = append(cases, mk("tag", t, use, fmt.Sprintf("nest%d", ni), fr))
			}
		}
	}
	// the composing tags themselves as ban targets
	for _, t := range []string{"include", "extends", "import", "ssi"} {
		for _, fr := range fileRoutes[1:] {
			if strings.Contains(fr.entry, "{% "+t+" ") {
				cases = append(cases, mk("tag", t, "x", "composer", fr))
			}
		}
	}
	// disk-backed variants: the same files also exist on the real file system under absolute
	// names, so a sub-template compiled outside the set (by the default set's file-system loader)
	// would be found there — and would escape the set's bans
	dir, derr := os.MkdirTemp("", "verif-c03-")
	if derr == nil {
		defer os.RemoveAll(dir)
		var disk []c03case
		for _, c := range cases {
			if strings.HasSuffix(c.route, "/same") || (c.name != "verifprobe" && c.name != "verifprobetag" && c.name != "upper" && c.name != "if") {
				continue
			}
			d := c
			d.route += "+disk"
			d.files = map[string]string{}
			repl := func(x string) string {
				for name := range c.files {
					x = strings.ReplaceAll(x, `"`+name+`"`, `"`+dir+"/"+name+`"`)
				}
				return x
			}
			for name, body := range c.files {
				d.files[dir+"/"+name] = repl(body)
				os.WriteFile(dir+"/"+name, []byte(repl(body)), 0o644)
			}
			d.entry = repl(c.entry)
			d.diskName = dir + "/inc.tpl"
			disk = append(disk, d)
		}
		cases = append(cases, disk...)
	}
	res.Cases = len(cases)
	res.DistinctNontrivial = len(cases)
	sameOK := map[string]bool{}
	for i, c := range cases {
		if i < 3 {
			res.sample(fmt.Sprintf("ban %s %s; %s: %q", c.kind, c.name, c.route, c.entry))
		}
		res.hist(c.kind + ":" + strings.Split(c.route, "/")[1])
		// control: another set without the ban
		cerr, xerr, outFree, _, pan := c.run(false)
		useKey := c.kind + "\x00" + c.name + "\x00" + c.use
		if strings.HasSuffix(c.route, "/same") {
			sameOK[useKey] = pan == "" && cerr == nil && xerr == nil
		}
		if pan != "" || cerr != nil || xerr != nil {
			res.hist("control-invalid")
			if sameOK[useKey] {
				// valid where written directly, broken when reached through this route without any ban:
				// the sub-template is not compiled like the template that names it
				res.add(Finding{Kind: "oracle", Proj: "ban", Sig: "c03-route-broken-without-ban", Case: fmt.Sprintf("no ban; %s %q; route %s; entry %q; files %v", c.kind, c.name, c.route, c.entry, c.files),
					Impl: fmt.Sprint(cerr, xerr, pan), Model: "renders like the same source written directly"})
			}
			continue // the use itself is invalid (e.g. a filter that needs a parameter): not a ban question
		}
		f0, p0, r0 := atomic.LoadInt64(&probeFilterRuns), atomic.LoadInt64(&probeTagParses), atomic.LoadInt64(&probeTagRuns)
		cerr, xerr, out, fetches, pan := c.run(true)
		f1, p1, r1 := atomic.LoadInt64(&probeFilterRuns), atomic.LoadInt64(&probeTagParses), atomic.LoadInt64(&probeTagRuns)
		desc := fmt.Sprintf("ban %s %q; route %s; entry %q; files %v", c.kind, c.name, c.route, c.entry, c.files)
		switch {
		case pan != "":
			res.add(Finding{Kind: "oracle", Proj: "ban", Sig: "c03-panic", Case: desc, Impl: pan, Model: "compilation fails with an error"})
		case cerr == nil && !(c.lazy && xerr != nil):
			sig := "c03-banned-" + c.kind + "-usable"
			if strings.Contains(c.use, "{% filter") && c.kind == "filter" {
				sig = "c03-filter-tag-runs-banned-filter"
			}
			res.add(Finding{Kind: "oracle", Proj: "ban", Sig: sig, Case: desc, Impl: "compiled and rendered " + fmt.Sprintf("%q", out), Model: "compile error"})
		}
		if (c.name == "verifprobe" && f1 != f0) || (c.name == "verifprobetag" && (p1 != p0 || r1 != r0)) {
			res.add(Finding{Kind: "oracle", Proj: "ban", Sig: "c03-banned-code-ran", Case: desc, Impl: "probe invoked", Model: "banned code never runs"})
		}
		if c.kind == "tag" && c.name == "include" && c.route == "composer/include" && fetches != 0 {
			res.add(Finding{Kind: "oracle", Proj: "ban", Sig: "c03-banned-include-fetched", Case: desc, Impl: fmt.Sprint(fetches, " fetches"), Model: "no fetch"})
		}
		_ = outFree
	}
	// everything not banned keeps working
	for _, src := range []string{"{{ v|upper }}{% if 1 %}a{% endif %}", "{% for q in l %}{{ q }}{% endfor %}{{ v|length }}"} {
		for _, f := range filters {
			if strings.Contains(src, "|"+f+" ") {
				continue
			}
			c := c03case{kind: "filter", name: f, entry: src, files: map[string]string{}}
			_, _, free, _, _ := c.run(false)
			cerr, xerr, banned, _, pan := c.run(true)
			res.Cases++
			if pan != "" || cerr != nil || xerr != nil || free != banned {
				res.add(Finding{Kind: "oracle", Proj: "ban", Sig: "c03-unbanned-affected", Case: fmt.Sprintf("ban filter %q; %q", f, src), Impl: fmt.Sprint(cerr, xerr, pan, banned), Model: free})
			}
		}
	}
}

// ---- histories ----

func suiteC03Hist(cfg Config, res *Result) {
	res.Rule = "random histories (<= 12 calls) over BanTag / BanFilter (registered, unknown and duplicate names), calls that have nothing to do with bans (CleanCache, Debug, AddLoader, Options) and FromString / FromFile / FromCache / RenderTemplateString on one or two sets; compared with the Lean ban-state model (success flag of every call) and a direct oracle (a ban accepted before the first template makes a later use fail; a ban after it is refused and a later use compiles); non-trivial = history with >= 1 ban after a create or a duplicate; distinct by history"
	n := 3000
	if cfg.Thorough() {
		n = 60000
	}
	rng := NewRNG(cfg.Seed)
	tagNames := []string{"if", "for", "include", "nosuchtag", "set"}
	filterNames := []string{"upper", "safe", "length", "nosuchfilter", "lower"}
	type op struct{ kind, name string }
	var reqs []string
	var impls []string
	var descs []string
	seen := map[string]bool{}
	for i := 0; i < n; i++ {
		k := 1 + rng.Intn(12)
		var ops []op
		for j := 0; j < k; j++ {
			switch rng.Intn(5) {
			case 0:
				ops = append(ops, op{"T", rng.Pick(tagNames)})
			case 1:
				ops = append(ops, op{"F", rng.Pick(filterNames)})
			case 4:
				// calls that have nothing to do with bans: they neither lift the freeze nor a ban
				ops = append(ops, op{"X", rng.Pick([]string{"cleancache", "cleanname", "debug", "addloader", "options"})})
			default:
				ops = append(ops, op{"C", rng.Pick([]string{"string", "file", "cache", "render", "badstring", "nofile"})})
			}
		}
		var sb strings.Builder
		for _, o := range ops {
			sb.WriteString(o.kind + ":" + o.name + " ")
		}
		d := sb.String()
		if seen[d] {
			continue
		}
		seen[d] = true
		// implementation
		ml := &memLoader{files: map[string]string{"f.tpl": "x"}, id: "0"}
		set := pongo2.NewSet("h", ml)
		set.Debug = i%3 == 1 // the sandbox rules do not depend on the debug switch
		other := pongo2.NewSet("other", &memLoader{files: map[string]string{}, id: "1"})
		var flags []string
		nt := false
		created := false
		acceptedT, acceptedF := map[string]bool{}, map[string]bool{}
		for _, o := range ops {
			ok := false
			func() {
				defer func() { recover() }()
				switch o.kind {
				case "T":
					ok = set.BanTag(o.name) == nil
					if created || acceptedT[o.name] {
						nt = true
					}
					if created && ok {
						res.add(Finding{Kind: "oracle", Proj: "hist", Sig: "c03-ban-accepted-after-template", Case: d, Impl: "BanTag(" + o.name + ") accepted", Model: "refused: the set has already handed out a template"})
					}
					if ok {
						acceptedT[o.name] = true
					}
				case "F":
					ok = set.BanFilter(o.name) == nil
					if created || acceptedF[o.name] {
						nt = true
					}
					if created && ok {
						res.add(Finding{Kind: "oracle", Proj: "hist", Sig: "c03-ban-accepted-after-template", Case: d, Impl: "BanFilter(" + o.name + ") accepted", Model: "refused: the set has already handed out a template"})
					}
					if ok {
						acceptedF[o.name] = true
					}
				case "X":
					switch o.name {
					case "cleancache":
						set.CleanCache()
					case "cleanname":
						set.CleanCache("f.tpl")
					case "debug":
						set.Debug = !set.Debug
					case "addloader":
						set.AddLoader(&memLoader{files: map[string]string{}, id: "2"})
					case "options":
						set.Options = &pongo2.Options{TrimBlocks: true}
					}
				case "C":
					created = true
					ok = true
					switch o.name {
					case "string":
						set.FromString("x")
					case "badstring":
						set.FromString("{% if %}")
					case "file":
						set.FromFile("f.tpl")
					case "nofile":
						set.FromFile("missing.tpl")
					case "cache":
						set.FromCache("f.tpl")
					case "render":
						set.RenderTemplateString("x", nil)
					}
				}
			}()
			if o.kind == "X" {
				continue
			}
			if ok {
				flags = append(flags, "1")
			} else {
				flags = append(flags, "0")
			}
		}
		if nt {
			res.DistinctNontrivial++
		}
		// direct oracle on the final state: accepted bans bite, refused ones do not
		for _, t := range []string{"if", "for", "set"} {
			_, err := set.FromString(tagSnippets[t])
			if acceptedT[t] != (err != nil) {
				res.add(Finding{Kind: "oracle", Proj: "hist", Sig: "c03-hist-tag-effect", Case: d, Impl: fmt.Sprint("use of ", t, " err=", err), Model: fmt.Sprint("ban accepted=", acceptedT[t])})
			}
			if _, err := other.FromString(tagSnippets[t]); err != nil {
				res.add(Finding{Kind: "oracle", Proj: "hist", Sig: "c03-other-set-affected", Case: d, Impl: err.Error(), Model: "other sets are unaffected"})
			}
		}
		for _, f := range []string{"upper", "safe", "length"} {
			_, err := set.FromString("{{ v|" + f + " }}")
			if acceptedF[f] != (err != nil) {
				res.add(Finding{Kind: "oracle", Proj: "hist", Sig: "c03-hist-filter-effect", Case: d, Impl: fmt.Sprint("use of ", f, " err=", err), Model: fmt.Sprint("ban accepted=", acceptedF[f])})
			}
		}
		impls = append(impls, strings.Join(flags, ""))
		descs = append(descs, d)
		var rq strings.Builder
		rq.WriteString("bans")
		for _, o := range ops {
			if o.kind != "X" {
				rq.WriteString(" " + o.kind + " " + hxb(o.name))
			}
		}
		reqs = append(reqs, rq.String())
	}
	res.Cases = len(reqs)
	for i := 0; i < 3 && i < len(descs); i++ {
		res.sample(descs[i] + "=> " + impls[i])
	}
	model, err := runDriver(cfg.Driver, reqs)
	if err != nil {
		res.add(Finding{Kind: "disagree", Proj: "driver", Sig: "driver-failed", Model: err.Error()})
		return
	}
	for i := range reqs {
		if model[i] != impls[i] {
			res.add(Finding{Kind: "disagree", Proj: "hist", Sig: "c03-hist-model", Case: descs[i], Impl: impls[i], Model: model[i]})
		}
	}
}

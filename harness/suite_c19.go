package main

import (
	"fmt"
	"net/http"
	"net/url"
	"strings"
	"time"

	pongo2 "github.com/flosch/pongo2/v6"
)

func init() { suites["c19-chains"] = suiteC19 }

// filters left out of chains: not deterministic, or needing special input
var c19Skip = map[string]bool{"random": true, "date": true, "time": true, "verifprobe": true, "veriftwin": true, "stringformat": true, "urlize": true,
	"urlizetrunc": true, "title": true, "linebreaks": true, "phone2numeric": true, "removetags": true, "truncatechars_html": true, "truncatewords_html": true}

// parameter sources per filter (template source; value from the context or literal)
var c19Params = map[string][]string{
	"add": {"1", `"x"`, "n"}, "center": {"7", "n"}, "ljust": {"6"}, "rjust": {"6", "n"}, "cut": {`"a"`, "s", `"\\n"`, `"\\\\t"`}, "default": {`"d"`, "n"},
	"default_if_none": {`"d"`}, "divisibleby": {"2", "n"}, "floatformat": {"2", "n"}, "get_digit": {"1"}, "join": {`","`, "s"},
	"length_is": {"3", "n"}, "pluralize": {`"es"`}, "slice": {`"1:3"`, `":2"`}, "split": {`","`, `"\\r"`}, "truncatechars": {"5", "n"}, "truncatewords": {"2"},
	"wordwrap": {"2"}, "yesno": {`"y,n"`},
}

type chainStep struct {
	name  string
	param string // "" = none
}

func chainSrc(steps []chainStep) string {
	var sb strings.Builder
	for _, s := range steps {
		sb.WriteString("|" + s.name)
		if s.param != "" {
			sb.WriteString(":" + s.param)
		}
	}
	return sb.String()
}

func suiteC19(cfg Config, res *Result) {
	defer c19Names(res)
	defer filterTagRecursion(res, "chain", "c19-filter-tag-recursion")
	defer filterTagIsChain(res, "chain", "c19-filter-tag-is-chain")
	defer c19RegisterTwice(res)
	defer c19ReplaceAfterCompile(res)
	defer reentrantRegistry(res, "chain", "c19-registry-reentry")
	defer recursiveMacroNodes(res, "chain", "c19-recursive-filter-tag", "filter")
	defer c19SafeInputs(res)
	defer c19Registry(res)
	res.Rule = "chains of length 0..4 over the deterministic registered filters (from the VerifRegisteredFilters hook, so newly registered names are used), with literal and variable parameters, applied to string / int / float / list / nil values at every expression position (output, if, for, with, set, macro argument and default, subscript, firstof, ifequal, widthratio) and in the filter tag, also with parameters that mention the loop variable (plain and inside list literals) under a loop; three-way comparison: template output, the harness's own composition of public ApplyFilter calls, the Lean model; plus: unregistered tag/filter names are compile errors (filter tag: execution error at the latest) and registering twice is refused; non-trivial = chain length >= 2; distinct by source"
	n := 4000
	if cfg.Thorough() {
		n = 80000
	}
	rng := NewRNG(cfg.Seed)
	var names []string
	for _, f := range pongo2.VerifRegisteredFilters() {
		if !c19Skip[f] {
			names = append(names, f)
		}
	}
	ctxVals := map[string]VT{"s": vStr("a,b c"), "n": vInt(3), "t": vStr("Hello big World"), "i": vInt(1234), "f": vFloat(3.14159),
		"l": vList("string", vStr("x"), vStr("y"), vStr("z")), "li": vList("int", vInt(4), vInt(5)), "nl": vNil(), "h": vStr("<b>&"), "bs": vStr("dir\\new\\tmp\\\\t")}
	var ct CtxTerm
	for _, k := range []string{"s", "n", "t", "i", "f", "l", "li", "nl", "h", "bs"} {
		ct.Names = append(ct.Names, k)
		ct.Vals = append(ct.Vals, ctxVals[k])
	}
	shadow := map[string]bool{} // names that are nothing in the position at hand (parameters the caller left out)
	evalParam := func(p string) *pongo2.Value {
		switch {
		case p == "" || shadow[p]:
			return pongo2.AsValue(nil)
		case p[0] == '"':
			// a string literal as the lexer reads it: one left-to-right pass, \\ is a backslash, \" a quote
			body := p[1 : len(p)-1]
			var sb strings.Builder
			for k := 0; k < len(body); k++ {
				if body[k] == '\\' && k+1 < len(body) && (body[k+1] == '\\' || body[k+1] == '"') {
					k++
				}
				sb.WriteByte(body[k])
			}
			return pongo2.AsValue(sb.String())
		case p[0] >= '0' && p[0] <= '9':
			var x int
			fmt.Sscan(p, &x)
			return pongo2.AsValue(x)
		}
		return toValue(ctxVals[p])
	}
	positions := []string{
		"{% autoescape off %}{{ V }}{% endautoescape %}",
		"{% autoescape off %}{% with q=V %}{{ q }}{% endwith %}{% endautoescape %}",
		"{% autoescape off %}{% set q = V %}{{ q }}{% endautoescape %}",
		"{% autoescape off %}{% macro m(a) %}{{ a }}{% endmacro %}{{ m(V) }}{% endautoescape %}",
		"{% autoescape off %}{% macro m(a=V) %}{{ a }}{% endmacro %}{{ m() }}{% endautoescape %}",
		// a default is evaluated where the macro is defined: names in it are the surrounding scope's, also when they are parameter names
		"{% autoescape off %}{% macro m(s, n, a=V) %}{{ a }}{% endmacro %}{{ m(\"OTHER\", 99) }}{% endautoescape %}",
		"{% autoescape off %}{% macro m(t, l, i, a=V) %}{{ a }}{% endmacro %}{% with z=1 %}{{ m(\"OTHER\", nl, 7) }}{% endwith %}{% endautoescape %}",
		"{% autoescape off %}{% firstof V \"\" %}{% endautoescape %}",
		// a parameter the caller leaves out is nothing inside the body, whatever the context holds under its name
		"NIL:s,n:{% autoescape off %}{% macro m(s, n) %}{{ V }}{% endmacro %}{{ m() }}{% endautoescape %}",
		"NIL:t,l,i:{% autoescape off %}{% macro m(q, t, l, i) %}{% with w=V %}{{ w }}{% endwith %}{% endmacro %}{{ m(1) }}{% endautoescape %}",
		// an item of a list literal is a filtered term like any other
		"{% autoescape off %}{% for q in [V] %}{{ q }}{% endfor %}{% endautoescape %}",
		"{% autoescape off %}{% for q in [\"k\"|upper, V] %}{% if forloop.Last %}{{ q }}{% endif %}{% endfor %}{% endautoescape %}",
		"{% autoescape off %}{% for q in l %}{% if forloop.First %}{{ V }}{% endif %}{% endfor %}{% endautoescape %}",
		"{% autoescape off %}{% include \"p.tpl\" with q=V %}{% endautoescape %}",
	}
	var cases []ProgCase
	wants := map[string]string{}
	for i := 0; i < n; i++ {
		k := rng.Intn(5)
		var steps []chainStep
		for j := 0; j < k; j++ {
			f := rng.Pick(names)
			p := ""
			if ps, ok := c19Params[f]; ok && !rng.Chance(1, 3) {
				p = rng.Pick(ps) // a third of the time the parameter is left out: every filter tolerates that
			}
			steps = append(steps, chainStep{f, p})
		}
		pos := positions[rng.Intn(len(positions))]
		for k := range shadow {
			delete(shadow, k)
		}
		if strings.HasPrefix(pos, "NIL:") {
			parts := strings.SplitN(pos[4:], ":", 2)
			for _, nm := range strings.Split(parts[0], ",") {
				shadow[nm] = true
			}
			pos = parts[1]
		}
		base := rng.Pick([]string{"s", "t", "i", "f", "l", "li", "nl", "h", "bs", `"lit x"`, `"a\\nb\\\\tc"`, "42"})
		// a leading minus belongs to the whole filtered term: -5|add:2 is -(5|add:2)
		neg := rng.Chance(1, 8)
		if neg {
			base = rng.Pick([]string{"5", "i", "f", "42", "n"})
		}
		// expected through the public API
		var val *pongo2.Value
		func() {
			defer func() { recover() }()
			val = evalParam(base)
			for _, s := range steps {
				var err *pongo2.Error
				val, err = pongo2.ApplyFilter(s.name, val, evalParam(s.param))
				if err != nil {
					val = nil
					return
				}
			}
			if neg {
				switch {
				case val.IsFloat():
					val = pongo2.AsValue(-1.0 * val.Float())
				case val.IsNumber():
					val = pongo2.AsValue(-1 * val.Integer())
				default:
					val = nil // a sign on something that is not a number is an execution error
				}
			}
		}()
		src := base + chainSrc(steps)
		if neg {
			src = "-" + src
		}
		for neg && strings.Contains(pos, " in [") {
			// an item of a list literal is a filtered term; a signed one is an operator expression,
			// which the engine refuses there at execution time (not this property's subject)
			pos = positions[rng.Intn(len(positions))]
			for strings.HasPrefix(pos, "NIL:") {
				pos = positions[rng.Intn(len(positions))]
			}
		}
		if rng.Chance(1, 6) && !neg && len(shadow) == 0 { // (k = 0: the empty chain is the identity on the body)
			// the filter tag: the chain applied to the rendered body
			full := "{% autoescape off %}{% filter " + strings.TrimPrefix(chainSrc(steps), "|") + " %}{{ " + base + " }}{% endfilter %}{% endautoescape %}"
			var v2 *pongo2.Value
			func() {
				defer func() { recover() }()
				v2 = pongo2.AsValue(evalParam(base).String())
				for _, s := range steps {
					var err *pongo2.Error
					v2, err = pongo2.ApplyFilter(s.name, v2, evalParam(s.param))
					if err != nil {
						v2 = nil
						return
					}
				}
			}()
			c := ct
			pc := ProgCase{Src: full, Ctx: &c, Label: fmt.Sprintf("filtertag/len=%d", k)}
			cases = append(cases, pc)
			if v2 != nil {
				wants[pc.Key()] = "ok " + hxb(v2.String())
			} else {
				wants[pc.Key()] = "err exec"
			}
			continue
		}
		if i%15 == 0 {
			// a filter tag whose body fails after having written something: nothing of it may turn up later
			c := ct
			bad := ProgCase{Src: fmt.Sprintf("{%% filter upper %%}left over %d {{ 1 / (n - 3) }}{%% endfilter %%}", i), Ctx: &c, Label: "filtertag/poison/len=2"}
			cases = append(cases, bad)
			wants[bad.Key()] = "err exec"
		}
		full := strings.ReplaceAll(pos, "V", src)
		c := ct
		pc := ProgCase{Src: full, Ctx: &c, Label: fmt.Sprintf("expr/len=%d", k), Loaders: []map[string]string{{"p.tpl": "{% autoescape off %}{{ q }}{% endautoescape %}"}}}
		cases = append(cases, pc)
		if val != nil {
			want := val.String()
			if strings.Contains(pos, "firstof") && !val.IsTrue() {
				want = ""
			}
			wants[pc.Key()] = "ok " + hxb(want)
		} else {
			wants[pc.Key()] = "err exec"
		}
	}
	// a parameter is evaluated at every application: parameters that mention the loop variable
	// (plain, or inside a list literal) under a loop, and across two executions with different contexts
	items := []string{"x", "y", "z"}
	for _, fp := range []struct{ base, filter string }{{"nl", "default"}, {"s", "add"}, {"t", "cut"}, {"l", "join"}, {"nl", "default_if_none"}} {
		for _, shape := range []string{"q", "[q]", `[q, "k"]`, `[1, q]`} {
			var sb strings.Builder
			ok := true
			for _, it := range items {
				var pv *pongo2.Value
				switch shape {
				case "q":
					pv = pongo2.AsValue(it)
				case "[q]":
					pv = pongo2.AsValue([]*pongo2.Value{pongo2.AsValue(it)})
				case `[q, "k"]`:
					pv = pongo2.AsValue([]*pongo2.Value{pongo2.AsValue(it), pongo2.AsValue("k")})
				default:
					pv = pongo2.AsValue([]*pongo2.Value{pongo2.AsValue(1), pongo2.AsValue(it)})
				}
				v, err := pongo2.ApplyFilter(fp.filter, toValue(ctxVals[fp.base]), pv)
				if err != nil {
					ok = false
					break
				}
				v, err = pongo2.ApplyFilter("join", v, pongo2.AsValue("-"))
				if err != nil {
					ok = false
					break
				}
				sb.WriteString(v.String() + ";")
			}
			if !ok {
				continue
			}
			c := ct
			pc := ProgCase{Src: "{% autoescape off %}{% for q in l %}{{ " + fp.base + "|" + fp.filter + ":" + shape + `|join:"-" }};{% endfor %}{% endautoescape %}`, Ctx: &c, Label: "loop-param/len=2"}
			cases = append(cases, pc)
			wants[pc.Key()] = "ok " + hxb(sb.String())
		}
	}
	runProgCases(cfg, res, cases, "c19", func(c ProgCase, o ImplOutcome) bool {
		return !strings.HasSuffix(c.Label, "len=0") && !strings.HasSuffix(c.Label, "len=1")
	}, func(c ProgCase, o ImplOutcome) *Finding {
		want := wants[c.Key()]
		got := o.Canon()
		if got != want {
			return &Finding{Kind: "oracle", Proj: "chain", Sig: "c19-template-vs-applyfilter", Case: c.String(), Impl: got + " " + o.Msg, Model: "composition of ApplyFilter calls: " + want}
		}
		return nil
	})
	c19Methods(res)
	// unregistered names never render silently
	for _, src := range []string{"{{ s|nosuchfilter }}", "{% nosuchtag %}", "{% if s|nosuchfilter %}x{% endif %}", "{{ s|upper|nosuch:1 }}", "{% endif %}", "{% with a=s|nosuch %}{% endwith %}"} {
		r := implRender(src, ct.Go())
		res.Cases++
		if r.Err != "compile" {
			res.add(Finding{Kind: "oracle", Proj: "chain", Sig: "c19-unregistered-name-accepted", Case: src, Impl: r.String(), Model: "compile error"})
		}
	}
	{
		r := implRender("{% filter nosuchfilter %}x{% endfilter %}", nil)
		res.Cases++
		if r.Err == "" || r.Panicked {
			res.add(Finding{Kind: "oracle", Proj: "chain", Sig: "c19-filter-tag-unknown-renders", Case: "{% filter nosuchfilter %}", Impl: r.String(), Model: "an error at the latest at execution"})
		}
	}
	// registering twice is refused, replacing a missing name likewise
	if pongo2.RegisterFilter("upper", func(in, p *pongo2.Value) (*pongo2.Value, *pongo2.Error) { return in, nil }) == nil {
		res.add(Finding{Kind: "oracle", Proj: "chain", Sig: "c19-register-twice-accepted", Case: "RegisterFilter(upper)", Impl: "nil", Model: "error"})
	}
	if pongo2.ReplaceFilter("c19_missing", func(in, p *pongo2.Value) (*pongo2.Value, *pongo2.Error) { return in, nil }) == nil {
		res.add(Finding{Kind: "oracle", Proj: "chain", Sig: "c19-replace-missing-accepted", Case: "ReplaceFilter(c19_missing)", Impl: "nil", Model: "error"})
	}
	if pongo2.RegisterTag("if", nil) == nil {
		res.add(Finding{Kind: "oracle", Proj: "chain", Sig: "c19-register-twice-accepted", Case: "RegisterTag(if)", Impl: "nil", Model: "error"})
	}
	if pongo2.ReplaceTag("c19_missing", nil) == nil {
		res.add(Finding{Kind: "oracle", Proj: "chain", Sig: "c19-replace-missing-accepted", Case: "ReplaceTag(c19_missing)", Impl: "nil", Model: "error"})
	}
	r := implRender("{{ \"a\"|upper }}", nil)
	if r.Out != "A" {
		res.add(Finding{Kind: "oracle", Proj: "chain", Sig: "c19-refused-registration-changed-registry", Case: "upper after refused RegisterFilter", Impl: r.String(), Model: "A"})
	}
	res.Cases += 5
}

type c19Tags []string

func (t c19Tags) Join(sep string) string { return strings.Join(t, sep) }
func (t c19Tags) Count() int             { return len(t) }

type c19Level int

func (l c19Level) Name() string { return []string{"low", "mid", "high"}[int(l)%3] }

type c19Label string

func (l c19Label) Shout() string { return strings.ToUpper(string(l)) + "!" }

// c19Methods: a chain applies to whatever the term before it evaluates to, and a filter argument
// is any term — including the result of a method of a named map, slice or scalar type
func c19Methods(res *Result) {
	ctx := pongo2.Context{"q": url.Values{"k": {"v1", "v2"}, "e": {""}}, "hdr": http.Header{"X-A": {"Hv"}}, "d": 90 * time.Second, "tags": c19Tags{"a", "b"},
		"lvl": c19Level(2), "lab": c19Label("hey"), "s": "x"}
	for _, c := range [][2]string{
		{`{{ q.Get("k")|upper }}`, "V1"}, {`{{ q.Get("k")|upper|add:"!" }}`, "V1!"}, {`{{ s|add:q.Get("k") }}`, "xv1"}, {`{{ s|add:q.Get("k")|upper }}`, "XV1"},
		{`{{ q.Get("nosuch")|default:"d" }}`, "d"}, {`{{ q.Encode()|cut:"=" }}`, "e&kv1&kv2"}, {`{{ q.k|join:"+" }}`, "v1+v2"}, {`{{ q.Has("k")|yesno }}`, "yes"},
		{`{{ hdr.Get("X-A")|lower }}`, "hv"}, {`{{ d.String()|upper }}`, "1M30S"}, {`{{ d.Minutes()|floatformat:1 }}`, "1.5"}, {`{{ d.Seconds()|integer|add:1 }}`, "91"},
		{`{{ tags.Join("-")|upper }}`, "A-B"}, {`{{ tags.Count()|add:1 }}`, "3"}, {`{{ tags|join:"," }}`, "a,b"}, {`{{ tags.0|upper }}`, "A"}, {`{{ s|add:tags.Join("") }}`, "xab"},
		{`{{ lvl.Name()|capfirst }}`, "High"}, {`{{ lvl|add:1 }}`, "3"}, {`{{ lab.Shout()|lower }}`, "hey!"}, {`{{ lab|upper }}`, "HEY"},
		{`{% filter add:q.Get("k") %}x{% endfilter %}`, "xv1"}, {`{% filter add:tags.Join("") |upper %}x{% endfilter %}`, "XAB"}, {`{% filter cut:lvl.Name() %}a high b{% endfilter %}`, "a  b"},
		{`{% if q.Get("k")|length == 2 %}y{% endif %}`, "y"}, {`{% with w=d.String()|upper %}{{ w }}{% endwith %}`, "1M30S"}, {`{% for c in tags.Join("")|make_list %}{{ c }}.{% endfor %}`, "a.b."},
	} {
		res.Cases++
		res.DistinctNontrivial++
		r := implRender("{% autoescape off %}"+c[0]+"{% endautoescape %}", ctx)
		if r.Err != "" || r.Panicked || r.Out != c[1] {
			res.add(Finding{Kind: "oracle", Proj: "chain", Sig: "c19-chain-on-method-result", Case: c[0], Impl: r.String(), Model: "ok " + hx(c[1])})
		}
	}
}

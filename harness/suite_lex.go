package main

import (
	"fmt"
	"strings"

	pongo2 "github.com/flosch/pongo2/v6"
)

func init() { suites["lex"] = suiteLex }

var lexAlphabet = []string{"{", "}", "%", "#", "-", " ", "\n", "\"", "\\", "a", "1", "|", "\x01", "\xc3"}

var lexAtoms = []string{"{% verbatim %}", "{% endverbatim %}", "{#", "#}", "{{", "}}", "{%", "%}", "{{-", "-}}", "{%-", "-%}",
	"'", "\"", "\\", "\n", " ", "a", "1", "ab", "12", "1a", "in", "==", "<=", "|", ".", "é", "\xff", "\x01", "x", "\r\n", "\t",
	":", "(", ")", "{", "}", "%", "#", "-", "not", "a_1", "<", ">", "\xe2\x82", "€", "verbatim", "endverbatim", "!", "=", "&&", "^"}

// posOffset converts a (line, col) report into a byte offset of src, or -1.
func posOffset(src string, line, col int) int {
	if line < 1 || col < 1 {
		return -1
	}
	off := 0
	for l := 1; l < line; l++ {
		i := strings.IndexByte(src[off:], '\n')
		if i < 0 {
			return -1
		}
		off += i + 1
	}
	off += col - 1
	if off > len(src) {
		return -1
	}
	return off
}

// rawTextOK checks the C16 direct oracle for one token: the source at the
// reported position starts with the text the token was made from.
func rawTextOK(src string, t pongo2.VerifToken) (bool, string) {
	off := posOffset(src, t.Line, t.Col)
	if off < 0 {
		return false, "position outside the source"
	}
	rest := src[off:]
	switch pongo2.TokenType(t.Typ) {
	case pongo2.TokenString:
		if len(rest) == 0 || (rest[0] != '"' && rest[0] != '\'') {
			return false, "string token does not start at a quote"
		}
	case pongo2.TokenSymbol:
		want := t.Val
		if t.Trim {
			switch t.Val {
			case "{{", "{%":
				want = t.Val + "-"
			case "}}", "%}":
				want = "-" + t.Val
			}
		}
		if !strings.HasPrefix(rest, want) {
			return false, fmt.Sprintf("source at position does not start with symbol %q", want)
		}
	default:
		if !strings.HasPrefix(rest, t.Val) {
			return false, "source at position does not start with the token's text"
		}
	}
	return true, ""
}

func lexNontrivial(src string, ans string) bool {
	if strings.Count(ans, ";") >= 1 {
		return true
	}
	for i := 0; i < len(src); i++ {
		if src[i] >= 0x80 {
			return true
		}
	}
	return strings.HasPrefix(ans, "err")
}

func suiteLex(cfg Config, res *Result) {
	res.Rule = "all strings up to length N over the 14 lexer-significant bytes { } % # - SP LF \" \\ a 1 | 0x01 0xC3 (N=4 quick, 5 thorough), plus random sequences of lexer atoms (verbatim markers, delimiters with and without '-', quotes, escapes, multi-byte and invalid UTF-8); non-trivial = token stream with >= 2 tokens, a lexer error, or a non-ASCII byte; distinct by source"
	maxLen := 4
	nRandom := 30000
	if cfg.Thorough() {
		maxLen = 5
		nRandom = 400000
	}
	var srcs []string
	if cfg.Replay != "" {
		srcs = []string{unhx(cfg.Replay)}
	} else {
		var gen func(prefix string, n int)
		gen = func(prefix string, n int) {
			srcs = append(srcs, prefix)
			if n == 0 {
				return
			}
			for _, a := range lexAlphabet {
				gen(prefix+a, n-1)
			}
		}
		gen("", maxLen)
		res.Exhaustive = false
		rng := NewRNG(cfg.Seed)
		for i := 0; i < nRandom; i++ {
			n := 1 + rng.Intn(9)
			var sb strings.Builder
			for j := 0; j < n; j++ {
				sb.WriteString(rng.Pick(lexAtoms))
			}
			srcs = append(srcs, sb.String())
		}
	}
	seen := map[string]bool{}
	reqs := make([]string, 0, len(srcs))
	impl := make([]string, 0, len(srcs))
	uniq := srcs[:0]
	for _, s := range srcs {
		if seen[s] {
			continue
		}
		seen[s] = true
		uniq = append(uniq, s)
	}
	srcs = uniq
	for _, s := range srcs {
		ans, toks, lerr := implLex(s)
		impl = append(impl, ans)
		reqs = append(reqs, "lex "+hx(s))
		if lexNontrivial(s, ans) {
			res.DistinctNontrivial++
		}
		switch {
		case ans == "panic":
			res.hist("impl:panic")
			res.add(Finding{Kind: "oracle", Proj: "panic", Sig: "lex-panic", Case: hx(s), Impl: ans, Model: "lexer returns tokens or an error"})
		case lerr != nil:
			res.hist("impl:error")
			// C16 direct oracle: an error position lies inside the source
			if posOffset(s, lerr.Line, lerr.Column) < 0 {
				res.add(Finding{Kind: "oracle", Proj: "positions", Sig: "lex-error-position", Case: hx(s), Impl: ans, Model: "error position inside the source"})
			}
			if lerr.Filename != "t" {
				res.add(Finding{Kind: "oracle", Proj: "positions", Sig: "lex-error-filename", Case: hx(s), Impl: lerr.Filename, Model: "t"})
			}
		default:
			res.hist(fmt.Sprintf("impl:tokens=%d", min(len(toks), 6)))
			last := -1
			for _, t := range toks {
				ok, why := rawTextOK(s, t)
				off := posOffset(s, t.Line, t.Col)
				if ok && off <= last && !(off == last && last == 0 && false) {
					ok, why = false, "token positions do not increase"
				}
				if off > last {
					last = off
				}
				if !ok {
					res.add(Finding{Kind: "oracle", Proj: "positions", Sig: "token-position", Case: hx(s), Impl: ans, Model: why})
					break
				}
				if t.Filename != "t" {
					res.add(Finding{Kind: "oracle", Proj: "positions", Sig: "token-filename", Case: hx(s), Impl: t.Filename, Model: "t"})
					break
				}
			}
		}
	}
	res.Cases = len(srcs)
	for i := 0; i < len(srcs) && i < 3; i++ {
		res.sample(fmt.Sprintf("%q -> %s", srcs[len(srcs)-1-i], impl[len(srcs)-1-i]))
	}
	model, err := runDriver(cfg.Driver, reqs)
	if err != nil {
		res.add(Finding{Kind: "disagree", Proj: "driver", Sig: "driver-failed", Case: "", Impl: "", Model: err.Error()})
		return
	}
	for i := range srcs {
		if impl[i] == model[i] {
			continue
		}
		proj := "positions"
		if stripPos(impl[i]) != stripPos(model[i]) {
			proj = "tokens"
		}
		res.add(Finding{Kind: "disagree", Proj: proj, Sig: "lex-" + proj, Case: hx(srcs[i]), Impl: impl[i], Model: model[i]})
	}
}

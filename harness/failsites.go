package main

import (
	"fmt"
	"strings"
	"sync"

	pongo2 "github.com/flosch/pongo2/v6"
)

// Failing sites: for every registered filter, argument shapes that make the filter itself fail
// at execution time.  A template carries two such sites on different lines, selected by the
// context; the error an execution returns must name the site that failed in *that* execution
// (line and token), whatever failed before in this process or fails elsewhere at the same time.

type failSite struct {
	expr string // e.g. `s|slice:"x"`
	name string // filter name (the token the error points at)
}

var failSitesOnce sync.Once
var failSitesList []failSite

// failSites probes every registered filter with awkward arguments once and keeps those that
// return an execution error positioned at the filter's name.
func failSites() []failSite {
	failSitesOnce.Do(func() {
		args := []string{"", `:"x"`, `:"a,b,c,d"`, `:"a"`, `:99999999`, `:-99999999`, `:"1:2:3"`, `:nothing`}
		inputs := []string{"sv", "iv", "lv", "nothing"}
		seen := map[string]bool{}
		for _, f := range pongo2.VerifRegisteredFilters() {
			for _, in := range inputs {
				for _, a := range args {
					expr := in + "|" + f + a
					key := f + a
					if seen[key] {
						continue
					}
					e := failSiteProbe("{{ " + expr + " }}")
					if e != nil && e.Line == 1 && e.Token != nil && e.Token.Val == f {
						seen[key] = true
						failSitesList = append(failSitesList, failSite{expr, f})
					}
				}
			}
		}
	})
	return failSitesList
}

func failCtx(first bool) pongo2.Context {
	return pongo2.Context{"sv": "abc", "iv": 3, "lv": []int{1, 2}, "first": first}
}

func failSiteProbe(src string) (e *pongo2.Error) {
	defer func() { recover() }()
	set := pongo2.NewSet("probe", &memLoader{files: map[string]string{}})
	tpl, err := set.FromString(src)
	if err != nil {
		return nil
	}
	_, err = tpl.Execute(failCtx(true))
	if err == nil {
		return nil
	}
	pe, _ := err.(*pongo2.Error)
	return pe
}

// failTemplate: two sites of the same failing expression, `pad1` lines before the first and
// `pad2` more before the second; returns the source and the two expected lines
func failTemplate(s failSite, pad1, pad2 int) (src string, line1, line2 int) {
	src = strings.Repeat("x\n", pad1) + "{% if first %}{{ " + s.expr + " }}{% else %}" + strings.Repeat("\n", pad2) + "  {{ " + s.expr + " }}{% endif %}"
	return src, pad1 + 1, pad1 + 1 + pad2
}

// failCheck: the error of one execution names the site that failed in it
func failCheck(err error, s failSite, wantLine int) string {
	if err == nil {
		return "no error"
	}
	pe, ok := err.(*pongo2.Error)
	if !ok {
		return "not a *pongo2.Error: " + err.Error()
	}
	if pe.Line != wantLine {
		return fmt.Sprintf("error reported at line %d col %d, the filter that failed in this execution is at line %d: %s", pe.Line, pe.Column, wantLine, pe.Error())
	}
	if pe.Token == nil || pe.Token.Val != s.name || pe.Token.Line != wantLine {
		return fmt.Sprintf("error token %v is not the failing filter %q at line %d", pe.Token, s.name, wantLine)
	}
	return ""
}

package main

// Third batch of fixed, model-free oracles (ninth seeding round: one of two copies of a piece of
// logic changed; a supported configuration other than the default).  Each function is called from
// the suite of the property that governs it.

import (
	"fmt"
	"net/http"
	"os"
	"path/filepath"
	"strings"
	"testing/fstest"
	"time"

	pongo2 "github.com/flosch/pongo2/v6"
)

// c01TextIndex: s[i] and s.i on texts with multi-byte characters, every index around both lengths:
// no panic, and the two spellings agree
func c01TextIndex(res *Result) {
	for _, s := range []string{"äb", "日本", "a€", "é", "", "ab", "\xff\xfe"} {
		for i := -2; i <= len(s)+2; i++ {
			res.Cases++
			ctx := pongo2.Context{"s": s, "i": i, "ps": &s, "ns": NStr(s)}
			sub := implRender("{{ s[i] }}|{{ ps[i] }}|{{ ns[i] }}", ctx)
			if sub.Panicked || sub.Err == "compile" {
				oracleFail(res, "totality", "c01-text-index", fmt.Sprintf("{{ s[i] }} with s=%q i=%d", s, i), sub.String(), "an output or an execution error")
				continue
			}
			if i < 0 {
				continue
			}
			dot := implRender(fmt.Sprintf("{{ s.%d }}|{{ ps.%d }}|{{ ns.%d }}", i, i, i), ctx)
			if dot.String() != sub.String() && !(dot.Err != "" && sub.Err != "") {
				oracleFail(res, "totality", "c01-text-index", fmt.Sprintf("s=%q: {{ s[i] }} with i=%d against {{ s.%d }}", s, i, i), sub.String(), dot.String()+" (the dotted spelling)")
			}
		}
	}
}

// realLoaders: one loader of every kind the package ships, all serving the files under root
func realLoaders(root string, mapfs fstest.MapFS) map[string]pongo2.TemplateLoader {
	return map[string]pongo2.TemplateLoader{
		"FSLoader":                  pongo2.NewFSLoader(mapfs),
		"FSLoader(os.DirFS)":        pongo2.NewFSLoader(os.DirFS(root)),
		"HttpFilesystemLoader":      pongo2.MustNewHttpFileSystemLoader(http.Dir(root), ""),
		"LocalFilesystemLoader":     pongo2.MustNewLocalFileSystemLoader(root),
		"SandboxedFilesystemLoader": func() pongo2.TemplateLoader { l, _ := pongo2.NewSandboxedFilesystemLoader(root); return l }(),
	}
}

// c06Loaders: the bytes of a file reach the compiler as they are, whichever loader delivers them
func c06Loaders(res *Result) {
	root, err := os.MkdirTemp("", "verif-c06-tree-")
	if err != nil {
		return
	}
	defer os.RemoveAll(root)
	bodies := map[string]string{
		"bom.txt":   "\ufeffid;name\r\n1;Müller\r\n",
		"bom2.txt":  "\ufeff\ufeff",
		"crlf.txt":  "a\r\nb\r\n\r\n",
		"nul.txt":   "a\x00b\x01c\xff\xfe",
		"trail.txt": "x\n\n\n",
		"lead.txt":  "\n\n  x",
		"mix.txt":   "\ufeff<{# c #}>{% verbatim %}{{ v }}{% endverbatim %}\r\n",
	}
	mapfs := fstest.MapFS{}
	for n, b := range bodies {
		os.WriteFile(filepath.Join(root, n), []byte(b), 0o644)
		mapfs[n] = &fstest.MapFile{Data: []byte(b)}
	}
	os.WriteFile(filepath.Join(root, "inc.tpl"), []byte(`[{% include "bom.txt" %}|{% ssi "bom.txt" %}|{% ssi "bom.txt" parsed %}]`), 0o644)
	mapfs["inc.tpl"] = &fstest.MapFile{Data: []byte(`[{% include "bom.txt" %}|{% ssi "bom.txt" %}|{% ssi "bom.txt" parsed %}]`)}
	for lname, l := range realLoaders(root, mapfs) {
		set := pongo2.NewSet("c06-loaders", l)
		for n, b := range bodies {
			res.Cases++
			want := implRender(b, nil).String()
			out, err := set.RenderTemplateFile(n, nil)
			got := "ok " + hx(out)
			if err != nil {
				got = "err " + err.Error()
			}
			if got != want {
				oracleFail(res, "render", "c06-loader-bytes", fmt.Sprintf("file %q with content %q through %s", n, b, lname), got, want+" (through FromString)")
			}
		}
		res.Cases++
		out, err := set.RenderTemplateFile("inc.tpl", nil)
		b := bodies["bom.txt"]
		if want := "[" + b + "|" + b + "|" + b + "]"; err != nil || out != want {
			oracleFail(res, "render", "c06-loader-bytes", "include / ssi / ssi parsed of bom.txt through "+lname, fmt.Sprintf("%q %v", out, err), fmt.Sprintf("%q", want))
		}
	}
}

// nilShadowsGlobal: a context entry bound to nil shadows the global of the same name, also in an
// included template
func nilShadowsGlobal(res *Result, proj, sig string) {
	set := pongo2.NewSet("nil-shadow", &memLoader{files: map[string]string{"/inc.tpl": "{% if user %}G{% else %}nil{% endif %}:{{ site.name }}"}})
	set.Globals["user"] = "anonymous"
	set.Globals["site"] = pongo2.Context{"name": "shop"}
	set.Globals["greet"] = func() string { return "hello" }
	tpl := mustCompile(set, `{% if user %}G{% else %}nil{% endif %}|{{ user }}|{{ site.name }}|{% include "/inc.tpl" %}|{{ user|default:"d" }}`)
	for _, c := range []struct {
		label string
		ctx   pongo2.Context
		want  string
	}{
		{"no context", nil, "G|anonymous|shop|G:shop|anonymous"},
		{"Context{user: nil}", pongo2.Context{"user": nil}, "nil||shop|nil:shop|d"},
		{"Context{site: nil}", pongo2.Context{"site": nil}, "G|anonymous||G:|anonymous"},
		{"Context{user: nil, site: nil}", pongo2.Context{"user": nil, "site": nil}, "nil|||nil:|d"},
		{"Context{user: \"\"}", pongo2.Context{"user": ""}, "nil||shop|nil:shop|d"},
		{"Context{user: 0}", pongo2.Context{"user": 0}, "nil|0|shop|nil:shop|d"},
		{"Context{user: (*int)(nil)}", pongo2.Context{"user": (*int)(nil)}, "nil||shop|nil:shop|d"},
	} {
		res.Cases++
		if r := execOnce(tpl, c.ctx); r.out != c.want {
			oracleFail(res, proj, sig, c.label+" over Globals{user: anonymous, site: {name: shop}}", r.String(), c.want)
		}
	}
	res.Cases++
	if r := execOnce(mustCompile(set, "{{ greet() }}"), pongo2.Context{"greet": nil}); r.err == "" && strings.Contains(r.out, "hello") {
		oracleFail(res, proj, sig, "{{ greet() }} with Context{greet: nil} over a global function greet", r.String(), "not the global function: the context binds the name to nil")
	}
}

// c09Complement: for every pair of values exactly one of ifequal / ifnotequal renders its body, and
// they agree with == and !=
func c09Complement(res *Result) {
	vals := []struct {
		lit string
		v   any
	}{{"10", 10}, {"10.0", 10.0}, {"3", uint8(3)}, {"3.0", float32(3)}, {`"10"`, "10"}, {"true", true}, {"1", int64(1)}, {"nothing", nil}, {"10", NInt(10)}, {"0", 0}, {"0.0", 0.0}, {`""`, ""}, {"false", false}}
	const src = "{% ifequal a b %}E{% else %}e{% endifequal %}{% ifnotequal a b %}N{% else %}n{% endifnotequal %}{% if a == b %}Q{% else %}q{% endif %}{% if a != b %}D{% else %}d{% endif %}"
	for _, a := range vals {
		for _, b := range vals {
			for _, form := range []string{"values", "literals", "mixed"} {
				res.Cases++
				s := src
				switch form {
				case "literals":
					s = strings.NewReplacer(" a ", " "+a.lit+" ", " b ", " "+b.lit+" ").Replace(src)
				case "mixed":
					s = strings.NewReplacer(" b ", " "+b.lit+" ").Replace(src)
				}
				r := implRender(s, pongo2.Context{"a": a.v, "b": b.v})
				if got := r.String(); got != "ok "+hx("EnQd") && got != "ok "+hx("eNqD") {
					oracleFail(res, "reference", "c09-ifequal-complement", fmt.Sprintf("%s with a=%T(%v) b=%T(%v)", s, a.v, a.v, b.v, b.v), got, "EnQd or eNqD: exactly one of the two tags renders its body, as == / != say")
				}
			}
		}
	}
}

type nilHolder struct {
	Comments *[]string
	Tags     *map[string]int
	Next     *nilHolder
}

// debugIndifferent: TemplateSet.Debug changes what is logged and cached, never what is rendered
func debugIndifferent(res *Result, proj, sig string, srcs []string, ctx func() pongo2.Context) {
	for _, src := range srcs {
		res.Cases++
		render := func(debug bool) string {
			return within(10*time.Second, func() string {
				set := pongo2.NewSet("debug", &memLoader{files: map[string]string{"/d.tpl": src}})
				set.Debug = debug
				tpl, err := set.FromFile("/d.tpl")
				if err != nil {
					return "err compile " + err.Error()
				}
				return execOnce(tpl, ctx()).String()
			})
		}
		if on, off := render(true), render(false); on != off {
			oracleFail(res, proj, sig, src+" in a set with Debug on", on, off+" (Debug off)")
		}
	}
}

func c09Debug(res *Result) {
	ctx := func() pongo2.Context {
		return pongo2.Context{"pl": (*[]string)(nil), "pm": (*map[string]int)(nil), "post": nilHolder{}, "pp": &nilHolder{}, "n": 5, "f": 1.5, "t": true, "s": "héllo", "l": []int{1, 2},
			"fn": func() int { return 1 }, "e": []int{}, "m": map[string]int{"a": 1}, "ni": nil, "st": struct{ A int }{1}}
	}
	var srcs []string
	for _, it := range []string{"pl", "pm", "post.Comments", "post.Tags", "post.Next", "pp.Comments", "pp.Next.Comments", "n", "f", "t", "s", "l", "fn", "e", "m", "ni", "st", "nothing", "l|first", "s|upper"} {
		for _, mod := range []string{"", " reversed", " sorted"} {
			srcs = append(srcs, "{% for c in "+it+mod+" %}[{{ c }}{{ forloop.Counter }}]{% empty %}none{% endfor %}")
		}
		srcs = append(srcs, "{% for k, v in "+it+" %}[{{ k }}={{ v }}]{% empty %}none{% endfor %}")
	}
	srcs = append(srcs, "{{ 1 / 0 }}", "{{ false and 1 / 0 }}|{{ true or 7 % 0 }}", "{% if n != 0 %}{{ 10 / 0 }}{% else %}-{% endif %}", "{% if 0 %}{{ 1 % 0.0 }}{% endif %}ok", "{{ nothing.x.y }}{{ nothing() }}",
		"{% for i in l %}{% cycle 'a' 'b' %}{% ifchanged %}{{ i }}{% endifchanged %}{% endfor %}", "{% firstof nothing ni s %}")
	debugIndifferent(res, "reference", "c09-debug-changes-rendering", srcs, ctx)
}

func c07Debug(res *Result) {
	ctx := func() pongo2.Context { return pongo2.Context{"n": 0, "z": 0.0, "u": uint(0), "a": uint(8), "s": "x"} }
	var srcs []string
	for _, op := range []string{"/", "%"} {
		for _, d := range []string{"0", "0.0", "n", "z", "u", "(1-1)", "\"0\"", "nothing"} {
			srcs = append(srcs, "{{ 1 "+op+" "+d+" }}", "{{ false and 1 "+op+" "+d+" }}|{{ true or 7 "+op+" "+d+" }}", "{% if s %}-{% else %}{{ 10 "+op+" "+d+" }}{% endif %}", "{{ a "+op+" "+d+" }}", "{{ 1.5 "+op+" "+d+" }}")
		}
	}
	debugIndifferent(res, "semantics", "c07-debug-changes-evaluation", srcs, ctx)
}

// c07ZeroDivisors: a zero divisor of every numeric Go type is an execution error for / and for %, never a panic
func c07ZeroDivisors(res *Result) {
	zeros := []any{0, int8(0), int64(0), uint(0), uint8(0), uint64(0), 0.0, float32(0), NInt(0), uintptr(0)}
	dividends := []any{8, uint(8), uint64(1) << 63, 1.5, int8(-3), "7", NInt(4)}
	for _, z := range zeros {
		for _, a := range dividends {
			for _, op := range []string{"/", "%"} {
				res.Cases++
				r := implRender("{{ a "+op+" b }}", pongo2.Context{"a": a, "b": z})
				if r.Err != "exec" {
					oracleFail(res, "semantics", "c07-zero-divisor", fmt.Sprintf("{{ a %s b }} with a=%T(%v) b=%T(%v)", op, a, a, z, z), r.String(), "an execution error")
				}
			}
		}
	}
}

// c13MixedRecursion: the cut-off depth of a recursion does not depend on which of the macros in the
// chain are imported
func c13MixedRecursion(res *Result) {
	const ping = `{% macro ping(n) %}{% if n > 1 %}{{ pong(n-1) }}{% else %}done{% endif %}{% endmacro %}`
	const pong = `{% macro pong(n) %}{% if n > 1 %}{{ ping(n-1) }}{% else %}done{% endif %}{% endmacro %}`
	exp := func(s string) string { return strings.Replace(s, ") %}", ") export %}", 1) }
	files := map[string]string{
		"/pong.lib":     exp(pong),
		"/both.lib":     exp(ping) + exp(pong),
		"/local.tpl":    ping + pong + `{{ ping(n) }}`,
		"/mixed.tpl":    ping + `{% import "/pong.lib" pong %}{{ ping(n) }}`,
		"/imported.tpl": `{% import "/both.lib" ping, pong %}{{ ping(n) }}`,
		"/nested.tpl":   ping + `{% import "/pong.lib" pong %}{% for q in one %}{% with z=1 %}{{ ping(n) }}{% endwith %}{% endfor %}`,
	}
	set := pongo2.NewSet("c13-mixed", &memLoader{files: files})
	deepest := func(name string) int {
		tpl, err := set.FromFile(name)
		if err != nil {
			return -1
		}
		renders := func(n int) bool {
			return within(20*time.Second, func() string { return execOnce(tpl, pongo2.Context{"n": n, "one": []int{1}}).out }) == "done"
		}
		if !renders(1) {
			return 0
		}
		lo, hi := 1, 1<<13+1
		for hi-lo > 1 {
			if mid := (lo + hi) / 2; renders(mid) {
				lo = mid
			} else {
				hi = mid
			}
		}
		return lo
	}
	local := deepest("/local.tpl")
	res.Cases++
	if local <= 1 || local >= 1<<13 {
		oracleFail(res, "recursion", "c13-recursion-depth", "mutual recursion of two local macros, deepest chain that renders", fmt.Sprint(local), "cut off at a fixed depth above 1 and below 8192")
		return
	}
	for _, name := range []string{"/mixed.tpl", "/imported.tpl", "/nested.tpl"} {
		res.Cases++
		if got := deepest(name); got != local {
			oracleFail(res, "recursion", "c13-recursion-depth", name+" ("+files[name]+"): deepest chain of calls that renders", fmt.Sprint(got), fmt.Sprintf("%d, as with both macros defined locally", local))
		}
	}
}

// c13SafeAnywhere: the result of a macro call is already-escaped markup wherever the macro was
// defined and wherever it is printed, under both package-level defaults
func c13SafeAnywhere(res *Result) {
	defer pongo2.SetAutoescape(true)
	files := map[string]string{"/lib.tpl": `{% macro badge(v) export %}<i class="p">{{ v }}</i>{% endmacro %}`}
	const def = `{% macro badge(v) %}<i class="p">{{ v }}</i>{% endmacro %}`
	const imp = `{% import "/lib.tpl" badge %}`
	const imp2 = `{% import "/lib.tpl" badge as b2 %}`
	uses := []string{
		`{% for c in l %}{% autoescape on %}{{ badge("new") }}{% endautoescape %}{% endfor %}`,
		`{% with z=1 %}{% autoescape on %}{{ badge("new") }}{% endautoescape %}{% endwith %}`,
		`{% autoescape on %}{% for c in l %}{{ badge("new") }}{% endfor %}{% endautoescape %}`,
		`{% autoescape off %}{% set r = badge("new") %}{% endautoescape %}{% autoescape on %}{{ r }}{% endautoescape %}`,
		`{% autoescape on %}{% with r=badge("new") %}{% for c in l %}{{ r }}{% endfor %}{% endwith %}{% endautoescape %}`,
	}
	for _, sw := range []bool{false, true} {
		pongo2.SetAutoescape(sw)
		for _, u := range uses {
			for _, pre := range []string{def, imp, imp2} {
				res.Cases++
				src := pre + u
				if pre == imp2 {
					src = pre + strings.Replace(u, "badge(", "b2(", -1)
				}
				r := implRenderFiles(src, files, pongo2.Context{"l": []int{1}})
				if want := `<i class="p">new</i>`; r.Out != want {
					oracleFail(res, "binding", "c13-macro-result-not-safe", fmt.Sprintf("%s after SetAutoescape(%v)", src, sw), r.String(), want)
				}
			}
		}
	}
	pongo2.SetAutoescape(true)
}

// c14OptionsAfterCompile: the four entry points agree also when Template.Options was changed after
// the template was compiled
func c14OptionsAfterCompile(res *Result) {
	srcs := []string{"<ul>\n{% for item in items %}\n    {% if item %}\n  <li>{{ item }}</li>\n    {% endif %}\n{% endfor %}\n</ul>\n", "  {% if 1 %}\n a {%- if 1 %}  b  {% endif -%}  \n{% endif %}\n\n", "x\n  {# c #}\n  {% comment %}\n{% endcomment %}\ny", "plain\n  text\n"}
	ctx := pongo2.Context{"items": []string{"a", "", "b"}}
	for _, src := range srcs {
		for _, st := range [][2]bool{{true, false}, {false, true}, {true, true}, {false, false}} {
			for _, first := range []bool{false, true} {
				res.Cases++
				tpl := mustCompile(pongo2.NewSet("c14-opt", &memLoader{files: map[string]string{}}), src)
				if tpl == nil {
					continue
				}
				if first { // an execution under the compile-time options comes first
					var sink bytesSink
					tpl.ExecuteWriterUnbuffered(ctx, &sink)
				}
				tpl.Options.TrimBlocks, tpl.Options.LStripBlocks = st[0], st[1]
				got := execFour(tpl, ctx)
				fs := pongo2.NewSet("c14-opt-fresh", &memLoader{files: map[string]string{}})
				fs.Options.TrimBlocks, fs.Options.LStripBlocks = st[0], st[1]
				want := execOnce(mustCompile(fs, src), ctx).String()
				for i, g := range got {
					if g != want {
						oracleFail(res, "variants", "c14-options-after-compile", fmt.Sprintf("%q with Template.Options set to TrimBlocks=%v LStripBlocks=%v after compiling (executed before: %v), through %s", src, st[0], st[1], first, fourNames[i]), g, want+" (fresh compile in a set with these options, Execute)")
						break
					}
				}
			}
		}
	}
}

type bytesSink struct{ b []byte }

func (s *bytesSink) Write(p []byte) (int, error) { s.b = append(s.b, p...); return len(p), nil }

var fourNames = [4]string{"Execute", "ExecuteBytes", "ExecuteWriter", "ExecuteWriterUnbuffered"}

func execFour(tpl *pongo2.Template, ctx pongo2.Context) (out [4]string) {
	for i := range out {
		i := i
		out[i] = func() (s string) {
			defer func() {
				if p := recover(); p != nil {
					s = fmt.Sprint("panic ", p)
				}
			}()
			var err error
			var o string
			switch i {
			case 0:
				o, err = tpl.Execute(ctx)
			case 1:
				var b []byte
				b, err = tpl.ExecuteBytes(ctx)
				o = string(b)
			case 2:
				var sink bytesSink
				err = tpl.ExecuteWriter(ctx, &sink)
				o = string(sink.b)
			case 3:
				var sink bytesSink
				err = tpl.ExecuteWriterUnbuffered(ctx, &sink)
				o = string(sink.b)
			}
			if err != nil {
				return "err " + err.Error()
			}
			return "ok " + hx(o)
		}()
	}
	return
}

// filterTagIsChain: {% filter chain %}body{% endfilter %} equals {{ rendered|chain }} with the
// rendered body marked safe - for literal and computed bodies, under both autoescape settings and
// under the whitespace options
func filterTagIsChain(res *Result, proj, sig string) {
	bodies := []string{"<b>bold</b>", "{{ x|safe }}", "{{ x }}", "\nHello World\n    ", "  a {{ y }} b\n", "Tom & \"Jerry\" 'n' <friends>", "{% if 1 %}\n q\n{% endif %}\n", "", "\n"}
	chains := []string{"escape", "e", "length", "upper|ljust:20", "escape|upper", "safe|escape", "escapejs", "length|add:1", "linebreaksbr", "e|e"}
	ctx := pongo2.Context{"x": `Tom & "Jerry" 'n' <friends>`, "y": "<y>"}
	for _, opts := range [][2]bool{{false, false}, {true, true}, {true, false}, {false, true}} {
		for _, auto := range []string{"on", "off"} {
			for _, body := range bodies {
				set := pongo2.NewSet("ftc", &memLoader{files: map[string]string{}})
				set.Options.TrimBlocks, set.Options.LStripBlocks = opts[0], opts[1]
				// the rendered body: what every other block tag of this set makes of it
				bt := mustCompile(set, "{% autoescape "+auto+" %}{% if 1 %}"+body+"{% endif %}{% endautoescape %}")
				if bt == nil {
					continue
				}
				rb := execOnce(bt, ctx)
				if rb.err != "" || rb.pan != "" {
					continue
				}
				for _, chain := range chains {
					res.Cases++
					got := execOnce(mustCompile(set, "{% autoescape "+auto+" %}{% filter "+chain+" %}"+body+"{% endfilter %}{% endautoescape %}"), ctx).String()
					want := execOnce(mustCompile(set, "{% autoescape "+auto+" %}{{ rendered|safe|"+chain+" }}{% endautoescape %}"), pongo2.Context{"rendered": rb.out}).String()
					// the tag writes the chain's result as it is; {{ }} escapes an unsafe result once more under autoescape
					want2 := execOnce(mustCompile(set, "{% autoescape off %}{{ rendered|safe|"+chain+" }}{% endautoescape %}"), pongo2.Context{"rendered": rb.out}).String()
					if got != want && got != want2 {
						oracleFail(res, proj, sig, fmt.Sprintf("{%% filter %s %%}%s{%% endfilter %%} under autoescape %s, TrimBlocks=%v LStripBlocks=%v", chain, body, auto, opts[0], opts[1]), got, want2+" ({{ rendered|safe|"+chain+" }} with rendered = "+fmt.Sprintf("%q", rb.out)+")")
					}
				}
			}
		}
	}
}

// c17FilterTagEscape: escape / e in the filter tag obey the escape law on what the body rendered to
func c17FilterTagEscape(res *Result) {
	ctx := pongo2.Context{"x": `Tom & "Jerry" 'n' <friends>`}
	for _, auto := range []string{"on", "off"} {
		for _, f := range []string{"escape", "e", "safe|escape", "escape|safe", "upper|e"} {
			for _, body := range []string{"<b>bold</b>", "{{ x|safe }}", `a & b "c" 'd' <e>`, "{% autoescape off %}{{ x }}{% endautoescape %}"} {
				res.Cases++
				r := implRender("{% autoescape "+auto+" %}{% filter "+f+" %}"+body+"{% endfilter %}{% endautoescape %}", ctx)
				if r.Err != "" || r.Panicked {
					oracleFail(res, "filter", "c17-filter-tag-escape", fmt.Sprintf("{%% filter %s %%}%s{%% endfilter %%} under autoescape %s", f, body, auto), r.String(), "renders")
					continue
				}
				if strings.ContainsAny(r.Out, "<>\"'") || strings.Contains(strings.NewReplacer("&amp;", "", "&lt;", "", "&gt;", "", "&quot;", "", "&#39;", "").Replace(r.Out), "&") {
					oracleFail(res, "filter", "c17-filter-tag-escape", fmt.Sprintf("{%% filter %s %%}%s{%% endfilter %%} under autoescape %s", f, body, auto), r.String(), "no < > \" ' and no bare & in the output of escape")
				}
			}
		}
	}
}

// c19RegisterTwice: a second registration under a taken name is refused - the same function value,
// another closure of the same constructor, another function - and the first one stays in force
func c19RegisterTwice(res *Result) {
	mk := func(suffix string) pongo2.FilterFunction {
		return func(in *pongo2.Value, param *pongo2.Value) (*pongo2.Value, *pongo2.Error) {
			return pongo2.AsValue(in.String() + suffix), nil
		}
	}
	name := fmt.Sprintf("verif_twice_%d", time.Now().UnixNano())
	one := mk("-one")
	first := pongo2.RegisterFilter(name, one)
	res.Cases++
	if first != nil {
		oracleFail(res, "chain", "c19-register-twice", "RegisterFilter("+name+") for a fresh name", first.Error(), "nil")
		return
	}
	for what, fn := range map[string]pongo2.FilterFunction{"the same function value": one, "another closure of the same constructor": mk("-two"), "another function": func(in, p *pongo2.Value) (*pongo2.Value, *pongo2.Error) { return in, nil }} {
		res.Cases++
		if err := pongo2.RegisterFilter(name, fn); err == nil {
			oracleFail(res, "chain", "c19-register-twice", "RegisterFilter under a taken name with "+what, "nil", "an 'already registered' error")
		}
	}
	res.Cases++
	if r := implRender("{{ 'v'|"+name+" }}", nil); r.Out != "v-one" {
		oracleFail(res, "chain", "c19-register-twice", "the filter in force after refused registrations", r.String(), "v-one")
	}
	tname := fmt.Sprintf("veriftwice%d", time.Now().UnixNano())
	mkTag := func(text string) pongo2.TagParser {
		return func(doc *pongo2.Parser, start *pongo2.Token, args *pongo2.Parser) (pongo2.INodeTag, *pongo2.Error) {
			return textNode(text), nil
		}
	}
	t1 := mkTag("one")
	res.Cases++
	if err := pongo2.RegisterTag(tname, t1); err != nil {
		oracleFail(res, "chain", "c19-register-twice", "RegisterTag("+tname+") for a fresh name", err.Error(), "nil")
		return
	}
	for what, fn := range map[string]pongo2.TagParser{"the same function value": t1, "another closure of the same constructor": mkTag("two")} {
		res.Cases++
		if err := pongo2.RegisterTag(tname, fn); err == nil {
			oracleFail(res, "chain", "c19-register-twice", "RegisterTag under a taken name with "+what, "nil", "an 'already registered' error")
		}
	}
	res.Cases++
	if r := implRender("{% "+tname+" %}", nil); r.Out != "one" {
		oracleFail(res, "chain", "c19-register-twice", "the tag in force after refused registrations", r.String(), "one")
	}
}

// twoBaseDirs: a set over two file-system loaders with different base directories. Every name is
// looked up in both, in order, whoever refers to it; FromFile and FromCache agree; CleanCache(name)
// drops what FromCache(name) stored.
func twoBaseDirs(res *Result, proj, sig string) {
	d0, err0 := os.MkdirTemp("", "verif-two-a-")
	d1, err1 := os.MkdirTemp("", "verif-two-b-")
	if err0 != nil || err1 != nil {
		return
	}
	defer os.RemoveAll(d0)
	defer os.RemoveAll(d1)
	w := func(d, n, s string) {
		os.MkdirAll(filepath.Dir(filepath.Join(d, n)), 0o755)
		os.WriteFile(filepath.Join(d, n), []byte(s), 0o644)
	}
	w(d0, "main.tpl", `[{% include "part.tpl" %}]`)
	w(d1, "part.tpl", `part`)
	w(d0, "lazy.tpl", `[{% include n %}]`)
	w(d0, "child.tpl", `{% extends "base.tpl" %}{% block b %}c{% endblock %}`)
	w(d1, "base.tpl", `<{% block b %}{% endblock %}>`)
	w(d0, "imp.tpl", `{% import "m.tpl" m %}{{ m() }}`)
	w(d1, "m.tpl", `{% macro m() export %}M{% endmacro %}`)
	w(d0, "ssi.tpl", `{% ssi "part.tpl" parsed %}|{% ssi "part.tpl" %}`)
	w(d1, "only1.tpl", `one{% include "sub/x.tpl" %}`)
	w(d1, "sub/x.tpl", `X`)
	w(d0, "both.tpl", `first`)
	w(d1, "both.tpl", `second`)
	w(d1, "useboth.tpl", `{% include "both.tpl" %}`)
	w(d0, "opt.tpl", `[{% include "nowhere.tpl" if_exists %}{% include "part.tpl" if_exists %}]`)
	set := pongo2.NewSet("two-base-dirs", pongo2.MustNewLocalFileSystemLoader(d0), pongo2.MustNewLocalFileSystemLoader(d1))
	ctx := pongo2.Context{"n": "part.tpl"}
	for _, c := range [][2]string{{"main.tpl", "[part]"}, {"lazy.tpl", "[part]"}, {"child.tpl", "<c>"}, {"imp.tpl", "M"}, {"ssi.tpl", "part|part"}, {"only1.tpl", "oneX"}, {"both.tpl", "first"}, {"useboth.tpl", "first"}, {"opt.tpl", "[part]"}} {
		for _, route := range []string{"FromFile", "FromCache", "FromCache again", "RenderTemplateFile"} {
			res.Cases++
			got := within(10*time.Second, func() string {
				var tpl *pongo2.Template
				var err error
				switch route {
				case "FromFile":
					tpl, err = set.FromFile(c[0])
				case "RenderTemplateFile":
					out, err := set.RenderTemplateFile(c[0], ctx)
					if err != nil {
						return "err " + err.Error()
					}
					return out
				default:
					tpl, err = set.FromCache(c[0])
				}
				if err != nil {
					return "err " + err.Error()
				}
				r := execOnce(tpl, ctx)
				if r.err != "" || r.pan != "" {
					return r.String()
				}
				return r.out
			})
			if got != c[1] {
				oracleFail(res, proj, sig, fmt.Sprintf("%s(%q) in a set over two LocalFilesystemLoaders with different base directories (the files it refers to are in the second)", route, c[0]), got, c[1])
			}
		}
	}
	// templates compiled from strings refer to files by the same names: under the base directories
	one := pongo2.NewSet("one-base-dir", pongo2.MustNewLocalFileSystemLoader(d1))
	for _, c := range []struct {
		set       *pongo2.TemplateSet
		src, want string
	}{
		{set, `[{% include "part.tpl" %}]`, "[part]"}, {set, `[{% include n %}]`, "[part]"}, {set, `{% extends "base.tpl" %}{% block b %}s{% endblock %}`, "<s>"},
		{set, `{% import "m.tpl" m %}{{ m() }}`, "M"}, {set, `{% ssi "part.tpl" parsed %}|{% ssi "part.tpl" %}`, "part|part"}, {set, `{% include "only1.tpl" %}`, "oneX"},
		{set, `{% include "both.tpl" %}`, "first"}, {set, `[{% include "main.tpl" %}]`, "[[part]]"}, {set, `{% include "sub/x.tpl" %}`, "X"}, {set, `[{% include "nowhere.tpl" if_exists %}]`, "[]"},
		{one, `[{% include "part.tpl" %}]`, "[part]"}, {one, `[{% include n %}]`, "[part]"}, {one, `{% extends "base.tpl" %}{% block b %}s{% endblock %}`, "<s>"},
		{one, `{% import "m.tpl" m %}{{ m() }}`, "M"}, {one, `{% ssi "part.tpl" parsed %}|{% ssi "part.tpl" %}`, "part|part"}, {one, `{% include "only1.tpl" %}`, "oneX"}, {one, `{% include "both.tpl" %}`, "second"},
	} {
		res.Cases++
		got := within(10*time.Second, func() string {
			tpl, err := c.set.FromString(c.src)
			if err != nil {
				return "err " + err.Error()
			}
			r := execOnce(tpl, ctx)
			if r.err != "" || r.pan != "" {
				return r.String()
			}
			return r.out
		})
		if got != c.want {
			which := "the two-directory set"
			if c.set == one {
				which = "a set over one LocalFilesystemLoader with a base directory"
			}
			oracleFail(res, proj, sig, fmt.Sprintf("FromString(%q) in %s", c.src, which), got, c.want)
		}
	}
	// the cache: same object until CleanCache names it, then the changed file
	for _, name := range []string{"only1.tpl", "main.tpl"} {
		res.Cases++
		a, e1 := set.FromCache(name)
		b, e2 := set.FromCache(name)
		if e1 != nil || e2 != nil || a != b {
			oracleFail(res, proj, sig, "FromCache("+name+") twice in the two-directory set", fmt.Sprintf("%p %v / %p %v", a, e1, b, e2), "the same template")
			continue
		}
		dir := d0
		if name == "only1.tpl" {
			dir = d1
		}
		w(dir, name, "changed")
		set.CleanCache(name)
		c, e3 := set.FromCache(name)
		if e3 != nil || c == a {
			oracleFail(res, proj, sig, "FromCache("+name+") after the file changed and CleanCache("+name+")", fmt.Sprintf("same=%v err=%v", c == a, e3), "a fresh template")
			continue
		}
		if r := execOnce(c, ctx); r.out != "changed" {
			oracleFail(res, proj, sig, "FromCache("+name+") after the file changed and CleanCache("+name+")", r.String(), "changed")
		}
	}
}

// c14Repeated: the four entry points agree on every one of several executions in a row of one
// compiled template - also for templates of length zero, templates that print nothing, templates
// whose output is much longer or much shorter than their source, and pages including such partials
func c14Repeated(res *Result) {
	files := map[string]string{"/empty.tpl": "", "/blank.tpl": "{# nothing #}", "/big.tpl": "{% for i in many %}{{ long }}{% endfor %}", "/page.tpl": `<{% include "/empty.tpl" %}|{% include "/blank.tpl" %}|{% include "/big.tpl" %}>`,
		"/child.tpl": `{% extends "/base.tpl" %}`, "/base.tpl": ""}
	ctxs := []pongo2.Context{{"many": make([]int, 50), "long": strings.Repeat("x", 100)}, {"many": []int{}, "long": ""}, {"many": make([]int, 3), "long": "y"}, nil}
	srcs := []string{"", "{# c #}", "{% if 0 %}never{% endif %}", "{{ nothing }}", `{% include "/empty.tpl" %}`, `{% include "/page.tpl" %}`, `{% for i in many %}{{ long }}{% endfor %}`, strings.Repeat("{# padding padding padding #}", 40) + "x"}
	for _, name := range []string{"/empty.tpl", "/blank.tpl", "/big.tpl", "/page.tpl", "/child.tpl"} {
		srcs = append(srcs, "file:"+name)
	}
	for _, src := range srcs {
		set := pongo2.NewSet("c14-repeated", &memLoader{files: files})
		var tpl *pongo2.Template
		var err error
		if strings.HasPrefix(src, "file:") {
			tpl, err = set.FromFile(strings.TrimPrefix(src, "file:"))
		} else {
			tpl, err = set.FromString(src)
		}
		if err != nil {
			oracleFail(res, "variants", "c14-repeated-executions", src, "err "+err.Error(), "compiles")
			continue
		}
		for round := 0; round < 6; round++ {
			res.Cases++
			ctx := ctxs[round%len(ctxs)]
			got := execFour(tpl, ctx)
			fresh := pongo2.NewSet("c14-repeated-fresh", &memLoader{files: files})
			var ft *pongo2.Template
			if strings.HasPrefix(src, "file:") {
				ft, _ = fresh.FromFile(strings.TrimPrefix(src, "file:"))
			} else {
				ft, _ = fresh.FromString(src)
			}
			want := "ok " + hx(execOnce(ft, ctx).out)
			for i, g := range got {
				if g != want {
					oracleFail(res, "variants", "c14-repeated-executions", fmt.Sprintf("%q, execution round %d of one compiled template (contexts of very different output sizes in turn), through %s", src, round+1, fourNames[i]), g, want+" (a fresh compile, Execute)")
					break
				}
			}
		}
	}
}

// c02UnderSwitch: inside an `autoescape on` region context text is escaped whatever the package
// default says - also when it travels through a macro called, defined or assigned in the region.
// (An included template is an execution of its own: it starts in the package default mode, under
// either default - the region of the includer does not reach into it; not part of this oracle.)
func c02UnderSwitch(res *Result) {
	defer pongo2.SetAutoescape(true)
	const mark = `<img src=x onerror="a('1')">&`
	files := map[string]string{"/lib.tpl": `{% macro hi(who) export %}Hello {{ who }}!{% endmacro %}`, "/show.tpl": `[{{ name }}{{ other }}]`}
	bodies := []string{
		`{% macro hello(who) %}Hello {{ who }}!{% endmacro %}{% autoescape on %}{{ hello(name) }}{% endautoescape %}`,
		`{% macro hello(who=name) %}Hello {{ who }}!{% endmacro %}{% autoescape on %}{{ hello() }}{% endautoescape %}`,
		`{% macro hello() %}Hello {{ name }}!{% endmacro %}{% autoescape on %}{{ hello() }}{% endautoescape %}`,
		`{% macro hello(who) %}Hello {{ who }}!{% endmacro %}{% autoescape on %}{% set g = hello(name) %}{{ g }}{% endautoescape %}`,
		`{% autoescape on %}{% macro hello(who) %}Hello {{ who }}!{% endmacro %}{{ hello(name) }}{% for q in l %}{{ hello(name) }}{% endfor %}{% endautoescape %}`,
		`{% import "/lib.tpl" hi %}{% autoescape on %}{{ hi(name) }}{% endautoescape %}`,
		`{% autoescape on %}{% import "/lib.tpl" hi %}{{ hi(name) }}{% with z=hi(name) %}{{ z }}{% endwith %}{% endautoescape %}`,
		`{% autoescape on %}{{ name }}{% for q in l %}{{ name }}{% endfor %}{% with o=name %}{{ o }}{% endwith %}{% firstof name %}{% cycle name name %}{% endautoescape %}`,
		`{% autoescape on %}{% filter upper %}{{ name }}{% endfilter %}{{ name|upper }}{{ [name]|first }}{{ name|default:"x" }}{{ nothing|default:name }}{% endautoescape %}`,
	}
	for _, sw := range []bool{false, true} {
		pongo2.SetAutoescape(sw)
		for _, src := range bodies {
			res.Cases++
			r := implRenderFiles(src, files, pongo2.Context{"name": mark, "l": []int{1}})
			if r.Err != "" || r.Panicked {
				oracleFail(res, "taint", "c02-region-under-switch", fmt.Sprintf("%s after SetAutoescape(%v)", src, sw), r.String(), "renders")
				continue
			}
			if strings.Contains(r.Out, "<img") || strings.Contains(strings.ToLower(r.Out), `onerror="`) || !strings.Contains(strings.ToLower(r.Out), "&lt;img") {
				oracleFail(res, "taint", "c02-region-under-switch", fmt.Sprintf("%s with name=%q after SetAutoescape(%v)", src, mark, sw), r.String(), "the context text only in escaped form inside the region")
			}
		}
	}
	pongo2.SetAutoescape(true)
}

// c20LoaderHistories: cache histories over a set that gets further loaders with base directories of
// their own (AddLoader), compared with the Lean cache model (Model/Sets.lean: `more`): identity
// classes of the returned templates, errors, and every Get of every loader in order
func c20LoaderHistories(cfg Config, res *Result) {
	n := 800
	if cfg.Thorough() {
		n = 20000
	}
	rng := NewRNG(cfg.Seed*31 + 0xC20)
	names := []string{"a.tpl", "b.tpl", "./a.tpl", "/r/a.tpl", "sub/c.tpl", "../b.tpl", "/b/b.tpl", "c.tpl"}
	bases := []string{"/r", "/b", "/b/sub", "/r/"}
	bodies := []string{"x", "y{{ 1 }}", "{% if %}", "z"}
	var reqs, impls, descs []string
	for i := 0; i < n; i++ {
		sink := &sharedLog{}
		first := &memLoader{files: map[string]string{}, id: "0", sink: sink}
		set := pongo2.NewSet("c20l", first)
		var more []*memLoader
		var wire, desc, out []string
		ids := map[*pongo2.Template]int{}
		for j, k := 0, 3+rng.Intn(18); j < k; j++ {
			switch c := rng.Intn(12); {
			case c == 0 && len(more) < 3 || j == 0:
				b := rng.Pick(bases)
				ml := &memLoader{files: map[string]string{}, id: fmt.Sprint(len(more) + 1), sink: sink, root: b}
				more = append(more, ml)
				set.AddLoader(ml)
				wire = append(wire, "B "+hxb(b))
				desc = append(desc, "AddLoader(base "+b+")")
			case c <= 3 && len(more) > 0:
				ix := rng.Intn(len(more))
				name := rng.Pick(names)
				key := more[ix].Abs("", name)
				if rng.Chance(1, 5) {
					delete(more[ix].files, key)
					wire = append(wire, fmt.Sprintf("V %d %s !", ix, hxb(name)))
					desc = append(desc, fmt.Sprintf("loader %d: delete %s", ix+1, name))
				} else {
					b := rng.Pick(bodies)
					more[ix].files[key] = b
					wire = append(wire, fmt.Sprintf("V %d %s %s", ix, hxb(name), hxb(b)))
					desc = append(desc, fmt.Sprintf("loader %d: write %s=%q", ix+1, name, b))
				}
			case c == 4:
				name := rng.Pick(names)
				key := first.Abs("", name)
				if rng.Chance(1, 4) {
					delete(first.files, key)
					wire = append(wire, "W "+hxb(name)+" !")
					desc = append(desc, "loader 0: delete "+name)
				} else {
					b := rng.Pick(bodies)
					first.files[key] = b
					wire = append(wire, "W "+hxb(name)+" "+hxb(b))
					desc = append(desc, fmt.Sprintf("loader 0: write %s=%q", name, b))
				}
			case c == 5:
				set.CleanCache()
				wire = append(wire, "A")
				desc = append(desc, "CleanCache()")
			case c == 6:
				name := rng.Pick(names)
				set.CleanCache(name)
				wire = append(wire, "K 1 "+hxb(name))
				desc = append(desc, "CleanCache("+name+")")
			case c == 7:
				set.Debug = rng.Bool()
				if set.Debug {
					wire = append(wire, "D1")
				} else {
					wire = append(wire, "D0")
				}
				desc = append(desc, fmt.Sprint("Debug=", set.Debug))
			default:
				name := rng.Pick(names)
				got := within(5*time.Second, func() string {
					tpl, err := set.FromCache(name)
					if err != nil || tpl == nil {
						return "e"
					}
					if _, ok := ids[tpl]; !ok {
						ids[tpl] = len(ids)
					}
					return fmt.Sprintf("t%d", ids[tpl])
				})
				out = append(out, got)
				wire = append(wire, "G "+hxb(name))
				desc = append(desc, "FromCache("+name+")")
			}
		}
		var logNames []string
		sink.mu.Lock()
		for _, l := range sink.log {
			logNames = append(logNames, hxb(l[strings.Index(l, ":")+1:]))
		}
		sink.mu.Unlock()
		impls = append(impls, strings.Join(out, " ")+" | "+strings.Join(logNames, ","))
		reqs = append(reqs, "cache "+strings.Join(wire, " "))
		descs = append(descs, strings.Join(desc, "; "))
	}
	model, err := runDriver(cfg.Driver, reqs)
	if err != nil {
		res.add(Finding{Kind: "disagree", Proj: "driver", Sig: "driver-failed", Model: err.Error()})
		return
	}
	res.Cases += len(reqs)
	for i := range reqs {
		if model[i] != impls[i] {
			res.add(Finding{Kind: "disagree", Proj: "cache", Sig: "c20-loaders-model", Case: descs[i], Impl: impls[i], Model: model[i]})
		}
	}
}

package main

import (
	"bufio"
	"context"
	"errors"
	"fmt"
	"math"
	"os"
	"os/exec"
	"runtime/debug"
	"strconv"
	"strings"
	"time"

	pongo2 "github.com/flosch/pongo2/v6"
)

func init() {
	suites["c01-bytes"] = func(cfg Config, res *Result) { suiteC01(cfg, res, "bytes") }
	suites["c01-prog"] = func(cfg Config, res *Result) { suiteC01(cfg, res, "prog") }
	suites["c01-paths"] = func(cfg Config, res *Result) { suiteC01(cfg, res, "paths") }
	suites["c01-files"] = func(cfg Config, res *Result) { suiteC01(cfg, res, "files") }
	suites["c01-worker"] = suiteC01Worker
}

// one totality case: compile Src (or the file named Src) and execute it
type c01Case struct {
	Src      string
	FromFile bool
	Files    map[string]string
	Ctx      string // "nil" | "std" | "exotic"
	StdSeed  uint64
	Sig      string // what the case is about (for triage / known findings)
}

func (c c01Case) String() string {
	s := fmt.Sprintf("src=%q ctx=%s", c.Src, c.Ctx)
	if c.FromFile {
		s = "file=" + c.Src + " ctx=" + c.Ctx
	}
	for _, n := range sortedKeys(c.Files) {
		s += fmt.Sprintf(" [%s]=%q", n, c.Files[n])
	}
	return s
}

// --- the exotic value universe -------------------------------------------------

type exStruct struct {
	A      string
	B      int
	C      []int
	D      map[string]int
	E      *exStruct
	F      any
	G      func(int) int
	hidden string
	T      time.Time
}

func (e exStruct) Hello() string                                       { return "hello " + e.A }
func (e exStruct) Add(a, b int) int                                    { return a + b }
func (e *exStruct) PtrMethod() string                                  { return "ptr" }
func (e exStruct) Fails() (string, error)                              { return "", errors.New("method failed") }
func (e exStruct) Var(xs ...string) string                             { return strings.Join(xs, "+") }
func (e exStruct) WithCtx(c *pongo2.ExecutionContext, s string) string { return s + "!" }
func (e exStruct) Val(v *pongo2.Value) *pongo2.Value                   { return pongo2.AsValue(v.String() + "?") }

type exEmbedded struct {
	exStruct
	Own string
}

// exEmbPtr embeds a pointer: its promoted fields and methods are behind a pointer that may be nil
type exEmbPtr struct {
	*exStruct
	Y int
}

type exTag [2]uint8

type exBytes struct {
	Sum [3]uint8
	Raw []byte
}

type exFuncField struct {
	F func() int
	G func(int) int
}

func exoticCtx() pongo2.Context {
	st := exStruct{A: "a<b", B: 7, C: []int{1, 2, 3}, D: map[string]int{"x": 1}, F: 3.5, G: func(i int) int { return i + 1 }, T: time.Date(2020, 2, 29, 12, 30, 0, 0, time.UTC)}
	st2 := st
	st2.E = &st
	var nilSt *exStruct
	var nilTime *time.Time
	pst := &st2
	ppst := &pst
	var nilIface any = nilSt
	arr := [3]int{4, 5, 6}
	return pongo2.Context{
		"s": "hello", "e": "", "bad": "\xff\xfe\x80", "uni": "日本語 Ünï", "num": "42", "fl": "3.75x",
		"i": 7, "z": 0, "neg": -3, "i8": int8(-128), "i64min": int64(math.MinInt64), "i64max": int64(math.MaxInt64),
		"u": uint(9), "u8": uint8(255), "u64max": uint64(math.MaxUint64),
		"f": 1.5, "nan": math.NaN(), "inf": math.Inf(1), "ninf": math.Inf(-1), "negz": math.Copysign(0, -1), "big": 1e308, "tiny": 5e-324, "f32": float32(0.1),
		"t": true, "ff": false, "n": nil,
		"l": []int{3, 1, 2}, "le": []int{}, "ls": []string{"b", "a"}, "la": []any{nil, 1, "x", 2.5, []int{1}}, "lnil": []int(nil), "by": []byte("bytes"),
		"arr": arr, "parr": &arr, "arr0": [0]string{},
		"m": map[string]any{"k": 1, "a": "x", "nil": nil}, "im": map[int]string{1: "one", 2: "two"}, "fm": map[float64]int{1.5: 1}, "bm": map[bool]string{true: "yes"},
		"am": map[any]any{"k": 1, 2: "two"}, "mnil": map[string]int(nil), "mm": map[string]map[string][]int{"a": {"b": {1, 2}}},
		"st": st2, "pst": pst, "ppst": ppst, "nilst": nilSt, "niliface": nilIface, "emb": exEmbedded{exStruct: st, Own: "own"},
		"sv": SString("str"), "si": SInt(5), "tm": st.T, "ptm": &st.T, "niltm": nilTime, "dur": 90 * time.Second,
		"fn0": func() string { return "fn0" }, "fn1": func(i int) int { return i * 2 }, "fnv": func(xs ...int) int { return len(xs) },
		"fnval": func(v *pongo2.Value) *pongo2.Value { return pongo2.AsValue(v.Len()) }, "fnerr": func() (string, error) { return "", errors.New("boom") },
		"fnctx": func(c *pongo2.ExecutionContext) string { return "ctx" }, "fn2": func(a string, b int) string { return a + strconv.Itoa(b) },
		"fnany": func(a any) any { return a }, "fnnil": func() any { return nil }, "fn3out": func() (int, int, int) { return 1, 2, 3 }, "fn0out": func() {},
		"fnsafe": func() *pongo2.Value { return pongo2.AsSafeValue("<b>") }, "fnbad2": func() (string, string) { return "a", "b" },
		"val": pongo2.AsValue(3), "sval": pongo2.AsSafeValue("<i>"), "err": errors.New("an error"),
		// parameters of pointer, struct, container and interface types
		"fnp": func(p *exStruct) string {
			if p == nil {
				return "nil"
			}
			return p.A
		},
		"fnst": func(s exStruct) string { return s.A }, "fnl": func(l []int) int { return len(l) }, "fnm": func(m map[string]int) int { return len(m) },
		"fntm": func(t *time.Time) bool { return t == nil }, "fnstr": func(s fmt.Stringer) bool { return s == nil }, "fnerrarg": func(e error) bool { return e == nil },
		"fnpp": func(p **exStruct, q *[3]int) bool { return p == nil && q == nil },
		// nil in unusual places: behind an embedded pointer, as a function value, as a *Value result
		"embnil": exEmbPtr{Y: 1}, "pembnil": &exEmbPtr{Y: 2}, "embok": exEmbPtr{exStruct: &st, Y: 3},
		"nilfn": (func() int)(nil), "nilfn1": (func(int) int)(nil), "ffield": exFuncField{}, "fnnilval": func() *pongo2.Value { return nil },
		"fnpanic": func() string { panic("user function panics") },
		// byte arrays and slices in every position (by value: not addressable)
		"barr": [4]byte{'a', '<', 0xff, 0}, "barr0": [0]byte{}, "btag": exTag{1, 2}, "bfield": exBytes{Sum: [3]uint8{1, 2, 3}, Raw: []byte("r<")}, "barrs": [2][2]byte{{1, 2}, {3, 4}},
	}
}

var exNames = []string{"s", "e", "bad", "uni", "num", "fl", "i", "z", "neg", "i8", "i64min", "i64max", "u", "u8", "u64max", "f", "nan", "inf", "ninf", "negz", "big", "tiny", "f32",
	"t", "ff", "n", "l", "le", "ls", "la", "lnil", "by", "arr", "parr", "arr0", "m", "im", "fm", "bm", "am", "mnil", "mm", "st", "pst", "ppst", "nilst", "niliface", "emb",
	"sv", "si", "tm", "ptm", "niltm", "dur", "fn0", "fn1", "fnv", "fnval", "fnerr", "fnctx", "fn2", "fnany", "fnnil", "fn3out", "fn0out", "fnsafe", "fnbad2", "val", "sval", "err", "undefined",
	"fnp", "fnst", "fnl", "fnm", "fntm", "fnstr", "fnerrarg", "fnpp",
	"embnil", "pembnil", "embok", "nilfn", "nilfn1", "ffield", "fnnilval", "barr", "barr0", "btag", "bfield", "barrs"}

// functions whose parameters are of pointer / struct / container / interface type: called with every value of the universe
var exTypedFuncs = []string{"fnp", "fnst", "fnl", "fnm", "fntm", "fnstr", "fnerrarg", "fnpp", "fnany", "fnval"}

var exSteps = []string{"Sum", "Raw", "Y", "A", "B", "C", "D", "E", "F", "G", "T", "hidden", "Own", "Hello", "Add", "PtrMethod", "Fails", "Var", "WithCtx", "Val", "String", "Year", "Unix", "Seconds",
	"k", "a", "x", "b", "key", "0", "1", "2", "99", "Len", "Missing", "exStruct", "Error"}

// --- generators ----------------------------------------------------------------

type c01Gen struct {
	r       *RNG
	filters []string
	tags    []string
}

func (g *c01Gen) name() string { return g.r.Pick(exNames) }

func (g *c01Gen) lit() string {
	if g.r.Chance(1, 40) {
		return g.r.Pick([]string{"99999999999999999999", "1e5", "1.", "0x10", "'unterminated"})
	}
	return g.r.Pick([]string{"0", "1", "2", "99", "3.5", `"x"`, `"k"`, `""`, `"1"`, "true", "false", "9223372036854775807", `"A"`, `"%d"`, `"2006"`, "0.0", "100000", `"a,b"`})
}

func (g *c01Gen) args(d int) string {
	k := g.r.Intn(4)
	args := make([]string, k)
	for j := range args {
		if d > 0 && g.r.Bool() {
			args[j] = g.expr(d - 1)
		} else if g.r.Bool() {
			args[j] = g.name()
		} else {
			args[j] = g.lit()
		}
	}
	return "(" + strings.Join(args, ", ") + ")"
}

// path: name, then steps; a call may directly follow a name or an identifier step
func (g *c01Gen) path(d int) string {
	r := g.r
	p := g.name()
	if r.Chance(1, 6) {
		p += g.args(d)
	}
	n := r.Intn(4)
	for i := 0; i < n; i++ {
		p += "." + r.Pick(exSteps)
		if r.Chance(1, 4) {
			p += g.args(d)
		}
	}
	// the parser ends a variable after one subscript
	if r.Chance(1, 4) {
		if d > 0 && r.Bool() {
			p += "[" + g.expr(d-1) + "]"
		} else if r.Bool() {
			p += "[" + g.name() + "]"
		} else {
			p += "[" + g.lit() + "]"
		}
		if r.Chance(1, 12) {
			p += "." + r.Pick(exSteps)
		}
	}
	return p
}

func (g *c01Gen) filterApp(d int) string {
	f := g.r.Pick(g.filters)
	switch g.r.Intn(4) {
	case 0:
		return f
	case 1:
		return f + ":" + g.lit()
	case 2:
		return f + ":" + g.name()
	}
	if d > 0 {
		return f + ":" + g.path(d-1)
	}
	return f + ":" + g.lit()
}

func (g *c01Gen) term(d int) string {
	r := g.r
	var a string
	switch r.Intn(8) {
	case 0:
		a = g.lit()
	case 1:
		k := 1 + r.Intn(3)
		items := make([]string, k)
		for i := range items {
			if r.Bool() {
				items[i] = g.lit()
			} else {
				items[i] = g.path(0)
			}
		}
		a = "[" + strings.Join(items, ", ") + "]"
	default:
		a = g.path(d)
	}
	for r.Chance(1, 3) {
		a += "|" + g.filterApp(d)
	}
	return a
}

func (g *c01Gen) expr(d int) string {
	r := g.r
	a := g.term(d)
	if r.Chance(1, 10) {
		a = r.Pick([]string{"-", "not ", "!"}) + strings.TrimPrefix(a, "-")
	}
	if d > 0 && r.Chance(1, 3) {
		op := r.Pick([]string{" + ", " - ", " * ", " / ", " % ", " ^ ", " == ", " != ", " < ", " <= ", " > ", " >= ", " in ", " and ", " or ", " && ", " || "})
		rhs := g.term(d - 1)
		if r.Chance(1, 4) {
			rhs = "(" + g.expr(d-1) + ")"
		}
		a = a + op + rhs
	}
	if r.Chance(1, 10) {
		a = "(" + a + ")"
	}
	return a
}

func (g *c01Gen) stmt(d int) string {
	r := g.r
	e := func() string { return g.expr(2) }
	body := func() string {
		if d <= 0 {
			return "{{ " + e() + " }}"
		}
		return g.stmt(d-1) + r.Pick([]string{"", "x", g.stmt(d - 1)})
	}
	switch r.Intn(26) {
	case 0, 1, 2, 3, 4:
		return "{{ " + e() + " }}"
	case 5:
		return "{% if " + e() + " %}" + body() + r.Pick([]string{"", "{% elif " + e() + " %}b", "{% else %}c"}) + "{% endif %}"
	case 6:
		return "{% for q in " + e() + r.Pick([]string{"", " reversed", " sorted", " reversed sorted"}) + " %}{{ q }}{{ forloop.Counter }}" + body() + "{% empty %}e{% endfor %}"
	case 7:
		return "{% for k, v in " + g.path(1) + " sorted %}{{ k }}{{ v }}{{ forloop.Parentloop.Counter }}{% endfor %}"
	case 8:
		return "{% set " + r.Pick([]string{"v", "forloop", "block", "s", "q"}) + " = " + e() + " %}" + body()
	case 9:
		return "{% with v=" + e() + " w=" + e() + " %}{{ v }}{{ w }}" + body() + "{% endwith %}"
	case 10:
		return "{% firstof " + e() + " " + g.path(1) + " %}"
	case 11:
		k := r.Intn(3)
		args := ""
		for i := 0; i < k; i++ {
			args += " " + g.path(1)
		}
		return "{% for q in l %}{% cycle" + args + r.Pick([]string{"", " as cy", " as cy silent"}) + " %}{% endfor %}"
	case 12:
		return "{% for q in l %}{% ifchanged " + r.Pick([]string{"", e()}) + " %}{{ q }}{% else %}x{% endifchanged %}{% endfor %}"
	case 13:
		return "{% ifequal " + g.path(1) + " " + g.path(1) + " %}a{% else %}b{% endifequal %}{% ifnotequal " + g.path(1) + " " + g.lit() + " %}c{% endifnotequal %}"
	case 14:
		return "{% widthratio " + g.path(1) + " " + g.path(1) + " " + r.Pick([]string{"100", g.path(0), "0"}) + r.Pick([]string{"", " as wr"}) + " %}"
	case 15:
		return "{% filter " + g.filterApp(1) + r.Pick([]string{"", "|" + g.filterApp(1)}) + " %}" + body() + "{% endfilter %}"
	case 16:
		np := r.Intn(3)
		ps := []string{"a", "b=" + g.lit(), "c=" + g.name()}[:np]
		k := r.Intn(4)
		args := make([]string, k)
		for i := range args {
			args[i] = e()
		}
		return "{% macro mm(" + strings.Join(ps, ", ") + ") %}{{ a }}" + body() + "{% endmacro %}{{ mm(" + strings.Join(args, ", ") + ") }}"
	case 17:
		return "{% include " + r.Pick([]string{`"inc.tpl"`, `"missing.tpl" if_exists`, g.name(), `"inc.tpl" with v=` + e(), g.name() + " if_exists", `"inc.tpl" with v=1 only`}) + " %}"
	case 18:
		return "{% now " + r.Pick([]string{`"2006-01-02"`, `""`, `"Mon"`, `"15:04" fake`, `"2006" fake`}) + " %}"
	case 19:
		return "{% lorem " + r.Pick([]string{"", "3", "0", "3 w", "2 p", "2 b random", "99999999", "1001 w", "5 w random", "1 b"}) + " %}"
	case 20:
		return "{% templatetag " + r.Pick([]string{"openblock", "closecomment", "openvariable", "closebrace"}) + " %}"
	case 21:
		return "{% spaceless %}<a> " + body() + " <b>{% endspaceless %}"
	case 22:
		return "{% autoescape " + r.Pick([]string{"on", "off"}) + " %}" + body() + "{% endautoescape %}"
	case 23:
		return "{% comment %}" + body() + "{% endcomment %}{# " + e() + " #}"
	case 24:
		return "{% block b" + fmt.Sprint(r.Intn(3)) + " %}" + body() + "{{ block.Super }}{% endblock %}"
	}
	return "{% ssi " + r.Pick([]string{`"inc.tpl"`, `"inc.tpl" parsed`}) + " %}{% import \"lib.tpl\" lm, lm as other %}{{ lm(" + e() + ") }}{{ other() }}"
}

var c01Files = map[string]string{
	"inc.tpl":  "[{{ v }}{{ s }}{% for q in l %}{{ q }}{% endfor %}]",
	"lib.tpl":  "{% macro lm(a) export %}({{ a }}){% endmacro %}",
	"base.tpl": "<{% block b0 %}base0{% endblock %}{% block b1 %}base1{% endblock %}>",
}

// mutate applies byte-level damage to a valid program
func mutate(r *RNG, s string) string {
	b := []byte(s)
	k := 1 + r.Intn(3)
	for i := 0; i < k && len(b) > 0; i++ {
		p := r.Intn(len(b))
		switch r.Intn(5) {
		case 0:
			b = append(b[:p], b[p+1:]...)
		case 1:
			b[p] = byte(r.Intn(256))
		case 2:
			ins := r.Pick([]string{"{{", "}}", "{%", "%}", "{#", "#}", "\"", "'", "|", ":", "(", ")", "[", "]", ".", "\x00", "\x01", "\xff", "\\", "-", " ", "\n", "{%-", "-%}", "verbatim", "endverbatim", "9999999999999999999999"})
			b = append(b[:p], append([]byte(ins), b[p:]...)...)
		case 3:
			q := r.Intn(len(b))
			if p > q {
				p, q = q, p
			}
			b = append(b[:p], b[q:]...)
		case 4:
			q := r.Intn(len(b))
			if p > q {
				p, q = q, p
			}
			b = append(b[:q], append(append([]byte{}, b[p:q]...), b[q:]...)...)
		}
	}
	return string(b)
}

// c01Cases deterministically generates the case list of a stream.
func c01Cases(kind string, seed uint64, n int) []c01Case {
	rng := NewRNG(seed ^ 0xc01)
	g := &c01Gen{r: rng, filters: pongo2.VerifRegisteredFilters(), tags: pongo2.VerifRegisteredTags()}
	var out []c01Case
	switch kind {
	case "bytes":
		// raw bytes, delimiter soups, and damaged valid programs; nil and std contexts
		pg := NewGen(rng)
		alphabet := []string{"{{", "}}", "{%", "%}", "{#", "#}", "{{-", "-}}", "{%-", "-%}", " ", "\n", "a", "x.y", "1", "\"s\"", "'", "\"", "|", ":", ",", "(", ")", "[", "]", "if", "endif", "for", "in", "endfor",
			"verbatim", "endverbatim", "comment", "endcomment", "block", "endblock", "macro", "endmacro", "set", "=", "with", "\x00", "\x01", "\xff", "\xc3", "é", "\\", "and", "or", "not", "+", "-", "*", "/", "%", "^", "<", ">", "==", "!", "true", "nil", "1.5", "1.", ".5", "9999999999999999999"}
		for i := 0; i < n; i++ {
			var src string
			switch rng.Intn(4) {
			case 0:
				k := rng.Intn(24)
				b := make([]byte, k)
				for j := range b {
					b[j] = byte(rng.Intn(256))
				}
				src = string(b)
			case 1:
				k := 1 + rng.Intn(12)
				for j := 0; j < k; j++ {
					src += rng.Pick(alphabet)
				}
			case 2:
				src = mutate(rng, pg.Program(1+rng.Intn(3)).Src)
			default:
				src = mutate(rng, g.stmt(1))
			}
			ctx := "nil"
			if rng.Bool() {
				ctx = "exotic"
			}
			out = append(out, c01Case{Src: src, Files: c01Files, Ctx: ctx, Sig: "bytes"})
		}
	case "prog":
		// grammar programs over every tag/filter/operator against the exotic context
		for i := 0; i < n; i++ {
			src := ""
			k := 1 + rng.Intn(3)
			for j := 0; j < k; j++ {
				src += g.stmt(2)
			}
			if rng.Chance(1, 12) {
				src = `{% extends "base.tpl" %}` + src
			}
			out = append(out, c01Case{Src: src, Files: c01Files, Ctx: "exotic", Sig: "prog"})
		}
	case "paths":
		// every name x every step x every access form, printed, measured, tested
		for _, nm := range exNames {
			for _, st := range exSteps {
				for _, form := range []string{"{{ %s.%s }}", "{{ %s[\"%s\"] }}", "{{ %s.%s|length }}", "{%% if %s.%s %%}y{%% endif %%}", "{{ %s.%s() }}", "{{ %s.%s(1) }}", "{{ %s.%s.0 }}", "{%% for q in %s.%s %%}{{ q }}{%% endfor %%}"} {
					out = append(out, c01Case{Src: fmt.Sprintf(form, nm, st), Ctx: "exotic", Sig: "paths"})
				}
			}
			for _, k := range exNames {
				out = append(out, c01Case{Src: "{{ " + nm + "[" + k + "] }}", Ctx: "exotic", Sig: "paths"})
				out = append(out, c01Case{Src: "{{ " + nm + "(" + k + ") }}{{ " + nm + "(" + k + ", " + k + ") }}", Ctx: "exotic", Sig: "paths"})
				out = append(out, c01Case{Src: "{% if " + nm + " == " + k + " or " + nm + " < " + k + " or " + nm + " in " + k + " %}y{% endif %}{{ " + nm + " + " + k + " }}{{ " + nm + " / " + k + " }}{{ " + nm + " % " + k + " }}", Ctx: "exotic", Sig: "paths"})
			}
			for _, f := range g.filters {
				out = append(out, c01Case{Src: "{{ " + nm + "|" + f + " }}", Ctx: "exotic", Sig: "paths"})
				for _, p := range []string{"0", "-1", `"x"`, "99999999999", "nan", "l", "n", "st", "3.5", `""`, "fn0", "m"} {
					out = append(out, c01Case{Src: "{{ " + nm + "|" + f + ":" + p + " }}", Ctx: "exotic", Sig: "paths"})
				}
			}
		}
		if n < len(out) {
			// quick: a seed-dependent sample
			rng2 := NewRNG(seed)
			sel := make([]c01Case, 0, n)
			for i := 0; i < n; i++ {
				sel = append(sel, out[rng2.Intn(len(out))])
			}
			out = sel
		}
		// always: the filters that count or cut, with every width, over texts whose characters are several bytes wide
		for _, txt := range []string{"http://пример.рф/очень/длинный/путь/к/странице", "www.例え.jp/日本語/パス и ещё текст", "ääää öööö üüüü ßßßß", "e\u0301e\u0301e\u0301 a\u0308", "<p>héllo <b>wörld</b></p>", "𝒳𝒴𝒵 😀😀😀 ok"} {
			for _, f := range []string{"urlizetrunc", "truncatechars", "truncatewords", "truncatechars_html", "truncatewords_html", "center", "ljust", "rjust", "wordwrap", "get_digit"} {
				for w := 0; w <= 70; w++ {
					out = append(out, c01Case{Src: fmt.Sprintf("{{ %q|%s:%d }}", txt, f, w), Ctx: "nil", Sig: "paths"})
				}
			}
			for w := -3; w <= 30; w++ {
				out = append(out, c01Case{Src: fmt.Sprintf(`{{ %q|slice:"%d:" }}{{ %q|slice:":%d" }}`, txt, w, txt, w), Ctx: "nil", Sig: "paths"})
			}
		}
		// always: every value of the universe handed to every function with a typed parameter
		for _, f := range exTypedFuncs {
			for _, k := range exNames {
				out = append(out, c01Case{Src: "{{ " + f + "(" + k + ") }}{{ " + f + "(" + k + ", " + k + ") }}", Ctx: "exotic", Sig: "paths"})
			}
		}
	case "files":
		// reference cycles between files: these can only end in an error
		mk := func(sig, entry string, files map[string]string) {
			out = append(out, c01Case{Src: entry, FromFile: true, Files: files, Ctx: "nil", Sig: sig})
		}
		mk("include-cycle", "a.tpl", map[string]string{"a.tpl": `x{% include "a.tpl" %}`})
		mk("include-cycle", "a.tpl", map[string]string{"a.tpl": `{% include "b.tpl" %}`, "b.tpl": `{% include "a.tpl" %}`})
		mk("extends-cycle", "a.tpl", map[string]string{"a.tpl": `{% extends "a.tpl" %}`})
		mk("extends-cycle", "a.tpl", map[string]string{"a.tpl": `{% extends "b.tpl" %}`, "b.tpl": `{% extends "a.tpl" %}`})
		mk("import-cycle", "a.tpl", map[string]string{"a.tpl": `{% macro m() export %}{% endmacro %}{% import "a.tpl" m %}`})
		mk("ssi-cycle", "a.tpl", map[string]string{"a.tpl": `{% ssi "a.tpl" parsed %}`})
		mk("lazy-include-cycle", "a.tpl", map[string]string{"a.tpl": `{% set f = "a.tpl" %}{% include f %}`})
		mk("include-chain", "a0.tpl", func() map[string]string {
			m := map[string]string{}
			for i := 0; i < 300; i++ {
				m[fmt.Sprintf("a%d.tpl", i)] = fmt.Sprintf(`{%% include "a%d.tpl" %%}`, i+1)
			}
			m["a300.tpl"] = "end"
			return m
		}())
		mk("macro-recursion", "a.tpl", map[string]string{"a.tpl": `{% macro m(x) %}{{ m(x) }}{% endmacro %}{{ m(1) }}`})
		// recursion that never enters the macro's body: through a default argument
		mk("macro-recursion", "a.tpl", map[string]string{"a.tpl": `{% macro a(x=a()) %}{{ x }}{% endmacro %}{{ a() }}`})
		mk("macro-recursion", "a.tpl", map[string]string{"a.tpl": `{% macro a(x=b()) %}{{ x }}{% endmacro %}{% macro b(y=a()) %}{{ y }}{% endmacro %}{{ b() }}`})
		mk("macro-recursion", "a.tpl", map[string]string{"a.tpl": `{% import "lib.tpl" a %}{{ a() }}`, "lib.tpl": `{% macro a(x=a()) export %}{{ x }}{% endmacro %}`})
		mk("macro-recursion", "a.tpl", map[string]string{"a.tpl": `{% macro a(x) %}{% with y=a(x) %}{{ y }}{% endwith %}{% endmacro %}{{ a(1) }}`})
		mk("macro-recursion", "a.tpl", map[string]string{"a.tpl": `{% macro a(x) %}{% for q in "ab" %}{% if a(q) %}{% endif %}{% endfor %}{% endmacro %}{{ a(1) }}`})
		// ifchanged over several watched expressions, each changing at its own pace
		for _, seq := range []string{"abb", "aab", "abab", "aabb", "abcabc"} {
			for _, watch := range []string{"c 1", "1 c", "c forloop.Counter", "c c|upper", "forloop.First c", "c 1 forloop.Last", "c|length c"} {
				mk("ifchanged-multi", "a.tpl", map[string]string{"a.tpl": `{% for c in "` + seq + `" %}{% ifchanged ` + watch + ` %}{{ c }}{% else %}-{% endifchanged %}{% endfor %}`})
			}
		}
		// two blocks that contain each other through inheritance
		mk("block-cycle", "child.tpl", map[string]string{"base.tpl": "[{% block a %}A0({% block b %}B0{% endblock %}){% endblock %}]",
			"child.tpl": `{% extends "base.tpl" %}{% block b %}B1<{% block a %}{{ block.Super }}{% endblock %}>{% endblock %}`})
		mk("block-cycle", "leaf.tpl", map[string]string{"base.tpl": "{% block a %}{% block b %}{% block c %}{% endblock %}{% endblock %}{% endblock %}",
			"mid.tpl": `{% extends "base.tpl" %}{% block c %}{% block a %}{{ block.Super }}{% endblock %}{% endblock %}`, "leaf.tpl": `{% extends "mid.tpl" %}{% block b %}x{{ block.Super }}{% endblock %}`})
		// a cycle value fed back into its own cycle
		mk("cycle-self", "a.tpl", map[string]string{"a.tpl": `{% for i in "abc" %}{% cycle x as x %}{% endfor %}`})
		mk("cycle-self", "a.tpl", map[string]string{"a.tpl": `{% for i in "abcd" %}{% cycle "a" "b" as c silent %}{% cycle c as c %}{{ c }}{% endfor %}`})
		mk("cycle-self", "a.tpl", map[string]string{"a.tpl": `{% for i in "abc" %}{% cycle 1 2 as a silent %}{% cycle a as b silent %}{% cycle b as a %}{{ a }}{{ b }}{% endfor %}`})
		mk("cycle-self", "a.tpl", map[string]string{"a.tpl": `{% for i in "abc" %}{% cycle x y as x %}{% cycle x as y %}{{ x|upper }}{% endfor %}`})
		// a lazily included name that cannot be loaded, or does not compile, asked for again and again
		mk("lazy-missing", "a.tpl", map[string]string{"a.tpl": `{% for n in "aab" %}{% include n if_exists %}{% endfor %}`})
		mk("lazy-missing", "a.tpl", map[string]string{"a.tpl": `{% set n = "nope.tpl" %}{% include n if_exists %}{% include n if_exists %}{% include n %}`})
		mk("lazy-missing", "a.tpl", map[string]string{"a.tpl": `{% set n = "nope.tpl" %}{% include n %}`})
		mk("lazy-missing", "a.tpl", map[string]string{"a.tpl": `{% set n = "bad.tpl" %}{% for q in "ab" %}{% include n if_exists %}{% endfor %}`, "bad.tpl": `{% if %}`})
		mk("lazy-missing", "a.tpl", map[string]string{"a.tpl": `{% set n = "bad.tpl" %}{% include n %}`, "bad.tpl": `{{ 1|nosuchfilter }}`})
		// a computed include whose template fails while executing, with an error that carries no position of its own
		mk("lazy-nested-failure", "a.tpl", map[string]string{"a.tpl": `{% set n = "p.tpl" %}[{% include n %}]`, "p.tpl": `x{% include nosuchname %}y`})
		mk("lazy-nested-failure", "a.tpl", map[string]string{"a.tpl": `{% set n = "p.tpl" %}[{% include n %}]`, "p.tpl": `{% set m = "" %}x{% include m %}y`})
		mk("lazy-nested-failure", "a.tpl", map[string]string{"a.tpl": `{% set n = "p.tpl" %}[{% include n %}]`, "p.tpl": `{% set m = "gone.tpl" %}x{% include m %}y`})
		mk("lazy-nested-failure", "a.tpl", map[string]string{"a.tpl": `{% set n = "p.tpl" %}{% set foo = 1 %}[{% include n %}]`, "p.tpl": `{% macro foo() export %}{% endmacro %}x`})
		mk("lazy-nested-failure", "a.tpl", map[string]string{"a.tpl": `{% set n = "p.tpl" %}{% for q in "ab" %}{% include n with k=1 %}{% endfor %}`, "p.tpl": `{% set m = "q.tpl" %}{% include m %}`, "q.tpl": `{% include nosuchname %}`})
		mk("lazy-nested-failure", "a.tpl", map[string]string{"a.tpl": `{% macro mm() %}{% set n = "p.tpl" %}{% include n %}{% endmacro %}{{ mm() }}`, "p.tpl": `{% include nosuchname %}`})
		mk("deep-nesting", "a.tpl", map[string]string{"a.tpl": strings.Repeat("{% if 1 %}", 2000) + "x" + strings.Repeat("{% endif %}", 2000)})
		mk("deep-parens", "a.tpl", map[string]string{"a.tpl": "{{ " + strings.Repeat("(", 5000) + "1" + strings.Repeat(")", 5000) + " }}"})
		mk("deep-array", "a.tpl", map[string]string{"a.tpl": "{{ " + strings.Repeat("[", 3000) + "1" + strings.Repeat("]", 3000) + " }}"})
		mk("long-chain", "a.tpl", map[string]string{"a.tpl": "{{ 1" + strings.Repeat("|add:1", 20000) + " }}"})
		mk("long-sum", "a.tpl", map[string]string{"a.tpl": "{{ 1" + strings.Repeat(" + 1", 20000) + " }}"})
		mk("deep-not", "a.tpl", map[string]string{"a.tpl": "{{ " + strings.Repeat("not ", 20000) + "1 }}"})
		mk("deep-neg", "a.tpl", map[string]string{"a.tpl": "{{ " + strings.Repeat("-", 20000) + "1 }}"})
	}
	return out
}

// c01Run executes one case in this process: recover turns a panic into a class,
// a watchdog turns a hang into one.  A fatal error (stack overflow) kills the process.
func c01Run(c c01Case, limit time.Duration) (class, msg string) {
	type res struct{ class, msg string }
	ch := make(chan res, 1)
	go func() {
		var r res
		defer func() {
			if p := recover(); p != nil {
				r = res{"panic", fmt.Sprint(p)}
			}
			ch <- r
		}()
		ml := &memLoader{files: c.Files, id: "0", sink: &sharedLog{}}
		if c.Files == nil {
			ml.files = map[string]string{}
		}
		set := pongo2.NewSet("t", ml)
		switch len(c.Src) % 4 {
		case 1:
			set.Options.TrimBlocks, set.Options.LStripBlocks = true, true
		case 2:
			set.Options.LStripBlocks = true
		case 3:
			set.Options = &pongo2.Options{TrimBlocks: true}
		}
		var tpl *pongo2.Template
		var err error
		if c.FromFile {
			tpl, err = set.FromFile(c.Src)
		} else {
			tpl, err = set.FromString(c.Src)
		}
		if err != nil {
			// the shortcuts that compile and render in one call report the same error, they do not panic
			if c.FromFile {
				_, err2 := set.RenderTemplateFile(c.Src, nil)
				if err2 == nil {
					r = res{"panic", "RenderTemplateFile succeeded where FromFile failed"}
					return
				}
			} else {
				_, err2 := set.RenderTemplateString(c.Src, nil)
				_, err3 := set.RenderTemplateBytes([]byte(c.Src), nil)
				if err2 == nil || err3 == nil {
					r = res{"panic", "RenderTemplateString/Bytes succeeded where FromString failed"}
					return
				}
			}
			r = res{"compile", err.Error()}
			return
		}
		var ctx pongo2.Context
		switch c.Ctx {
		case "exotic":
			ctx = exoticCtx()
		case "std":
			g := NewGen(NewRNG(c.StdSeed))
			ct := g.StdCtx()
			ctx = ct.Go()
		}
		// twice: a compiled template is executed again after an execution that failed or succeeded
		_, err1 := tpl.Execute(ctx)
		_, err = tpl.Execute(ctx)
		if err == nil {
			err = err1
		}
		if err != nil {
			r = res{"exec", err.Error()}
			return
		}
		r = res{"ok", ""}
	}()
	select {
	case r := <-ch:
		return r.class, r.msg
	case <-time.After(limit):
		return "hang", ""
	}
}

// worker: -replay "kind seed n from"; prints "S i" before and "R i class msghex" after each case
func suiteC01Worker(cfg Config, res *Result) {
	debug.SetMaxStack(512 << 20)
	f := strings.Fields(cfg.Replay)
	if len(f) != 4 {
		fmt.Println("bad worker args")
		return
	}
	seed, _ := strconv.ParseUint(f[1], 10, 64)
	n, _ := strconv.Atoi(f[2])
	from, _ := strconv.Atoi(f[3])
	cases := c01Cases(f[0], seed, n)
	w := bufio.NewWriter(os.Stdout)
	for i := from; i < len(cases); i++ {
		fmt.Fprintf(w, "S %d\n", i)
		w.Flush()
		class, msg := c01Run(cases[i], 10*time.Second)
		if len(msg) > 200 {
			msg = msg[:200]
		}
		fmt.Fprintf(w, "R %d %s %s\n", i, class, hx(msg))
		w.Flush()
		if class == "hang" {
			os.Exit(3) // the stuck goroutine cannot be stopped
		}
	}
	fmt.Fprintln(w, "DONE")
	w.Flush()
}

func suiteC01(cfg Config, res *Result, kind string) {
	if kind == "files" {
		defer c01CacheAfterFailure(res)
		defer c01OddKeys(res)
		defer c01MutatingLoop(res)
		defer reentrantRegistry(res, "totality", "c01-registry-reentry")
		defer c01TextIndex(res)
	}
	n := map[string]int{"bytes": 20000, "prog": 8000, "paths": 20000, "files": 0}[kind]
	if cfg.Thorough() {
		n = map[string]int{"bytes": 300000, "prog": 120000, "paths": 1 << 30, "files": 0}[kind]
	}
	switch kind {
	case "bytes":
		res.Rule = "template sources as raw bytes: random byte strings, soups of delimiters/keywords/quotes/control bytes, and byte-level damage (delete, overwrite, insert delimiters, cut, duplicate) to grammar-generated programs; compiled and executed against nil and the exotic context; oracle: returns a template/output or an error — no panic, no crash, no hang (10 s watchdog); non-trivial = source with at least one delimiter; distinct by (source, context)"
	case "prog":
		res.Rule = "grammar-generated programs over every registered tag, filter and operator (paths with field/index/subscript/call steps, array literals, filter chains with arbitrary parameters, macros with wrong arity, include/import/ssi/extends of present and missing files, now/lorem/templatetag with bad arguments, `set forloop`, empty cycle) against the exotic context (extreme ints, NaN/Inf, invalid UTF-8, nil/typed-nil pointers, arrays, maps keyed by int/float/bool/any, structs with unexported/embedded fields and methods, Stringers, time.Time, funcs of accepted and unaccepted signatures, *Value); oracle as above; non-trivial = all; distinct by program"
	case "paths":
		res.Rule = "the full cross product: every context name x every step name x 8 access forms (dot, subscript, |length, if, call, call(1), .0, for), every name x every name as subscript / argument / operand of ==,<,in,+,/,%, every name x every registered filter x 13 parameter shapes; exotic context; oracle as above (quick: seed-dependent sample); non-trivial = all; distinct by program"
	case "files":
		res.Rule = "reference cycles between files (include, extends, import, ssi parsed, include by variable), a 300-deep include chain, runaway macro recursion, 2000-deep block nesting, 5000-deep parentheses, 3000-deep array literals, 20000-long filter chains / sums / unary prefixes; each in an isolated worker; oracle: an error or output, never a crashed or hung process; non-trivial = all; distinct by case"
	}
	cases := c01Cases(kind, cfg.Seed, n)
	classes := make([]string, len(cases))
	msgs := make([]string, len(cases))
	// fan out over worker processes; each covers a contiguous range and is restarted after a crash
	nw := 14
	if kind == "files" {
		nw = 4
	}
	if len(cases) < nw {
		nw = len(cases)
	}
	if nw == 0 {
		return
	}
	chunk := (len(cases) + nw - 1) / nw
	done := make(chan bool, nw)
	for w := 0; w < nw; w++ {
		lo, hi := w*chunk, (w+1)*chunk
		if hi > len(cases) {
			hi = len(cases)
		}
		go func(lo, hi int) {
			defer func() { done <- true }()
			from := lo
			for from < hi {
				last := c01Worker(kind, cfg.Seed, n, from, hi, classes, msgs)
				if last < 0 {
					break
				}
				// the worker died or hung at `last`
				if classes[last] == "" {
					classes[last] = "crashed"
				}
				from = last + 1
			}
		}(lo, hi)
	}
	for w := 0; w < nw; w++ {
		<-done
	}
	seen := map[string]bool{}
	for i, c := range cases {
		key := c.String()
		if seen[key] {
			continue
		}
		seen[key] = true
		res.Cases++
		cl := classes[i]
		if cl == "" {
			cl = "not-run"
		}
		res.hist(c.Sig + ":" + cl)
		if kind != "bytes" || strings.ContainsAny(c.Src, "{") {
			res.DistinctNontrivial++
		}
		if i < 4 {
			res.sample(key + " => " + cl)
		}
		switch cl {
		case "panic", "crashed", "hang", "not-run":
			sig := "c01-" + cl
			if kind == "files" {
				// a runaway recursion ends as a stack overflow or keeps growing past the watchdog
				sig = "c01-runaway:" + c.Sig
			} else {
				sig += ":" + c01PanicSig(unhx(msgs[i]))
			}
			res.add(Finding{Kind: "oracle", Proj: "totality", Sig: sig, Case: key, Impl: cl + " " + unhx(msgs[i]), Model: "a template/output or an error"})
		}
	}
}

// c01PanicSig reduces a panic message to a stable signature
func c01PanicSig(msg string) string {
	msg = strings.ToLower(msg)
	for _, k := range []string{"mapindex", "divide by zero", "interface conversion", "index out of range", "nil pointer", "unaddressable", "uncomparable", "unexported", "call of reflect", "slice bounds", "unimplemented", "makeslice", "negative"} {
		if strings.Contains(msg, k) {
			return strings.ReplaceAll(k, " ", "-")
		}
	}
	if len(msg) > 40 {
		msg = msg[:40]
	}
	return strings.ReplaceAll(msg, " ", "-")
}

// c01Worker runs cases [from,hi) in a child; fills classes/msgs; returns -1 when the
// range completed, else the index at which the child died or hung.
func c01Worker(kind string, seed uint64, n, from, hi int, classes, msgs []string) int {
	ctx, cancel := context.WithTimeout(context.Background(), 30*time.Minute)
	defer cancel()
	cmd := exec.CommandContext(ctx, os.Args[0], "-suite", "c01-worker", "-replay", fmt.Sprintf("%s %d %d %d", kind, seed, n, from), "-out", os.DevNull)
	cmd.Env = append(os.Environ(), "GOMEMLIMIT=3GiB", "GOTRACEBACK=single")
	cmd.Stderr = nil
	stdout, err := cmd.StdoutPipe()
	if err != nil {
		return from
	}
	if err := cmd.Start(); err != nil {
		return from
	}
	sc := bufio.NewScanner(stdout)
	sc.Buffer(make([]byte, 1<<20), 1<<20)
	started := -1
	finished := false
	for sc.Scan() {
		f := strings.Fields(sc.Text())
		if len(f) == 0 {
			continue
		}
		switch f[0] {
		case "S":
			started, _ = strconv.Atoi(f[1])
			if started >= hi {
				finished = true
			}
		case "R":
			i, _ := strconv.Atoi(f[1])
			if i < hi {
				classes[i] = f[2]
				if len(f) > 3 {
					msgs[i] = f[3]
				} else {
					msgs[i] = "-"
				}
			}
		case "DONE":
			finished = true
		}
		if finished {
			break
		}
	}
	if finished {
		cmd.Process.Kill()
		cmd.Wait()
		return -1
	}
	cmd.Wait()
	if started < 0 {
		return from
	}
	if classes[started] == "hang" {
		return started
	}
	if classes[started] != "" && started+1 >= hi {
		return -1
	}
	if classes[started] != "" {
		// died between cases: resume after the last finished one
		return started
	}
	return started
}

func init() { suites["c01-mut"] = suiteC01Mut }

// damaged programs, implementation vs model: the model must take the same
// compile-error / exec-error / ok decision and produce the same output
func suiteC01Mut(cfg Config, res *Result) {
	res.Rule = "grammar-generated programs (modelled vocabulary, standard context) after byte-level damage (delete, overwrite, insert delimiters/quotes/control bytes, cut, duplicate), and delimiter/keyword soups; the implementation's outcome class (compile error / execution error / output) and output are compared with the Lean model's — the model's parser and interpreter are total functions, so agreement ties the implementation's accept/reject decisions on malformed input to them; oracle: no panic; non-trivial = damaged source that still has a delimiter; distinct by (source, context)"
	n := 6000
	if cfg.Thorough() {
		n = 120000
	}
	rng := NewRNG(cfg.Seed)
	g := NewGen(rng)
	var cases []ProgCase
	for i := 0; i < n; i++ {
		pc := g.Program(1 + rng.Intn(3))
		pc.Src = mutate(rng, pc.Src)
		pc.Label = "mut"
		cases = append(cases, pc)
	}
	// math.Pow on inexact arguments is a property of the float library, not of the engine (see C07)
	progSkipModel = func(c ProgCase) bool { return strings.Contains(c.Src, "^") }
	defer func() { progSkipModel = nil }()
	runProgCases(cfg, res, cases, "c01m", func(c ProgCase, o ImplOutcome) bool { return strings.Contains(c.Src, "{") },
		func(c ProgCase, o ImplOutcome) *Finding {
			if o.Class == "panic" {
				return &Finding{Kind: "oracle", Proj: "totality", Sig: "c01-panic:" + c01PanicSig(o.Msg), Case: c.String(), Impl: "panic " + o.Msg, Model: "a template/output or an error"}
			}
			return nil
		})
}

// harness: runs the real pongo2 (built from /repo's working tree with
// -tags verif) and the Lean model's driver on the same generated cases and
// reports where they differ, plus model-free direct oracles per property.
package main

import (
	"encoding/json"
	"flag"
	"fmt"
	"os"
	"sort"
	"sync"
	"sync/atomic"
	"time"
)

type Finding struct {
	Kind  string `json:"kind"`  // "disagree" (model vs implementation) or "oracle" (implementation breaks the property's direct oracle)
	Proj  string `json:"proj"`  // which projection / oracle
	Sig   string `json:"sig"`   // signature used to match known findings
	Case  string `json:"case"`  // the input, replayable
	Impl  string `json:"impl"`  // implementation's answer
	Model string `json:"model"` // model's answer (disagree) or what the oracle expected
}

type Result struct {
	Suite              string         `json:"suite"`
	Seed               uint64         `json:"seed"`
	Tier               string         `json:"tier"`
	Cases              int            `json:"cases"`
	DistinctNontrivial int            `json:"distinct_nontrivial"`
	Rule               string         `json:"rule"`
	Samples            []string       `json:"samples"`
	Hist               map[string]int `json:"hist"`
	Findings           []Finding      `json:"findings"`
	FindingsTotal      int            `json:"findings_total"`
	WallS              float64        `json:"wall_s"`
	Exhaustive         bool           `json:"exhaustive"`
	SigCount           map[string]int `json:"sig_count"`
	sigCount           map[string]int
}

type Config struct {
	Seed   uint64
	Tier   string
	Driver string
	Replay string
}

func (c Config) Thorough() bool { return c.Tier == "thorough" }

type Suite func(cfg Config, res *Result)

var suites = map[string]Suite{}

// hangSeenAt is set (unix nanoseconds) when an oracle gave up waiting for a call into the
// implementation: a goroutine is then stuck in it, possibly holding a lock that everything else
// needs, so the suite may never get to its end.  main's watchdog writes out what has been found
// and ends the process a while after the first such event.
var hangSeenAt atomic.Int64

var resultMu sync.Mutex

func (r *Result) add(f Finding) {
	resultMu.Lock()
	defer resultMu.Unlock()
	r.FindingsTotal++
	if r.sigCount == nil {
		r.sigCount = map[string]int{}
	}
	r.sigCount[f.Sig]++
	if r.sigCount[f.Sig] <= 5 && len(r.Findings) < 300 {
		r.Findings = append(r.Findings, f)
	}
}

func (r *Result) hist(k string) {
	if r.Hist == nil {
		r.Hist = map[string]int{}
	}
	r.Hist[k]++
}

func (r *Result) sample(s string) {
	if len(r.Samples) < 8 {
		r.Samples = append(r.Samples, s)
	}
}

func main() {
	suite := flag.String("suite", "", "suite name")
	seed := flag.Uint64("seed", 1, "seed")
	tier := flag.String("tier", "quick", "quick|thorough")
	driver := flag.String("driver", "/verif/lean/.lake/build/bin/pongo-driver", "model driver")
	out := flag.String("out", "", "result json")
	replay := flag.String("replay", "", "replay one case (suite-specific encoding)")
	list := flag.Bool("list", false, "list suites")
	flag.Parse()
	if *list {
		var names []string
		for k := range suites {
			names = append(names, k)
		}
		sort.Strings(names)
		for _, n := range names {
			fmt.Println(n)
		}
		return
	}
	s, ok := suites[*suite]
	if !ok {
		fmt.Fprintf(os.Stderr, "unknown suite %q\n", *suite)
		os.Exit(2)
	}
	res := &Result{Suite: *suite, Seed: *seed, Tier: *tier}
	t0 := time.Now()
	write := func() {
		resultMu.Lock()
		defer resultMu.Unlock()
		res.WallS = time.Since(t0).Seconds()
		res.SigCount = res.sigCount
		b, _ := json.MarshalIndent(res, "", " ")
		if *out != "" {
			os.WriteFile(*out, b, 0o644)
		} else {
			os.Stdout.Write(b)
		}
	}
	go func() {
		for {
			time.Sleep(time.Second)
			if at := hangSeenAt.Load(); at != 0 && time.Since(time.Unix(0, at)) > 40*time.Second {
				write()
				fmt.Fprintf(os.Stderr, "suite %s: ended by the watchdog 40s after an oracle reported a call that does not return\n", res.Suite)
				os.Exit(0)
			}
		}
	}()
	s(Config{Seed: *seed, Tier: *tier, Driver: *driver, Replay: *replay}, res)
	write()
	fmt.Fprintf(os.Stderr, "suite %s: %d cases, %d distinct non-trivial, %d findings, %.1fs\n",
		res.Suite, res.Cases, res.DistinctNontrivial, res.FindingsTotal, res.WallS)
}

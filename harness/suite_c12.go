package main

import (
	"fmt"
	"reflect"
	"sort"
	"strconv"
	"strings"

	pongo2 "github.com/flosch/pongo2/v6"
)

func init() { suites["c12-scope"] = suiteC12 }

// ---- generated scoping trees and the reference environment model ----

type snode struct {
	k      string // probe set with for macro call if include
	name   string
	val    string // literal source: number or "str"
	body   []snode
	params []string
	args   []string
	only   bool
	file   string
}

type sframe map[string]string

type senv struct {
	frames  []sframe // innermost last; lookup walks outwards: the lexical stack of the reference
	macros  map[string]*smacro
	globals map[string]string
}

type smacro struct {
	params []string
	body   []snode
	depth  int // number of frames visible where it was defined
}

func (e *senv) lookup(n string) string {
	for i := len(e.frames) - 1; i >= 0; i-- {
		if v, ok := e.frames[i][n]; ok {
			return v
		}
	}
	return ""
}

func litVal(src string) string { return strings.Trim(src, `"`) }

func (e *senv) evalArg(a string) string {
	if len(a) > 0 && (a[0] == '"' || (a[0] >= '0' && a[0] <= '9')) {
		return litVal(a)
	}
	return e.lookup(a)
}

func refScope(ns []snode, e *senv, files map[string][]snode, sb *strings.Builder) {
	for _, n := range ns {
		switch n.k {
		case "probe":
			sb.WriteString("[" + n.name + "=" + e.lookup(n.name) + "]")
		case "set":
			// visible after it at this level and below: bind in the innermost frame
			e.frames[len(e.frames)-1][n.name] = e.evalArg(n.val)
		case "with":
			v := e.evalArg(n.val)
			e.frames = append(e.frames, sframe{n.name: v})
			refScope(n.body, e, files, sb)
			e.frames = e.frames[:len(e.frames)-1]
		case "for":
			if e.lookup("two") == "" {
				continue // the list is not visible here (include … only): nothing to iterate
			}
			e.frames = append(e.frames, sframe{})
			for _, it := range []string{"1", "2"} {
				e.frames[len(e.frames)-1][n.name] = it
				refScope(n.body, e, files, sb)
			}
			e.frames = e.frames[:len(e.frames)-1]
		case "if":
			refScope(n.body, e, files, sb) // no scope of its own
		case "forempty":
			// nothing to iterate: the empty branch runs once, in the loop's own scope
			e.frames = append(e.frames, sframe{})
			refScope(n.body, e, files, sb)
			e.frames = e.frames[:len(e.frames)-1]
		case "macro":
			e.macros[n.name] = &smacro{params: n.params, body: n.body, depth: len(e.frames)}
			// the macro's name is bound like a variable in the current frame
			e.frames[len(e.frames)-1][n.name] = "<macro>"
		case "call":
			m := e.macros[n.name]
			if m == nil || e.lookup(n.name) != "<macro>" {
				continue
			}
			args := make([]string, len(n.args))
			for i, a := range n.args {
				args[i] = e.evalArg(a)
			}
			// the body sees the defining scope (as it is now) plus the parameters
			saved := e.frames
			fr := sframe{}
			for i, p := range m.params {
				if i < len(args) {
					fr[p] = args[i]
				} else {
					fr[p] = ""
				}
			}
			e.frames = append(append([]sframe{}, saved[:m.depth]...), fr)
			refScope(m.body, e, files, sb)
			e.frames = saved
		case "include":
			saved := e.frames
			fr := sframe{}
			if !n.only {
				// the includer's visible variables, flattened
				for _, f := range e.frames {
					for k, v := range f {
						if v != "<macro>" {
							fr[k] = v
						}
					}
				}
			} else {
				for k, v := range e.globals {
					fr[k] = v
				}
			}
			if n.name != "" {
				fr[n.name] = e.evalArg(n.val)
			}
			e.frames = []sframe{fr}
			savedM := e.macros
			e.macros = map[string]*smacro{}
			refScope(files[n.file], e, files, sb)
			e.macros = savedM
			e.frames = saved
		}
	}
}

type c12gen struct {
	r     *RNG
	files map[string][]snode
	depth int
	macs  []string
}

// z is bound nowhere outside the program: a binding of it that survives its construct shows at the next probe
var c12names = []string{"a", "b", "c", "z", "g1"}
var c12set = c12names[:4]

var c12wrappers = [][2]string{
	{"{% if 1 %}", "{% endif %}"}, {"{% if 0 %}never{% else %}", "{% endif %}"}, {"{% if 0 %}never{% elif 1 %}", "{% else %}never{% endif %}"},
	{"{% ifequal 1 1 %}", "{% endifequal %}"}, {"{% ifnotequal 1 1 %}never{% else %}", "{% endifnotequal %}"},
	{"{% autoescape on %}", "{% endautoescape %}"}, {"{% autoescape off %}", "{% endautoescape %}"},
	{"{% spaceless %}", "{% endspaceless %}"}, {"{% filter cut:\"~\" %}", "{% endfilter %}"},
}

func (g *c12gen) lit() string {
	return g.r.Pick([]string{"7", "8", `"x"`, `"y"`, "a", "b", "c", "g1", "z"})
}

func (g *c12gen) nodes(d int) []snode {
	n := 2 + g.r.Intn(3)
	var out []snode
	for i := 0; i < n; i++ {
		out = append(out, g.node(d))
	}
	return out
}

func (g *c12gen) node(d int) snode {
	r := g.r
	if d <= 0 || r.Chance(1, 3) {
		if r.Chance(1, 3) {
			return snode{k: "set", name: r.Pick(c12set), val: g.lit()}
		}
		return snode{k: "probe", name: r.Pick(c12names)}
	}
	switch r.Intn(8) {
	case 7:
		return snode{k: "forempty", name: r.Pick(c12set), body: g.nodes(d - 1)}
	case 0:
		return snode{k: "with", name: r.Pick(c12set), val: g.lit(), body: g.nodes(d - 1)}
	case 1:
		return snode{k: "for", name: r.Pick(c12set), body: g.nodes(d - 1)}
	case 2:
		// constructs that are not scopes: what is bound inside stays bound after them
		return snode{k: "if", val: fmt.Sprint(r.Intn(len(c12wrappers))), body: g.nodes(d - 1)}
	case 3:
		if g.depth > 0 || len(g.macs) >= 2 {
			return snode{k: "probe", name: r.Pick(c12names)}
		}
		name := fmt.Sprintf("m%d", len(g.macs))
		np := r.Intn(3)
		ps := append([]string{}, c12set[:np]...)
		g.depth++
		body := g.nodes(d - 1)
		g.depth--
		g.macs = append(g.macs, name)
		return snode{k: "macro", name: name, params: ps, body: body}
	case 4:
		if len(g.macs) == 0 {
			return snode{k: "probe", name: r.Pick(c12names)}
		}
		m := r.Pick(g.macs)
		na := r.Intn(3)
		var args []string
		for i := 0; i < na; i++ {
			args = append(args, g.lit())
		}
		return snode{k: "call", name: m, args: args}
	case 5:
		fn := fmt.Sprintf("f%d.tpl", len(g.files))
		g.files[fn] = nil
		savedM := g.macs
		g.macs = nil
		g.depth++
		g.files[fn] = g.nodes(d - 1)
		g.depth--
		g.macs = savedM
		n := snode{k: "include", file: fn, only: r.Chance(1, 3)}
		if r.Bool() || n.only {
			n.name = r.Pick(c12set)
			n.val = g.lit()
		}
		return n
	}
	return snode{k: "probe", name: r.Pick(c12names)}
}

func c12Src(ns []snode, macs map[string]snode) string {
	var sb strings.Builder
	for _, n := range ns {
		switch n.k {
		case "probe":
			sb.WriteString("[" + n.name + "={{ " + n.name + " }}]")
		case "set":
			sb.WriteString("{% set " + n.name + " = " + n.val + " %}")
		case "with":
			sb.WriteString("{% with " + n.name + "=" + n.val + " %}" + c12Src(n.body, macs) + "{% endwith %}")
		case "for":
			sb.WriteString("{% for " + n.name + " in two %}" + c12Src(n.body, macs) + "{% endfor %}")
		case "if":
			w := c12wrappers[0]
			if n.val != "" {
				i, _ := strconv.Atoi(n.val)
				w = c12wrappers[i]
			}
			sb.WriteString(w[0] + c12Src(n.body, macs) + w[1])
		case "forempty":
			sb.WriteString("{% for " + n.name + " in nothing_here %}never{% empty %}" + c12Src(n.body, macs) + "{% endfor %}")
		case "macro":
			sb.WriteString("{% macro " + n.name + "(" + strings.Join(n.params, ", ") + ") %}" + c12Src(n.body, macs) + "{% endmacro %}")
			macs[n.name] = n
		case "call":
			m := macs[n.name]
			args := n.args
			if len(args) > len(m.params) {
				args = args[:len(m.params)]
			}
			sb.WriteString("{{ " + n.name + "(" + strings.Join(args, ", ") + ") }}")
		case "include":
			s := `{% include "` + n.file + `"`
			if n.name != "" {
				s += " with " + n.name + "=" + n.val
				if n.only {
					s += " only"
				}
			}
			sb.WriteString(s + " %}")
		}
	}
	return sb.String()
}

func fixCalls(ns []snode, arity map[string]int) {
	for i := range ns {
		if ns[i].k == "macro" {
			arity[ns[i].name] = len(ns[i].params)
		}
		if ns[i].k == "call" {
			if a, ok := arity[ns[i].name]; ok && len(ns[i].args) > a {
				ns[i].args = ns[i].args[:a]
			}
		}
		fixCalls(ns[i].body, arity)
	}
}

// dumpCtx renders a context with everything reachable inside it (keys sorted), so that a change
// inside a slice or map the caller handed over is seen
func dumpCtx(c pongo2.Context) string {
	var ks []string
	for k := range c {
		ks = append(ks, k)
	}
	sort.Strings(ks)
	var sb strings.Builder
	for _, k := range ks {
		sb.WriteString(k + "=" + showGo(c[k], 0) + ";")
	}
	return sb.String()
}

func deepCopyCtx(c pongo2.Context) pongo2.Context {
	out := pongo2.Context{}
	for k, v := range c {
		out[k] = v
	}
	return out
}

func suiteC12(cfg Config, res *Result) {
	defer c12OddKeys(res)
	defer c12LiveGlobals(res)
	defer c12ChainMacroClash(res)
	defer liveGlobals(res, "reference", "c12-globals")
	defer c12PublicIsACopy(res)
	defer recursiveMacroNodes(res, "reference", "c12-recursive-scopes", "scope")
	defer globalsSnapshot(res, "reference", "c12-globals-snapshot")
	defer reentrancy(res, "reference", "c12-reentrant-execution")
	defer nilShadowsGlobal(res, "reference", "c12-nil-shadows-global")
	res.Rule = "generated nestings (depth <= 4) of with / for (body and empty branch) / macro definition+call / set / if / include (with pair, only) over the colliding names a b c plus a global g1, probed with [name={{ name }}] before, inside and after every construct; compared with a reference lexical-environment model and with the Lean model; plus, for every program of this suite and of the general generator, a deep comparison of the caller's Context and the set's Globals before and after execution, and rejection of invalid / macro-clashing context keys; non-trivial = tree with >= 2 binding constructs; distinct by tree"
	n := 4000
	if cfg.Thorough() {
		n = 80000
	}
	rng := NewRNG(cfg.Seed)
	var cases []ProgCase
	wants := map[string]string{}
	for i := 0; i < n; i++ {
		g := &c12gen{r: rng.Fork(), files: map[string][]snode{}}
		tree := g.nodes(1 + rng.Intn(4))
		fixCalls(tree, map[string]int{})
		macs := map[string]snode{}
		src := c12Src(tree, macs)
		files := map[string]string{}
		for fn, body := range g.files {
			fixCalls(body, map[string]int{})
			files[fn] = c12Src(body, map[string]snode{})
		}
		ctxVals := map[string]string{"a": "ca", "c": "cc"}
		if rng.Bool() {
			ctxVals["g1"] = "cg"
		}
		glob := map[string]string{"g1": "GG", "b": "gb"}
		base := sframe{}
		for k, v := range glob {
			base[k] = v
		}
		for k, v := range ctxVals {
			base[k] = v
		}
		base["two"] = "?"
		e := &senv{frames: []sframe{base}, macros: map[string]*smacro{}, globals: glob}
		var sb strings.Builder
		refScope(tree, e, g.files, &sb)
		ct := CtxTerm{Names: []string{"two"}, Vals: []VT{vList("int", vInt(1), vInt(2))}}
		var ks []string
		for k := range ctxVals {
			ks = append(ks, k)
		}
		sort.Strings(ks)
		for _, k := range ks {
			ct.Names = append(ct.Names, k)
			ct.Vals = append(ct.Vals, vStr(ctxVals[k]))
		}
		gt := CtxTerm{Names: []string{"b", "g1"}, Vals: []VT{vStr("gb"), vStr("GG")}}
		pc := ProgCase{Src: src, Ctx: &ct, Globals: gt, Label: "c12"}
		if len(files) > 0 {
			pc.Loaders = []map[string]string{files}
		}
		cases = append(cases, pc)
		wants[pc.Key()] = sb.String()
	}
	runProgCases(cfg, res, cases, "c12", func(c ProgCase, o ImplOutcome) bool {
		return strings.Count(c.Src, "{% with")+strings.Count(c.Src, "{% for")+strings.Count(c.Src, "{% macro")+strings.Count(c.Src, "{% include") >= 2
	}, func(c ProgCase, o ImplOutcome) *Finding {
		want := wants[c.Key()]
		if o.Class != "ok" || o.Out != want {
			return &Finding{Kind: "oracle", Proj: "reference", Sig: "c12-reference", Case: c.String(), Impl: o.Canon() + " " + o.Msg, Model: "reference environment: ok " + hxb(want)}
		}
		return nil
	})
	// caller data is never modified: deep comparison around every execution
	nd := 1500
	if cfg.Thorough() {
		nd = 30000
	}
	for i := 0; i < nd; i++ {
		var pc ProgCase
		if i%7 == 3 {
			// loops that ask for another order over the caller's own slices and maps
			ct := CtxTerm{Names: []string{"ul", "us", "um", "ua"}, Vals: []VT{vList("int", vInt(3), vInt(1), vInt(2)), vList("string", vStr("b"), vStr("c"), vStr("a")),
				vSMap([]string{"k2", "k1"}, []VT{vInt(2), vInt(1)}), vList("any", vStr("z"), vStr("y"))}}
			pc = ProgCase{Src: rng.Pick([]string{"{% for x in ul sorted %}{{ x }}{% endfor %}", "{% for x in us sorted %}{{ x }}{% endfor %}{% for x in us %}{{ x }}{% endfor %}",
				"{% for x in ul reversed sorted %}{{ x }}{% endfor %}", "{% for x in gl sorted %}{{ x }}{% endfor %}{% for x in gs reversed sorted %}{{ x }}{% endfor %}",
				"{% for k, v in um sorted %}{{ k }}{% endfor %}{% for x in ua sorted %}{{ x }}{% endfor %}", "{% for x in ul reversed %}{{ x }}{% endfor %}{{ ul|slice:\"1:\"|join:\",\" }}{{ us|first }}"}), Ctx: &ct}
			pc.Globals = CtxTerm{Names: []string{"gl", "gs"}, Vals: []VT{vList("int", vInt(9), vInt(7), vInt(8)), vList("string", vStr("q"), vStr("p"))}}
		} else if i%2 == 0 && len(cases) > 0 {
			pc = cases[rng.Intn(len(cases))]
		} else {
			pc = NewGen(rng.Fork()).Program(1 + rng.Intn(5))
			pc.Globals = CtxTerm{Names: []string{"gg"}, Vals: []VT{vList("int", vInt(1))}}
		}
		set, _ := pc.buildSet()
		var tpl *pongo2.Template
		func() {
			defer func() { recover() }()
			tpl, _ = pc.compile(set)
		}()
		res.Cases++
		if tpl == nil {
			continue
		}
		ctx := pc.Ctx.Go()
		ctxBefore := deepCopyCtx(ctx)
		globBefore := deepCopyCtx(set.Globals)
		dumpBefore, gdumpBefore := dumpCtx(ctx), dumpCtx(set.Globals)
		execOnce(tpl, ctx)
		if d := dumpCtx(ctx); d != dumpBefore {
			res.add(Finding{Kind: "oracle", Proj: "reference", Sig: "c12-caller-context-modified", Case: pc.String(), Impl: d, Model: "the caller's Context is unchanged, also inside its slices and maps: " + dumpBefore})
		}
		if d := dumpCtx(set.Globals); d != gdumpBefore {
			res.add(Finding{Kind: "oracle", Proj: "reference", Sig: "c12-globals-modified", Case: pc.String(), Impl: d, Model: "the set's Globals are unchanged, also inside their slices and maps: " + gdumpBefore})
		}
		if !reflect.DeepEqual(ctx, ctxBefore) {
			res.add(Finding{Kind: "oracle", Proj: "reference", Sig: "c12-caller-context-modified", Case: pc.String(), Impl: fmt.Sprint(ctx), Model: "the caller's Context is unchanged"})
		}
		if !reflect.DeepEqual(set.Globals, globBefore) {
			res.add(Finding{Kind: "oracle", Proj: "reference", Sig: "c12-globals-modified", Case: pc.String(), Impl: fmt.Sprint(set.Globals), Model: "the set's Globals are unchanged"})
		}
	}
	// invalid and clashing keys are rejected, nothing is rendered
	for _, bad := range []string{"bad key", "a-b", "", "ü", "x.y"} {
		tpl, _ := pongo2.NewSet("k", &memLoader{files: map[string]string{}}).FromString("text{{ 1 }}")
		r := execOnce(tpl, pongo2.Context{bad: 1})
		res.Cases++
		if r.err == "" {
			res.add(Finding{Kind: "oracle", Proj: "reference", Sig: "c12-bad-key-accepted", Case: fmt.Sprintf("key %q", bad), Impl: r.String(), Model: "execution error, nothing rendered"})
		}
	}
	{
		tpl, _ := pongo2.NewSet("k", &memLoader{files: map[string]string{}}).FromString("{% macro mm() export %}x{% endmacro %}text")
		r := execOnce(tpl, pongo2.Context{"mm": 1})
		res.Cases++
		if r.err == "" {
			res.add(Finding{Kind: "oracle", Proj: "reference", Sig: "c12-macro-clash-accepted", Case: "context key mm vs exported macro mm", Impl: r.String(), Model: "execution error"})
		}
	}
}

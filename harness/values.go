package main

import (
	"encoding/hex"
	"errors"
	"fmt"
	"math"
	"reflect"
	"sort"
	"strconv"
	"strings"

	pongo2 "github.com/flosch/pongo2/v6"
)

// VT is a term of the value universe shared by the harness and the Lean model
// (DESIGN.md §3.2).  Wire() is what the model decodes; Go() is the real Go
// value handed to pongo2.
type VT struct {
	K     string // nil bool int uint float str list arr smap imap struct ptr nilptr boxed stringer
	B     bool
	I     int64
	U     uint64
	F     float64
	S     string
	Elem  string // list/arr element typing on the Go side: "any" "int" "string" "float"
	Items []VT
	Keys  []string // smap / struct field names
	IKeys []int64
	Inner *VT
	Safe  bool
	TName string
	// Rep selects one of the Go representations of the term (int8 / int64 / named
	// type / typed slice / nil slice ...).  The model does not see it: the
	// properties speak of integers, floats, strings and lists, not of Go types.
	Rep int
}

func vNil() VT                          { return VT{K: "nil"} }
func vBool(b bool) VT                   { return VT{K: "bool", B: b} }
func vInt(i int64) VT                   { return VT{K: "int", I: i} }
func vUint(u uint64) VT                 { return VT{K: "uint", U: u} }
func vFloat(f float64) VT               { return VT{K: "float", F: f} }
func vStr(s string) VT                  { return VT{K: "str", S: s} }
func vList(elem string, xs ...VT) VT    { return VT{K: "list", Elem: elem, Items: xs} }
func vArr(xs ...VT) VT                  { return VT{K: "arr", Elem: "int", Items: xs} }
func vPtr(v VT) VT                      { return VT{K: "ptr", Inner: &v} }
func vBoxed(v VT, safe bool) VT         { return VT{K: "boxed", Inner: &v, Safe: safe} }
func vSMap(keys []string, vals []VT) VT { return VT{K: "smap", Keys: keys, Items: vals} }
func vIMap(keys []int64, vals []VT) VT  { return VT{K: "imap", IKeys: keys, Items: vals} }

func hxb(s string) string {
	if s == "" {
		return "-"
	}
	return hex.EncodeToString([]byte(s))
}

// Wire encodes the term for the Lean driver.
func (v VT) Wire() string {
	var sb strings.Builder
	v.wire(&sb)
	return strings.TrimSpace(sb.String())
}

func (v VT) wire(sb *strings.Builder) {
	switch v.K {
	case "nil":
		sb.WriteString("n ")
	case "bool":
		if v.B {
			sb.WriteString("b1 ")
		} else {
			sb.WriteString("b0 ")
		}
	case "int":
		fmt.Fprintf(sb, "i%d ", v.I)
	case "uint":
		fmt.Fprintf(sb, "u%d ", v.U)
	case "float":
		fmt.Fprintf(sb, "f%d ", math.Float64bits(v.F))
	case "str":
		fmt.Fprintf(sb, "s%s ", hxb(v.S))
	case "func":
		fmt.Fprintf(sb, "F%d ", v.I)
	case "list", "arr":
		tag := "l"
		if v.K == "arr" {
			tag = "a"
		}
		fmt.Fprintf(sb, "%s%d %s ", tag, len(v.Items), hxb(reflect.TypeOf(v.Go()).String()))
		for _, it := range v.Items {
			it.wire(sb)
		}
	case "smap":
		fmt.Fprintf(sb, "m%d %s ", len(v.Keys), hxb(reflect.TypeOf(v.Go()).String()))
		for i, k := range v.Keys {
			fmt.Fprintf(sb, "%s ", hxb(k))
			v.Items[i].wire(sb)
		}
	case "imap":
		fmt.Fprintf(sb, "M%d %s ", len(v.IKeys), hxb(reflect.TypeOf(v.Go()).String()))
		for i, k := range v.IKeys {
			fmt.Fprintf(sb, "%d ", k)
			v.Items[i].wire(sb)
		}
	case "struct":
		fmt.Fprintf(sb, "S%s %d ", hxb(v.TName), len(v.Keys))
		for i, k := range v.Keys {
			fmt.Fprintf(sb, "%s ", hxb(k))
			v.Items[i].wire(sb)
		}
		privs := structPrivs[v.TName]
		fmt.Fprintf(sb, "%d ", len(privs))
		for _, p := range privs {
			fmt.Fprintf(sb, "%s ", hxb(p))
		}
	case "ptr":
		sb.WriteString("p ")
		v.Inner.wire(sb)
	case "nilptr":
		sb.WriteString("P ")
	case "boxed":
		if v.Safe {
			sb.WriteString("x1 ")
		} else {
			sb.WriteString("x0 ")
		}
		v.Inner.wire(sb)
	case "stringer":
		fmt.Fprintf(sb, "g%s ", hxb(v.S))
		v.Inner.wire(sb)
	default:
		panic("wire: unknown kind " + v.K)
	}
}

// --- the Go catalogue ---

// VS1 is the harness's struct type: three exported fields and two unexported ones.
type VS1 struct {
	A, B, C any
	hidden  any
	priv2   int
}

var structPrivs = map[string][]string{"main.VS1": {"hidden", "priv2"}}

// SString is a string-kinded fmt.Stringer.
type SString string

func (s SString) String() string { return "S(" + string(s) + ")" }

// NInt and NStr are named types without methods: the same integers and strings
// under another Go type.
type NInt int
type NStr string

// SInt is an int-kinded fmt.Stringer.
type SInt int

func (s SInt) String() string { return "<" + strconv.Itoa(int(s)) + ">" }

// methods of the harness struct (mirrored in the model: Exec.lean vs1Methods)
func (v VS1) GetB() any             { return v.B }
func (v VS1) Echo(s string) string  { return s + "!" }
func (v *VS1) PtrName() string      { return "ptr" }
func (v VS1) Fail() (string, error) { return "", errors.New("method failed") }
func (v VS1) Sum(xs ...int) int {
	t := 0
	for _, x := range xs {
		t += x
	}
	return t
}

// goFuncs is the catalogue of context functions (mirrored in the model: Exec.lean goFuncSig/goFuncRun).
var goFuncs = []any{
	0: func() string { return "f0" },
	1: func(i int) int { return i * 2 },
	2: func(s string, i int) string { return s + strconv.Itoa(i) },
	3: func(xs ...int) int {
		t := 0
		for _, x := range xs {
			t += x
		}
		return t
	},
	4: func(p string, xs ...string) string { return p + strings.Join(xs, ",") },
	5: func(v *pongo2.Value) *pongo2.Value { return pongo2.AsValue(v.String() + "!") },
	6: func(v *pongo2.Value, more ...*pongo2.Value) *pongo2.Value { return pongo2.AsValue(len(more)) },
	7: func() (string, error) { return "", errors.New("boom") },
	8: func(i int) (int, error) {
		if i < 0 {
			return 0, errors.New("negative")
		}
		return i + 1, nil
	},
	9: func(c *pongo2.ExecutionContext) string {
		if c.Autoescape {
			return "on"
		}
		return "off"
	},
	10: func(c *pongo2.ExecutionContext, s string) string { return s + "@" },
	11: func(a any) any { return a },
	12: func() *pongo2.Value { return pongo2.AsSafeValue("<b>") },
	13: func() (int, int, int) { return 1, 2, 3 },
	14: func() {},
	15: func() any { return nil },
	16: func() (string, string) { return "a", "b" },
	17: func(f float64) float64 { return f + 0.5 },
	18: func(b bool) bool { return !b },
	19: func(xs []int) int { return len(xs) },
	20: func(m map[string]any) int { return len(m) },
	21: func(s VS1) any { return s.A },
	22: func(a, b any) any { return b },
	23: func(c *pongo2.ExecutionContext, a, b, d string) string { return a + "-" + b + "-" + d },
	24: func(c *pongo2.ExecutionContext, a, b, d, e, f string) string { return a + b + d + e + f },
	25: func(c *pongo2.ExecutionContext, xs ...string) string { return "v:" + strings.Join(xs, ",") },
	26: func(c *pongo2.ExecutionContext, a string, xs ...int) string {
		t := 0
		for _, x := range xs {
			t += x
		}
		return a + strconv.Itoa(t)
	},
}

func vFunc(id int) VT { return VT{K: "func", I: int64(id)} }

func vStruct(a, b, c VT) VT {
	return VT{K: "struct", TName: "main.VS1", Keys: []string{"A", "B", "C"}, Items: []VT{a, b, c}}
}

func vStringerStr(s string) VT {
	in := vStr(s)
	return VT{K: "stringer", S: SString(s).String(), Inner: &in}
}

func vStringerInt(i int64) VT {
	in := vInt(i)
	return VT{K: "stringer", S: SInt(i).String(), Inner: &in}
}

// Go builds the real Go value.
func (v VT) Go() any {
	switch v.K {
	case "nil":
		return nil
	case "func":
		return goFuncs[v.I]
	case "bool":
		return v.B
	case "int":
		switch {
		case v.Rep == 1 && v.I >= math.MinInt8 && v.I <= math.MaxInt8:
			return int8(v.I)
		case v.Rep == 2 && v.I >= math.MinInt16 && v.I <= math.MaxInt16:
			return int16(v.I)
		case v.Rep == 3 && v.I >= math.MinInt32 && v.I <= math.MaxInt32:
			return int32(v.I)
		case v.Rep == 4:
			return v.I
		case v.Rep == 5:
			return NInt(v.I)
		}
		return int(v.I)
	case "uint":
		switch {
		case v.Rep == 1 && v.U <= math.MaxUint8:
			return uint8(v.U)
		case v.Rep == 2 && v.U <= math.MaxUint16:
			return uint16(v.U)
		case v.Rep == 3 && v.U <= math.MaxUint32:
			return uint32(v.U)
		case v.Rep == 4:
			return v.U
		}
		return uint(v.U)
	case "float":
		if v.Rep == 1 && float64(float32(v.F)) == v.F {
			return float32(v.F)
		}
		return v.F
	case "str":
		if v.Rep == 1 {
			return NStr(v.S)
		}
		return v.S
	case "list":
		if v.Rep == 9 && len(v.Items) == 0 {
			switch v.Elem {
			case "int":
				return []int(nil)
			case "string":
				return []string(nil)
			case "float":
				return []float64(nil)
			case "any":
				return []any(nil)
			}
		}
		switch v.Elem {
		case "value":
			out := make([]*pongo2.Value, len(v.Items))
			for i, it := range v.Items {
				out[i] = it.Go().(*pongo2.Value)
			}
			return out
		case "uint":
			switch v.Rep {
			case 1:
				out := make([]uint8, len(v.Items))
				for i, it := range v.Items {
					out[i] = uint8(it.U)
				}
				return out
			case 2:
				out := make([]uint64, len(v.Items))
				for i, it := range v.Items {
					out[i] = it.U
				}
				return out
			}
			out := make([]uint, len(v.Items))
			for i, it := range v.Items {
				out[i] = uint(it.U)
			}
			return out
		case "int":
			switch v.Rep {
			case 1:
				out := make([]int64, len(v.Items))
				for i, it := range v.Items {
					out[i] = it.I
				}
				return out
			case 2:
				out := make([]NInt, len(v.Items))
				for i, it := range v.Items {
					out[i] = NInt(it.I)
				}
				return out
			case 3:
				out := make(sort.IntSlice, len(v.Items))
				for i, it := range v.Items {
					out[i] = int(it.I)
				}
				return out
			}
			out := make([]int, len(v.Items))
			for i, it := range v.Items {
				out[i] = int(it.I)
			}
			return out
		case "string":
			switch v.Rep {
			case 1:
				out := make([]NStr, len(v.Items))
				for i, it := range v.Items {
					out[i] = NStr(it.S)
				}
				return out
			case 3:
				out := make(sort.StringSlice, len(v.Items))
				for i, it := range v.Items {
					out[i] = it.S
				}
				return out
			}
			out := make([]string, len(v.Items))
			for i, it := range v.Items {
				out[i] = it.S
			}
			return out
		case "float":
			out := make([]float64, len(v.Items))
			for i, it := range v.Items {
				out[i] = it.F
			}
			return out
		}
		out := make([]any, len(v.Items))
		for i, it := range v.Items {
			out[i] = it.Go()
		}
		return out
	case "arr":
		if v.Elem == "string" {
			t := reflect.ArrayOf(len(v.Items), reflect.TypeOf(""))
			a := reflect.New(t).Elem()
			for i, it := range v.Items {
				a.Index(i).SetString(it.S)
			}
			return a.Interface()
		}
		t := reflect.ArrayOf(len(v.Items), reflect.TypeOf(int(0)))
		a := reflect.New(t).Elem()
		for i, it := range v.Items {
			a.Index(i).SetInt(it.I)
		}
		return a.Interface()
	case "smap":
		if v.Rep == 9 && len(v.Keys) == 0 {
			return map[string]any(nil)
		}
		if v.Rep == 1 {
			m := map[NStr]any{}
			for i, k := range v.Keys {
				m[NStr(k)] = v.Items[i].Go()
			}
			return m
		}
		m := map[string]any{}
		for i, k := range v.Keys {
			m[k] = v.Items[i].Go()
		}
		return m
	case "imap":
		small := true
		for _, k := range v.IKeys {
			if k < 0 || k > 255 {
				small = false
			}
		}
		switch {
		case v.Rep == 1:
			m := map[int64]any{}
			for i, k := range v.IKeys {
				m[k] = v.Items[i].Go()
			}
			return m
		case v.Rep == 2 && small:
			m := map[uint8]any{}
			for i, k := range v.IKeys {
				m[uint8(k)] = v.Items[i].Go()
			}
			return m
		}
		m := map[int]any{}
		for i, k := range v.IKeys {
			m[int(k)] = v.Items[i].Go()
		}
		return m
	case "struct":
		s := VS1{hidden: "HIDDEN", priv2: 7}
		for i, k := range v.Keys {
			switch k {
			case "A":
				s.A = v.Items[i].Go()
			case "B":
				s.B = v.Items[i].Go()
			case "C":
				s.C = v.Items[i].Go()
			}
		}
		return s
	case "ptr":
		switch v.Inner.K {
		case "struct":
			s := v.Inner.Go().(VS1)
			return &s
		case "int":
			if v.Inner.Rep != 0 {
				iv := v.Inner.Go()
				p := reflect.New(reflect.TypeOf(iv))
				p.Elem().Set(reflect.ValueOf(iv))
				return p.Interface()
			}
			i := int(v.Inner.I)
			return &i
		case "str", "uint", "float", "bool", "stringer":
			iv := v.Inner.Go()
			p := reflect.New(reflect.TypeOf(iv))
			p.Elem().Set(reflect.ValueOf(iv))
			return p.Interface()
		}
		x := v.Inner.Go()
		return &x
	case "nilptr":
		return (*VS1)(nil)
	case "boxed":
		if v.Safe {
			return pongo2.AsSafeValue(v.Inner.Go())
		}
		return pongo2.AsValue(v.Inner.Go())
	case "stringer":
		switch v.Inner.K {
		case "str":
			return SString(v.Inner.S)
		case "int":
			return SInt(v.Inner.I)
		}
	}
	panic("go: unknown kind " + v.K)
}

// Vary returns the term with randomly chosen Go representations (the model's
// term is unchanged).
func (v VT) Vary(r *RNG) VT { return v.vary(r, true, false) }

// vary: with types = false the Go type of lists stays (its name is visible when a list is printed).
func (v VT) vary(r *RNG, types, inner bool) VT {
	out := v
	if len(v.Items) > 0 {
		out.Items = make([]VT, len(v.Items))
		for i, it := range v.Items {
			if v.K == "list" && v.Elem != "any" || v.K == "arr" {
				out.Items[i] = it // typed containers fix the representation of their items
			} else {
				out.Items[i] = it.vary(r, types, false)
			}
		}
	}
	if v.Inner != nil {
		in := v.Inner.vary(r, types, true)
		out.Inner = &in
	}
	if r.Bool() {
		return out
	}
	// one time in eight another term that templates cannot tell apart: a
	// non-negative int as an unsigned one, a scalar behind a pointer
	if !types && !inner && r.Intn(8) == 0 {
		switch v.K {
		case "int":
			if v.I >= 0 && r.Bool() {
				return VT{K: "uint", U: uint64(v.I), Rep: r.Intn(5)}
			}
			out.Rep = r.Intn(6)
			return vPtr(out)
		case "float", "str", "bool", "uint":
			return vPtr(out)
		}
	}
	switch v.K {
	case "int":
		out.Rep = r.Intn(6)
	case "uint":
		out.Rep = r.Intn(5)
	case "float", "str":
		out.Rep = r.Intn(2)
	case "list":
		if len(v.Items) == 0 {
			out.Rep = 9
		} else if types {
			out.Rep = r.Intn(4)
		}
	case "smap":
		if len(v.Keys) == 0 {
			out.Rep = 9
		} else if types {
			out.Rep = r.Intn(2)
		}
	case "imap":
		if types {
			out.Rep = r.Intn(3)
		}
	}
	return out
}

// reps lists the non-canonical representation choices of a term (for the case description).
func (v VT) reps(sb *strings.Builder) {
	if v.Rep != 0 {
		fmt.Fprintf(sb, "~%T", v.Go())
	}
	for _, it := range v.Items {
		it.reps(sb)
	}
	if v.Inner != nil {
		v.Inner.reps(sb)
	}
}

// Varied returns the context with every value's representation varied.
func (c CtxTerm) Varied(r *RNG) CtxTerm { return c.varied(r, true) }

func (c CtxTerm) varied(r *RNG, types bool) CtxTerm {
	out := CtxTerm{Names: c.Names, Vals: make([]VT, len(c.Vals))}
	for i, v := range c.Vals {
		out.Vals[i] = v.vary(r, types, false)
	}
	return out
}

// CtxTerm is an ordered context: names and terms.
type CtxTerm struct {
	Names []string
	Vals  []VT
}

func (c CtxTerm) Wire() string {
	return vSMap(c.Names, c.Vals).Wire()
}

func (c CtxTerm) Go() pongo2.Context {
	out := pongo2.Context{}
	for i, n := range c.Names {
		out[n] = c.Vals[i].Go()
	}
	return out
}

func (c CtxTerm) String() string {
	parts := make([]string, len(c.Names))
	for i, n := range c.Names {
		var sb strings.Builder
		c.Vals[i].reps(&sb)
		parts[i] = n + "=" + c.Vals[i].Wire() + sb.String()
	}
	sort.Strings(parts)
	return strings.Join(parts, " ")
}

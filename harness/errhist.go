package main

import (
	"regexp"
	"sort"
)

func init() { suites["errhist"] = suiteErrHist }

var reErrTail = regexp.MustCompile(`\] (.*)$`)
var reQuoted = regexp.MustCompile(`'[^']*'|"[^"]*"|\d+`)

// suiteErrHist is a generator-quality report: which errors the general
// program generator provokes (not a property check).
func suiteErrHist(cfg Config, res *Result) {
	rng := NewRNG(cfg.Seed)
	counts := map[string]int{}
	for i := 0; i < 3000; i++ {
		g := NewGen(rng.Fork())
		c := g.Program(1 + rng.Intn(6))
		o := c.RunImpl()
		if o.Class == "ok" {
			continue
		}
		m := reErrTail.FindStringSubmatch(o.Msg)
		msg := o.Msg
		if m != nil {
			msg = m[1]
		}
		msg = reQuoted.ReplaceAllString(msg, "_")
		if len(msg) > 70 {
			msg = msg[:70]
		}
		counts[o.Class+": "+msg]++
	}
	type kv struct {
		k string
		v int
	}
	var kvs []kv
	for k, v := range counts {
		kvs = append(kvs, kv{k, v})
	}
	sort.Slice(kvs, func(i, j int) bool { return kvs[i].v > kvs[j].v })
	for i, e := range kvs {
		if i < 40 {
			res.Samples = append(res.Samples, e.k+" x"+itoa(e.v))
		}
	}
	res.Cases = 3000
}

func itoa(i int) string {
	if i == 0 {
		return "0"
	}
	s := ""
	for i > 0 {
		s = string(rune('0'+i%10)) + s
		i /= 10
	}
	return s
}

func init() {
	suites["errsample"] = func(cfg Config, res *Result) {
		rng := NewRNG(cfg.Seed)
		n := 0
		for i := 0; i < 3000 && n < 12; i++ {
			g := NewGen(rng.Fork())
			c := g.Program(1 + rng.Intn(3))
			o := c.RunImpl()
			if o.Class == "compile" && len(c.Src) < 200 && regexp.MustCompile(cfg.Replay).MatchString(o.Msg) {
				res.Samples = append(res.Samples, c.Src+"   ==> "+o.Msg)
				n++
			}
		}
	}
}

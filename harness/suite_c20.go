package main

import (
	"fmt"
	"strings"
	"time"

	pongo2 "github.com/flosch/pongo2/v6"
)

func init() { suites["c20-hist"] = suiteC20Hist }

type cacheOp struct {
	k     string // G A K D W
	names []string
	b     bool
	body  *string
}

func (o cacheOp) wire() string {
	switch o.k {
	case "G":
		return "G " + hxb(o.names[0])
	case "A":
		return "A"
	case "K":
		s := fmt.Sprintf("K %d", len(o.names))
		for _, n := range o.names {
			s += " " + hxb(n)
		}
		return s
	case "D":
		if o.b {
			return "D1"
		}
		return "D0"
	case "W":
		if o.body == nil {
			return "W " + hxb(o.names[0]) + " !"
		}
		return "W " + hxb(o.names[0]) + " " + hxb(*o.body)
	}
	return "?"
}

func (o cacheOp) String() string {
	switch o.k {
	case "G":
		return "FromCache(" + o.names[0] + ")"
	case "A":
		return "CleanCache()"
	case "K":
		return "CleanCache(" + strings.Join(o.names, ",") + ")"
	case "D":
		return fmt.Sprint("Debug=", o.b)
	case "W":
		if o.body == nil {
			return "delete " + o.names[0]
		}
		return fmt.Sprintf("write %s=%q", o.names[0], *o.body)
	}
	return "?"
}

func suiteC20Hist(cfg Config, res *Result) {
	defer c20Options(res)
	defer c20EmptyFiles(res)
	defer c20ReloadingLoader(res)
	defer c20LoaderHistories(cfg, res)
	defer twoBaseDirs(res, "cache", "c20-two-base-dirs")
	defer c20ImportFresh(res)
	defer c20RenderFile(res)
	defer c20DefaultSet(res)
	res.Rule = "random histories (<= 20 ops) over FromCache(n), CleanCache(), CleanCache(n..), Debug on/off, write/delete a file (incl. content that does not compile) on 3 names (one spelled two ways: a.tpl and ./a.tpl) with a counting in-memory loader; compared with the Lean cache model: identity classes of the returned templates (pointer equality), errors, and the loader's Get log; direct oracle: same pointer for the same name between cleans with Debug off, one fetch per miss, a name covered by a CleanCache (whatever Debug says at that moment) is fetched again at its next lookup; a second set sharing the loader is never affected; non-trivial = history with >= 2 FromCache of one name; distinct by history"
	n := 3000
	if cfg.Thorough() {
		n = 60000
	}
	rng := NewRNG(cfg.Seed)
	// names are plain text to the cache: characters that mean something to a shell pattern name only themselves
	names := []string{"a.tpl", "b.tpl", "./a.tpl", "sub/../b.tpl", "c.tpl", "l[1].tpl", "*.tpl", "?.tpl", "[a-c].tpl", "a.tp?"}
	files := []string{"a.tpl", "b.tpl", "c.tpl", "l[1].tpl", "*.tpl", "?.tpl", "[a-c].tpl", "a.tp?"}
	bodies := []string{"x", "y{{ 1 }}", "{% if %}", "z"}
	var reqs, impls, descs []string
	for i := 0; i < n; i++ {
		k := 2 + rng.Intn(19)
		ops := []cacheOp{{k: "W", names: []string{"a.tpl"}, body: &bodies[0]}}
		if rng.Bool() {
			ops = append(ops, cacheOp{k: "W", names: []string{"b.tpl"}, body: &bodies[1]})
		}
		for j := 0; j < k; j++ {
			switch rng.Intn(10) {
			case 0:
				ops = append(ops, cacheOp{k: "A"})
			case 1:
				m := 1 + rng.Intn(2)
				var ns []string
				for q := 0; q < m; q++ {
					ns = append(ns, rng.Pick(names))
				}
				ops = append(ops, cacheOp{k: "K", names: ns})
			case 2:
				ops = append(ops, cacheOp{k: "D", b: rng.Bool()})
			case 3:
				if rng.Chance(1, 4) {
					ops = append(ops, cacheOp{k: "W", names: []string{rng.Pick(names[:2])}})
				} else {
					b := rng.Pick(bodies)
					ops = append(ops, cacheOp{k: "W", names: []string{rng.Pick(files[:3+rng.Intn(len(files)-2)])}, body: &b})
				}
			default:
				ops = append(ops, cacheOp{k: "G", names: []string{rng.Pick(names)}})
			}
		}
		// implementation
		ml := &memLoader{files: map[string]string{}, id: "0"}
		set := pongo2.NewSet("c20", ml)
		other := pongo2.NewSet("c20b", ml)
		otherTpl, _ := func() (*pongo2.Template, error) { ml.files["o.tpl"] = "o"; return other.FromCache("o.tpl") }()
		ml.log = nil
		ids := map[*pongo2.Template]int{}
		var out []string
		gets := map[string]int{}
		lastPtr := map[string]*pongo2.Template{}
		mustFetch := map[string]bool{} // cleaned since it was last cached: the next lookup has to go to the loader
		debug := false
		inCache := map[string]bool{} // names a non-debug FromCache has stored and no CleanCache has covered since
		hung := false
		for _, o := range ops {
			if hung {
				break
			}
			switch o.k {
			case "G":
				gets[o.names[0]]++
				before := len(ml.log)
				type fcRes struct {
					tpl *pongo2.Template
					err error
				}
				ch := make(chan fcRes, 1)
				go func(name string) {
					t, e := set.FromCache(name)
					ch <- fcRes{t, e}
				}(o.names[0])
				var tpl *pongo2.Template
				var err error
				select {
				case r := <-ch:
					tpl, err = r.tpl, r.err
				case <-time.After(4 * time.Second):
					hung = true
					res.add(Finding{Kind: "oracle", Proj: "cache", Sig: "c20-call-does-not-return", Case: fmt.Sprint(ops), Impl: fmt.Sprintf("%s did not return within 4s", o), Model: "a template or an error"})
					continue
				}
				if tpl == nil && err == nil {
					res.add(Finding{Kind: "oracle", Proj: "cache", Sig: "c20-neither-template-nor-error", Case: fmt.Sprint(ops), Impl: fmt.Sprintf("%s returned (nil, nil)", o), Model: "a template or an error"})
				}
				if cached := inCache[ml.Abs("", o.names[0])]; !cached || debug {
					// nothing usable is cached under the name: the outcome is decided by the file as it is now
					body, present := ml.files[ml.Abs("", o.names[0])]
					fileOK := present && body != "{% if %}"
					if fileOK != (err == nil && tpl != nil) {
						res.add(Finding{Kind: "oracle", Proj: "cache", Sig: "c20-lookup-does-not-reflect-the-file", Case: fmt.Sprint(ops), Impl: fmt.Sprintf("%s: template=%v err=%v", o, tpl != nil, err), Model: fmt.Sprintf("file present=%v compiles=%v: a failed load is not remembered", present, fileOK)})
					}
					if len(ml.log) == before {
						res.add(Finding{Kind: "oracle", Proj: "cache", Sig: "c20-miss-without-fetch", Case: fmt.Sprint(ops), Impl: fmt.Sprintf("%s: answered without asking the loader although nothing is cached", o), Model: "one fetch per miss"})
					}
				}
				if !debug && mustFetch[ml.Abs("", o.names[0])] {
					if len(ml.log) == before {
						res.add(Finding{Kind: "oracle", Proj: "cache", Sig: "c20-clean-did-not-forget", Case: fmt.Sprint(ops), Impl: fmt.Sprintf("%s: served without asking the loader after CleanCache", o), Model: "a cleaned name is fetched again"})
					}
					delete(mustFetch, ml.Abs("", o.names[0]))
				}
				if err != nil {
					out = append(out, "e")
					delete(lastPtr, ml.Abs("", o.names[0]))
				} else {
					if _, ok := ids[tpl]; !ok {
						ids[tpl] = len(ids)
					}
					out = append(out, fmt.Sprintf("t%d", ids[tpl]))
					key := ml.Abs("", o.names[0])
					// direct oracle: between cleans, with Debug off, the same pointer and no fetch
					if prev, ok := lastPtr[key]; ok && !debug {
						if prev != tpl || len(ml.log) != before {
							res.add(Finding{Kind: "oracle", Proj: "cache", Sig: "c20-not-same-template", Case: fmt.Sprint(ops), Impl: fmt.Sprintf("%s: new template or fetch on a cached name", o), Model: "same template, no fetch"})
						}
					}
					if !debug {
						lastPtr[key] = tpl
						inCache[key] = true
					}
				}
			case "A":
				if !c20Within(func() { set.CleanCache() }) {
					hung = true
					res.add(Finding{Kind: "oracle", Proj: "cache", Sig: "c20-call-does-not-return", Case: fmt.Sprint(ops), Impl: "CleanCache() did not return within 4s", Model: "returns"})
					continue
				}
				lastPtr = map[string]*pongo2.Template{}
				inCache = map[string]bool{}
				for _, nm := range files {
					mustFetch[nm] = true
				}
			case "K":
				if names := o.names; !c20Within(func() { set.CleanCache(names...) }) {
					hung = true
					res.add(Finding{Kind: "oracle", Proj: "cache", Sig: "c20-call-does-not-return", Case: fmt.Sprint(ops), Impl: fmt.Sprintf("%s did not return within 4s", o), Model: "returns"})
					continue
				}
				for _, nm := range o.names {
					delete(lastPtr, ml.Abs("", nm))
					delete(inCache, ml.Abs("", nm))
					mustFetch[ml.Abs("", nm)] = true
				}
			case "D":
				set.Debug = o.b
				debug = o.b
			case "W":
				if o.body == nil {
					delete(ml.files, ml.Abs("", o.names[0]))
				} else {
					ml.files[ml.Abs("", o.names[0])] = *o.body
				}
			}
		}
		if hung {
			impls = append(impls, "hung")
			var ws []string
			for _, o := range ops {
				ws = append(ws, o.wire())
			}
			reqs = append(reqs, "cache "+strings.Join(ws, " "))
			descs = append(descs, fmt.Sprint(ops))
			if len(res.Findings) > 3 {
				break // every history hangs alike: enough
			}
			continue
		}
		// the other set still has its own cached template
		if t2, err := other.FromCache("o.tpl"); err != nil || t2 != otherTpl {
			res.add(Finding{Kind: "oracle", Proj: "cache", Sig: "c20-other-set-affected", Case: fmt.Sprint(ops), Impl: "other set lost its cached template", Model: "sets are independent"})
		}
		nt := false
		for _, c := range gets {
			if c >= 2 {
				nt = true
			}
		}
		if nt {
			res.DistinctNontrivial++
		}
		var logNames []string
		for _, l := range ml.log {
			if strings.HasSuffix(l, "o.tpl") {
				continue
			}
			logNames = append(logNames, hxb(strings.TrimPrefix(l, "0:")))
		}
		impls = append(impls, strings.Join(out, " ")+" | "+strings.Join(logNames, ","))
		var ws []string
		for _, o := range ops {
			ws = append(ws, o.wire())
		}
		reqs = append(reqs, "cache "+strings.Join(ws, " "))
		descs = append(descs, fmt.Sprint(ops))
	}
	res.Cases = len(reqs)
	for i := 0; i < 2; i++ {
		res.sample(descs[i] + " => " + impls[i])
	}
	model, err := runDriver(cfg.Driver, reqs)
	if err != nil {
		res.add(Finding{Kind: "disagree", Proj: "driver", Sig: "driver-failed", Model: err.Error()})
		return
	}
	for i := range reqs {
		if model[i] != impls[i] {
			res.add(Finding{Kind: "disagree", Proj: "cache", Sig: "c20-hist-model", Case: descs[i], Impl: impls[i], Model: model[i]})
		}
	}
}

// c20Within runs f and reports whether it came back within the watchdog's time
func c20Within(f func()) bool {
	done := make(chan struct{})
	go func() { f(); close(done) }()
	select {
	case <-done:
		return true
	case <-time.After(4 * time.Second):
		return false
	}
}

package main

import (
	"fmt"
	"net/url"
	"reflect"
	"regexp"
	"strings"
	"time"
	"unicode/utf8"

	pongo2 "github.com/flosch/pongo2/v6"
)

func init() { suites["c17-str"] = suiteC17 }

var c17Filters = []string{"escape", "e", "escapejs", "urlencode", "iriencode", "addslashes", "striptags", "safe"}

var entities = []struct{ ent, ch string }{{"&amp;", "&"}, {"&lt;", "<"}, {"&gt;", ">"}, {"&quot;", "\""}, {"&#39;", "'"}}

// decodeEntities: the harness's own five-entity decoder; ok=false if a '&' does not start an entity.
func decodeEntities(s string) (string, bool) {
	var sb strings.Builder
	for i := 0; i < len(s); {
		if s[i] != '&' {
			sb.WriteByte(s[i])
			i++
			continue
		}
		hit := false
		for _, e := range entities {
			if strings.HasPrefix(s[i:], e.ent) {
				sb.WriteString(e.ch)
				i += len(e.ent)
				hit = true
				break
			}
		}
		if !hit {
			return "", false
		}
	}
	return sb.String(), true
}

// validRunes: the characters of the input — everything but invalid bytes (a U+FFFD written in the
// input is a character like any other)
func validRunes(s string) []rune {
	var out []rune
	for i := 0; i < len(s); {
		r, w := utf8.DecodeRuneInString(s[i:])
		if r != utf8.RuneError || w > 1 {
			out = append(out, r)
		}
		i += w
	}
	return out
}

// jsDecode decodes an escapejs output: letters, space, '/' and \uXXXX groups
// (UTF-16 code units, surrogate pairs combined). ok=false on anything else.
func jsDecode(s string) ([]rune, bool) {
	var units []uint16
	for i := 0; i < len(s); {
		c := s[i]
		switch {
		case (c >= 'a' && c <= 'z') || (c >= 'A' && c <= 'Z') || c == ' ' || c == '/':
			units = append(units, uint16(c))
			i++
		case c == '\\' && i+5 < len(s)+0 && i+6 <= len(s) && s[i+1] == 'u':
			var v uint16
			for k := 2; k < 6; k++ {
				d := s[i+k]
				switch {
				case d >= '0' && d <= '9':
					v = v*16 + uint16(d-'0')
				case d >= 'A' && d <= 'F':
					v = v*16 + uint16(d-'A'+10)
				default:
					return nil, false
				}
			}
			units = append(units, v)
			i += 6
		default:
			return nil, false
		}
	}
	var out []rune
	for i := 0; i < len(units); i++ {
		u := units[i]
		if u >= 0xD800 && u < 0xDC00 && i+1 < len(units) && units[i+1] >= 0xDC00 && units[i+1] < 0xE000 {
			out = append(out, 0x10000+(rune(u)-0xD800)<<10+(rune(units[i+1])-0xDC00))
			i++
			continue
		}
		out = append(out, rune(u))
	}
	return out, true
}

func runesEq(a, b []rune) bool {
	if len(a) != len(b) {
		return false
	}
	for i := range a {
		if a[i] != b[i] {
			return false
		}
	}
	return true
}

const iriSet = "/#%[]=:;$&()+,!?*@'~"

// c17Oracle judges one filter application model-free; returns "" if fine.
func c17Oracle(name, in, out string) string {
	switch name {
	case "escape", "e":
		if strings.ContainsAny(out, "<>\"'") {
			return "output contains one of < > \" '"
		}
		dec, ok := decodeEntities(out)
		if !ok {
			return "a & in the output does not start one of the five entities"
		}
		if dec != in {
			return "unescaping the output does not give back the input"
		}
	case "escapejs":
		dec, ok := jsDecode(out)
		if !ok {
			return "output is not made of ASCII letters, space, / and \\uXXXX groups"
		}
		// the two fixture-pinned rewrites: backslash-r / backslash-n (two characters) become CR / LF
		want := validRunes(strings.NewReplacer("\\r", "\r", "\\n", "\n").Replace(in))
		if !runesEq(dec, want) {
			return "decoding the output does not give the input's characters"
		}
	case "urlencode":
		for i := 0; i < len(out); i++ {
			c := out[i]
			if !((c >= 'a' && c <= 'z') || (c >= 'A' && c <= 'Z') || (c >= '0' && c <= '9') || strings.IndexByte("-_.~+%", c) >= 0) {
				return "output contains a byte that is not query-safe"
			}
		}
		dec, err := url.QueryUnescape(out)
		if err != nil || dec != in {
			return "query-unescaping the output does not give back the input"
		}
	case "iriencode":
		var sb strings.Builder
		for _, r := range in {
			if strings.ContainsRune(iriSet, r) {
				sb.WriteRune(r)
			} else {
				sb.WriteString(url.QueryEscape(string(r)))
			}
		}
		if out != sb.String() {
			return "a rune is not copied iff it is in the reserved set / not query-escaped otherwise"
		}
	case "addslashes":
		var sb strings.Builder
		for i := 0; i < len(in); i++ {
			if in[i] == '\\' || in[i] == '"' || in[i] == '\'' {
				sb.WriteByte('\\')
			}
			sb.WriteByte(in[i])
		}
		if out != sb.String() {
			return "not exactly one backslash before every quote/backslash and nothing else"
		}
	case "striptags":
		lt := strings.IndexByte(out, '<')
		if lt >= 0 && strings.IndexByte(out[lt:], '>') >= 0 {
			return "a complete tag remains in the output"
		}
		// the output is a subsequence of the input
		j := 0
		for i := 0; i < len(in) && j < len(out); i++ {
			if in[i] == out[j] {
				j++
			}
		}
		if j != len(out) {
			return "output is not a subsequence of the input"
		}
	case "safe":
		if out != in {
			return "safe changed its input"
		}
	}
	return ""
}

var reRemoveTag = regexp.MustCompile(`</?[bi]/?>`)

func suiteC17(cfg Config, res *Result) {
	defer c17Literals(res)
	defer filtersSeeCurrentText(res, "filter", "c17-filter-aliases-input")
	defer recursiveMacroNodes(res, "filter", "c17-recursive-filter-tag", "filter")
	defer c17FilterTagEscape(res)
	defer c17UnderSwitch(res)
	res.Rule = "inputs: single runes of the BMP (every rune < 0x500 and a stride of the rest in quick; all in thorough), 256 single bytes, astral runes, all pairs and triples over & < > \" ' \\ / space % + # ; a ü 0xFF, random strings mixing specials, multi-byte runes, invalid UTF-8, existing entities and backslash sequences; each through ApplyFilter (a sample also as a value marked safe and as the result of a macro call) for escape e escapejs urlencode iriencode addslashes striptags safe (and removetags model-free); compared with the model and judged by the harness's own decoders; non-trivial = input containing a special or non-ASCII byte; distinct by (filter, input)"
	rng := NewRNG(cfg.Seed)
	var inputs []string
	stride := 11
	if cfg.Thorough() {
		stride = 1
	}
	for r := rune(0); r < 0x10000; r++ {
		if r >= 0xD800 && r < 0xE000 {
			continue
		}
		if r < 0x500 || int(r)%stride == int(cfg.Seed)%stride {
			inputs = append(inputs, string(r))
		}
	}
	for b := 0; b < 256; b++ {
		inputs = append(inputs, string([]byte{byte(b)}))
	}
	inputs = append(inputs, "😀", "a😀b", "\U00010000", "\U0010FFFF", "𝒳y")
	sp := []string{"&", "<", ">", "\"", "'", "\\", "/", " ", "%", "+", "#", ";", "a", "ü", "\xff"}
	for _, a := range sp {
		for _, b := range sp {
			inputs = append(inputs, a+b)
			for _, c := range sp {
				inputs = append(inputs, a+b+c)
			}
		}
	}
	atoms := append([]string{"&amp;", "&lt;", "&#39;", "&quot;", "&gt;", "\\n", "\\r", "\\\\", "\\u0041", "<b>", "</b>", "<i/>", "< b >", "<a href='x'>", "%20", "%2", "\n", "\r\n", "\t", "é", "日本", "\xc3", "\xe2\x82", "�", "x", "Y", "0", " "}, sp...)
	nRand := 3000
	if cfg.Thorough() {
		nRand = 60000
	}
	for i := 0; i < nRand; i++ {
		n := 1 + rng.Intn(8)
		var sb strings.Builder
		for j := 0; j < n; j++ {
			sb.WriteString(rng.Pick(atoms))
		}
		inputs = append(inputs, sb.String())
	}
	if cfg.Replay != "" {
		inputs = []string{unhx(cfg.Replay)}
	}
	type cs struct {
		f, in string
		impl  string
		out   string
	}
	var cases []cs
	var reqs []string
	seen := map[string]bool{}
	for _, in := range inputs {
		if seen[in] {
			continue
		}
		seen[in] = true
		nt := false
		for i := 0; i < len(in); i++ {
			if in[i] >= 0x80 || strings.IndexByte("&<>\"'\\/ %+#;", in[i]) >= 0 {
				nt = true
			}
		}
		for _, f := range c17Filters {
			ans, val := implFilter(f, vStr(in), vNil())
			out := ""
			if val != nil {
				out = val.String()
			}
			cases = append(cases, cs{f, in, ans, out})
			reqs = append(reqs, filterReq(f, vStr(in), vNil()))
			res.hist(f)
			if nt {
				res.DistinctNontrivial++
			}
			if strings.HasPrefix(ans, "panic") || ans == "err" {
				res.add(Finding{Kind: "oracle", Proj: "filter", Sig: "c17-" + f + "-fails", Case: hx(in), Impl: ans, Model: "a value"})
				continue
			}
			if why := c17Oracle(f, in, out); why != "" {
				sig := "c17-" + f
				if f == "escapejs" {
					for _, r := range in {
						if r > 0xFFFF {
							sig = "c17-escapejs-astral"
						}
					}
				}
				res.add(Finding{Kind: "oracle", Proj: "filter", Sig: sig, Case: hx(in), Impl: hx(out), Model: why})
			}
		}
		// what a filter promises does not depend on the input being marked safe
		if nt && len(seen)%5 == 0 {
			for _, f := range c17Filters {
				if f == "safe" {
					continue
				}
				plain, e1 := pongo2.ApplyFilter(f, pongo2.AsValue(in), nil)
				marked, e2 := pongo2.ApplyFilter(f, pongo2.AsSafeValue(in), nil)
				if e1 != nil || e2 != nil {
					continue
				}
				if plain.String() != marked.String() {
					res.add(Finding{Kind: "oracle", Proj: "filter", Sig: "c17-" + f + "-on-safe-input", Case: hx(in), Impl: hx(marked.String()), Model: "the same as on the unmarked text: " + hx(plain.String())})
				}
				r := implRender("{% autoescape off %}{% macro mm() %}{{ v }}{% endmacro %}{{ mm()|"+f+" }}{% endautoescape %}", pongo2.Context{"v": in})
				if r.Err == "" && !r.Panicked && r.Out != plain.String() {
					res.add(Finding{Kind: "oracle", Proj: "filter", Sig: "c17-" + f + "-on-safe-input", Case: hx(in), Impl: r.String(), Model: "macro output through " + f + " = " + hx(plain.String())})
				}
			}
		}
		// removetags: model-free only
		if strings.Contains(in, "<") {
			_, val := implFilter("removetags", vStr(in), vStr("b,i"))
			if val != nil {
				out := val.String()
				strip := func(s string) string {
					for {
						t := reRemoveTag.ReplaceAllString(s, "")
						if t == s {
							return strings.TrimSpace(s)
						}
						s = t
					}
				}
				if strip(in) != strip(out) {
					res.add(Finding{Kind: "oracle", Proj: "filter", Sig: "c17-removetags", Case: hx(in), Impl: hx(out), Model: "removetags removed something that is not a named tag"})
				}
			}
		}
	}
	// the same through the template syntax, on a sample
	for i := 0; i < len(cases); i += 97 {
		c := cases[i]
		if !strings.HasPrefix(c.impl, "ok") {
			continue
		}
		// … written directly, in the body of a local or an imported macro, in a parent's block reached
		// through block.Super: with autoescape off around the place it is used
		// from, what comes out is what the filter returned
		f := c.f
		files := map[string]string{
			"lib.tpl":  "{% macro lm(x) export %}{{ x|" + f + " }}{% endmacro %}",
			"base.tpl": "{% block c %}{{ v|" + f + " }}{% endblock %}",
			"inc.tpl":  "{{ v|" + f + " }}",
		}
		shapes := []string{
			"{% autoescape off %}{{ v|" + f + " }}{% endautoescape %}",
			"{% macro mm() %}{{ v|" + f + " }}{% endmacro %}{% autoescape off %}{{ mm() }}{% endautoescape %}",
			"{% macro mm(x) %}{{ x|" + f + " }}{% endmacro %}{% autoescape off %}{% if 1 %}{{ mm(v) }}{% endif %}{% endautoescape %}",
			`{% import "lib.tpl" lm %}{% autoescape off %}{{ lm(v) }}{% endautoescape %}`,
			`{% extends "base.tpl" %}{% block c %}{% autoescape off %}{{ block.Super }}{% endautoescape %}{% endblock %}`,
			// (an included template starts a rendering of its own, with the set's autoescape default: not a shape here)
			"{% autoescape off %}{% with w=v %}{% for q in one %}{{ w|" + f + " }}{% endfor %}{% endwith %}{% endautoescape %}",
			"{% autoescape on %}{% autoescape off %}{% filter " + f + " %}{{ v }}{% endfilter %}{% endautoescape %}{% endautoescape %}",
		}
		k := (i / 97) % len(shapes)
		r := implRenderFiles(shapes[k], files, pongo2.Context{"v": c.in, "one": []int{1}})
		if r.Err != "" || r.Panicked || r.Out != c.out {
			res.add(Finding{Kind: "oracle", Proj: "filter", Sig: fmt.Sprintf("c17-template-vs-api-shape%d", k), Case: hx(c.in) + " in " + shapes[k], Impl: r.String(), Model: fmt.Sprintf("ApplyFilter(%s) = %s", c.f, hx(c.out))})
		}
	}
	c17SafeIdentity(res)
	c17Removetags(res)
	res.Cases = len(cases)
	for i := 0; i < 3 && i < len(cases); i++ {
		c := cases[len(cases)-1-i*8]
		res.sample(fmt.Sprintf("%s(%q) = %q", c.f, c.in, c.out))
	}
	model, err := runDriver(cfg.Driver, reqs)
	if err != nil {
		res.add(Finding{Kind: "disagree", Proj: "driver", Sig: "driver-failed", Model: err.Error()})
		return
	}
	for i, c := range cases {
		if model[i] == "unsupported" {
			res.hist("model:unsupported")
			continue
		}
		if model[i] != c.impl {
			res.add(Finding{Kind: "disagree", Proj: "filter", Sig: "c17-" + c.f + "-model", Case: hx(c.in), Impl: c.impl, Model: model[i]})
		}
	}
}

// c17SafeIdentity: `safe` returns its input unchanged — the value itself, of whatever kind, so that
// what follows it in a chain or uses it as a value sees what it would have seen without it
func c17SafeIdentity(res *Result) {
	n := 41
	str := "<b>"
	type pt struct{ X, Y int }
	vals := []any{41, int8(-3), uint8(200), uint64(1 << 63), 2.5, float32(0.5), true, false, nil, "", "<b>", &str, &n,
		[]string{"a", "<", "c"}, [3]int{1, 2, 3}, []any{1, "x", nil}, map[string]int{"k": 1}, pt{1, 2}, &pt{3, 4}, SInt(5), time.Duration(90) * time.Second, []byte("ab")}
	for _, v := range vals {
		out, err := pongo2.ApplyFilter("safe", pongo2.AsValue(v), nil)
		if err != nil || out == nil || !reflect.DeepEqual(out.Interface(), v) {
			got := "error"
			if err == nil && out != nil {
				got = fmt.Sprintf("%T %#v", out.Interface(), out.Interface())
			}
			res.add(Finding{Kind: "oracle", Proj: "filter", Sig: "c17-safe-not-the-input", Case: fmt.Sprintf("%T %#v", v, v), Impl: got, Model: "safe returns its input unchanged"})
		}
	}
	ctx := pongo2.Context{"n": 41, "u": uint8(200), "f": 2.5, "t": true, "l": []string{"a", "<", "c"}, "m": map[string]int{"k": 1}, "p": &pt{3, 4}, "nl": nil, "s": "<b>"}
	for _, c := range []string{"{{ n|@|add:1 }}", "{{ u|@|add:1 }}", "{{ f|@|floatformat:2 }}", "{{ t|@|yesno:\"y,n\" }}", "{{ l|@|join:\",\" }}", "{{ l|@|length }}", "{{ l|@|first }}",
		"{% for x in l|@ %}[{{ x }}]{% endfor %}", "{{ m|@|length }}", "{% with w=p|@ %}{{ w.X }}{% endwith %}", "{{ nl|@|default_if_none:\"d\" }}", "{% if n|@ == 41 %}y{% endif %}", "{% if \"a\" in l|@ %}y{% endif %}",
		"{% with w=l|@ %}{{ w.2 }}{% endwith %}", "{{ s|@|length }}", "{{ s|@|upper }}", "{{ n|@|@|divisibleby:41 }}", "{% set q = n|@ %}{{ q + 1 }}"} {
		with := strings.ReplaceAll(c, "|@", "|safe")
		without := strings.ReplaceAll(c, "|@", "")
		a := implRender("{% autoescape off %}"+with+"{% endautoescape %}", ctx)
		b := implRender("{% autoescape off %}"+without+"{% endautoescape %}", ctx)
		res.Cases++
		if a.String() != b.String() {
			res.add(Finding{Kind: "oracle", Proj: "filter", Sig: "c17-safe-changes-the-value", Case: with, Impl: a.String(), Model: "as without safe: " + b.String()})
		}
	}
}

// c17Removetags: only the named tags go — not the tags whose names merely begin with a named one,
// not tags with attributes, not text
func c17Removetags(res *Result) {
	inputs := []string{"line<br>break", "<body>x</body>", "<blockquote>q</blockquote>", `<img src="x"><i>a</i>`, "<i>a</i><b>b</b>", "<script>s()</script><s>x</s>",
		"<pre>p</pre><p>q</p>", `<abbr>a</abbr><a>b</a><a href="u">c</a>`, "< b>x</ b>", "<b >x</b >", "<B>x</B>", "a<b/>c<br/>d", "<bb><b></b></bb>", "<i", "i>", "<<b>>", "1 < 2 <b>x</b> 3 > 2"}
	for _, tags := range []string{"b", "i", "b,i", "s", "p", "a", "a,b,i,p,s"} {
		var alts []string
		for _, t := range strings.Split(tags, ",") {
			alts = append(alts, regexp.QuoteMeta(t))
		}
		re := regexp.MustCompile("</?(" + strings.Join(alts, "|") + ")/?>")
		strip := func(s string) string {
			for {
				t := re.ReplaceAllString(s, "")
				if t == s {
					return strings.TrimSpace(s)
				}
				s = t
			}
		}
		for _, in := range inputs {
			res.Cases++
			out, err := pongo2.ApplyFilter("removetags", pongo2.AsValue(in), pongo2.AsValue(tags))
			if err != nil {
				res.add(Finding{Kind: "oracle", Proj: "filter", Sig: "c17-removetags-fails", Case: hx(in) + " removetags:" + tags, Impl: err.Error(), Model: "a value"})
				continue
			}
			if strip(in) != strip(out.String()) {
				res.add(Finding{Kind: "oracle", Proj: "filter", Sig: "c17-removetags", Case: fmt.Sprintf("%q|removetags:%q", in, tags), Impl: fmt.Sprintf("%q", out.String()), Model: fmt.Sprintf("only the named tags removed: %q", strip(in))})
			}
		}
	}
}

package main

// Fifth batch of fixed, model-free oracles (eleventh seeding round: ownership and aliasing across
// the API boundary; user code that calls back into the engine).

import (
	"bytes"
	"errors"
	"fmt"
	"io"
	"strings"
	"sync"
	"sync/atomic"
	"time"

	pongo2 "github.com/flosch/pongo2/v6"
)

type shrinkCart struct{ Items []string }

func (c *shrinkCart) DropLast() string {
	if len(c.Items) > 0 {
		c.Items = c.Items[:len(c.Items)-1]
	}
	return ""
}
func (c *shrinkCart) Grow() string { c.Items = append(c.Items, "new"); return "" }
func (c *shrinkCart) Clear() string {
	c.Items = nil
	return ""
}

// c01MutatingLoop: a loop over a slice that the caller's own methods shorten, empty or extend while
// it runs neither panics nor hangs, and visits the items the slice had when the loop started
func c01MutatingLoop(res *Result) {
	for _, c := range []struct{ src, want string }{
		{`{% for it in cart.Items %}{{ cart.DropLast() }}{{ it }};{% endfor %}`, "a;b;c;d;"},
		{`{% for it in cart.Items %}{{ cart.Clear() }}{{ it }};{% endfor %}`, "a;b;c;d;"},
		{`{% for it in cart.Items %}{{ cart.Grow() }}{{ it }};{% endfor %}|{{ cart.Items|length }}`, "a;b;c;d;|8"},
		{`{% for it in cart.Items reversed %}{{ cart.DropLast() }}{{ it }};{% endfor %}`, "d;c;b;a;"},
		{`{% for it in cart.Items sorted %}{{ cart.DropLast() }}{{ it }};{% endfor %}`, "a;b;c;d;"},
		{`{% for it in cart.Items %}{{ forloop.Revcounter }}{{ cart.DropLast() }}{% endfor %}`, "4321"},
	} {
		res.Cases++
		got := within(10*time.Second, func() string {
			r := implRender(c.src, pongo2.Context{"cart": &shrinkCart{Items: []string{"a", "b", "c", "d"}}})
			if r.Err != "" || r.Panicked {
				return r.String()
			}
			return r.Out
		})
		if got != c.want {
			oracleFail(res, "totality", "c01-loop-over-changing-slice", c.src+" with cart.Items = [a b c d] (DropLast / Clear / Grow change the caller's slice)", got, c.want)
		}
	}
}

var reentrantRegOnce sync.Once

// reentrantRegistry: a filter may use the registry itself - apply another filter, replace itself
// (memoising), register a helper on first use - through every route a filter is applied by;
// nothing hangs (on one goroutine: the registries are not synchronised, by design)
func reentrantRegistry(res *Result, proj, sig string) {
	var memo func(in, p *pongo2.Value) (*pongo2.Value, *pongo2.Error)
	memo = func(in, p *pongo2.Value) (*pongo2.Value, *pongo2.Error) {
		up, err := pongo2.ApplyFilter("upper", in, nil)
		if err != nil {
			return nil, err
		}
		pongo2.ReplaceFilter("verif_memo", memo)
		if !pongo2.FilterExists("verif_helper") {
			pongo2.RegisterFilter("verif_helper", func(in, p *pongo2.Value) (*pongo2.Value, *pongo2.Error) { return in, nil })
		}
		if pongo2.RegisterFilter("verif_memo", memo) == nil {
			return pongo2.AsValue("second registration accepted"), nil
		}
		return pongo2.AsValue("<" + up.String() + ">"), nil
	}
	reentrantRegOnce.Do(func() { pongo2.RegisterFilter("verif_memo", memo) })
	pongo2.ReplaceFilter("verif_memo", memo)
	for _, src := range []string{`{{ "a"|verif_memo|safe }}`, `{% filter verif_memo %}a{% endfilter %}`, `{% filter lower|verif_memo %}A{% endfilter %}`, `{{ "a"|verif_memo|verif_memo|safe }}`, "apply"} {
		res.Cases++
		want := "<A>"
		if strings.Contains(src, "verif_memo|verif_memo") {
			want = "<<A>>"
		}
		got := within(8*time.Second, func() string {
			for i := 0; i < 30; i++ {
				var out string
				if src == "apply" {
					v, err := pongo2.ApplyFilter("verif_memo", pongo2.AsValue("a"), nil)
					if err != nil {
						return "err " + err.Error()
					}
					out = v.String()
				} else {
					r := implRender(src, nil)
					if r.Err != "" || r.Panicked {
						return r.String()
					}
					out = r.Out
				}
				if out != want {
					return out
				}
			}
			return want
		})
		if got != want {
			oracleFail(res, proj, sig, src+" where verif_memo applies `upper`, replaces itself and tries to register a helper", got, want)
		}
	}
}

// bytesBelongToCaller: the []byte given to FromBytes / RenderTemplateBytes may be reused by the
// caller at once, and the []byte ExecuteBytes returns is the caller's: later compilations and
// executions do not change either side
func bytesBelongToCaller(res *Result, proj, sig string) {
	pongo2.RegisterFilter("verif_pub_a", func(in, p *pongo2.Value) (*pongo2.Value, *pongo2.Error) {
		return pongo2.AsValue("pub(" + in.String() + ")"), nil
	})
	pongo2.RegisterFilter("verif_sec_b", func(in, p *pongo2.Value) (*pongo2.Value, *pongo2.Error) {
		return pongo2.AsValue("SECRET(" + in.String() + ")"), nil
	})
	first := `{% filter verif_pub_a %}body{% endfilter %}|{{ 7 - 2 }}|{{ 2 + 3 * 4 }}|{{ "lit" }}|{% if 1 < 2 %}lt{% endif %}`
	second := `{% filter verif_sec_b %}body{% endfilter %}|{{ 7 + 2 }}|{{ 2 * 3 + 4 }}|{{ "LIT" }}|{% if 1 > 2 %}gt{% endif %}`
	set := pongo2.NewSet("bytes-owner", &memLoader{files: map[string]string{}})
	set.BanFilter("verif_sec_b")
	buf := []byte(first)
	res.Cases++
	tpl, err := set.FromBytes(buf)
	if err != nil {
		oracleFail(res, proj, sig, "FromBytes("+first+")", err.Error(), "compiles")
		return
	}
	want := execOnce(tpl, nil).String()
	copy(buf, second)
	if _, err2 := set.FromBytes(buf); err2 == nil {
		oracleFail(res, proj, sig, "FromBytes of a source using a filter the set banned", "compiled", "refused")
	}
	for i := range buf {
		buf[i] = '#'
	}
	if got := execOnce(tpl, nil).String(); got != want || !strings.Contains(want, hx("pub(body)|5|14|lit|lt")) {
		oracleFail(res, proj, sig, "executing a template compiled by FromBytes after the caller reused its buffer for "+second+" and then overwrote it", got, "ok "+hx("pub(body)|5|14|lit|lt"))
	}
	// what ExecuteBytes hands out stays as it is
	res.Cases++
	t2 := mustCompile(set, "Hello {{ name }}, you are number {{ n }}!")
	t3 := mustCompile(set, "{% verbatim %}{{ raw }}{% endverbatim %}{% templatetag openblock %} other text that is quite a bit longer than the first")
	if t2 == nil || t3 == nil {
		return
	}
	kept, _ := t2.ExecuteBytes(pongo2.Context{"name": "alice", "n": 1})
	keptCopy := string(kept)
	var sink bytes.Buffer
	for i := 0; i < 40; i++ {
		t2.Execute(pongo2.Context{"name": "bobby", "n": i})
		t2.ExecuteBytes(pongo2.Context{"name": "carol", "n": i})
		t3.ExecuteBytes(nil)
		t2.ExecuteWriter(pongo2.Context{"name": "dave", "n": i}, &sink)
	}
	if string(kept) != keptCopy || keptCopy != "Hello alice, you are number 1!" {
		oracleFail(res, proj, sig, "the []byte returned by ExecuteBytes({name: alice, n: 1}), read again after 160 further executions of this and another template", fmt.Sprintf("%q", kept), fmt.Sprintf("%q", "Hello alice, you are number 1!"))
	}
	// appending to it does not reach into the engine either
	kept2, _ := t2.ExecuteBytes(pongo2.Context{"name": "erin", "n": 2})
	_ = append(kept2, []byte(" and a long tail appended by the caller ..............................................")...)
	if r, _ := t2.ExecuteBytes(pongo2.Context{"name": "erin", "n": 2}); string(r) != "Hello erin, you are number 2!" {
		oracleFail(res, proj, sig, "ExecuteBytes after the caller appended to the previous result", fmt.Sprintf("%q", r), `"Hello erin, you are number 2!"`)
	}
}

// c11AddLoaderLater: a loader added after a template was compiled serves the names that template
// computes at run time, and everything compiled from then on
func c11AddLoaderLater(res *Result) {
	a := &memLoader{files: map[string]string{"/page.tpl": `[{% include widget %}]`, "/lit.tpl": `<{% include "/plugins/clock.tpl" %}>`}, id: "0"}
	b := &memLoader{files: map[string]string{"/plugins/clock.tpl": "tick"}, id: "1"}
	set := pongo2.NewSet("c11-addloader", a)
	page, err := set.FromFile("/page.tpl")
	if err != nil {
		return
	}
	res.Cases++
	if r := execOnce(page, pongo2.Context{"widget": "/plugins/clock.tpl"}); r.err == "" {
		oracleFail(res, "loaders", "c11-loader-added-later", "computed include of a name no loader has yet", r.String(), "an error")
	}
	set.AddLoader(b)
	for _, c := range []struct{ what, want string }{{"page", "[tick]"}, {"lit", "<tick>"}, {"string", "(tick)"}, {"cache", "[tick]"}} {
		res.Cases++
		var r execRes
		switch c.what {
		case "page":
			r = execOnce(page, pongo2.Context{"widget": "/plugins/clock.tpl"})
		case "lit":
			if t, e := set.FromFile("/lit.tpl"); e == nil {
				r = execOnce(t, nil)
			} else {
				r = execRes{err: e.Error()}
			}
		case "string":
			if t, e := set.FromString(`({% include "/plugins/clock.tpl" %})`); e == nil {
				r = execOnce(t, nil)
			} else {
				r = execRes{err: e.Error()}
			}
		case "cache":
			if t, e := set.FromCache("/page.tpl"); e == nil {
				r = execOnce(t, pongo2.Context{"widget": "/plugins/clock.tpl"})
			} else {
				r = execRes{err: e.Error()}
			}
		}
		if r.out != c.want {
			oracleFail(res, "loaders", "c11-loader-added-later", "after AddLoader(loader serving /plugins/clock.tpl): "+c.what+" (a template compiled before computing the name; a literal include compiled after; FromString; FromCache)", r.String(), c.want)
		}
	}
}

type genLoader struct {
	set   *pongo2.TemplateSet
	how   string
	calls int32
}

func (g *genLoader) Abs(base, name string) string { return name }
func (g *genLoader) Get(name string) (io.Reader, error) {
	if name != "/auto/report.tpl" {
		return nil, errors.New("not found")
	}
	atomic.AddInt32(&g.calls, 1)
	var s string
	var err error
	switch g.how {
	case "RenderTemplateFile":
		s, err = g.set.RenderTemplateFile("/scaffold.tpl", pongo2.Context{"title": "T"})
	case "FromFile":
		var t *pongo2.Template
		if t, err = g.set.FromFile("/scaffold.tpl"); err == nil {
			s, err = t.Execute(pongo2.Context{"title": "T"})
		}
	case "RenderTemplateString":
		s, err = g.set.RenderTemplateString("report {{ title }}", pongo2.Context{"title": "T"})
	}
	if err != nil {
		return nil, err
	}
	return strings.NewReader(s), nil
}

// c11ReentrantLoader: a loader may use its own set (FromFile / Render*) to build what it serves;
// literal and computed includes of such a name render and nothing hangs
func c11ReentrantLoader(res *Result) {
	for _, how := range []string{"RenderTemplateFile", "FromFile", "RenderTemplateString"} {
		for _, src := range []string{`[{% include "/auto/report.tpl" %}]`, `[{% include n %}]`, `{% extends "/auto/report.tpl" %}`, `[{% ssi "/auto/report.tpl" %}]`} {
			res.Cases++
			base := &memLoader{files: map[string]string{"/scaffold.tpl": "report {{ title }}"}, id: "0"}
			set := pongo2.NewSet("c11-reentrant-loader", base)
			g := &genLoader{set: set, how: how}
			set.AddLoader(g)
			want := "[report T]"
			if strings.HasPrefix(src, "{% extends") {
				want = "report T"
			}
			got := within(6*time.Second, func() string {
				t, err := set.FromString(src)
				if err != nil {
					return "err " + err.Error()
				}
				r := execOnce(t, pongo2.Context{"n": "/auto/report.tpl"})
				if r.err != "" || r.pan != "" {
					return r.String()
				}
				return r.out
			})
			if got != want {
				oracleFail(res, "loaders", "c11-reentrant-loader", fmt.Sprintf("%s where the second loader builds /auto/report.tpl with set.%s", src, how), got, want)
			}
		}
	}
}

type reloadingLoader struct {
	mu      sync.Mutex
	set     *pongo2.TemplateSet
	files   map[string]string
	changed map[string]bool
	gets    int
}

func (l *reloadingLoader) Abs(base, name string) string {
	l.mu.Lock()
	c := l.changed[name]
	l.changed[name] = false
	l.mu.Unlock()
	if c {
		l.set.CleanCache(name)
	}
	return name
}
func (l *reloadingLoader) Get(name string) (io.Reader, error) {
	l.mu.Lock()
	defer l.mu.Unlock()
	l.gets++
	s, ok := l.files[name]
	if !ok {
		return nil, errors.New("not found")
	}
	return strings.NewReader(s), nil
}

// c20ReloadingLoader: a loader that notices a changed source while resolving the name and cleans
// it from its set's cache: the same template until the source changes, a fresh one afterwards,
// other names untouched, nothing hangs
func c20ReloadingLoader(res *Result) {
	res.Cases++
	l := &reloadingLoader{files: map[string]string{"/a.tpl": "one", "/b.tpl": "bee"}, changed: map[string]bool{}}
	set := pongo2.NewSet("c20-reloading", l)
	l.set = set
	got := within(10*time.Second, func() string {
		a1, e1 := set.FromCache("/a.tpl")
		a2, e2 := set.FromCache("/a.tpl")
		b1, e3 := set.FromCache("/b.tpl")
		if e1 != nil || e2 != nil || e3 != nil || a1 != a2 {
			return fmt.Sprintf("before the change: same=%v errors %v %v %v", a1 == a2, e1, e2, e3)
		}
		l.mu.Lock()
		l.files["/a.tpl"] = "two"
		l.changed["/a.tpl"] = true
		l.mu.Unlock()
		a3, e4 := set.FromCache("/a.tpl")
		a4, e5 := set.FromCache("/a.tpl")
		b2, e6 := set.FromCache("/b.tpl")
		if e4 != nil || e5 != nil || e6 != nil {
			return fmt.Sprint("after the change: errors ", e4, e5, e6)
		}
		out, _ := a3.Execute(nil)
		return fmt.Sprintf("fresh=%v stable=%v other-untouched=%v renders=%s gets=%d", a3 != a1, a3 == a4, b1 == b2, out, l.gets)
	})
	if want := "fresh=true stable=true other-untouched=true renders=two gets=3"; got != want {
		oracleFail(res, "cache", "c20-reloading-loader", "FromCache with a loader whose Abs calls set.CleanCache(name) when the source has changed", got, want)
	}
}

type deferQueue struct {
	mu    sync.Mutex
	items []func(w pongo2.TemplateWriter) *pongo2.Error
}
type deferPushNode struct{ body *pongo2.NodeWrapper }
type deferFlushNode struct{}

func (n deferPushNode) Execute(ctx *pongo2.ExecutionContext, w pongo2.TemplateWriter) *pongo2.Error {
	q, ok := ctx.Public["q"].(*deferQueue)
	if !ok {
		return ctx.Error("no queue", nil)
	}
	q.mu.Lock()
	q.items = append(q.items, func(w pongo2.TemplateWriter) *pongo2.Error { return n.body.Execute(ctx, w) })
	q.mu.Unlock()
	return nil
}
func (deferFlushNode) Execute(ctx *pongo2.ExecutionContext, w pongo2.TemplateWriter) *pongo2.Error {
	q, ok := ctx.Public["q"].(*deferQueue)
	if !ok {
		return ctx.Error("no queue", nil)
	}
	q.mu.Lock()
	items := q.items
	q.items = nil
	q.mu.Unlock()
	for _, f := range items {
		if err := f(w); err != nil {
			return err
		}
	}
	return nil
}

var deferTagsOnce sync.Once

// c13ContextsOutliveCalls: what a macro body sees - its parameters, the defaults - belongs to that
// call for as long as anybody holds on to it: a custom tag inside the body that queues its content
// and renders it later (a "push / stack" tag) sees the call's arguments; and a failed call leaves
// the recursion counter where it was
func c13ContextsOutliveCalls(res *Result) {
	deferTagsOnce.Do(func() {
		pongo2.RegisterTag("verifpush", func(doc *pongo2.Parser, start *pongo2.Token, args *pongo2.Parser) (pongo2.INodeTag, *pongo2.Error) {
			w, _, err := doc.WrapUntilTag("endverifpush")
			if err != nil {
				return nil, err
			}
			return deferPushNode{w}, nil
		})
		pongo2.RegisterTag("verifflush", func(doc *pongo2.Parser, start *pongo2.Token, args *pongo2.Parser) (pongo2.INodeTag, *pongo2.Error) {
			return deferFlushNode{}, nil
		})
	})
	files := map[string]string{"/lib.tpl": `{% macro item(a, b="d") export %}{% verifpush %}[{{ a }}|{{ b }}]{% endverifpush %}{% endmacro %}`}
	for _, src := range []string{
		`{% macro item(a, b="d") %}{% verifpush %}[{{ a }}|{{ b }}]{% endverifpush %}{% endmacro %}{{ item(1) }}{{ item(2, "x") }}{% for i in l %}{{ item(i) }}{% endfor %}<{% verifflush %}>`,
		`{% import "/lib.tpl" item %}{{ item(1) }}{{ item(2, "x") }}{% for i in l %}{{ item(i) }}{% endfor %}<{% verifflush %}>`,
		`{% import "/lib.tpl" item as it %}{{ it(1) }}{{ it(2, "x") }}{% for i in l %}{{ it(i) }}{% endfor %}<{% verifflush %}>`,
	} {
		res.Cases++
		r := implRenderFiles(src, files, pongo2.Context{"q": &deferQueue{}, "l": []int{7, 8}})
		if want := "<[1|d][2|x][7|d][8|d]>"; r.Out != want {
			oracleFail(res, "binding", "c13-call-context-reused", src+" (verifpush queues its body with the context it ran in; verifflush renders the queue)", r.String(), want)
		}
	}
	// a call that failed (runaway recursion whose error the calling Go code swallowed) does not use up the depth
	res.Cases++
	try := func(ctx *pongo2.ExecutionContext) string {
		if f, ok := ctx.Private["boom"].(func(...*pongo2.Value) (*pongo2.Value, error)); ok {
			if _, err := f(); err != nil {
				return "caught"
			}
			return "no error"
		}
		return "no macro"
	}
	src := `{% macro boom() %}{{ boom() }}{% endmacro %}{% macro ok(n) %}{% if n > 0 %}{{ ok(n - 1) }}{% else %}fine{% endif %}{% endmacro %}{{ try() }}|{{ ok(3) }}|{{ try() }}|{{ ok(900) }}`
	got := within(30*time.Second, func() string {
		r := implRender(src, pongo2.Context{"try": try})
		if r.Err != "" || r.Panicked {
			return r.String()
		}
		return r.Out
	})
	if want := "caught|fine|caught|fine"; got != want {
		oracleFail(res, "binding", "c13-depth-not-restored", src+" where try() calls the macro boom through the context and swallows its error", got, want)
	}
}

// c12PublicIsACopy: what user code does to ExecutionContext.Public during an execution stays in
// that execution: the caller's Context map and the set's Globals keep exactly their entries
func c12PublicIsACopy(res *Result) {
	put := func(ctx *pongo2.ExecutionContext, k string) string {
		ctx.Public[k] = "written by user code"
		ctx.Public.Update(pongo2.Context{k + "2": 1})
		delete(ctx.Public, "victim")
		return ""
	}
	for _, withGlobals := range []bool{false, true} {
		for _, nilCtx := range []bool{false, true} {
			res.Cases++
			set := pongo2.NewSet("c12-public", &memLoader{files: map[string]string{"/inc.tpl": `{{ put("inc") }}`}})
			if withGlobals {
				set.Globals["g"] = "G"
			}
			if nilCtx {
				set.Globals["put"] = put
				set.Globals["victim"] = "v"
			}
			tpl := mustCompile(set, `{{ put("item") }}{% include "/inc.tpl" %}{% with a=1 %}{{ put("w") }}{% endwith %}{{ item }}`)
			if tpl == nil {
				continue
			}
			caller := pongo2.Context{"put": put, "victim": "v", "x": 1}
			var ctx pongo2.Context
			if !nilCtx {
				ctx = caller
			}
			globalsBefore := fmt.Sprint(len(set.Globals))
			r := execOnce(tpl, ctx)
			r2 := execOnce(tpl, ctx)
			if r.err != "" || r.pan != "" || r2.String() != r.String() {
				oracleFail(res, "reference", "c12-public-not-a-copy", fmt.Sprintf("user code writing to ExecutionContext.Public (Globals set: %v, nil context: %v)", withGlobals, nilCtx), r.String()+" then "+r2.String(), "renders, twice the same")
				continue
			}
			if len(caller) != 3 || caller["victim"] != "v" || caller["item"] != nil || fmt.Sprint(len(set.Globals)) != globalsBefore || (nilCtx && set.Globals["victim"] != "v") {
				oracleFail(res, "reference", "c12-public-not-a-copy", fmt.Sprintf("after an execution in which user code wrote to and deleted from ExecutionContext.Public (Globals set: %v, nil context: %v)", withGlobals, nilCtx), fmt.Sprintf("caller's context has %d entries (victim=%v, item=%v), Globals %d entries", len(caller), caller["victim"], caller["item"], len(set.Globals)), "3 entries as before (victim=v, no item), Globals as before")
			}
		}
	}
}

// c14NestedWriters: user code called during an execution may write to the destination itself -
// render another template into the same *bytes.Buffer or io.Writer; what it delivered stays, in
// order
func c14NestedWriters(res *Result) {
	set := pongo2.NewSet("c14-nested", &memLoader{files: map[string]string{}})
	banner := mustCompile(set, "<banner {{ msg }}>")
	partial := mustCompile(set, "p{{ k }}")
	if banner == nil || partial == nil {
		return
	}
	// ExecuteWriter into a *bytes.Buffer that a failing execution's user code also wrote to
	res.Cases++
	var resp bytes.Buffer
	resp.WriteString("previous|")
	page := mustCompile(set, "page{{ fail() }}rest")
	err := page.ExecuteWriter(pongo2.Context{"fail": func() (string, error) {
		if e := banner.ExecuteWriter(pongo2.Context{"msg": "oops"}, &resp); e != nil {
			return "", e
		}
		return "", errors.New("handler failed")
	}}, &resp)
	if err == nil || resp.String() != "previous|<banner oops>" {
		oracleFail(res, "variants", "c14-nested-writer", "ExecuteWriter(page, &resp) whose context function renders a banner into the same buffer and then fails", fmt.Sprintf("error %v, buffer %q", err, resp.String()), `an error, buffer "previous|<banner oops>"`)
	}
	// ExecuteWriterUnbuffered while user code streams into the same writer
	for _, kind := range []string{"plain io.Writer", "bytes.Buffer"} {
		res.Cases++
		var sink bytesSink
		var bb bytes.Buffer
		var w io.Writer = &sink
		if kind == "bytes.Buffer" {
			w = &bb
		}
		k := 0
		stream := mustCompile(set, "<ul>\n{{ emit() }}\n{% verbatim %}{{ raw }}{% endverbatim %}{# c #}{{ emit() }}</ul>\n")
		err := stream.ExecuteWriterUnbuffered(pongo2.Context{"emit": func() (string, error) {
			k++
			return "", partial.ExecuteWriterUnbuffered(pongo2.Context{"k": k}, w)
		}}, w)
		got := string(sink.b)
		if kind == "bytes.Buffer" {
			got = bb.String()
		}
		if want := "<ul>\np1\n{{ raw }}p2</ul>\n"; err != nil || got != want {
			oracleFail(res, "variants", "c14-nested-writer", "ExecuteWriterUnbuffered into a "+kind+" while a context function renders partials into the same writer", fmt.Sprintf("%q %v", got, err), fmt.Sprintf("%q", want))
		}
	}
}

// filtersSeeCurrentText: a *string in a Value is the caller's text as it is when a filter is
// applied, every time; and what a filter returned is a value of its own
func filtersSeeCurrentText(res *Result, proj, sig string) {
	title := "héllo world"
	v := pongo2.AsValue(&title)
	apply := func(f string, p any) string {
		out, err := pongo2.ApplyFilter(f, v, pongo2.AsValue(p))
		if err != nil {
			return "err"
		}
		return out.String()
	}
	type fc struct {
		f string
		p any
	}
	fs := []fc{{"length", nil}, {"first", nil}, {"last", nil}, {"slice", ":5"}, {"upper", nil}, {"capfirst", nil}, {"truncatechars", 4}, {"center", 5}, {"wordcount", nil}, {"escape", nil}, {"escapejs", nil}, {"urlencode", nil}, {"addslashes", nil}, {"striptags", nil}, {"length_is", 3}, {"make_list", nil}, {"title", nil}, {"lower", nil}, {"cut", "l"}}
	for _, c := range fs {
		res.Cases++
		title = "héllo world"
		before := apply(c.f, c.p)
		fresh1 := func() string {
			s := "héllo world"
			o, err := pongo2.ApplyFilter(c.f, pongo2.AsValue(&s), pongo2.AsValue(c.p))
			if err != nil {
				return "err"
			}
			return o.String()
		}()
		title = "a<b"
		after := apply(c.f, c.p)
		fresh2 := func() string {
			s := "a<b"
			o, err := pongo2.ApplyFilter(c.f, pongo2.AsValue(&s), pongo2.AsValue(c.p))
			if err != nil {
				return "err"
			}
			return o.String()
		}()
		if before != fresh1 || after != fresh2 {
			oracleFail(res, proj, sig, fmt.Sprintf("%s applied to one Value holding a *string, before and after the caller changed the text from %q to %q", c.f, "héllo world", "a<b"), fmt.Sprintf("%q then %q", before, after), fmt.Sprintf("%q then %q (a fresh Value each time)", fresh1, fresh2))
		}
		// the result of an escaping filter does not change when the caller's text does (filters
		// that hand their input back when there is nothing to do - center, safe, ... - are left out)
		if !map[string]bool{"escape": true, "escapejs": true, "urlencode": true, "addslashes": true, "striptags": true, "upper": true, "lower": true}[c.f] {
			continue
		}
		title = "guest"
		out, err := pongo2.ApplyFilter(c.f, v, pongo2.AsValue(c.p))
		if err != nil {
			continue
		}
		s1 := out.String()
		title = "<script>alert(1)</script>"
		if s2 := out.String(); s2 != s1 {
			oracleFail(res, proj, sig, fmt.Sprintf("the result of %s on a *string Value, read again after the caller changed the text", c.f), fmt.Sprintf("%q", s2), fmt.Sprintf("%q (as returned)", s1))
		}
	}
}

// c19ReplaceAfterCompile: the filter tag applies what ApplyFilter applies - the filter registered
// under the name when the tag runs
func c19ReplaceAfterCompile(res *Result) {
	name := fmt.Sprintf("verif_repl_%d", time.Now().UnixNano())
	mk := func(tag string) pongo2.FilterFunction {
		return func(in, p *pongo2.Value) (*pongo2.Value, *pongo2.Error) {
			return pongo2.AsValue(tag + ":" + in.String()), nil
		}
	}
	if pongo2.RegisterFilter(name, mk("V1")) != nil {
		return
	}
	tpl := mustCompile(pongo2.NewSet("c19-replace", &memLoader{files: map[string]string{}}), "[{% filter upper|"+name+" %}hello{% endfilter %}]")
	if tpl == nil {
		return
	}
	for _, v := range []string{"V1", "V2", "V3"} {
		res.Cases++
		if v != "V1" {
			pongo2.ReplaceFilter(name, mk(v))
		}
		up, _ := pongo2.ApplyFilter("upper", pongo2.AsValue("hello"), nil)
		ref, err := pongo2.ApplyFilter(name, up, nil)
		if err != nil {
			continue
		}
		if r := execOnce(tpl, nil); r.out != "["+ref.String()+"]" {
			oracleFail(res, "chain", "c19-filter-tag-not-applyfilter", "{% filter upper|f %}hello{% endfilter %} compiled once, executed after ReplaceFilter(f, "+v+")", r.String(), "["+ref.String()+"] (ApplyFilter(f, ApplyFilter(upper, hello)))")
		}
	}
}

// c05ReentrantInclude: a computed include whose target calls back into the page that includes it
// (a tree view rendered through a context function) renders the tree, on one goroutine and on
// several at once
func c05ReentrantInclude(res *Result) {
	leaf := func(n string) *treeNode { return &treeNode{Name: n} }
	root := &treeNode{Name: "r", Children: []*treeNode{{Name: "a", Children: []*treeNode{leaf("a1"), leaf("a2")}}, leaf("b")}}
	files := map[string]string{"/page.tpl": `{% include view %}`, "/node.tpl": `{{ n.Name }}({% for c in n.Children %}{{ render(c) }}{% endfor %})`}
	set := pongo2.NewSet("c05-reentrant-include", &memLoader{files: files})
	page, err := set.FromFile("/page.tpl")
	if err != nil {
		return
	}
	var render func(n *treeNode) (*pongo2.Value, error)
	render = func(n *treeNode) (*pongo2.Value, error) {
		s, err := page.Execute(pongo2.Context{"view": "/node.tpl", "n": n, "render": render})
		return pongo2.AsSafeValue(s), err
	}
	want := root.fold(func(n string, k []string) string { return n + "(" + strings.Join(k, "") + ")" })
	res.Cases++
	got := within(10*time.Second, func() string {
		outs := make([]string, 6)
		var wg sync.WaitGroup
		for i := range outs {
			wg.Add(1)
			go func(i int) {
				defer wg.Done()
				v, err := render(root)
				if err != nil {
					outs[i] = "err " + err.Error()
				} else {
					outs[i] = v.String()
				}
			}(i)
		}
		wg.Wait()
		for _, o := range outs {
			if o != want {
				return o
			}
		}
		return want
	})
	if got != want {
		oracleFail(res, "race", "c05-reentrant-include", "page.tpl = {% include view %} whose target node.tpl renders its children by executing page.tpl again (six goroutines)", got, want)
	}
}

func (n *treeNode) fold(f func(name string, kids []string) string) string {
	var kids []string
	for _, c := range n.Children {
		kids = append(kids, c.fold(f))
	}
	return f(n.Name, kids)
}

// recursiveMacroNodes: a macro that calls itself from inside the body of a tag that renders its body
// into a scratch buffer or keeps per-execution state (filter, spaceless, ifchanged, with, autoescape,
// cycle): each activation of the tag has its own buffer, so the tree comes out as the reference
// renders it - also when a context function calls the macro back
func recursiveMacroNodes(res *Result, proj, sig, which string) {
	leaf := func(n string) *treeNode { return &treeNode{Name: n} }
	root := &treeNode{Name: "root", Children: []*treeNode{{Name: "a", Children: []*treeNode{{Name: "a1", Children: []*treeNode{leaf("x")}}, leaf("a2")}}, leaf("b"), {Name: "c", Children: []*treeNode{leaf("c1")}}}}
	type rc struct{ kind, src, want string }
	all := []rc{
		{"filter", `{% macro t(n) %}{% filter upper %}({{ n.Name }}{% for c in n.Children %} {{ t(c) }}{% endfor %}){% endfilter %}{% endmacro %}{{ t(root) }}`,
			strings.ToUpper(root.fold(func(n string, k []string) string {
				s := "(" + n
				for _, x := range k {
					s += " " + x
				}
				return s + ")"
			}))},
		{"filter", `{% macro t(n) %}{% filter ljust:3|lower %}<{{ n.Name }}{% for c in n.Children %}{{ t(c) }}{% endfor %}>{% endfilter %}{% endmacro %}{{ t(root) }}`,
			root.fold(func(n string, k []string) string {
				s := "<" + n + strings.Join(k, "") + ">"
				for len([]rune(s)) < 3 {
					s += " "
				}
				return strings.ToLower(s)
			})},
		{"filter", `{% macro t(n) %}{% filter escape %}{{ n.Name }}[{% for c in n.Children %}{{ back(c) }}{% endfor %}]{% endfilter %}{% endmacro %}{{ t(root) }}`,
			root.fold(func(n string, k []string) string { return n + "[" + strings.Join(k, "") + "]" })},
		{"spaceless", `{% macro t(n) %}{% spaceless %}<u> <b>{{ n.Name }}</b> {% for c in n.Children %}{{ t(c) }}{% endfor %}</u>{% endspaceless %}{% endmacro %}{{ t(root) }}`,
			root.fold(func(n string, k []string) string { return "<u><b>" + n + "</b>" + strings.Join(k, "") + "</u>" })},
		{"spaceless", `{% macro t(n) %}{% spaceless %}<u> <b>{{ n.Name }}</b> {% for c in n.Children %}{{ back(c) }}{% endfor %}</u>{% endspaceless %}{% endmacro %}{{ t(root) }}`,
			root.fold(func(n string, k []string) string { return "<u><b>" + n + "</b>" + strings.Join(k, "") + "</u>" })},
		{"ifchanged", `{% macro t(n) %}{% ifchanged %}{{ n.Name }}({% for c in n.Children %}{{ t(c) }}{% endfor %}){% endifchanged %}{% endmacro %}{{ t(root) }}`,
			root.fold(func(n string, k []string) string { return n + "(" + strings.Join(k, "") + ")" })},
		{"ifchanged", `{% macro t(n) %}{% ifchanged %}{{ n.Name }}({% for c in n.Children %}{{ back(c) }}{% endfor %}){% endifchanged %}{% endmacro %}{{ t(root) }}`,
			root.fold(func(n string, k []string) string { return n + "(" + strings.Join(k, "") + ")" })},
		{"scope", `{% macro t(n) %}{% with me=n.Name %}{% autoescape off %}{{ me }}{% endautoescape %}<{% for c in n.Children %}{{ t(c) }}{% endfor %}>{{ me }}{% endwith %}{% endmacro %}{{ t(root) }}`,
			root.fold(func(n string, k []string) string { return n + "<" + strings.Join(k, "") + ">" + n })},
		{"scope", `{% macro t(n) %}{% for c in n.Children %}{{ forloop.Counter }}{{ t(c) }}{{ forloop.Counter }}{% empty %}{{ n.Name }}{% endfor %}{% endmacro %}{{ t(root) }}`,
			root.fold(func(n string, k []string) string {
				if len(k) == 0 {
					return n
				}
				s := ""
				for i, x := range k {
					s += fmt.Sprint(i+1) + x + fmt.Sprint(i+1)
				}
				return s
			})},
	}
	for _, c := range all {
		if which != "" && c.kind != which {
			continue
		}
		res.Cases++
		tpl := mustCompile(pongo2.NewSet("rec-nodes", &memLoader{files: map[string]string{}}), c.src)
		if tpl == nil {
			oracleFail(res, proj, sig, c.src, "does not compile", c.want)
			continue
		}
		back := func(ctx *pongo2.ExecutionContext, n *pongo2.Value) (*pongo2.Value, error) {
			m, ok := ctx.Private["t"].(func(...*pongo2.Value) (*pongo2.Value, error))
			if !ok {
				if v, ok2 := ctx.Private["t"]; ok2 {
					// the macro closure is stored as a func(...*Value) *Value in some versions
					if f, ok3 := v.(func(...*pongo2.Value) *pongo2.Value); ok3 {
						return f(n), nil
					}
				}
				return nil, fmt.Errorf("macro t is not reachable through the context (%T)", ctx.Private["t"])
			}
			return m(n)
		}
		for round := 0; round < 2; round++ {
			got := within(20*time.Second, func() string {
				r := execOnce(tpl, pongo2.Context{"root": root, "back": back})
				if r.err != "" || r.pan != "" {
					return r.String()
				}
				return r.out
			})
			if got != c.want {
				oracleFail(res, proj, sig, fmt.Sprintf("%s over the tree root(a(a1(x),a2),b,c(c1)) (back(c) = a context function calling the macro t), execution %d", c.src, round+1), got, c.want)
				break
			}
		}
	}
}

// globalsSnapshot: an execution sees the Globals as they were when it started - with a nil context
// as with any other - also when user code it calls sets a global and renders with the same set
func globalsSnapshot(res *Result, proj, sig string) {
	for _, how := range []string{"nil", "empty", "other"} {
		res.Cases++
		set := pongo2.NewSet("globals-snapshot", &memLoader{files: map[string]string{}})
		set.Globals["section"] = "main"
		set.Globals["seq"] = 0
		set.Globals["partial"] = func(name string) *pongo2.Value {
			set.Globals["section"] = name
			set.Globals["seq"] = 5
			s, err := set.RenderTemplateString("[{{ section }}{{ seq }}]", nil)
			if err != nil {
				s = "ERR"
			}
			return pongo2.AsSafeValue(s)
		}
		tpl := mustCompile(set, `{{ section }} {{ seq * 10 + 1 }} {{ partial("side") }} {{ section }} {{ seq + 1 }}{% if seq > 0 %} changed{% endif %}`)
		if tpl == nil {
			continue
		}
		var ctx pongo2.Context
		switch how {
		case "empty":
			ctx = pongo2.Context{}
		case "other":
			ctx = pongo2.Context{"x": 1}
		}
		if r := execOnce(tpl, ctx); r.out != "main 1 [side5] main 1" {
			oracleFail(res, proj, sig, fmt.Sprintf("Globals{section: main, seq: 0}; {{ section }} {{ seq * 10 + 1 }} {{ partial(\"side\") }} {{ section }} {{ seq + 1 }} where partial sets both globals and renders with the same set; executed with a %s context", how), r.String(), "main 1 [side5] main 1")
		}
	}
}

type vtreeNode struct {
	list pongo2.IEvaluator
	body *pongo2.NodeWrapper
}
type vsubtreeNode struct{ list pongo2.IEvaluator }

func (n *vtreeNode) render(ctx *pongo2.ExecutionContext, list *pongo2.Value, w pongo2.TemplateWriter) *pongo2.Error {
	var result *pongo2.Error
	list.Iterate(func(idx, count int, item, _ *pongo2.Value) bool {
		c := pongo2.NewChildExecutionContext(ctx)
		c.Private["node"] = item
		c.Private["veriftree_self"] = n
		if err := n.body.Execute(c, w); err != nil {
			result = err
			return false
		}
		return true
	}, func() {})
	return result
}
func (n *vtreeNode) Execute(ctx *pongo2.ExecutionContext, w pongo2.TemplateWriter) *pongo2.Error {
	list, err := n.list.Evaluate(ctx)
	if err != nil {
		return err
	}
	return n.render(ctx, list, w)
}
func (n *vsubtreeNode) Execute(ctx *pongo2.ExecutionContext, w pongo2.TemplateWriter) *pongo2.Error {
	tree, ok := ctx.Private["veriftree_self"].(*vtreeNode)
	if !ok {
		return ctx.Error("verifsubtree outside of veriftree", nil)
	}
	list, err := n.list.Evaluate(ctx)
	if err != nil {
		return err
	}
	return tree.render(ctx, list, w)
}

var vtreeOnce sync.Once

// c10ReentrantBlocks: a block inside a loop that is entered again for the children of an item while
// the item's block is still rendering (a recursive-loop tag written against the public API for tag
// authors): at every level the most-derived definition, and block.Super the next less-derived one
func c10ReentrantBlocks(res *Result) {
	vtreeOnce.Do(func() {
		pongo2.RegisterTag("veriftree", func(doc *pongo2.Parser, start *pongo2.Token, args *pongo2.Parser) (pongo2.INodeTag, *pongo2.Error) {
			list, err := args.ParseExpression()
			if err != nil {
				return nil, err
			}
			body, _, err := doc.WrapUntilTag("endveriftree")
			if err != nil {
				return nil, err
			}
			return &vtreeNode{list: list, body: body}, nil
		})
		pongo2.RegisterTag("verifsubtree", func(doc *pongo2.Parser, start *pongo2.Token, args *pongo2.Parser) (pongo2.INodeTag, *pongo2.Error) {
			list, err := args.ParseExpression()
			if err != nil {
				return nil, err
			}
			return &vsubtreeNode{list: list}, nil
		})
	})
	files := map[string]string{
		"/tree.html": `<ul>{% veriftree nodes %}{% block item %}<li>{% block label %}{{ node.Name }}{% endblock %}` +
			`{% if node.Children %}<ul>{% verifsubtree node.Children %}</ul>{% endif %}</li>{% endblock %}{% endveriftree %}</ul>`,
		"/fancy.html":  `{% extends "/tree.html" %}{% block label %}<b>{{ block.Super }}</b>{% endblock %} outside`,
		"/fancy2.html": `{% extends "/fancy.html" %}{% block label %}[{{ block.Super }}]{% endblock %}`,
	}
	leaf := func(n string) *treeNode { return &treeNode{Name: n} }
	nodes := []*treeNode{{Name: "a", Children: []*treeNode{{Name: "b", Children: []*treeNode{leaf("c")}}, leaf("d")}}, leaf("e")}
	var render func(ns []*treeNode, label func(string) string) string
	render = func(ns []*treeNode, label func(string) string) string {
		s := ""
		for _, n := range ns {
			s += "<li>" + label(n.Name)
			if len(n.Children) > 0 {
				s += "<ul>" + render(n.Children, label) + "</ul>"
			}
			s += "</li>"
		}
		return s
	}
	for _, c := range []struct {
		file  string
		label func(string) string
	}{{"/tree.html", func(s string) string { return s }}, {"/fancy.html", func(s string) string { return "<b>" + s + "</b>" }}, {"/fancy2.html", func(s string) string { return "[<b>" + s + "</b>]" }}} {
		res.Cases++
		want := "<ul>" + render(nodes, c.label) + "</ul>"
		set := pongo2.NewSet("c10-reentrant", &memLoader{files: files})
		got := within(10*time.Second, func() string {
			tpl, err := set.FromFile(c.file)
			if err != nil {
				return "err " + err.Error()
			}
			r := execOnce(tpl, pongo2.Context{"nodes": nodes})
			if r.err != "" || r.pan != "" {
				return r.String()
			}
			return r.out
		})
		if got != want {
			oracleFail(res, "reference", "c10-reentrant-blocks", c.file+" ("+files[c.file]+") over a three-level tree; veriftree / verifsubtree re-enter the loop body for an item's children", got, want)
		}
	}
}

type staticTagNode struct{ text string }

func (n *staticTagNode) Execute(ctx *pongo2.ExecutionContext, w pongo2.TemplateWriter) *pongo2.Error {
	w.WriteString(n.text)
	return nil
}

var staticTagOnce sync.Once
var staticTagSet atomic.Value // *pongo2.TemplateSet

// c16ReentrantTagErrors: a tag parser that renders another template of the set while its own
// template is compiled, and hands the engine's report about that template on: the error names a
// template, and a position it carries lies in that template
func c16ReentrantTagErrors(res *Result) {
	staticTagOnce.Do(func() {
		pongo2.RegisterTag("verifstatic", func(doc *pongo2.Parser, start *pongo2.Token, args *pongo2.Parser) (pongo2.INodeTag, *pongo2.Error) {
			name := args.MatchType(pongo2.TokenString)
			if name == nil {
				return nil, args.Error("verifstatic takes a file name", nil)
			}
			set, _ := staticTagSet.Load().(*pongo2.TemplateSet)
			text, err := set.RenderTemplateFile(name.Val, pongo2.Context{"title": "Welcome", "lang": "en"})
			if err != nil {
				var perr *pongo2.Error
				if errors.As(err, &perr) {
					return nil, perr
				}
				return nil, args.Error(err.Error(), name)
			}
			return &staticTagNode{text}, nil
		})
	})
	files := map[string]string{
		"/footer.tpl":   "<footer lang=\"{{ lang }}\">{{ title }}</footer>",
		"/ok.tpl":       "<html>\n<body>\n  {% verifstatic \"/footer.tpl\" %}\n</body>\n</html>",
		"/broken.tpl":   "<nav>\n  {{ title| }}\n</nav>",
		"/page_one.tpl": "<html>\n<body>\n  {% verifstatic \"/broken.tpl\" %}\n</body>\n</html>",
		"/banner.tpl":   "{% macro title(t) export %}<h1>{{ t }}</h1>{% endmacro %}{{ title(\"Hello\") }}",
		"/page_two.tpl": "<html>\n<body>\n  {% verifstatic \"/banner.tpl\" %}\n</body>\n</html>",
		"/exec.tpl":     "line\n  {{ 1 / zero }}",
		"/page_3.tpl":   "a\nb\nc\n      {% verifstatic \"/exec.tpl\" %}",
	}
	set := pongo2.NewSet("c16-reentrant-tag", &memLoader{files: files})
	staticTagSet.Store(set)
	res.Cases++
	if out, err := set.RenderTemplateFile("/ok.tpl", nil); err != nil || out != "<html>\n<body>\n  <footer lang=\"en\">Welcome</footer>\n</body>\n</html>" {
		oracleFail(res, "positions", "c16-reentrant-tag-error", "/ok.tpl", fmt.Sprint(out, err), "renders the footer")
	}
	for _, name := range []string{"/page_one.tpl", "/page_two.tpl", "/page_3.tpl"} {
		res.Cases++
		_, err := set.FromFile(name)
		var e *pongo2.Error
		if err == nil || !errors.As(err, &e) {
			oracleFail(res, "positions", "c16-reentrant-tag-error", "FromFile("+name+")", fmt.Sprint(err), "a compile error (*pongo2.Error)")
			continue
		}
		src, known := files[e.Filename]
		if e.Filename == "" || (e.Line > 0 && !known) {
			oracleFail(res, "positions", "c16-reentrant-tag-error", "FromFile("+name+"): "+files[name], fmt.Sprintf("%q %d:%d", e.Filename, e.Line, e.Column), "names one of the templates involved")
			continue
		}
		if e.Line > 0 && e.Token != nil && !textAt(src, e.Line, e.Column, e.Token.Val, e.Token.Typ == pongo2.TokenString, true) {
			oracleFail(res, "positions", "c16-reentrant-tag-error", "FromFile("+name+"): "+files[name], fmt.Sprintf("%s:%d:%d near %q", e.Filename, e.Line, e.Column, e.Token.Val), "the token's text at that position of the named file")
		}
		if e.Line > 0 && e.Token == nil && e.Line > strings.Count(src, "\n")+1 {
			oracleFail(res, "positions", "c16-reentrant-tag-error", "FromFile("+name+"): "+files[name], fmt.Sprintf("%s:%d:%d", e.Filename, e.Line, e.Column), "a line inside the named file")
		}
	}
}

// c02ReentrantUnderOff: an execution started by user code while another one is inside an
// `autoescape off` region (also inside an include there) starts in the package default mode
func c02ReentrantUnderOff(res *Result) {
	files := map[string]string{"/mail.txt": `{% autoescape off %}{% include "/footer.txt" %}|{{ card() }}{% endautoescape %}`, "/footer.txt": `-- {{ card() }}`, "/card.html": `<p>{{ who }}</p>`}
	set := pongo2.NewSet("c02-reentrant-off", &memLoader{files: files})
	card := func() *pongo2.Value {
		s, err := set.RenderTemplateFile("/card.html", pongo2.Context{"who": `<script>alert(1)</script>`})
		if err != nil {
			s = "ERR"
		}
		return pongo2.AsSafeValue(s)
	}
	res.Cases++
	tpl, err := set.FromFile("/mail.txt")
	if err != nil {
		return
	}
	want := "-- <p>&lt;script&gt;alert(1)&lt;/script&gt;</p>|<p>&lt;script&gt;alert(1)&lt;/script&gt;</p>"
	if r := execOnce(tpl, pongo2.Context{"card": card}); r.out != want {
		oracleFail(res, "taint", "c02-reentrant-under-off-region", "mail.txt ("+files["/mail.txt"]+") where card() renders card.html ({{ who }}, no opt-out) with who = <script>alert(1)</script>", r.String(), want)
	}
}

package main

import (
	"bytes"
	"encoding/hex"
	"fmt"
	"strings"

	pongo2 "github.com/flosch/pongo2/v6"
)

func hx(s string) string {
	if s == "" {
		return "-"
	}
	return hex.EncodeToString([]byte(s))
}

func unhx(s string) string {
	if s == "-" {
		return ""
	}
	b, _ := hex.DecodeString(s)
	return string(b)
}

func tokTypName(t int) string {
	switch pongo2.TokenType(t) {
	case pongo2.TokenHTML:
		return "H"
	case pongo2.TokenKeyword:
		return "K"
	case pongo2.TokenIdentifier:
		return "I"
	case pongo2.TokenString:
		return "S"
	case pongo2.TokenNumber:
		return "N"
	case pongo2.TokenSymbol:
		return "Y"
	}
	return fmt.Sprintf("?%d", t)
}

// implLex returns the canonical answer of the real lexer, in the driver's format.
func implLex(src string) (ans string, toks []pongo2.VerifToken, lerr *pongo2.Error) {
	defer func() {
		if r := recover(); r != nil {
			ans = "panic"
		}
	}()
	toks, lerr = pongo2.VerifLex("t", src)
	if lerr != nil {
		return fmt.Sprintf("err %d %d", lerr.Line, lerr.Column), nil, lerr
	}
	parts := make([]string, len(toks))
	for i, t := range toks {
		tr := 0
		if t.Trim {
			tr = 1
		}
		parts[i] = fmt.Sprintf("%s,%s,%d,%d,%d", tokTypName(t.Typ), hx(t.Val), t.Line, t.Col, tr)
	}
	return "ok " + strings.Join(parts, ";"), toks, nil
}

// stripPos removes line/col from a canonical lexer answer.
func stripPos(ans string) string {
	if strings.HasPrefix(ans, "err") {
		return "err"
	}
	if !strings.HasPrefix(ans, "ok ") {
		return ans
	}
	parts := strings.Split(ans[3:], ";")
	for i, p := range parts {
		f := strings.Split(p, ",")
		if len(f) == 5 {
			parts[i] = f[0] + "," + f[1] + "," + f[4]
		}
	}
	return "ok " + strings.Join(parts, ";")
}

type renderOut struct {
	Out      string
	Err      string // "" | "compile" | "exec"
	ErrMsg   string
	Panicked bool
	PanicMsg string
}

func (r renderOut) String() string {
	switch {
	case r.Panicked:
		return "panic " + r.PanicMsg
	case r.Err != "":
		return "err " + r.Err + " " + r.ErrMsg
	}
	return "ok " + hx(r.Out)
}

// implRender compiles src in a fresh set and executes it once.
func implRender(src string, ctx pongo2.Context) (r renderOut) {
	defer func() {
		if p := recover(); p != nil {
			r.Panicked = true
			r.PanicMsg = fmt.Sprint(p)
		}
	}()
	set := pongo2.NewSet("t", &memLoader{files: map[string]string{}})
	tpl, err := set.FromString(src)
	if err != nil {
		return renderOut{Err: "compile", ErrMsg: err.Error()}
	}
	out, err := tpl.Execute(ctx)
	if err != nil {
		return renderOut{Err: "exec", ErrMsg: err.Error()}
	}
	return renderOut{Out: out}
}

// implRenderFiles is implRender with named files next to the source
func implRenderFiles(src string, files map[string]string, ctx pongo2.Context) (r renderOut) {
	defer func() {
		if p := recover(); p != nil {
			r.Panicked = true
			r.PanicMsg = fmt.Sprint(p)
		}
	}()
	set := pongo2.NewSet("t", &memLoader{files: files})
	tpl, err := set.FromString(src)
	if err != nil {
		return renderOut{Err: "compile", ErrMsg: err.Error()}
	}
	out, err := tpl.Execute(ctx)
	if err != nil {
		return renderOut{Err: "exec", ErrMsg: err.Error()}
	}
	return renderOut{Out: out}
}

// implRenderVia compiles src through another entry point of the set and executes it once.
// "bytes": FromBytes with a buffer the caller reuses for something else before executing;
// "file": FromFile through the loader; "cache": FromCache (twice, second is the cached one).
func implRenderVia(how, src string, ctx pongo2.Context) (r renderOut) {
	defer func() {
		if p := recover(); p != nil {
			r.Panicked = true
			r.PanicMsg = fmt.Sprint(p)
		}
	}()
	set := pongo2.NewSet("t", &memLoader{files: map[string]string{"/f.tpl": src}})
	var tpl *pongo2.Template
	var err error
	switch how {
	case "bytes":
		buf := []byte(src)
		tpl, err = set.FromBytes(buf)
		// the buffer belongs to the caller: it is reused for the next template
		next := []byte("{% comment %}next template{% endcomment %}{{ other }}<p>")
		for i := range buf {
			buf[i] = next[i%len(next)]
		}
	case "writer", "include":
		// through ExecuteWriter (every include renders through it too), after a rendering that failed
		// half-way through the same entry point: what that one had written is gone with it
		if bad, e := set.FromString("STALE-PARTIAL-OUTPUT{{ 1/zero }}"); e == nil {
			var sink bytes.Buffer
			bad.ExecuteWriter(pongo2.Context{"zero": 0}, &sink)
		}
		if how == "include" {
			tpl, err = set.FromString(`{% include "/f.tpl" %}`)
		} else {
			tpl, err = set.FromString(src)
		}
		if err != nil {
			return renderOut{Err: "compile", ErrMsg: err.Error()}
		}
		var buf bytes.Buffer
		if err := tpl.ExecuteWriter(ctx, &buf); err != nil {
			return renderOut{Err: "exec", ErrMsg: err.Error()}
		}
		return renderOut{Out: buf.String()}
	case "file":
		tpl, err = set.FromFile("/f.tpl")
	case "cache":
		if _, err = set.FromCache("/f.tpl"); err == nil {
			tpl, err = set.FromCache("/f.tpl")
		}
	}
	if err != nil {
		return renderOut{Err: "compile", ErrMsg: err.Error()}
	}
	out, err := tpl.Execute(ctx)
	if err != nil {
		return renderOut{Err: "exec", ErrMsg: err.Error()}
	}
	return renderOut{Out: out}
}

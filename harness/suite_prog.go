package main

func init() { suites["prog"] = suiteProg }

// suiteProg: general grammar-generated programs, whole-pipeline correspondence.
func suiteProg(cfg Config, res *Result) {
	res.Rule = "grammar-generated programs over the modelled tag/filter/operator vocabulary (1-6 top-level nodes, nesting <= 3) with a standard context of randomised leaves; compared: outcome class and output bytes; non-trivial = compiles and contains >= 2 constructs; distinct by (source, context)"
	n := 6000
	if cfg.Thorough() {
		n = 100000
	}
	rng := NewRNG(cfg.Seed)
	cases := make([]ProgCase, 0, n)
	for i := 0; i < n; i++ {
		g := NewGen(rng.Fork())
		cases = append(cases, g.Program(1+rng.Intn(6)))
	}
	runProgCases(cfg, res, cases, "prog", func(c ProgCase, o ImplOutcome) bool {
		return o.Class != "compile" && (countConstructs(c.Src) >= 2)
	}, nil)
}

func countConstructs(s string) int {
	n := 0
	for i := 0; i+1 < len(s); i++ {
		if s[i] == '{' && (s[i+1] == '{' || s[i+1] == '%') {
			n++
		}
	}
	return n
}

# Level texts for MANIFEST.json (one entry per claimed property).
TEXT = {
 "C06": {
  "text": "Theorems in Lean 4 about the lexer model, for all byte strings: a delimiter-free source lexes to exactly one HTML token holding it (text_identity, no restriction on bytes); a verbatim block followed by anything yields its body as one token and resumes normal lexing, for any number of blocks incl. empty/adjacent (verbatim_block, verbatim_literal). Side conditions are decided on the tables regenerated from lexer.go. The model is tied to the code by token-stream correspondence on all strings <= 4/5 bytes over the lexer alphabet; render-level clauses (comments, fragment concatenation, templatetag) are decided by direct oracles on the implementation until the parser/executor model covers them.",
  "ref": "DESIGN.md §6 C06",
  "note": "Trusted: Lean kernel; tools/extract (tables, sentinel value, marker strings/widths); byte-wise lexer model validated by differential execution; direct oracles for the render-level clauses.",
  "technique": "Lean 4 theorems on lexer model + regenerated lexer tables + differential lexing + render oracles",
 },
 "C16": {
  "text": "Theorems in Lean 4: the lexer's incremental line/column bookkeeping equals the closed form (1 + newlines before, 1 + bytes since last newline) for every prefix (textPos_closed_form, adv_closed_form); table obligations (no newline in any symbol/identifier/digit/quote set; verbatim widths = marker lengths) decided on the regenerated tables. Every token and lexer-error position of the implementation is compared with the model on all strings <= 4/5 bytes over the lexer alphabet, and checked model-free against the source text (token text found at the reported position; filename).",
  "ref": "DESIGN.md §6 C16",
  "note": "Trusted: Lean kernel; tools/extract; VerifLex hook; the whole-lexer position invariant is not yet a single theorem (closed-form lemmas + correspondence); parser/execution error positions not yet covered.",
  "technique": "Lean 4 closed-form position theorems + regenerated tables + exhaustive differential lexing with position oracle",
 },
 "C17": {
  "text": "Theorems in Lean 4, for every byte string: escape's five sequential replacements equal one per-byte substitution (escapeHtml_eq_flatMap), its output contains none of < > \" ' (escape_no_special), is a sequence of entity chunks and harmless single bytes so every & starts an entity (escape_amp_entities), and HTML-unescaping gives back the input (escape_roundtrip); addslashes adds exactly one backslash before \\ \" ' and nothing else, and is invertible (addslashes_exact, addslashes_roundtrip); urlencode output is query-safe (urlencode_safe); one pass of striptags leaves no '<' followed by '>' (striptags_no_tag); safe is the identity (safe_identity). The replacement chains and the IRI set are regenerated from filters_builtin.go and checked equal to the modelled ones. escapejs/iriencode/urlencode round-trips: model tied by correspondence and judged by the harness's own decoders (no theorem yet).",
  "ref": "DESIGN.md §6 C17",
  "note": "Trusted: Lean kernel; tools/extract (Replace chains, IRI set); model of url.QueryEscape/utf8 decoding; direct decoders in the harness.",
  "technique": "Lean 4 theorems on byte-string filter models + regenerated replacement tables + differential ApplyFilter + decoder oracles",
 },
 "C18": {
  "text": "Theorems in Lean 4: the bounds filterSlice computes equal Python's slice normalisation for all integers, negative/huge/inverted, with or without the upper bound (slice_bounds_python), always lie inside the sequence (slice_bounds_in_range) and slice on a list is Python slicing (slice_is_python); center/ljust/rjust keep the text unaltered and add only spaces on the stated side with the exact counts (center_shape, center_pads_sum, ljust_shape, rjust_shape), erroring above the cap regenerated from the code; divisibleby by zero is False; yesno is three-way. All other listed filters and widthratio are decided by correspondence of the executable Lean model with ApplyFilter on exhaustive integer windows, plus independent Go references (Python slicing, padding shape, truncatechars, get_digit, %.nf, exact-rational round-half-up for widthratio).",
  "ref": "DESIGN.md §6 C18",
  "note": "Trusted: Lean kernel; Lean Float vs Go float64 agreement (checked by correspondence only); ASCII-only modelling of case mapping and Fields; filters date/stringformat/title/linebreaks/urlize/random/phone2numeric are outside the model.",
  "technique": "Lean 4 theorems (omega over Int) on filter models + exhaustive-window differential ApplyFilter + reference oracles",
 },
 "C07": {
  "text": "Theorem in Lean 4 (eval_embed): for every expression tree of the uncontroversial fragment, of any depth, the evaluator applied to the node the tree parses to returns exactly the value of the tree's fully parenthesised reading under an independent typed reference semantics (integer arithmetic on integers, float as soon as a float is involved, + concatenating with a string, short-circuit and/or, C-like not) and leaves the execution state unchanged; a zero divisor, and only that, is an execution error. Supporting theorems: every binary/unary operator agrees with the reference on all typed scalars (evalBin_denote, evalUnary_denote); longest-match lexing of symbols decided on the regenerated symbol table. Precedence/associativity of the parser (tree <-> source text) is decided by correspondence: all trees of depth <= 2 and samples up to depth 8, printed with minimal parentheses, random spacing and operator spellings, against an independent Go evaluator and the Lean model.",
  "ref": "DESIGN.md §6 C07",
  "note": "Trusted: Lean kernel; Lean Float (opaque) for float operations; math.Pow only where exact; parse_pp (parser o minimal-parentheses printer = id) not yet proved — parser tied by differential execution.",
  "technique": "Lean 4 theorem evaluator = typed reference semantics (induction on trees) + regenerated symbol table + differential rendering against an independent evaluator",
 },
 "C03": {
  "text": "Theorems in Lean 4: over every call history the banned names are exactly the names whose Ban call succeeded (bans_are_accepted); once a template was created the set stays frozen, every later ban is refused and changes nothing, and the ban lists never change again (frozen_stays, ban_after_create_refused, bans_fixed_after_create); unknown and duplicate names are refused. In the parser model the three places a name is resolved each reject a banned name whatever surrounds it: parseTag (banned_tag_rejected), filterLoop (banned_filter_rejected, via parseFilter_name) and the filter tag's argument parser (banned_filter_in_filter_tag_rejected). Regenerated fact: every by-name lookup site in the Go code is dominated by a ban-list lookup (gen_ban_sites_guarded). All routes (26 expression positions / 9 nestings x 8 file compositions) for every registered tag/filter and histories on 1-2 sets are checked against the implementation with invocation-counting probes.",
  "ref": "DESIGN.md §6 C03",
  "note": "Trusted: Lean kernel; extractor's ban-site analysis; that the three modelled lookup sites are all the routes (the regenerated site list says so for the Go code).",
  "technique": "Lean 4 state-machine invariants + local parser theorems + regenerated ban-site facts + route/history differential suites with probes",
 },
 "C04": {
  "text": "Theorem in Lean 4 (exec_starts_fresh): in the model an execution's output, error and other effects do not depend on whatever earlier executions left in the only state that could be carried over (the memory of cycle/ifchanged), and that memory is restored on success and failure; Execute is a function of (compiled tables, template, context) (equal_contexts_equal_results). That the Go code keeps no other state across executions is the regenerated obligation gen_exec_writes_none: the effect table extracted from /repo on every run (own CHA call graph from every Execute* entry point and the reflective ones, 200 functions) contains no store to the compiled template, anything hanging off it, the template set, a package variable or the caller's context; anchors guard against a truncated call graph. Histories of 2-5 executions (equal, different and failing contexts; all four TrimBlocks x LStripBlocks settings, also toggled in between) are compared with a fresh compile.",
  "ref": "DESIGN.md §6 C04",
  "note": "Trusted: Lean kernel; the extractor's call graph and write classification (no alias tracking); compilation reached from execution (lazy include) is treated as building fresh objects.",
  "technique": "Lean 4 theorem on the executable model + regenerated effect table (static, all inputs) + history differential against fresh compiles",
 },
 "C05": {
  "text": "Theorems in Lean 4 on an interleaving model (threads = deterministic step machines over a shared memory, schedule = any list of thread indices): if no thread writes shared memory then under every schedule the memory is unchanged (readonly_mem_unchanged) and every thread ends in exactly the state it reaches running alone for the steps it was given (readonly_interleaving) — so concurrent executions cannot influence one another and no step can take part in a data race. Instantiation for pongo2 by regenerated facts: the effect table of everything reachable from the execution entry points is empty (gen_exec_is_readonly), the call graph anchors are reachable, and the template cache is only touched under the set's mutex (gen_cache_under_lock). Level: proof of the model-level statement, partial for the runtime (Go memory model, scheduler, mutex assumed). Supporting search: generated programs executed from 2-8 goroutines under GOMAXPROCS 1/2/8 with concurrent compiles, outputs compared with sequential ones, under the race detector.",
  "ref": "DESIGN.md §6 C05",
  "note": "Trusted: Lean kernel; extractor's effect/lock tables; Go runtime semantics are assumed, not modelled; race detector only supports the search for a failing input.",
  "technique": "Lean 4 interleaving theorems + regenerated effect/lock tables + race-detector differential runs",
 },
 "C20": {
  "text": "Theorems in Lean 4 on the cache state machine (every FromCache/CleanCache call is one atomic step, justified by the regenerated lock-discipline fact; theorems quantify over all sequences, i.e. all interleavings): a cached name is returned as is with no fetch (hit_returns_cached); a miss performs exactly one fetch of that name and stores a fresh template (miss_loads_once); failed loads are not cached; Debug stores nothing and always loads (debug_bypasses); CleanCache(n) removes exactly n, CleanCache() everything; the identity invariant holds along every history (step_inv); k+1 requests for an uncached name in any interleaving perform exactly one fetch and all receive the same template (concurrent_requests_load_once). Histories of <= 20 ops incl. file changes, compile failures and two spellings of one name are compared with the model (template identity classes, errors, Get log); concurrent phases run under the race detector against the linearisation prediction.",
  "ref": "DESIGN.md §6 C20",
  "note": "Trusted: Lean kernel; mutex = atomic step (runtime assumed); extractor's lock-discipline fact; model of the loader's path resolution.",
  "technique": "Lean 4 state-machine theorems over all interleavings of atomic steps + regenerated lock facts + history differential + race-detector runs",
 },
 "C14": {
  "text": "Theorems in Lean 4 on the model's writer discipline: a buffered run hands the caller exactly the bytes of the inner run on success (buffered_ok) and leaves the caller's buffer untouched on failure, passing the error on (buffered_err); hence ExecuteWriter is all-or-nothing (writer_all_or_nothing), the buffered and unbuffered variants deliver the same bytes (variants_agree) and fail in exactly the same cases (variants_fail_alike), for every template, context and fuel. Fault injection on the implementation: every output position of generated programs can be made to fail; the four entry points are compared (bytes, error class), ExecuteWriter must have written nothing, the unbuffered variant a prefix of the fault-free output, and a failing caller's writer must surface as ExecuteWriter's error.",
  "ref": "DESIGN.md §6 C14",
  "note": "Trusted: Lean kernel; model of the writer plumbing; the unbuffered-prefix clause is checked by fault injection only.",
  "technique": "Lean 4 theorems on the buffering combinator of the executable model + fault-injection differential over the four entry points",
 },
 "C09": {
  "text": "Theorems in Lean 4 on the executable model: an if with conditions of known truth value runs exactly the first true branch, the else-branch if none, nothing otherwise, for any number of branches (if_first_true); ifequal/ifnotequal are complementary (ifequal_complement); lists iterate in order, reversed backwards, non-iterables have no items so empty runs (iter_in_order, iter_reversed, iter_nothing); sorted visits a permutation of the elements (sorted_is_permutation) in ascending numeric order for integers (sorted_ints_ascending). forloop fields are functions of (index, count, parent) by construction of the per-iteration record (after the fix: commit 998102e). Generated nestings to depth 4 of all listed tags over lists/strings/maps/nil, printing every forloop field incl. Parentloop, are compared with an independent reference interpreter of the generated tree and with the Lean model.",
  "ref": "DESIGN.md §6 C09",
  "note": "Trusted: Lean kernel; sort modelled as stable insertion sort; map order excluded; cycle/ifchanged semantics by correspondence and reference interpreter only.",
  "technique": "Lean 4 theorems on the interpreter model + differential rendering against an independent reference interpreter",
 },
}
PENDING = {}

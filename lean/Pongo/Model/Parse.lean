/-
  Model of the parser: parser.go, parser_document.go, parser_expression.go,
  variable.go (parse*), filters.go (parseFilter), tags.go and every tag*Parser.

  Recursive descent over `List Tok`.  All functions of the mutual block take a
  fuel argument that decreases at every call; `Compile.fuelFor` gives a value
  that is never exhausted (each call either consumes a token or descends one of
  the fixed grammar levels), and exhaustion is reported as the distinct error
  `outOfFuel`, never as a wrong parse.
-/
import Pongo.Model.Ast

namespace Pongo

inductive ErrKind
  | lexer | parser | fromfile | exec | outOfFuel | unsupported | other
  deriving DecidableEq, Repr, Inhabited

structure PErr where
  kind : ErrKind
  line : Nat := 0
  col  : Nat := 0
  msg  : String := ""
  file : Bytes := []
  deriving Repr, Inhabited

/-- compiled template (the part of `Template` that execution reads) -/
structure Tpl where
  name     : Bytes
  isString : Bool
  nodes    : List Node
  blocks   : List (Bytes × List Node)
  parent   : Option Nat
  exported : List (Bytes × Nat)
  trimBlocks   : Bool
  lstripBlocks : Bool
  deriving Inhabited

/-- what a compilation reads from its template set -/
structure SetCfg where
  bannedTags    : List Bytes := []
  bannedFilters : List Bytes := []
  loaders       : List (List (Bytes × Bytes)) := [[]]
  trimBlocks    : Bool := false
  lstripBlocks  : Bool := false
  /-- the package-level default every execution starts with (`SetAutoescape`) -/
  autoescape    : Bool := true
  regTags       : List Bytes
  regFilters    : List Bytes

/-- what a compilation produces besides the template: the tables the nodes
    refer to by index, and the loader fetch log -/
structure CState where
  tpls     : Array Tpl := #[]
  macros   : Array MacroDef := #[]
  nextId   : Nat := 0
  fetchLog : List (Nat × Bytes) := []
  deriving Inhabited

/-- per-template parse state (`Template.level/parent/blocks/exportedMacros`) -/
structure TState where
  name     : Bytes
  isString : Bool
  level    : Nat := 0
  parent   : Option Nat := none
  blocks   : List (Bytes × List Node) := []
  exported : List (Bytes × Nat) := []

/-- a `Parser`: remaining tokens, the whole list (for error positions) -/
structure PS where
  ts  : List Tok
  all : List Tok
  deriving Inhabited

abbrev PM := Except PErr

def Tok.pos (t : Tok) : TokPos := ⟨t.line, t.col⟩

def PS.cur (p : PS) : Option Tok := p.ts.head?
def PS.adv (p : PS) : PS := { p with ts := p.ts.tail }
def PS.remaining (p : PS) : Nat := p.ts.length
def PS.count (p : PS) : Nat := p.all.length

/-- `p.Error(msg, tok)` -/
def PS.err (p : PS) (msg : String) (tok : Option Tok := none) : PErr :=
  let t := match tok with
    | some t => some t
    | none => match p.cur with
      | some t => some t
      | none => p.all.getLast?
  match t with
  | some t => { kind := .parser, line := t.line, col := t.col, msg := msg }
  | none => { kind := .parser, msg := msg }

def Tok.isSym (t : Tok) (v : Bytes) : Bool := t.typ == .sym && t.val == v
def Tok.isKw (t : Tok) (v : Bytes) : Bool := t.typ == .keyword && t.val == v
def Tok.isIdent (t : Tok) (v : Bytes) : Bool := t.typ == .ident && t.val == v

/-- `p.Match(TokenSymbol, v)` -/
def PS.matchSym (p : PS) (v : Bytes) : Option PS :=
  match p.ts with
  | t :: _ => if t.isSym v then some p.adv else none
  | [] => none

def PS.matchKw (p : PS) (v : Bytes) : Option PS :=
  match p.ts with
  | t :: _ => if t.isKw v then some p.adv else none
  | [] => none

def PS.matchIdentVal (p : PS) (v : Bytes) : Option PS :=
  match p.ts with
  | t :: _ => if t.isIdent v then some p.adv else none
  | [] => none

/-- `p.MatchType(typ)` -/
def PS.matchType (p : PS) (ty : TokTyp) : Option (Tok × PS) :=
  match p.ts with
  | t :: _ => if t.typ == ty then some (t, p.adv) else none
  | [] => none

def relOps : List (Bytes × BinOp) :=
  [(b!"==", .eq), (b!"<=", .le), (b!">=", .ge), (b!"!=", .ne), (b!"<>", .ne), (b!">", .gt), (b!"<", .lt)]

/-- the optional leading sign of a simple expression -/
def signStep (p : PS) : Bool × PS :=
  match p.ts with
  | t :: _ => if t.isSym b!"+" then (false, p.adv) else if t.isSym b!"-" then (true, p.adv) else (false, p)
  | [] => (false, p)

/-- the optional leading `!` / `not` of a simple expression -/
def notStep (p : PS) : Bool × PS :=
  match p.ts with
  | t :: _ => if t.isSym b!"!" || t.isKw b!"not" then (true, p.adv) else (false, p)
  | [] => (false, p)

/-! ### expressions -/

mutual

/-- `ParseExpression` -/
def parseExpression (cfg : SetCfg) : Nat → PS → PM (Expr × PS)
  | 0, _ => .error { kind := .outOfFuel }
  | fuel+1, p => do
    let (e1, p) ← parseRelational cfg fuel p
    match p.ts with
    | t :: _ =>
      if t.isSym b!"&&" || t.isKw b!"and" then
        let (e2, p) ← parseExpression cfg fuel p.adv
        pure (.bin .and e1 e2 t.pos, p)
      else if t.isSym b!"||" || t.isKw b!"or" then
        let (e2, p) ← parseExpression cfg fuel p.adv
        pure (.bin .or e1 e2 t.pos, p)
      else pure (e1, p)
    | [] => pure (e1, p)

/-- `parseRelationalExpression` -/
def parseRelational (cfg : SetCfg) : Nat → PS → PM (Expr × PS)
  | 0, _ => .error { kind := .outOfFuel }
  | fuel+1, p => do
    let (e1, p) ← parseSimple cfg fuel p
    match p.ts with
    | t :: _ =>
      match (if t.typ == .sym then relOps.lookup t.val else none) with
      | some op =>
        let (e2, p) ← parseRelational cfg fuel p.adv
        pure (.bin op e1 e2 t.pos, p)
      | none =>
        if t.isKw b!"in" then
          let (e2, p) ← parseSimple cfg fuel p.adv
          pure (.bin .in e1 e2 t.pos, p)
        else pure (e1, p)
    | [] => pure (e1, p)

/-- `parseSimpleExpression` -/
def parseSimple (cfg : SetCfg) : Nat → PS → PM (Expr × PS)
  | 0, _ => .error { kind := .outOfFuel }
  | fuel+1, p => do
    let (negSign, p) := signStep p
    let (neg, p) := notStep p
    let (t1, p) ← parseTerm cfg fuel p
    let first := if neg || negSign then Expr.unary neg negSign t1 else t1
    simpleLoop cfg fuel first p

/-- the `for p.PeekOne(TokenSymbol, "+", "-")` loop -/
def simpleLoop (cfg : SetCfg) : Nat → Expr → PS → PM (Expr × PS)
  | 0, _, _ => .error { kind := .outOfFuel }
  | fuel+1, acc, p =>
    match p.ts with
    | t :: _ =>
      if t.isSym b!"+" || t.isSym b!"-" then do
        let (t2, p) ← parseTerm cfg fuel p.adv
        simpleLoop cfg fuel (.bin (if t.isSym b!"+" then .add else .sub) acc t2 t.pos) p
      else pure (acc, p)
    | [] => pure (acc, p)

/-- `parseTerm` -/
def parseTerm (cfg : SetCfg) : Nat → PS → PM (Expr × PS)
  | 0, _ => .error { kind := .outOfFuel }
  | fuel+1, p => do
    let (f1, p) ← parsePower cfg fuel p
    termLoop cfg fuel f1 p

def termLoop (cfg : SetCfg) : Nat → Expr → PS → PM (Expr × PS)
  | 0, _, _ => .error { kind := .outOfFuel }
  | fuel+1, acc, p =>
    match p.ts with
    | t :: _ =>
      if t.isSym b!"*" || t.isSym b!"/" || t.isSym b!"%" then do
        let (f2, p) ← parsePower cfg fuel p.adv
        termLoop cfg fuel (.bin (if t.isSym b!"*" then .mul else if t.isSym b!"/" then .div else .mod) acc f2 t.pos) p
      else pure (acc, p)
    | [] => pure (acc, p)

/-- `parsePower` -/
def parsePower (cfg : SetCfg) : Nat → PS → PM (Expr × PS)
  | 0, _ => .error { kind := .outOfFuel }
  | fuel+1, p => do
    let (f1, p) ← parseFactor cfg fuel p
    match p.ts with
    | t :: _ =>
      if t.isSym b!"^" then
        let (f2, p) ← parsePower cfg fuel p.adv
        pure (.bin .pow f1 f2 t.pos, p)
      else pure (f1, p)
    | [] => pure (f1, p)

/-- `parseFactor` -/
def parseFactor (cfg : SetCfg) : Nat → PS → PM (Expr × PS)
  | 0, _ => .error { kind := .outOfFuel }
  | fuel+1, p =>
    match p.matchSym b!"(" with
    | some p => do
      let (e, p) ← parseExpression cfg fuel p
      match p.matchSym b!")" with
      | some p => pure (e, p)
      | none => .error (p.err "Closing bracket expected after expression")
    | none => parseVarOrLitWithFilter cfg fuel p

/-- `parseVariableOrLiteralWithFilter` -/
def parseVarOrLitWithFilter (cfg : SetCfg) : Nat → PS → PM (Expr × PS)
  | 0, _ => .error { kind := .outOfFuel }
  | fuel+1, p => do
    let pos : TokPos := match p.cur with | some t => t.pos | none => ⟨0, 0⟩
    let (v, p) ← parseVarOrLit cfg fuel p
    let (chain, p) ← filterLoop cfg fuel [] p
    pure (.filtered v chain pos, p)

def filterLoop (cfg : SetCfg) : Nat → List FCall → PS → PM (List FCall × PS)
  | 0, _, _ => .error { kind := .outOfFuel }
  | fuel+1, acc, p =>
    match p.matchSym b!"|" with
    | some p => do
      let (f, p) ← parseFilter cfg fuel p
      let .mk name _ _ := f
      if cfg.bannedFilters.elem name then
        .error (p.err "Usage of filter is not allowed (sandbox restriction active).")
      else filterLoop cfg fuel (acc ++ [f]) p
    | none => pure (acc, p)

/-- `parseFilter` -/
def parseFilter (cfg : SetCfg) : Nat → PS → PM (FCall × PS)
  | 0, _ => .error { kind := .outOfFuel }
  | fuel+1, p =>
    match p.matchType .ident with
    | none => .error (p.err "Filter name must be an identifier.")
    | some (id, p) =>
      if !cfg.regFilters.elem id.val then .error (p.err "Filter does not exist." (some id))
      else
        match p.matchSym b!":" with
        | some p =>
          if (p.cur.map (·.isSym b!"}}")).getD false then .error (p.err "Filter parameter required after ':'.")
          else do
            let (v, p) ← parseVarOrLit cfg fuel p
            pure (.mk id.val (some v) id.pos, p)
        | none => pure (.mk id.val none id.pos, p)

/-- `parseVariableOrLiteral` -/
def parseVarOrLit (cfg : SetCfg) : Nat → PS → PM (Expr × PS)
  | 0, _ => .error { kind := .outOfFuel }
  | fuel+1, p =>
    match p.ts with
    | [] => .error (p.err "Unexpected EOF, expected a number, string, keyword or identifier." p.all.getLast?)
    | t :: _ =>
      match t.typ with
      | .num =>
        let p := p.adv
        match p.matchSym b!"." with
        | some p =>
          match p.matchType .num with
          | none => .error (p.err "Expected a number after the '.'.")
          | some (t2, p) =>
            match parseFloat (t.val ++ [0x2e] ++ t2.val) with
            | some f => pure (.float f t.pos, p)
            | none => .error (p.err "ParseFloat" (some t))
        | none =>
          match atoi t.val with
          | some i => pure (.int i t.pos, p)
          | none => .error (p.err "Atoi" (some t))
      | .str => pure (.str t.val t.pos, p.adv)
      | .keyword =>
        if t.val == b!"true" then pure (.bool true t.pos, p.adv)
        else if t.val == b!"false" then pure (.bool false t.pos, p.adv)
        else .error (p.adv.err "This keyword is not allowed here.")
      | _ =>
        if t.isSym b!"[" then parseArray cfg fuel t p.adv
        else if t.typ != .ident then
          .error (p.err "Expected either a number, string, keyword or identifier." (some t))
        else variableLoop cfg fuel t.pos [Part.ident t.val none] p.adv

/-- `parseArray` after the `[` -/
def parseArray (cfg : SetCfg) : Nat → Tok → PS → PM (Expr × PS)
  | 0, _, _ => .error { kind := .outOfFuel }
  | fuel+1, open_, p =>
    match p.matchSym b!"]" with
    | some p => pure (.arr [] open_.pos, p)
    | none => arrayLoop cfg fuel open_ [] p

def arrayLoop (cfg : SetCfg) : Nat → Tok → List Expr → PS → PM (Expr × PS)
  | 0, _, _, _ => .error { kind := .outOfFuel }
  | fuel+1, open_, acc, p =>
    if p.remaining = 0 then .error (p.err "Unexpected EOF, unclosed array list." p.all.getLast?)
    else do
      let (e, p) ← parseExpression cfg fuel p
      match p.matchSym b!"]" with
      | some p => pure (.arr (acc ++ [e]) open_.pos, p)
      | none =>
        match p.matchSym b!"," with
        | some p => arrayLoop cfg fuel open_ (acc ++ [e]) p
        | none => .error (p.err "Missing comma or closing bracket after argument." p.cur)

/-- `variableLoop` -/
def variableLoop (cfg : SetCfg) : Nat → TokPos → List Part → PS → PM (Expr × PS)
  | 0, _, _, _ => .error { kind := .outOfFuel }
  | fuel+1, pos, parts, p =>
    if p.remaining = 0 then pure (.var parts pos, p)
    else
    match p.matchSym b!"." with
    | some p =>
      match p.ts with
      | t2 :: _ =>
        match t2.typ with
        | .ident => variableLoop cfg fuel pos (parts ++ [Part.ident t2.val none]) p.adv
        | .num =>
          match atoi t2.val with
          | some i => variableLoop cfg fuel pos (parts ++ [Part.idx i none]) p.adv
          | none => .error (p.err "Atoi" (some t2))
        | _ => .error (p.err "This token is not allowed within a variable name." (some t2))
      | [] => .error (p.err "Unexpected EOF, expected either IDENTIFIER or NUMBER after DOT." p.all.getLast?)
    | none =>
      match p.matchSym b!"[" with
      | some p =>
        if p.remaining = 0 then .error (p.err "Unexpected EOF, expected subscript subscript." p.all.getLast?)
        else do
          let (e, p) ← parseExpression cfg fuel p
          match p.matchSym b!"]" with
          -- the Go loop has no `continue` on this branch: a subscript ends the variable
          | some p => pure (.var (parts ++ [Part.sub e none]) pos, p)
          | none => .error (p.err "Missing closing bracket after subscript argument.")
      | none =>
        match p.matchSym b!"(" with
        | some p => do
          let (args, p) ← argumentLoop cfg fuel [] p
          let parts' := match parts.getLast? with
            | some (Part.ident s c) => parts.dropLast ++ [Part.ident s (some ((c.getD []) ++ args))]
            | some (Part.idx i c) => parts.dropLast ++ [Part.idx i (some ((c.getD []) ++ args))]
            | some (Part.sub e c) => parts.dropLast ++ [Part.sub e (some ((c.getD []) ++ args))]
            | none => parts
          variableLoop cfg fuel pos parts' p
        | none => pure (.var parts pos, p)

/-- `argumentLoop` after the `(` -/
def argumentLoop (cfg : SetCfg) : Nat → List Expr → PS → PM (List Expr × PS)
  | 0, _, _ => .error { kind := .outOfFuel }
  | fuel+1, acc, p =>
    if p.remaining = 0 then .error (p.err "Unexpected EOF, expected function call argument list." p.all.getLast?)
    else
    match p.matchSym b!")" with
    | some p => pure (acc, p)
    | none => do
      let (e, p) ← parseExpression cfg fuel p
      match p.matchSym b!")" with
      | some p => pure (acc ++ [e], p)
      | none =>
        match p.matchSym b!"," with
        | some p => argumentLoop cfg fuel (acc ++ [e]) p
        | none => .error (p.err "Missing comma or closing bracket after argument.")

end

end Pongo

/-
  Model of filters_builtin.go.  Every filter is a function
  `V → V → FRes` (input value, parameter — `Val.nil` when absent).

  Filters whose behaviour depends on facilities outside the model (Unicode
  case mapping, regexp-heavy `urlize*`, `time.Format`, `math/rand`,
  `fmt.Sprintf` with arbitrary verbs) answer `unsupported` on the inputs that
  would need them; the harness does not compare those cases.
-/
import Pongo.Model.Val

namespace Pongo

inductive FRes
  | ok (v : V)
  | err (msg : String)
  | unsupported
  deriving Inhabited

open Val

def isAscii (s : Bytes) : Bool := s.all (· < 0x80)

def asciiUpper (c : UInt8) : UInt8 := if 0x61 ≤ c && c ≤ 0x7a then c - 32 else c
def asciiLower (c : UInt8) : UInt8 := if 0x41 ≤ c && c ≤ 0x5a then c + 32 else c

/-- `strings.Fields` (ASCII white space; input must be ASCII or the split is on ASCII space only) -/
def isSpaceByte (c : UInt8) : Bool := c == 0x20 || c == 0x09 || c == 0x0a || c == 0x0b || c == 0x0c || c == 0x0d

def fields (s : Bytes) : List Bytes :=
  let r := s.foldl (fun (acc : List Bytes × Bytes) c =>
    if isSpaceByte c then (if acc.2 = [] then acc else (acc.1 ++ [acc.2], []))
    else (acc.1, acc.2 ++ [c])) ([], [])
  if r.2 = [] then r.1 else r.1 ++ [r.2]

/-- `unicode.IsSpace` -/
def isSpaceRune (r : Nat) : Bool :=
  r == 0x20 || (0x09 ≤ r && r ≤ 0x0d) || r == 0x85 || r == 0xA0 || r == 0x1680 || (0x2000 ≤ r && r ≤ 0x200a) ||
  r == 0x2028 || r == 0x2029 || r == 0x202f || r == 0x205f || r == 0x3000

/-- the runes of `s` with their encodings as they stand in `s` (invalid bytes: one byte each) -/
def runeChunks (s : Bytes) : List (Nat × Bytes) :=
  go s s.length
where
  go : Bytes → Nat → List (Nat × Bytes)
  | [], _ => []
  | _, 0 => []
  | c :: t, fuel+1 =>
    let d := Utf8.decode (c :: t)
    -- an invalid byte decodes to U+FFFD with width 1 and is not a space
    (d.1, (c :: t).take d.2) :: go ((c :: t).drop d.2) fuel

/-- `strings.TrimSpace` -/
def trimSpace (s : Bytes) : Bytes :=
  let cs := runeChunks s
  let isSp := fun (rc : Nat × Bytes) => isSpaceRune rc.1
  let cs := ((cs.dropWhile isSp).reverse.dropWhile isSp).reverse
  cs.flatMap (·.2)

/-! ### escaping filters (C17) -/

/-- `filterEscape`: five sequential `strings.Replace` calls, `&` first -/
def escapePairs : List (Bytes × Bytes) :=
  [(b!"&", b!"&amp;"), (b!">", b!"&gt;"), (b!"<", b!"&lt;"), (b!"\"", b!"&quot;"), (b!"'", b!"&#39;")]

def replaceChain (pairs : List (Bytes × Bytes)) (s : Bytes) : Bytes :=
  pairs.foldl (fun acc p => Bytes.replaceAll p.1 p.2 acc) s

def escapeHtml (s : Bytes) : Bytes := replaceChain escapePairs s

def addslashesPairs : List (Bytes × Bytes) :=
  [(b!"\\", b!"\\\\"), (b!"\"", b!"\\\""), (b!"'", b!"\\'")]

def addslashes (s : Bytes) : Bytes := replaceChain addslashesPairs s

def hex4 (r : Nat) : Bytes :=
  -- `%04X`
  let digits := (Nat.toDigits 16 r).map (fun c => (c.toUpper.toNat.toUInt8))
  padLeft 4 0x30 digits

/-- `filterEscapejs` -/
def escapejs (s : Bytes) : Bytes :=
  go s s.length
where
  go : Bytes → Nat → Bytes
  | [], _ => []
  | _, 0 => []
  | c :: t, fuel+1 =>
    let d := Utf8.decode (c :: t)
    if d.1 = 0xFFFD && !(c == 0xef && t.take 2 == [0xbf, 0xbd]) then
      -- invalid byte: skipped (`c == utf8.RuneError` with size 1)
      go ((c :: t).drop d.2) fuel
    else if c == 0x5c && (match t with | 0x72 :: _ => true | _ => false) then
      b!"\\u000D" ++ go (t.drop 1) fuel
    else if c == 0x5c && (match t with | 0x6e :: _ => true | _ => false) then
      b!"\\u000A" ++ go (t.drop 1) fuel
    else if (0x61 ≤ c && c ≤ 0x7a) || (0x41 ≤ c && c ≤ 0x5a) || c == 0x20 || c == 0x2f then
      c :: go t fuel
    else if d.1 > 0xFFFF then
      -- UTF-16 surrogate pair
      let v := d.1 - 0x10000
      b!"\\u" ++ hex4 (0xD800 + v / 0x400) ++ b!"\\u" ++ hex4 (0xDC00 + v % 0x400) ++ go ((c :: t).drop d.2) fuel
    else b!"\\u" ++ hex4 d.1 ++ go ((c :: t).drop d.2) fuel

def queryUnreserved (c : UInt8) : Bool :=
  (0x61 ≤ c && c ≤ 0x7a) || (0x41 ≤ c && c ≤ 0x5a) || (0x30 ≤ c && c ≤ 0x39) || c == 0x2d || c == 0x5f || c == 0x2e || c == 0x7e

/-- `url.QueryEscape` -/
def queryEscape (s : Bytes) : Bytes :=
  s.flatMap fun c =>
    if queryUnreserved c then [c]
    else if c == 0x20 then [0x2b]
    else [0x25, Bytes.hexDigitUpper (c.toNat / 16), Bytes.hexDigitUpper (c.toNat % 16)]

def iriChars : Bytes := b!"/#%[]=:;$&()+,!?*@'~"

/-- `filterIriencode`: ranges over runes; invalid bytes become U+FFFD and are query-escaped -/
def iriencode (s : Bytes) : Bytes :=
  (Utf8.runes s).flatMap fun r =>
    if r < 0x80 && iriChars.elem (UInt8.ofNat r) then [UInt8.ofNat r] else queryEscape (Utf8.encode r)

/-- `reStriptags = "<[^>]*?>"` replaced by "" (leftmost, non-overlapping), then TrimSpace -/
def stripTagsRaw : Bytes → Bytes
  | [] => []
  | c :: t =>
    if c == 0x3c then
      -- shortest match: up to the first '>'
      if t.elem 0x3e then stripTagsRaw ((t.dropWhile (· != 0x3e)).drop 1)
      else c :: stripTagsRaw t
    else c :: stripTagsRaw t
termination_by s => s.length
decreasing_by
  · have := (List.dropWhile_sublist (fun x => x != (0x3e : UInt8)) (l := t)).length_le
    simp only [List.length_drop, List.length_cons]; omega
  · simp only [List.length_cons]; omega
  · simp only [List.length_cons]; omega

def striptags (s : Bytes) : Bytes := trimSpace (stripTagsRaw s)

/-! ### value-shaping filters (C18) -/

def mkStr (s : Bytes) : FRes := .ok ⟨.str s, false⟩
def mkInt (i : Int64) : FRes := .ok ⟨.int i, false⟩
def mkBool (b : Bool) : FRes := .ok ⟨.bool b, false⟩

/-- `Value.Index(i)` for `i ≥ 0` -/
def vIndex (v : Val) (i : Nat) : Val :=
  match v.reflected with
  | list _ xs => xs.getD i .nil
  | arr _ xs => xs.getD i .nil
  | str s => match (Utf8.runes s)[i]? with
    | some r => .str (Utf8.encode r)
    | none => .str []
  | _ => .list b!"[]int" []

/-- bounds computed by `filterSlice` (as Go ints) -/
def sliceBoundsI (len from_ to_ : Int) (toMissing : Bool) : Int × Int :=
  let from1 := if from_ < 0 then max (len + from_) 0 else from_
  let from2 := if from1 > len then len else from1
  let vto := if toMissing then len else to_
  let vto1 := if vto < 0 then max (len + vto) 0 else vto
  let vto2 := if vto1 < from2 then from2 else vto1
  let to2 := if vto2 ≥ from2 && vto2 ≤ len then vto2 else len
  (from2, to2)

def sliceBounds (len from_ to_ : Int) (toMissing : Bool) : Nat × Nat :=
  ((sliceBoundsI len from_ to_ toMissing).1.toNat, (sliceBoundsI len from_ to_ toMissing).2.toNat)

/-- `Value.Slice(i, j)` with `0 ≤ i ≤ j ≤ len` -/
def vSlice (v : Val) (i j : Nat) : Val :=
  match v.reflected with
  | list ty xs => .list ty ((xs.drop i).take (j - i))
  | arr ty xs => .list (b!"[]" ++ (ty.dropWhile (· != 0x5d)).drop 1) ((xs.drop i).take (j - i))
  | str s => .str (Utf8.ofRunes (((Utf8.runes s).drop i).take (j - i)))
  | _ => .list b!"[]int" []

def truncatecharsHelper (s : Bytes) (newLen : Int) : Bytes :=
  if newLen ≤ 0 then s
  else
    let rs := Utf8.runes s
    let n := newLen.toNat
    if n < rs.length then
      if n ≥ 3 then Utf8.ofRunes (rs.take (n - 3)) ++ b!"..."
      else Utf8.ofRunes (rs.take n)
    else Utf8.ofRunes rs

def maxCharPadding : Int := 10000
def maxFloatFormatDecimals : Int := 1000

def joinVals (v : Val) : List Bytes :=
  match v.reflected with
  | str _ => Utf8.runeStrings v.toS   -- `range in.String()`: a Stringer's text, not its underlying string
  | list _ xs => xs.map Val.toS
  | arr _ xs => xs.map Val.toS
  | _ => []

def digitsOnly (s : Bytes) : Bool := s.all isDigit

/-- `applyFilter name in param` for the modelled filters -/
def applyFilter (name : Bytes) (i p : V) : FRes :=
  let s := i.v.toS
  if name == b!"escape" || name == b!"e" then mkStr (escapeHtml s)
  else if name == b!"safe" then .ok i
  else if name == b!"escapejs" then mkStr (escapejs s)
  else if name == b!"add" then
    if i.v.isNumber && p.v.isNumber then
      if i.v.isFloat || p.v.isFloat then .ok ⟨.float (i.v.toFloat + p.v.toFloat), false⟩
      else mkInt (i.v.toInt + p.v.toInt)
    else mkStr (s ++ p.v.toS)
  else if name == b!"addslashes" then mkStr (addslashes s)
  else if name == b!"capfirst" then
    if i.v.len = 0 then mkStr []
    else match s with
      | c :: t => if c < 0x80 then mkStr (asciiUpper c :: t) else .unsupported
      | [] => mkStr []
  else if name == b!"center" then
    let width := p.v.toInt.toInt
    let slen : Int := (Utf8.runes s).length   -- the width of the text, also for a number
    if width ≤ slen then .ok i
    else
      let spaces := width - slen
      if spaces > maxCharPadding then .err "center: too much padding"
      else
        let left := spaces / 2 + spaces % 2
        let right := spaces / 2
        mkStr (Bytes.spaces left.toNat ++ s ++ Bytes.spaces right.toNat)
  else if name == b!"cut" then
    let ps := p.v.toS
    if ps = [] then
      -- strings.Replace with an empty `old` inserts nothing when `new` is empty
      mkStr s
    else mkStr (Bytes.replaceAll ps [] s)
  else if name == b!"default" then if !i.v.isTrue then .ok p else .ok i
  else if name == b!"default_if_none" then if i.v.isNil then .ok p else .ok i
  else if name == b!"divisibleby" then
    if p.v.toInt == 0 then mkBool false
    else mkBool (i.v.toInt % p.v.toInt == 0)
  else if name == b!"first" then
    if i.v.canSlice && i.v.len > 0 then .ok ⟨vIndex i.v 0, false⟩ else mkStr []
  else if name == b!"last" then
    if i.v.canSlice && i.v.len > 0 then .ok ⟨vIndex i.v (i.v.len - 1), false⟩ else mkStr []
  else if name == b!"float" then .ok ⟨.float i.v.toFloat, false⟩
  else if name == b!"integer" then mkInt i.v.toInt
  else if name == b!"floatformat" then
    let val := i.v.toFloat
    let decimals0 : Int := if !p.v.isNil then p.v.toInt.toInt else -1
    let trim0 := !p.v.isNumber
    let (decimals, trim) := if decimals0 ≤ 0 then (-decimals0, true) else (decimals0, trim0)
    if trim && Float.ofInt (floatToInt val).toInt == val then mkInt i.v.toInt
    else if decimals > maxFloatFormatDecimals then .err "floatformat: too many decimals"
    else mkStr (fmtFloatPrec val decimals.toNat)
  else if name == b!"get_digit" then
    let idx := p.v.toInt.toInt
    let l : Int := s.length
    if idx ≤ 0 || idx > l then .ok i
    else
      let whole := match s with
        | 0x2d :: t => t ≠ [] && t.all isDigit
        | _ => s.all isDigit
      let d := s.getD (l - idx).toNat 0
      if !whole || d == 0x2d then .ok i
      else .ok ⟨.uint (UInt64.ofNat (d - 48).toNat), false⟩
  else if name == b!"iriencode" then mkStr (iriencode s)
  else if name == b!"join" then
    if !i.v.canSlice then .ok i
    else
      let sep := p.v.toS
      if sep = [] && i.v.isString then mkStr s   -- (an empty separator returns a string input as it is)
      else mkStr (Bytes.join sep (joinVals i.v))
  else if name == b!"length" then mkInt (Int64.ofNat i.v.len)
  else if name == b!"length_is" then mkBool (Int64.ofNat i.v.len == p.v.toInt)
  else if name == b!"linebreaksbr" then mkStr (Bytes.replaceAll b!"\n" b!"<br />" s)
  else if name == b!"linenumbers" then
    let lines := Bytes.splitOn b!"\n" s
    mkStr (Bytes.join b!"\n" (lines.zipIdx.map fun (l, k) => Bytes.decimal (k + 1) ++ b!". " ++ l))
  else if name == b!"ljust" then
    let times0 := p.v.toInt.toInt - ((Utf8.runes s).length : Int)   -- the width of the text, also for a number
    let times := if times0 < 0 then 0 else times0
    if times > maxCharPadding then .err "ljust: too much padding"
    else mkStr (s ++ Bytes.spaces times.toNat)
  else if name == b!"rjust" then
    let padding0 := p.v.toInt.toInt
    let padding := if padding0 < 0 then 0 else padding0
    if padding > maxCharPadding then .err "rjust: too much padding"
    else
      -- fmt.Sprintf("%{padding}s", s) with padding ≥ 0: pads on the left to `padding` runes
      let n := (Utf8.runes s).length
      mkStr (Bytes.spaces (padding.toNat - n) ++ s)
  else if name == b!"lower" then if isAscii s then mkStr (s.map asciiLower) else .unsupported
  else if name == b!"upper" then if isAscii s then mkStr (s.map asciiUpper) else .unsupported
  else if name == b!"make_list" then .ok ⟨.list b!"[]string" ((Utf8.runeStrings s).map Val.str), false⟩
  else if name == b!"pluralize" then
    if i.v.isNumber then
      -- (1.5 is not one, although its integer part is)
      let isOne := if i.v.isFloat then i.v.toFloat == 1 else i.v.toInt == 1
      if p.v.len > 0 then
        let endings := Bytes.splitOn b!"," p.v.toS
        if endings.length > 2 then .err "pluralize: more than 2 arguments"
        else if endings.length = 1 then
          if !isOne then mkStr (endings.getD 0 []) else mkStr []
        else if !isOne then mkStr (endings.getD 1 []) else mkStr (endings.getD 0 [])
      else if !isOne then mkStr b!"s" else mkStr []
    else .err "pluralize: only numbers"
  else if name == b!"slice" then
    let comp := Bytes.splitOn b!":" p.v.toS
    if comp.length != 2 then .err "slice: format"
    else if !i.v.canSlice then .ok i
    else
      let c0 := comp.getD 0 []
      let c1 := comp.getD 1 []
      let (f, t) := sliceBounds i.v.len (Val.str c0).toInt.toInt (Val.str c1).toInt.toInt (trimSpace c1 = [])
      match i.v.resolved with
      | _ => .ok ⟨vSlice i.v f t, false⟩
  else if name == b!"split" then
    let sep := p.v.toS
    if sep = [] then .ok ⟨.list b!"[]string" ((runeChunks s).map fun c => Val.str c.2), false⟩   -- strings.Split(s, "") explodes into UTF-8 sequences (invalid bytes stay as they are)
    else .ok ⟨.list b!"[]string" ((Bytes.splitOn sep s).map Val.str), false⟩
  else if name == b!"striptags" then mkStr (striptags s)
  else if name == b!"truncatechars" then mkStr (truncatecharsHelper s p.v.toInt.toInt)
  else if name == b!"truncatewords" then
    if !isAscii s then .unsupported else
    let words := fields s
    let n := p.v.toInt.toInt
    if n ≤ 0 then mkStr []
    else
      let out := words.take n.toNat
      mkStr (Bytes.join b!" " (if n < words.length then out ++ [b!"..."] else out))
  else if name == b!"urlencode" then mkStr (queryEscape s)
  else if name == b!"wordcount" then if isAscii s then mkInt (Int64.ofNat (fields s).length) else .unsupported
  else if name == b!"wordwrap" then
    if !isAscii s then .unsupported else
    let words := fields s
    let wrapAt := p.v.toInt.toInt
    if wrapAt ≤ 0 then .ok i
    else
      let w := wrapAt.toNat
      let n := words.length
      let linecount := n / w + (if n % w > 0 then 1 else 0)
      let lines := (List.range linecount).map fun k => Bytes.join b!" " ((words.drop (w * k)).take w)
      mkStr (Bytes.join b!"\n" lines)
  else if name == b!"yesno" then
    let ps := p.v.toS
    let custom := Bytes.splitOn b!"," ps
    if ps.length > 0 && custom.length > 3 then .err "yesno: more than 3 options"
    else if ps.length > 0 && custom.length < 2 then .err "yesno: fewer than 2 options"
    else
      let c0 := if ps.length > 0 then custom.getD 0 [] else b!"yes"
      let c1 := if ps.length > 0 then custom.getD 1 [] else b!"no"
      let c2 := if ps.length > 0 && custom.length = 3 then custom.getD 2 [] else b!"maybe"
      if i.v.isNil then mkStr c2 else if i.v.isTrue then mkStr c0 else mkStr c1
  else .unsupported

end Pongo

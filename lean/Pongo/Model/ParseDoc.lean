/-
  Model of the document-level parser: parser_document.go, parser.go
  (WrapUntilTag / SkipUntilTag), tags.go (parseTagElement), every tag*Parser,
  template.go (newTemplate), template_sets.go (FromFile / resolveFilename) and
  the in-memory loader of the harness (`memLoader.Abs` = Go's `path` package).
-/
import Pongo.Model.Parse

namespace Pongo

/-! ### Go's `path` package (used by the harness loader's `Abs`) -/

namespace Path

/-- `path.Clean` -/
def clean (p : Bytes) : Bytes :=
  if p = [] then b!"."
  else
    let rooted := p.head? == some 0x2f
    let comps := (Bytes.splitOn [0x2f] p).filter (fun c => c ≠ [] && c ≠ b!".")
    let out := comps.foldl (fun (acc : List Bytes) c =>
      if c == b!".." then
        match acc.getLast? with
        | some l => if l == b!".." then acc ++ [c] else acc.dropLast
        | none => if rooted then acc else acc ++ [c]
      else acc ++ [c]) []
    let body := Bytes.join [0x2f] out
    if rooted then 0x2f :: body
    else if body = [] then b!"." else body

/-- `path.Dir` -/
def dir (p : Bytes) : Bytes :=
  let r := p.reverse.dropWhile (· ≠ 0x2f)
  clean r.reverse

/-- `path.Join(a, b)` -/
def join2 (a c : Bytes) : Bytes :=
  if a = [] && c = [] then []
  else if a = [] then clean c
  else if c = [] then clean a
  else clean (a ++ [0x2f] ++ c)

def isAbs (p : Bytes) : Bool := p.head? == some 0x2f

/-- `memLoader.Abs(base, name)` -/
def abs (base name : Bytes) : Bytes :=
  if isAbs name || base = [] then clean name else join2 (dir base) name

end Path

/-- `set.resolveFilename(tpl, path)` with the harness loader -/
def resolveFilename (isString : Bool) (tplName path : Bytes) : Bytes :=
  if isString then path else Path.abs tplName path

/-! ### document parser -/

/-- state threaded through the document parser -/
structure DS where
  doc : PS
  cs  : CState
  ts  : TState
  self : Nat            -- index reserved for the template being parsed

def PS.ofList (ts : List Tok) : PS := ⟨ts, ts⟩

def templateTagMapping : List (Bytes × Bytes) :=
  [(b!"openblock", b!"{%"), (b!"closeblock", b!"%}"), (b!"openvariable", b!"{{"), (b!"closevariable", b!"}}"),
   (b!"openbrace", b!"{"), (b!"closebrace", b!"}"), (b!"opencomment", b!"{#"), (b!"closecomment", b!"#}")]

/-- tags the model implements; a registered tag outside this list makes the
    model answer `unsupported` (the harness does not compare such cases) -/
def modelledTags : List Bytes :=
  [b!"autoescape", b!"block", b!"comment", b!"cycle", b!"extends", b!"filter", b!"firstof", b!"for", b!"if",
   b!"ifchanged", b!"ifequal", b!"ifnotequal", b!"import", b!"include", b!"lorem", b!"macro", b!"now", b!"set",
   b!"spaceless", b!"ssi", b!"templatetag", b!"widthratio", b!"with"]

/-- `newContextForExecution`'s token rewriting depends only on these two facts
    about an HTML token's neighbours -/
def Tok.isBlockClose (t : Tok) : Bool := t.typ != .html && t.val == b!"%}"
def Tok.isBlockOpen (t : Tok) : Bool := t.typ != .html && t.val == b!"{%"

/-- collect `{% name args %}`'s argument tokens: everything up to `%}` -/
def collectArgs : List Tok → List Tok × List Tok
  | [] => ([], [])
  | t :: rest => if t.isSym b!"%}" then ([], t :: rest) else
    let r := collectArgs rest
    (t :: r.1, r.2)

theorem collectArgs_len (ts : List Tok) : (collectArgs ts).2.length ≤ ts.length := by
  induction ts with
  | nil => simp [collectArgs]
  | cons t rest ih =>
    simp only [collectArgs]; split
    · simp
    · simp only [List.length_cons]; omega

/-- the `SkipUntilTag` loop after the end tag's name was consumed:
    skip to `%}` (`none` = EOF) -/
def skipToClose : List Tok → Option (Tok × List Tok)
  | [] => none
  | t :: rest => if t.isSym b!"%}" then some (t, rest) else
    match rest with
    | [] => none      -- `p.Consume(); if p.Current() == nil` → EOF error
    | _ => skipToClose rest

/-- `SkipUntilTag(names)` -/
def skipUntil (names : List Bytes) : List Tok → Option (Tok × List Tok)
  | [] => none
  | t :: rest =>
    if t.isSym b!"{%" then
      match rest with
      | id :: rest' =>
        if id.typ == .ident && names.elem id.val then skipToClose rest' else skipUntil names rest
      | [] => skipUntil names rest
    else skipUntil names rest

def lookupIdx (xs : List (Bytes × α)) (k : Bytes) : Option α := xs.lookup k

/-- `resolveTemplate`'s loop: ask the loaders in order for `name`, stop at the
    first that has it; every `Get` is logged as (loader index, name) -/
def tryLoaders (name : Bytes) : List (List (Bytes × Bytes)) → Nat → List (Nat × Bytes) → Option Bytes × List (Nat × Bytes)
  | [], _, log => (none, log)
  | l :: rest, i, log =>
    match l.lookup name with
    | some c => (some c, log ++ [(i, name)])
    | none => tryLoaders name rest (i + 1) (log ++ [(i, name)])

/-- an optional bare word among a tag's arguments (`reversed`, `sorted`, `if_exists`, `random`, `fake`) -/
def PS.optIdent (a : PS) (v : Bytes) : Bool × PS :=
  match a.matchIdentVal v with | some a' => (true, a') | none => (false, a)

/-- an optional keyword among a tag's arguments (`export`) -/
def PS.optKw (a : PS) (v : Bytes) : Bool × PS :=
  match a.matchKw v with | some a' => (true, a') | none => (false, a)

mutual

/-- `newTemplate` + `FromFile`'s loading: compile `src` under `name`.  Returns
    the index of the new template in `cs.tpls`. -/
def compileTpl (T : LexTables) (cfg : SetCfg) : Nat → CState → Bytes → Bool → Bytes → PM (Nat × CState)
  | 0, _, _, _, _ => .error { kind := .outOfFuel }
  | fuel+1, cs, name, isString, src =>
    match lex T src with
    | .err e => .error { kind := .lexer, line := e.line, col := e.col, file := name }
    | .hang => .error { kind := .outOfFuel }
    | .ok toks => do
      let self := cs.tpls.size
      let cs := { cs with tpls := cs.tpls.push { name := name, isString := isString, nodes := [], blocks := [],
                                                  parent := none, exported := [], trimBlocks := cfg.trimBlocks,
                                                  lstripBlocks := cfg.lstripBlocks } }
      let ds : DS := ⟨PS.ofList toks, cs, { name := name, isString := isString }, self⟩
      let (nodes, ds) ← parseDocument T cfg fuel [] none ds
      let tpl : Tpl := { name := name, isString := isString, nodes := nodes, blocks := ds.ts.blocks,
                         parent := ds.ts.parent, exported := ds.ts.exported,
                         trimBlocks := cfg.trimBlocks, lstripBlocks := cfg.lstripBlocks }
      pure (self, { ds.cs with tpls := ds.cs.tpls.set! self tpl })

/-- `set.FromFile(filename)`: ask every loader in order for `Abs("", filename)` -/
def fromFile (T : LexTables) (cfg : SetCfg) : Nat → CState → Bytes → PM (Nat × CState)
  | 0, _, _ => .error { kind := .outOfFuel }
  | fuel+1, cs, filename =>
    let name := Path.abs [] filename
    let (found, log) := tryLoaders name cfg.loaders 0 cs.fetchLog
    let cs := { cs with fetchLog := log }
    match found with
    | none => .error { kind := .fromfile, file := filename, msg := "unable to resolve template" }
    | some src => compileTpl T cfg fuel cs filename false src

/-- `parseDocument` / the body of `WrapUntilTag` share this loop; `prev` is the
    token before the current one in the document's token list -/
def parseDocument (T : LexTables) (cfg : SetCfg) : Nat → List Node → Option Tok → DS → PM (List Node × DS)
  | 0, _, _, _ => .error { kind := .outOfFuel }
  | fuel+1, acc, prev, ds =>
    match ds.doc.ts with
    | [] => pure (acc, ds)
    | _ :: _ => do
      let (n, prev', ds) ← parseDocElement T cfg fuel prev ds
      parseDocument T cfg fuel (acc ++ [n]) prev' ds

/-- `parseDocElement`; also returns the last token consumed -/
def parseDocElement (T : LexTables) (cfg : SetCfg) : Nat → Option Tok → DS → PM (Node × Option Tok × DS)
  | 0, _, _ => .error { kind := .outOfFuel }
  | fuel+1, prev, ds =>
    match ds.doc.ts with
    | [] => .error (ds.doc.err "Unexpected token (only HTML/tags/filters in templates allowed)")
    | t :: rest =>
      match t.typ with
      | .html =>
        let left := match prev with | some p => p.typ == .sym && p.trim | none => false
        let right := match rest with | n :: _ => n.typ == .sym && n.trim | [] => false
        let after := match prev with | some p => p.isBlockClose | none => false
        let before := match rest with | n :: _ => n.isBlockOpen | [] => false
        pure (.html t.val left right after before ds.self, some t, { ds with doc := ds.doc.adv })
      | .sym =>
        if t.val == b!"{{" then do
          -- parseVariableElement
          let (e, p) ← parseExpression cfg fuel ds.doc.adv
          match p.ts with
          | c :: _ =>
            if c.isSym b!"}}" then pure (.var e t.pos, some c, { ds with doc := p.adv })
            else .error (p.err "'}}' expected")
          | [] => .error (p.err "'}}' expected")
        else if t.val == b!"{%" then parseTag T cfg fuel { ds with doc := ds.doc.adv }
        else .error (ds.doc.err "Unexpected token (only HTML/tags/filters in templates allowed)" (some t))
      | _ => .error (ds.doc.err "Unexpected token (only HTML/tags/filters in templates allowed)" (some t))

/-- `parseTagElement` after `{%` was consumed -/
def parseTag (T : LexTables) (cfg : SetCfg) : Nat → DS → PM (Node × Option Tok × DS)
  | 0, _ => .error { kind := .outOfFuel }
  | fuel+1, ds =>
    match ds.doc.matchType .ident with
    | none => .error (ds.doc.err "Tag name must be an identifier.")
    | some (nameTok, p) =>
      if !cfg.regTags.elem nameTok.val then .error (p.err "Tag not found (or beginning tag not provided)" (some nameTok))
      else if cfg.bannedTags.elem nameTok.val then
        .error (p.err "Usage of tag is not allowed (sandbox restriction active)." (some nameTok))
      else
        let r := collectArgs p.ts
        match r.2 with
        | [] => .error (p.err "Unexpectedly reached EOF, no tag end found." p.all.getLast?)
        | close :: restDoc =>
          if !modelledTags.elem nameTok.val then .error { kind := .unsupported, msg := "tag outside the model" }
          else do
            let args := PS.ofList r.1
            let ds := { ds with doc := { p with ts := restDoc }, ts := { ds.ts with level := ds.ts.level + 1 } }
            let (n, last, ds) ← tagParser T cfg fuel nameTok close args ds
            pure (n, last, { ds with ts := { ds.ts with level := ds.ts.level - 1 } })

/-- result of `WrapUntilTag` -/
def wrapUntil (T : LexTables) (cfg : SetCfg) : Nat → List Bytes → List Node → Option Tok → DS →
    PM (List Node × Bytes × PS × Option Tok × DS)
  | 0, _, _, _, _ => .error { kind := .outOfFuel }
  | fuel+1, names, acc, prev, ds =>
    match ds.doc.ts with
    | [] => .error (ds.doc.err "Unexpected EOF, expected tag." ds.doc.all.getLast?)
    | t :: rest =>
      let isEnd : Option (Tok × List Tok) :=
        if t.isSym b!"{%" then
          match rest with
          | id :: rest' => if id.typ == .ident && names.elem id.val then some (id, rest') else none
          | [] => none
        else none
      match isEnd with
      | some (id, rest') =>
        let r := collectArgs rest'
        match r.2 with
        | [] => .error (ds.doc.err "Unexpected EOF." ds.doc.all.getLast?)
        | close :: restDoc =>
          pure (acc, id.val, PS.ofList r.1, some close, { ds with doc := { ds.doc with ts := restDoc } })
      | none => do
        let (n, prev', ds) ← parseDocElement T cfg fuel prev ds
        wrapUntil T cfg fuel names (acc ++ [n]) prev' ds

/-- dispatch to the tag's parser.  `close` is the `%}` token of the start tag. -/
def tagParser (T : LexTables) (cfg : SetCfg) : Nat → Tok → Tok → PS → DS → PM (Node × Option Tok × DS)
  | 0, _, _, _, _ => .error { kind := .outOfFuel }
  | fuel+1, start, close, args, ds =>
    if start.val == b!"autoescape" then do
      let (body, _, _, last, ds) ← wrapUntil T cfg fuel [b!"endautoescape"] [] (some close) ds
      match args.matchType .ident with
      | none => .error (args.err "A mode is required for autoescape-tag.")
      | some (m, args) =>
        if m.val != b!"on" && m.val != b!"off" then .error (args.err "Only 'on' or 'off' is valid as an autoescape-mode.")
        else if args.remaining > 0 then .error (args.err "Malformed autoescape-tag arguments.")
        else pure (.tagAutoescape (m.val == b!"on") body, last, ds)
    else if start.val == b!"block" then
      if args.count = 0 then .error (args.err "Tag 'block' requires an identifier.")
      else match args.matchType .ident with
      | none => .error (args.err "First argument for tag 'block' must be an identifier.")
      | some (nameTok, args') =>
        if args'.remaining != 0 then .error (args'.err "Tag 'block' takes exactly 1 argument (an identifier).")
        else do
          let (body, _, endargs, last, ds) ← wrapUntil T cfg fuel [b!"endblock"] [] (some close) ds
          let endOk : PM Unit :=
            if endargs.remaining > 0 then
              match endargs.matchType .ident with
              | some (e, endargs') =>
                if e.val != nameTok.val then .error (endargs'.err "Name for 'endblock' must equal to 'block'-tag's name")
                else if endargs'.remaining > 0 then .error (endargs'.err "Either no or only one argument (identifier) allowed for 'endblock'.")
                else pure ()
              | none => .error (endargs.err "Either no or only one argument (identifier) allowed for 'endblock'.")
            else pure ()
          endOk
          if (ds.ts.blocks.lookup nameTok.val).isSome then .error (args'.err "Block already defined")
          else pure (.tagBlock nameTok.val, last,
                     { ds with ts := { ds.ts with blocks := ds.ts.blocks ++ [(nameTok.val, body)] } })
    else if start.val == b!"comment" then
      match skipUntil [b!"endcomment"] ds.doc.ts with
      | none => .error (ds.doc.err "Unexpected EOF, expected tag endcomment." ds.doc.all.getLast?)
      | some (closeTok, rest) =>
        if args.count != 0 then .error (args.err "Tag 'comment' does not take any argument.")
        else pure (.tagComment, some closeTok, { ds with doc := { ds.doc with ts := rest } })
    else if start.val == b!"cycle" then do
      let (es, asName, silent, args) ← cycleArgs cfg fuel [] args
      if args.remaining > 0 then .error (args.err "Malformed cycle-tag.")
      else if es.length == 0 then .error (args.err "'cycle' tag requires at least one argument.")
      else
        let id := ds.cs.nextId
        pure (.tagCycle id es asName silent, some close, { ds with cs := { ds.cs with nextId := id + 1 } })
    else if start.val == b!"extends" then
      if ds.ts.level > 1 then .error (args.err "The 'extends' tag can only defined on root level." (some start))
      else if ds.ts.parent.isSome then .error (args.err "This template has already one parent." (some start))
      else match args.matchType .str with
      | none => .error (args.err "Tag 'extends' requires a template filename as string.")
      | some (f, args) => do
        let fname := resolveFilename ds.ts.isString ds.ts.name f.val
        let (pi, cs) ← fromFile T cfg fuel ds.cs fname
        if args.remaining > 0 then .error (args.err "Tag 'extends' does only take 1 argument.")
        else pure (.tagExtends, some close, { ds with cs := cs, ts := { ds.ts with parent := some pi } })
    else if start.val == b!"filter" then do
      let (body, _, _, last, ds) ← wrapUntil T cfg fuel [b!"endfilter"] [] (some close) ds
      let (chain, args) ← filterTagArgs cfg fuel [] args
      if args.remaining > 0 then .error (args.err "Malformed filter-tag arguments.")
      else pure (.tagFilter chain body start.pos, last, ds)
    else if start.val == b!"firstof" then do
      let (es, _) ← exprList cfg fuel [] args
      pure (.tagFirstof es, some close, ds)
    else if start.val == b!"for" then
      match args.matchType .ident with
      | none => .error (args.err "Expected an key identifier as first argument for 'for'-tag")
      | some (keyTok, args) => do
        let (valName, args) ← (match args.matchSym b!"," with
          | some a => (match a.matchType .ident with
            | some (v, a) => pure (v.val, a)
            | none => .error (a.err "Value name must be an identifier."))
          | none => pure ([], args) : PM (Bytes × PS))
        match args.matchKw b!"in" with
        | none => .error (args.err "Expected keyword 'in'.")
        | some args => do
          let (obj, args) ← parseExpression cfg fuel args
          let (rev, args) := args.optIdent b!"reversed"
          let (srt, args) := args.optIdent b!"sorted"
          if args.remaining > 0 then .error (args.err "Malformed for-loop arguments.")
          else do
            let (body, endtag, endargs, last, ds) ← wrapUntil T cfg fuel [b!"empty", b!"endfor"] [] (some close) ds
            if endargs.count > 0 then .error (endargs.err "Arguments not allowed here.")
            else if endtag == b!"empty" then do
              let (eb, _, endargs, last, ds) ← wrapUntil T cfg fuel [b!"endfor"] [] last ds
              if endargs.count > 0 then .error (endargs.err "Arguments not allowed here.")
              else pure (.tagFor keyTok.val valName obj rev srt body (some eb), last, ds)
            else pure (.tagFor keyTok.val valName obj rev srt body none, last, ds)
    else if start.val == b!"if" then do
      let (c, args) ← parseExpression cfg fuel args
      if args.remaining > 0 then .error (args.err "If-condition is malformed.")
      else ifBranches T cfg fuel [c] [] (some close) ds
    else if start.val == b!"ifchanged" then do
      let (es, args) ← exprList cfg fuel [] args
      if args.remaining > 0 then .error (args.err "Ifchanged-arguments are malformed.")
      else do
        let (tb, endtag, endargs, last, ds) ← wrapUntil T cfg fuel [b!"else", b!"endifchanged"] [] (some close) ds
        if endargs.count > 0 then .error (endargs.err "Arguments not allowed here.")
        else
          let id := ds.cs.nextId
          let ds := { ds with cs := { ds.cs with nextId := id + 1 } }
          if endtag == b!"else" then do
            let (eb, _, endargs, last, ds) ← wrapUntil T cfg fuel [b!"endifchanged"] [] last ds
            if endargs.count > 0 then .error (endargs.err "Arguments not allowed here.")
            else pure (.tagIfchanged id es tb (some eb), last, ds)
          else pure (.tagIfchanged id es tb none, last, ds)
    else if start.val == b!"ifequal" || start.val == b!"ifnotequal" then do
      let endName := if start.val == b!"ifequal" then b!"endifequal" else b!"endifnotequal"
      let (a, args) ← parseExpression cfg fuel args
      let (c, args) ← parseExpression cfg fuel args
      if args.remaining > 0 then .error (args.err "ifequal only takes 2 arguments.")
      else do
        let (tb, endtag, endargs, last, ds) ← wrapUntil T cfg fuel [b!"else", endName] [] (some close) ds
        if endargs.count > 0 then .error (endargs.err "Arguments not allowed here.")
        else
          let mk := fun (e : Option (List Node)) =>
            if start.val == b!"ifequal" then Node.tagIfEqual a c tb e else Node.tagIfNotEqual a c tb e
          if endtag == b!"else" then do
            let (eb, _, endargs, last, ds) ← wrapUntil T cfg fuel [endName] [] last ds
            if endargs.count > 0 then .error (endargs.err "Arguments not allowed here.")
            else pure (mk (some eb), last, ds)
          else pure (mk none, last, ds)
    else if start.val == b!"import" then
      match args.matchType .str with
      | none => .error (args.err "Import-tag needs a filename as string.")
      | some (f, args) =>
        let fname := resolveFilename ds.ts.isString ds.ts.name f.val
        if args.remaining = 0 then .error (args.err "You must at least specify one macro to import.")
        else do
          let (ti, cs) ← fromFile T cfg fuel ds.cs fname
          let exported := (cs.tpls[ti]!).exported
          let binds ← importArgs fuel exported [] args
          pure (.tagImport binds, some close, { ds with cs := cs })
    else if start.val == b!"include" then do
      let (src, args, ds) ← (match args.matchType .str with
        | some (f, args) =>
          let (ifExists, args) := args.optIdent b!"if_exists"
          let fname := resolveFilename ds.ts.isString ds.ts.name f.val
          match fromFile T cfg fuel ds.cs fname with
          | .ok (ti, cs) => pure (IncludeSrc.static ti, args, { ds with cs := cs })
          | .error e =>
            if e.kind == .fromfile && e.file == fname && ifExists then
              -- the fetch attempts are still logged
              pure (IncludeSrc.empty, args, { ds with cs := { ds.cs with fetchLog := ds.cs.fetchLog ++
                      (cfg.loaders.zipIdx.map fun (_, i) => (i, Path.abs [] fname)) } })
            else .error e
        | none => do
          let (e, args) ← parseExpression cfg fuel args
          let (ifExists, args) := args.optIdent b!"if_exists"
          pure (IncludeSrc.lazy e ifExists ds.self, args, ds) : PM (IncludeSrc × PS × DS))
      match src with
      | .empty =>
        -- `return &tagIncludeEmptyNode{}` happens before the remaining arguments are looked at
        pure (.tagInclude .empty false [], some close, ds)
      | _ => do
        let (pairs, only, args) ← (match args.matchIdentVal b!"with" with
          | some args => includePairs cfg fuel [] args
          | none => pure ([], false, args) : PM (List (Bytes × Expr) × Bool × PS))
        if args.remaining > 0 then .error (args.err "Malformed 'include'-tag arguments.")
        else pure (.tagInclude src only pairs, some close, ds)
    else if start.val == b!"lorem" then
      let (count, args) : Int64 × PS := match args.matchType .num with
        | some (c, a) => ((Val.str c.val).toInt, a)
        | none => (1, args)
      match (match args.matchType .ident with
        | some (m, a) =>
          if m.val != b!"w" && m.val != b!"p" && m.val != b!"b" then
            (.error (a.err "lorem-method must be either 'w', 'p' or 'b'.") : PM (Bytes × PS))
          else pure (m.val, a)
        | none => pure (b!"b", args)) with
      | .error e => .error e
      | .ok (method, args) =>
        let (random, args) := args.optIdent b!"random"
        if args.remaining > 0 then .error (args.err "Malformed lorem-tag arguments.")
        else pure (.tagLorem count method random start.pos, some close, ds)
    else if start.val == b!"macro" then
      match args.matchType .ident with
      | none => .error (args.err "Macro-tag needs at least an identifier as name.")
      | some (nameTok, args) =>
        match args.matchSym b!"(" with
        | none => .error (args.err "Expected '('.")
        | some args => do
          let (params, args) ← macroParams cfg fuel [] args
          let (exported, args) := args.optKw b!"export"
          if args.remaining > 0 then .error (args.err "Malformed macro-tag.")
          else do
            let (body, _, endargs, last, ds) ← wrapUntil T cfg fuel [b!"endmacro"] [] (some close) ds
            if endargs.count > 0 then .error (endargs.err "Arguments not allowed here.")
            else if exported && (ds.ts.exported.lookup nameTok.val).isSome then
              .error (ds.doc.err "another macro with this name already exported" (some start))
            else
              let idx := ds.cs.macros.size
              let md : MacroDef := { name := nameTok.val, params := params, exported := exported, body := body,
                                     pos := start.pos, tplName := ds.ts.name }
              let ds := { ds with cs := { ds.cs with macros := ds.cs.macros.push md },
                                  ts := if exported then { ds.ts with exported := ds.ts.exported ++ [(nameTok.val, idx)] } else ds.ts }
              pure (.tagMacro idx, last, ds)
    else if start.val == b!"now" then
      match args.matchType .str with
      | none => .error (args.err "Expected a format string.")
      | some (f, args) =>
        let (fake, args) := args.optIdent b!"fake"
        if args.remaining > 0 then .error (args.err "Malformed now-tag arguments.")
        else pure (.tagNow f.val fake, some close, ds)
    else if start.val == b!"set" then
      match args.matchType .ident with
      | none => .error (args.err "Expected an identifier.")
      | some (n, args) =>
        match args.matchSym b!"=" with
        | none => .error (args.err "Expected '='.")
        | some args => do
          let (e, args) ← parseExpression cfg fuel args
          if args.remaining > 0 then .error (args.err "Malformed 'set'-tag arguments.")
          else pure (.tagSet n.val e, some close, ds)
    else if start.val == b!"spaceless" then do
      let (body, _, _, last, ds) ← wrapUntil T cfg fuel [b!"endspaceless"] [] (some close) ds
      if args.remaining > 0 then .error (args.err "Malformed spaceless-tag arguments.")
      else pure (.tagSpaceless body, last, ds)
    else if start.val == b!"ssi" then
      match args.matchType .str with
      | none => .error (args.err "First argument must be a string.")
      | some (f, args) =>
        match args.matchIdentVal b!"parsed" with
        | some args => do
          let fname := resolveFilename ds.ts.isString ds.ts.name f.val
          let (ti, cs) ← fromFile T cfg fuel ds.cs fname
          if args.remaining > 0 then .error (args.err "Malformed SSI-tag argument.")
          else pure (.tagSsi none (some ti), some close, { ds with cs := cs })
        | none =>
          -- `set.resolveTemplate(tpl, name)`: every loader is asked for its own Abs(tpl.name, name)
          let fname := resolveFilename ds.ts.isString ds.ts.name f.val
          let key := Path.abs [] fname
          let (found, log) := tryLoaders key cfg.loaders 0 ds.cs.fetchLog
          let ds := { ds with cs := { ds.cs with fetchLog := log } }
          match found with
          | none => .error { kind := .other, msg := "ssi: unable to resolve template", line := f.line, col := f.col }
          | some content =>
            if args.remaining > 0 then .error (args.err "Malformed SSI-tag argument.")
            else pure (.tagSsi (some content) none, some close, ds)
    else if start.val == b!"templatetag" then
      match args.matchType .ident with
      | none => .error (args.err "Identifier expected.")
      | some (a, args) =>
        match templateTagMapping.lookup a.val with
        | none => .error (args.err "Argument not found" (some a))
        | some out =>
          if args.remaining > 0 then .error (args.err "Malformed templatetag-tag argument.")
          else pure (.tagTemplatetag out, some close, ds)
    else if start.val == b!"widthratio" then do
      let (c, args) ← parseExpression cfg fuel args
      let (m, args) ← parseExpression cfg fuel args
      let (w, args) ← parseExpression cfg fuel args
      let (asName, args) ← (match args.matchKw b!"as" with
        | some a => (match a.matchType .ident with
          | some (n, a) => pure (n.val, a)
          | none => .error (a.err "Expected name (identifier)."))
        | none => pure ([], args) : PM (Bytes × PS))
      if args.remaining > 0 then .error (args.err "Malformed widthratio-tag arguments.")
      else pure (.tagWidthratio c m w asName, some close, ds)
    else if start.val == b!"with" then
      if args.count = 0 then .error (args.err "Tag 'with' requires at least one argument.")
      else do
        let (body, _, endargs, last, ds) ← wrapUntil T cfg fuel [b!"endwith"] [] (some close) ds
        if endargs.count > 0 then .error (endargs.err "Arguments not allowed here.")
        else do
          let oldStyle := args.all.any (·.isKw b!"as")
          let pairs ← withPairs cfg fuel oldStyle [] args
          pure (.tagWith pairs body, last, ds)
    else .error { kind := .unsupported, msg := "tag outside the model" }

/-- the `if` tag's `for { WrapUntilTag("elif","else","endif") … }` loop -/
def ifBranches (T : LexTables) (cfg : SetCfg) : Nat → List Expr → List (List Node) → Option Tok → DS →
    PM (Node × Option Tok × DS)
  | 0, _, _, _, _ => .error { kind := .outOfFuel }
  | fuel+1, conds, bodies, prev, ds => do
    let (body, endtag, tagArgs, last, ds) ← wrapUntil T cfg fuel [b!"elif", b!"else", b!"endif"] [] prev ds
    -- the body that just ended was opened by `else` exactly when every condition has its body already
    let afterElse := bodies.length == conds.length
    let bodies := bodies ++ [body]
    if afterElse && endtag != b!"endif" then .error (tagArgs.err "Only 'endif' is allowed after 'else'.")
    else if endtag == b!"elif" then do
      let (c, tagArgs) ← parseExpression cfg fuel tagArgs
      if tagArgs.remaining > 0 then .error (tagArgs.err "Elif-condition is malformed.")
      else ifBranches T cfg fuel (conds ++ [c]) bodies last ds
    else if tagArgs.count > 0 then .error (tagArgs.err "Arguments not allowed here.")
    else if endtag == b!"endif" then pure (.tagIf conds bodies, last, ds)
    else ifBranches T cfg fuel conds bodies last ds

/-- `for arguments.Remaining() > 0 { ParseExpression }` -/
def exprList (cfg : SetCfg) : Nat → List Expr → PS → PM (List Expr × PS)
  | 0, _, _ => .error { kind := .outOfFuel }
  | fuel+1, acc, args =>
    if args.remaining = 0 then pure (acc, args)
    else do
      let (e, args) ← parseExpression cfg fuel args
      exprList cfg fuel (acc ++ [e]) args

/-- the cycle tag's argument loop -/
def cycleArgs (cfg : SetCfg) : Nat → List Expr → PS → PM (List Expr × Bytes × Bool × PS)
  | 0, _, _ => .error { kind := .outOfFuel }
  | fuel+1, acc, args =>
    if args.remaining = 0 then pure (acc, [], false, args)
    else do
      let (e, args) ← parseExpression cfg fuel args
      match args.matchKw b!"as" with
      | some args =>
        match args.matchType .ident with
        | none => .error (args.err "Name (identifier) expected after 'as'.")
        | some (n, args) =>
          match args.matchIdentVal b!"silent" with
          | some args => pure (acc ++ [e], n.val, true, args)
          | none => pure (acc ++ [e], n.val, false, args)
      | none => cycleArgs cfg fuel (acc ++ [e]) args

/-- the filter tag's chain -/
def filterTagArgs (cfg : SetCfg) : Nat → List (Bytes × Option Expr) → PS → PM (List (Bytes × Option Expr) × PS)
  | 0, _, _ => .error { kind := .outOfFuel }
  | fuel+1, acc, args =>
    if args.remaining = 0 then pure (acc, args)
    else match args.matchType .ident with
    | none => .error (args.err "Expected a filter name (identifier).")
    | some (n, args) =>
      if cfg.bannedFilters.elem n.val then
        .error (args.err "Usage of filter is not allowed (sandbox restriction active)." (some n))
      else do
      let (param, args) ← (match args.matchSym b!":" with
        | some a => do
          let (e, a) ← parseVarOrLit cfg fuel a
          pure (some e, a)
        | none => pure (none, args) : PM (Option Expr × PS))
      match args.matchSym b!"|" with
      | some args => filterTagArgs cfg fuel (acc ++ [(n.val, param)]) args
      | none => pure (acc ++ [(n.val, param)], args)

/-- import's `name [as alias] {, …}` list -/
def importArgs : Nat → List (Bytes × Nat) → List (Bytes × Nat) → PS → PM (List (Bytes × Nat))
  | 0, _, _, _ => .error { kind := .outOfFuel }
  | fuel+1, exported, acc, args =>
    if args.remaining = 0 then pure acc
    else match args.matchType .ident with
    | none => .error (args.err "Expected macro name (identifier).")
    | some (m, args) => do
      let (alias, args) ← (match args.matchKw b!"as" with
        | some a => (match a.matchType .ident with
          | some (al, a) => pure (al.val, a)
          | none => .error (a.err "Expected macro alias name (identifier)."))
        | none => pure (m.val, args) : PM (Bytes × PS))
      match exported.lookup m.val with
      | none => .error (args.err "Macro not found (or not exported)." (some m))
      | some idx =>
        let acc := (acc.filter (·.1 != alias)) ++ [(alias, idx)]
        if args.remaining = 0 then pure acc
        else match args.matchSym b!"," with
        | none => .error (args.err "Expected ','.")
        | some args => importArgs fuel exported acc args

/-- include's `with k=v … [only]` -/
def includePairs (cfg : SetCfg) : Nat → List (Bytes × Expr) → PS → PM (List (Bytes × Expr) × Bool × PS)
  | 0, _, _ => .error { kind := .outOfFuel }
  | fuel+1, acc, args =>
    if args.remaining = 0 then pure (acc, false, args)
    else match args.matchType .ident with
    | none => .error (args.err "Expected an identifier")
    | some (k, args) =>
      match args.matchSym b!"=" with
      | none => .error (args.err "Expected '='.")
      | some args => do
        let (e, args) ← parseExpression cfg fuel args
        let acc := (acc.filter (·.1 != k.val)) ++ [(k.val, e)]
        match args.matchIdentVal b!"only" with
        | some args => pure (acc, true, args)
        | none => includePairs cfg fuel acc args

/-- macro's parameter list after `(` -/
def macroParams (cfg : SetCfg) : Nat → List (Bytes × Option Expr) → PS → PM (List (Bytes × Option Expr) × PS)
  | 0, _, _ => .error { kind := .outOfFuel }
  | fuel+1, acc, args =>
    match args.matchSym b!")" with
    | some args => pure (acc, args)
    | none =>
      match args.matchType .ident with
      | none => .error (args.err "Expected argument name as identifier.")
      | some (n, args) => do
        let (dflt, args) ← (match args.matchSym b!"=" with
          | some a => do
            let (e, a) ← parseExpression cfg fuel a
            pure (some e, a)
          | none => pure (none, args) : PM (Option Expr × PS))
        let acc := acc ++ [(n.val, dflt)]
        match args.matchSym b!")" with
        | some args => pure (acc, args)
        | none =>
          match args.matchSym b!"," with
          | some args => macroParams cfg fuel acc args
          | none => .error (args.err "Expected ',' or ')'.")

/-- with's pairs (old style `expr as name`, new style `name=expr`) -/
def withPairs (cfg : SetCfg) : Nat → Bool → List (Bytes × Expr) → PS → PM (List (Bytes × Expr))
  | 0, _, _, _ => .error { kind := .outOfFuel }
  | fuel+1, oldStyle, acc, args =>
    if args.remaining = 0 then pure acc
    else if oldStyle then do
      let (e, args) ← parseExpression cfg fuel args
      match args.matchKw b!"as" with
      | none => .error (args.err "Expected 'as' keyword.")
      | some args =>
        match args.matchType .ident with
        | none => .error (args.err "Expected an identifier")
        | some (k, args) => withPairs cfg fuel oldStyle ((acc.filter (·.1 != k.val)) ++ [(k.val, e)]) args
    else match args.matchType .ident with
      | none => .error (args.err "Expected an identifier")
      | some (k, args) =>
        match args.matchSym b!"=" with
        | none => .error (args.err "Expected '='.")
        | some args => do
          let (e, args) ← parseExpression cfg fuel args
          withPairs cfg fuel oldStyle ((acc.filter (·.1 != k.val)) ++ [(k.val, e)]) args

end

/-- fuel that the parser never exhausts on a source of `n` bytes with `k`
    bytes of other templates reachable (each call consumes a token or descends
    one of a fixed number of levels) -/
def fuelFor (n : Nat) : Nat := 64 * (n + 16)

end Pongo

/-
  Abstract syntax: mirrors the node structs of parser_expression.go,
  variable.go and tags_*.go.  One constructor per Go node type (binary
  expression levels share `bin`, distinguished by the operator).
-/
import Pongo.Model.Lex
import Pongo.Model.Val

namespace Pongo

inductive BinOp
  | and | or                                  -- Expression
  | eq | ne | lt | le | gt | ge | «in»        -- relationalExpression
  | add | sub                                 -- simpleExpression
  | mul | div | mod                           -- term
  | pow                                       -- power
  deriving DecidableEq, Repr, Inhabited

/-- position of the token an error would be reported at -/
structure TokPos where
  line : Nat
  col  : Nat
  deriving DecidableEq, Repr, Inhabited

mutual
  inductive Expr
    | str (s : Bytes) (p : TokPos)             -- stringResolver
    | int (i : Int64) (p : TokPos)             -- intResolver
    | float (f : Float) (p : TokPos)           -- floatResolver
    | bool (b : Bool) (p : TokPos)             -- boolResolver
    | var (parts : List Part) (p : TokPos)     -- variableResolver (first part is an identifier)
    | arr (items : List Expr) (p : TokPos)     -- variableResolver of an array literal
    | filtered (e : Expr) (chain : List FCall) (p : TokPos)  -- nodeFilteredVariable
    | unary (negate negSign : Bool) (e : Expr) -- simpleExpression's leading `not` / sign
    | bin (op : BinOp) (a b : Expr) (p : TokPos) -- Expression / relational / simple / term / power; p = operator token
  inductive Part
    | ident (s : Bytes) (call : Option (List Expr))
    | idx (i : Int64) (call : Option (List Expr))
    | sub (e : Expr) (call : Option (List Expr))
  inductive FCall
    | mk (name : Bytes) (param : Option Expr) (p : TokPos)
end

instance : Inhabited Expr := ⟨.bool false ⟨0, 0⟩⟩

/-- the call arguments written behind a part of a name, if any -/
def Part.callArgs : Part → Option (List Expr)
  | .ident _ c => c
  | .idx _ c => c
  | .sub _ c => c

/-- include tag: how the template is found -/
inductive IncludeSrc
  | static (tplIdx : Nat)                    -- compiled at parse time; index into the compile result's sub-templates
  | empty                                    -- `if_exists` and the file was not there
  | lazy (e : Expr) (ifExists : Bool) (referrer : Nat)   -- referrer: the template the tag is written in

inductive Node
  | html (val : Bytes) (trimL trimR afterBlock beforeBlock : Bool) (owner : Nat)
  | var (e : Expr) (p : TokPos)                               -- nodeVariable
  | tagAutoescape (on : Bool) (body : List Node)
  | tagBlock (name : Bytes)
  | tagComment
  | tagCycle (id : Nat) (args : List Expr) (asName : Bytes) (silent : Bool)
  | tagExtends
  | tagFilter (chain : List (Bytes × Option Expr)) (body : List Node) (p : TokPos)
  | tagFirstof (args : List Expr)
  | tagFor (key value : Bytes) (obj : Expr) (reversed sorted : Bool) (body : List Node) (empty : Option (List Node))
  | tagIf (conds : List Expr) (bodies : List (List Node))
  | tagIfchanged (id : Nat) (watch : List Expr) (thenB : List Node) (elseB : Option (List Node))
  | tagIfEqual (a b : Expr) (thenB : List Node) (elseB : Option (List Node))
  | tagIfNotEqual (a b : Expr) (thenB : List Node) (elseB : Option (List Node))
  | tagImport (binds : List (Bytes × Nat))                    -- alias ↦ macro index
  | tagInclude (src : IncludeSrc) (only : Bool) (pairs : List (Bytes × Expr))
  | tagLorem (count : Int64) (method : Bytes) (random : Bool) (p : TokPos)
  | tagMacro (idx : Nat)                                      -- index into the macro table
  | tagNow (format : Bytes) (fake : Bool)
  | tagSet (name : Bytes) (e : Expr)
  | tagSpaceless (body : List Node)
  | tagSsi (content : Option Bytes) (tplIdx : Option Nat)
  | tagTemplatetag (content : Bytes)
  | tagWidthratio (cur max width : Expr) (asName : Bytes)
  | tagWith (pairs : List (Bytes × Expr)) (body : List Node)

instance : Inhabited Node := ⟨.tagComment⟩

/-- tagMacroNode -/
structure MacroDef where
  name     : Bytes
  params   : List (Bytes × Option Expr)   -- argsOrder with the default expressions
  exported : Bool
  body     : List Node
  pos      : TokPos
  tplName  : Bytes
  deriving Inhabited

end Pongo

/-
  Wire format of the correspondence protocol (DESIGN.md §3.2): decoding of
  context values and of `run` requests, and the top-level `runTemplate` the
  driver calls.  Executable only; no theorem depends on this file.
-/
import Pongo.Model.Exec
import Pongo.Model.Sets
import Pongo.Gen.LexTables
import Pongo.Gen.Registry

namespace Pongo.Wire

def natOf (s : String) : Option Nat := s.toNat?

def intOf (s : String) : Option Int := s.toInt?

/-- decode one value from a token list -/
def decodeVal : Nat → List String → Option (Val × List String)
  | 0, _ => none
  | _, [] => none
  | fuel+1, t :: rest =>
    let tag := (t.take 1).toString
    let arg := (t.drop 1).toString
    if t == "n" then some (.nil, rest)
    else if t == "b0" then some (.bool false, rest)
    else if t == "b1" then some (.bool true, rest)
    else if t == "P" then some (.nilptr, rest)
    else if tag == "i" then (intOf arg).map fun i => (.int (Int64.ofInt i), rest)
    else if tag == "u" then (natOf arg).map fun n => (.uint (UInt64.ofNat n), rest)
    else if tag == "f" then (natOf arg).map fun n => (.float (Float.ofBits (UInt64.ofNat n)), rest)
    else if tag == "s" then (Bytes.ofHex arg).map fun s => (.str s, rest)
    else if tag == "l" || tag == "a" then do
      let k ← natOf arg
      match rest with
      | tyh :: rest =>
        let ty ← Bytes.ofHex tyh
        let (xs, rest) ← decodeList fuel k rest
        pure (if tag == "l" then .list ty xs else .arr ty xs, rest)
      | [] => none
    else if tag == "m" then do
      let k ← natOf arg
      match rest with
      | tyh :: rest =>
        let ty ← Bytes.ofHex tyh
        let (kvs, rest) ← decodeSMap fuel k rest
        pure (.smap ty kvs, rest)
      | [] => none
    else if tag == "M" then do
      let k ← natOf arg
      match rest with
      | tyh :: rest =>
        let ty ← Bytes.ofHex tyh
        let (kvs, rest) ← decodeIMap fuel k rest
        pure (.imap ty kvs, rest)
      | [] => none
    else if tag == "S" then do
      let tn ← Bytes.ofHex arg
      match rest with
      | kf :: rest => do
        let k ← natOf kf
        let (fields, rest) ← decodeSMap fuel k rest
        match rest with
        | jf :: rest => do
          let j ← natOf jf
          let privs ← (rest.take j).mapM Bytes.ofHex
          pure (.struct tn fields privs, rest.drop j)
        | [] => none
      | [] => none
    else if t == "p" then do
      let (v, rest) ← decodeVal fuel rest
      pure (.ptr v, rest)
    else if t == "x0" || t == "x1" then do
      let (v, rest) ← decodeVal fuel rest
      pure (.boxed v (t == "x1"), rest)
    else if tag == "F" then do
      let id ← natOf arg
      pure (.func id, rest)
    else if tag == "g" then do
      let txt ← Bytes.ofHex arg
      let (v, rest) ← decodeVal fuel rest
      pure (.stringer v txt, rest)
    else none
where
  decodeList : Nat → Nat → List String → Option (List Val × List String)
    | 0, _, _ => none
    | _, 0, rest => some ([], rest)
    | fuel+1, k+1, rest => do
      let (v, rest) ← decodeVal fuel rest
      let (vs, rest) ← decodeList fuel k rest
      pure (v :: vs, rest)
  decodeSMap : Nat → Nat → List String → Option (List (Bytes × Val) × List String)
    | 0, _, _ => none
    | _, 0, rest => some ([], rest)
    | _, _+1, [] => none
    | fuel+1, k+1, key :: rest => do
      let kb ← Bytes.ofHex key
      let (v, rest) ← decodeVal fuel rest
      let (kvs, rest) ← decodeSMap fuel k rest
      pure ((kb, v) :: kvs, rest)
  decodeIMap : Nat → Nat → List String → Option (List (Int64 × Val) × List String)
    | 0, _, _ => none
    | _, 0, rest => some ([], rest)
    | _, _+1, [] => none
    | fuel+1, k+1, key :: rest => do
      let ki ← intOf key
      let (v, rest) ← decodeVal fuel rest
      let (kvs, rest) ← decodeIMap fuel k rest
      pure ((Int64.ofInt ki, v) :: kvs, rest)

/-- canonical rendering of a result value (kind + content) -/
def showVal : Nat → Val → String
  | 0, _ => "?"
  | fuel+1, v =>
    match v with
    | .nil => "n"
    | .bool true => "b1"
    | .bool false => "b0"
    | .int i => s!"i{i.toInt}"
    | .uint u => s!"u{u.toNat}"
    | .float f => s!"f{f.toBits.toNat}"
    | .str s => "s" ++ (let h := Bytes.toHex s; if h == "" then "-" else h)
    | .list _ xs => s!"l{xs.length}[" ++ ",".intercalate (xs.map (showVal fuel)) ++ "]"
    | .arr _ xs => s!"a{xs.length}[" ++ ",".intercalate (xs.map (showVal fuel)) ++ "]"
    | .boxed i sf => (if sf then "x1:" else "x0:") ++ showVal fuel i
    | .ptr i => "p:" ++ showVal fuel i
    | .nilptr => "P"
    | .stringer i _ => "g:" ++ showVal fuel i
    | .smap _ kvs => s!"m{kvs.length}"
    | .imap _ kvs => s!"M{kvs.length}"
    | .struct .. => "S"
    | _ => "o"

/-- `filter <name> <value…> ; <param…>`: one `ApplyFilter` call -/
def runFilter (ts : List String) : String :=
  match ts with
  | nameh :: rest =>
    match Bytes.ofHex nameh with
    | none => "bad-request"
    | some name =>
      match decodeVal (rest.length + 1) rest with
      | some (v, ";" :: prest) =>
        match decodeVal (prest.length + 1) prest with
        | some (p, []) =>
          let (vi, vs) := match v with | .boxed i sf => (i, sf) | _ => (v, false)
          let (pi, ps) := match p with | .boxed i sf => (i, sf) | _ => (p, false)
          match applyFilter name ⟨vi, vs⟩ ⟨pi, ps⟩ with
          | .ok r => s!"ok {if r.safe then 1 else 0} {showVal 16 r.v}"
          | .err _ => "err"
          | .unsupported => "unsupported"
        | _ => "bad-request"
      | _ => "bad-request"
  | [] => "bad-request"

/-- `val <term>`: what the `Value` API answers about one value (value.go's predicates and conversions) -/
def runVal (ts : List String) : String :=
  match decodeVal (ts.length + 1) ts with
  | some (v, []) =>
    let b (x : Bool) : String := if x then "1" else "0"
    let h := Bytes.toHex v.toS
    s!"{b v.isString}{b v.isBool}{b v.isFloat}{b v.isInteger}{b v.isNumber}{b v.isNil}{b v.isTrue}{b v.canSlice} {v.len} {if h = "" then "-" else h} {v.toInt.toInt} {v.toFloat.toBits}"
  | _ => "bad-request"

/-- `bans {T|F|C <namehex>}`: a ban/create history; answers the success flags -/
def runBans (ts : List String) : String :=
  let rec go : List String → List BanOp → Option (List BanOp)
    | [], acc => some acc.reverse
    | k :: n :: rest, acc =>
      match Bytes.ofHex n with
      | none => none
      | some nb =>
        if k == "T" then go rest (.banTag nb :: acc)
        else if k == "F" then go rest (.banFilter nb :: acc)
        else if k == "C" then go rest (.create :: acc)
        else none
    | _, _ => none
  match go ts [] with
  | none => "bad-request"
  | some ops =>
    let r := banRun (Gen.registeredTags.map (·.1)) (Gen.registeredFilters.map (·.1)) {} ops
    String.join (r.2.map fun b => if b then "1" else "0")

/-- `cache {op}`: a history on one set's cache; answers results and the fetch log -/
def runCache (ts : List String) : String :=
  let rec go : Nat → List String → List CacheOp → Option (List CacheOp)
    | 0, _, _ => none
    | _, [], acc => some acc.reverse
    | fuel+1, "G" :: n :: rest, acc => (Bytes.ofHex n).bind fun nb => go fuel rest (.fromCache nb :: acc)
    | fuel+1, "A" :: rest, acc => go fuel rest (.cleanAll :: acc)
    | fuel+1, "K" :: k :: rest, acc =>
      match k.toNat? with
      | some kn => match (rest.take kn).mapM Bytes.ofHex with
        | some ns => go fuel (rest.drop kn) (.clean ns :: acc)
        | none => none
      | none => none
    | fuel+1, "D0" :: rest, acc => go fuel rest (.setDebug false :: acc)
    | fuel+1, "D1" :: rest, acc => go fuel rest (.setDebug true :: acc)
    | fuel+1, "W" :: n :: c :: rest, acc =>
      match Bytes.ofHex n with
      | some nb => if c == "!" then go fuel rest (.setFile nb none :: acc)
                   else match Bytes.ofHex c with
                     | some cb => go fuel rest (.setFile nb (some cb) :: acc)
                     | none => none
      | none => none
    | fuel+1, "B" :: b :: rest, acc =>
      if b == "-" then go fuel rest (.addLoader [] :: acc)
      else (Bytes.ofHex b).bind fun bb => go fuel rest (.addLoader bb :: acc)
    | fuel+1, "V" :: i :: n :: c :: rest, acc =>
      match i.toNat?, Bytes.ofHex n with
      | some ix, some nb => if c == "!" then go fuel rest (.setFileIn ix nb none :: acc)
                   else match Bytes.ofHex c with
                     | some cb => go fuel rest (.setFileIn ix nb (some cb) :: acc)
                     | none => none
      | _, _ => none
    | _, _, _ => none
  match go (ts.length + 1) ts [] with
  | none => "bad-request"
  | some ops =>
    let r := cacheRun {} ops
    let shown := r.2.filterMap fun
      | .tpl id => some s!"t{id}"
      | .err => some "e"
      | .unit => none
    " ".intercalate shown ++ " | " ++ ",".intercalate (r.1.fetches.map Bytes.toHex)

def envOf : Val → Env
  | .smap _ kvs => kvs
  | _ => []

/-- a `run` request -/
structure Req where
  trim    : Bool
  lstrip  : Bool
  loaders : List (List (Bytes × Bytes))
  banTags : List Bytes
  banFilters : List Bytes
  globals : Env
  fromFile : Bool
  src     : Bytes     -- template source (FromString) or file name (FromFile)
  ctx     : Env
  nilCtx  : Bool
  autoescape : Bool := true

def decodeNames (k : Nat) (ts : List String) : Option (List Bytes × List String) := do
  let ns ← (ts.take k).mapM Bytes.ofHex
  if ns.length != k then none else pure (ns, ts.drop k)

def decodeFiles : Nat → List String → Option (List (Bytes × Bytes) × List String)
  | 0, ts => some ([], ts)
  | k+1, n :: c :: ts => do
    let nb ← Bytes.ofHex n
    let cb ← Bytes.ofHex c
    let (r, ts) ← decodeFiles k ts
    pure ((nb, cb) :: r, ts)
  | _, _ => none

def decodeLoaders : Nat → List String → Option (List (List (Bytes × Bytes)) × List String)
  | 0, ts => some ([], ts)
  | k+1, n :: ts => do
    let nf ← natOf n
    let (fs, ts) ← decodeFiles nf ts
    let (r, ts) ← decodeLoaders k ts
    pure (fs :: r, ts)
  | _, _ => none

/-- `run <trim> <lstrip> <nloaders> {<nfiles> {<name> <content>}} <nbt> {tag} <nbf> {filter} <globals> <s|f> <src> <ctx|N>` -/
def decodeReq (ts : List String) : Option Req := do
  match ts with
  | trim :: lstrip :: nl :: ts =>
    let nl ← natOf nl
    let (loaders, ts) ← decodeLoaders nl ts
    match ts with
    | nbt :: ts =>
      let (bt, ts) ← decodeNames (← natOf nbt) ts
      match ts with
      | nbf :: ts =>
        let (bf, ts) ← decodeNames (← natOf nbf) ts
        let (g, ts) ← decodeVal (ts.length + 1) ts
        match ts with
        | mode :: src :: ts =>
          let srcb ← Bytes.ofHex src
          if ts == ["N"] then
            pure { trim := trim == "1", lstrip := lstrip == "1", loaders, banTags := bt, banFilters := bf, globals := envOf g,
                   fromFile := mode == "f", src := srcb, ctx := [], nilCtx := true }
          else
            let (c, rest) ← decodeVal (ts.length + 1) ts
            if rest != [] then none
            else pure { trim := trim == "1", lstrip := lstrip == "1", loaders, banTags := bt, banFilters := bf, globals := envOf g,
                        fromFile := mode == "f", src := srcb, ctx := envOf c, nilCtx := false }
        | _ => none
      | _ => none
    | _ => none
  | _ => none

def cfgOf (r : Req) : SetCfg :=
  { bannedTags := r.banTags, bannedFilters := r.banFilters, loaders := if r.loaders = [] then [[]] else r.loaders,
    trimBlocks := r.trim, lstripBlocks := r.lstrip, autoescape := r.autoescape,
    regTags := Gen.registeredTags.map (·.1), regFilters := Gen.registeredFilters.map (·.1) }

def showLog (log : List (Nat × Bytes)) : String :=
  ",".intercalate (log.map fun (i, n) => s!"{i}:{Bytes.toHex n}")

def hexOrDash (s : Bytes) : String := let h := Bytes.toHex s; if h == "" then "-" else h

/-- compile and execute once; the answer line -/
def runReq (r : Req) : String :=
  let cfg := cfgOf r
  let T := Gen.lexTables
  let total := r.src.length + (r.loaders.foldl (fun a l => a + l.foldl (fun a f => a + f.2.length) 0) 0)
  let fuel := fuelFor total
  let compiled := if r.fromFile then fromFile T cfg fuel {} r.src else compileTpl T cfg fuel {} b!"<string>" true r.src
  match compiled with
  | .error e =>
    match e.kind with
    | .unsupported => "unsupported"
    | .outOfFuel => "diverge"
    | k => s!"err compile {repr k} {e.line} {e.col}"
  | .ok (ti, cs) =>
    let es : ES := { cs := cs }
    let xfuel := 20000 + 4 * fuel
    match (executeTpl T cfg r.globals xfuel ti (if r.nilCtx then [] else r.ctx)).run es with
    | .ok _ s => s!"ok {hexOrDash s.out} log={showLog s.cs.fetchLog}"
    | .error e s =>
      match e.kind with
      | .unsupported => "unsupported"
      | .diverge => "diverge"
      | .panic => s!"panic {e.msg}"
      | _ => s!"err exec {e.line} {e.col} log={showLog s.cs.fetchLog}"

end Pongo.Wire

/-
  Model of evaluation and execution: parser_expression.go (Evaluate),
  variable.go (resolve, nodeVariable), filters.go (filterCall.Execute),
  context.go, template.go (execute / Execute*), every tag*Node.Execute.

  State that the Go code keeps in mutable maps reachable from an
  `*ExecutionContext` is kept in explicit *frames* (one per ExecutionContext,
  identified by a number, because macro closures and `block` capture their
  context by reference).  All recursion is by fuel; `diverge` is the answer
  when fuel runs out.
-/
import Pongo.Model.ParseDoc
import Pongo.Model.Filters

namespace Pongo

abbrev Env := List (Bytes × Val)

def Env.set (e : Env) (k : Bytes) (v : Val) : Env :=
  if (e.lookup k).isSome then e.map (fun kv => if kv.1 == k then (k, v) else kv) else e ++ [(k, v)]

/-- `Context.Update` -/
def Env.update (e other : Env) : Env := other.foldl (fun acc kv => acc.set kv.1 kv.2) e

inductive XKind
  | exec | panic | diverge | unsupported | compile
  deriving DecidableEq, Repr, Inhabited

structure XErr where
  kind : XKind
  msg  : String := ""
  line : Nat := 0
  col  : Nat := 0
  sender : String := ""
  deriving Repr, Inhabited

/-- one `*ExecutionContext` -/
structure Frame where
  id         : Nat
  priv       : Env
  pub        : Env
  autoescape : Bool
  macroDepth : Nat
  chain      : List Nat      -- templates from the root ancestor to the executed one
  called     : Nat           -- the template `Execute` was called on
  deriving Inhabited

structure ES where
  frames    : List Frame := []
  nextFrame : Nat := 0
  out       : Bytes := []
  cycle     : List (Nat × Nat) := []
  changedV  : List (Nat × List V) := []
  changedC  : List (Nat × Bytes) := []
  cs        : CState := {}
  deriving Inhabited

abbrev XM := EStateM XErr ES

def xerr (msg : String) (k : XKind := .exec) : XM α := throw { kind := k, msg := msg }

/-- a pure step result as an execution outcome -/
def liftStep (r : Except String α) : XM α :=
  match r with
  | .ok a => pure a
  | .error m => xerr m

def cur : XM Frame := do
  match (← get).frames with
  | f :: _ => pure f
  | [] => xerr "no frame" .panic

def modifyCur (f : Frame → Frame) : XM Unit :=
  modify fun s => match s.frames with
    | h :: t => { s with frames := f h :: t }
    | [] => s

def getFrame (id : Nat) : XM Frame := do
  match (← get).frames.find? (·.id == id) with
  | some f => pure f
  | none => xerr "dangling context reference" .unsupported

def modifyFrame (id : Nat) (f : Frame → Frame) : XM Unit :=
  modify fun s => { s with frames := s.frames.map fun fr => if fr.id == id then f fr else fr }

def write (s : Bytes) : XM Unit := modify fun st => { st with out := st.out ++ s }

/-- run `m` with a fresh output buffer; returns what it wrote (dropped on error) -/
def buffered (m : XM Unit) : XM Bytes := do
  let saved := (← get).out
  modify fun s => { s with out := [] }
  try
    m
    let r := (← get).out
    modify fun s => { s with out := saved }
    pure r
  catch e =>
    modify fun s => { s with out := saved }
    throw e

/-- push a frame, run, pop -/
def withFrame (fr : Frame) (m : XM α) : XM α := do
  let id := (← get).nextFrame
  modify fun s => { s with frames := { fr with id := id } :: s.frames, nextFrame := id + 1 }
  try
    let r ← m
    modify fun s => { s with frames := s.frames.tail }
    pure r
  catch e =>
    modify fun s => { s with frames := s.frames.tail }
    throw e

/-- `NewChildExecutionContext(parent)` -/
def childOf (p : Frame) : Frame := { p with macroDepth := 0 }

def metaCtx : Val := .smap b!"pongo2.Context" [(b!"version", .str b!"6.0.0")]

def maxMacroDepth : Nat := 1000

/-! ### iteration order (`Value.IterateOrder`) -/

/-- the exact value of an integer of any kind (`lessIntegers` compares each in its own range) -/
def intValue (v : Val) : Int :=
  match v.resolved with
  | .int i => i.toInt
  | .uint u => u.toNat
  | .stringer (.int i) _ => i.toInt
  | .stringer (.uint u) _ => u.toNat
  | _ => 0

def valLess (a c : Val) : Bool :=
  if a.isInteger && c.isInteger then intValue a < intValue c
  else if a.isFloat && c.isFloat then a.toFloat < c.toFloat
  else decide (a.toS < c.toS)

def insertSorted (less : Val → Val → Bool) (x : Val) : List Val → List Val
  | [] => [x]
  | y :: ys => if less x y then x :: y :: ys else y :: insertSorted less x ys

/-- stable insertion sort (the code uses `sort.Sort`; equal elements are
    indistinguishable in the generated cases) -/
def sortVals (less : Val → Val → Bool) (xs : List Val) : List Val :=
  xs.foldr (fun x acc => insertSorted less x acc) []

/-- the content of a `*Value` item of a list literal -/
def unboxItem (v : Val) : Val :=
  match v with
  | .boxed inner s => (Val.unboxAll inner s).1
  | v => v

/-- the loop variable: a `*Value` item is bound as it is, anything else is wrapped -/
def bindItem (v : Val) : Val :=
  match v with
  | .boxed .. => v
  | v => .boxed v false

/-- items `(key, value?)` that `IterateOrder` visits -/
def iterItems (v : Val) (reversed sorted : Bool) : List (Val × Option Val) :=
  -- reflect sees through a named type: a string-kinded Stringer iterates its underlying string
  match v.reflected with
  | .smap _ kvs =>
    let ks := kvs.map (fun kv => Val.str kv.1)
    let ks := if sorted then (if reversed then sortVals (fun a c => valLess c a) ks else sortVals valLess ks) else ks
    ks.map fun k => (k, some (match k with | .str s => (kvs.lookup s).getD .nil | _ => .nil))
  | .imap _ kvs =>
    let ks := kvs.map (fun kv => Val.int kv.1)
    let ks := if sorted then (if reversed then sortVals (fun a c => valLess c a) ks else sortVals valLess ks) else ks
    ks.map fun k => (k, some (match k with | .int i => (kvs.lookup i).getD .nil | _ => .nil))
  | .list _ xs | .arr _ xs =>
    -- the items of an in-template list literal are `*Value` already: they are compared (and handed
    -- to the loop) as they are, not wrapped once more
    let less := fun a c => valLess (unboxItem a) (unboxItem c)
    let xs := if sorted then (if reversed then sortVals (fun a c => less c a) xs else sortVals less xs)
              else if reversed then xs.reverse else xs
    xs.map fun x => (x, none)
  | .str s =>
    let rs := Utf8.runes s
    let rs := if sorted then (sortVals (fun a c => a.toInt < c.toInt) (rs.map fun r => Val.int (Int64.ofNat r))).map (fun v => v.toInt.toNatClampNeg) else rs
    let rs := if reversed then rs.reverse else rs
    rs.map fun r => (Val.str (Utf8.encode r), none)
  | _ => []

/-! ### operators -/

/-- structural identity (what pointer equality means for two references to the
    same context entry) -/
def identical : Nat → Val → Val → Bool
  | 0, _, _ => false
  | fuel+1, a, c =>
    match a, c with
    | .nil, .nil => true
    | .bool x, .bool y => x == y
    | .int x, .int y => x == y
    | .uint x, .uint y => x == y
    | .float x, .float y => x.toBits == y.toBits
    | .str x, .str y => x == y
    | .list t1 xs, .list t2 ys | .arr t1 xs, .arr t2 ys =>
      t1 == t2 && xs.length == ys.length && (xs.zip ys).all fun (x, y) => identical fuel x y
    | .smap t1 xs, .smap t2 ys =>
      t1 == t2 && xs.length == ys.length && (xs.zip ys).all fun (x, y) => x.1 == y.1 && identical fuel x.2 y.2
    | .imap t1 xs, .imap t2 ys =>
      t1 == t2 && xs.length == ys.length && (xs.zip ys).all fun (x, y) => x.1 == y.1 && identical fuel x.2 y.2
    | .struct n1 f1 _, .struct n2 f2 _ =>
      n1 == n2 && f1.length == f2.length && (f1.zip f2).all fun (x, y) => x.1 == y.1 && identical fuel x.2 y.2
    | .ptr x, .ptr y => identical fuel x y
    | .nilptr, .nilptr => true
    | .stringer x t1, .stringer y t2 => t1 == t2 && identical fuel x y
    | _, _ => false

/-- `reflect.Value.Comparable()`: no slice/map/func anywhere inside the value
    (pointers are comparable whatever they point to) -/
def comparableDeep : Nat → Val → Bool
  | 0, _ => false
  | fuel+1, v =>
    match v with
    | .list .. | .smap .. | .imap .. | .func _ | .closure .. => false
    | .arr _ xs => xs.all (comparableDeep fuel)
    | .struct _ fs _ => fs.all fun f => comparableDeep fuel f.2
    | .stringer x _ => comparableDeep fuel x
    | _ => true

/-- Go's `==` on two interface values holding values of the universe -/
def goEq : Nat → Val → Val → Bool
  | 0, _, _ => false
  | fuel+1, a, c =>
    match a, c with
    | .str x, .str y => x == y
    | .bool x, .bool y => x == y
    | .float x, .float y => x == y
    | .int x, .int y => x == y
    | .uint x, .uint y => x == y
    | .ptr x, .ptr y => identical 32 x y
    | .nilptr, .nilptr => true
    | .struct n1 f1 _, .struct n2 f2 _ =>
      n1 == n2 && f1.length == f2.length && (f1.zip f2).all fun (x, y) => x.1 == y.1 && goEqIface fuel x.2 y.2
    | .stringer x t1, .stringer y t2 => t1 == t2 && goEq fuel x y
    | _, _ => false
where
  /-- interface-typed struct fields: nil == nil; otherwise dynamic types must agree -/
  goEqIface : Nat → Val → Val → Bool
    | 0, _, _ => false
    | fuel+1, a, c =>
      match a, c with
      | .nil, .nil => true
      | _, _ => goEq fuel a c

/-- `EqualValueTo` -/
def equalValueTo (a c : Val) : Bool :=
  if a.isInteger && c.isInteger then a.toInt == c.toInt
  -- floats, strings and booleans by value as well, whatever their Go type (fix f1900e3)
  else if a.isFloat && c.isFloat then a.toFloat == c.toFloat
  else if a.isString && c.isString then
    (match a.reflected, c.reflected with | .str x, .str y => x == y | _, _ => false)
  else if a.isBool && c.isBool then
    (match a.reflected, c.reflected with | .bool x, .bool y => x == y | _, _ => false)
  else if a.kind == .invalid || c.kind == .invalid then false
  else comparableDeep 16 a && comparableDeep 16 c && goEq 16 a c

/-- `Value.Contains` (`in`) -/
def containsVal (container item : Val) : Bool :=
  match container.resolved with
  | .struct _ fields priv => (fields.lookup item.toS).isSome || priv.elem item.toS
  -- the key as `mapKey` takes it (fix 0f…): one pointer followed, the same text / integer under another Go type
  | .smap _ kvs => (match item.resolved with | .str k | .stringer (.str k) _ => (kvs.lookup k).isSome | _ => false)
  | .imap _ kvs => (match item.resolved with
      | .int k | .stringer (.int k) _ => (kvs.lookup k).isSome
      | .uint u => u.toNat < 2 ^ 63 && (kvs.lookup (Int64.ofNat u.toNat)).isSome
      | _ => false)
  | .str s => Bytes.contains s item.toS
  | .list _ xs | .arr _ xs => xs.any fun x =>
      -- the items of an in-template list literal are `*Value` already and are compared as they are
      equalValueTo item (match x with | .boxed inner s => (Val.unboxAll inner s).1 | _ => x)
  | _ => false

def mkV (v : Val) : V := ⟨v, false⟩

/-- binary operators other than the short-circuiting and/or -/
def evalBin (op : BinOp) (a c : V) : Except String V :=
  let x := a.v
  let y := c.v
  match op with
  | .le => .ok (mkV (.bool (if x.isFloat || y.isFloat then x.toFloat ≤ y.toFloat else x.toInt ≤ y.toInt)))
  | .ge => .ok (mkV (.bool (if x.isFloat || y.isFloat then x.toFloat ≥ y.toFloat else x.toInt ≥ y.toInt)))
  | .lt => .ok (mkV (.bool (if x.isFloat || y.isFloat then x.toFloat < y.toFloat else x.toInt < y.toInt)))
  | .gt => .ok (mkV (.bool (if x.isFloat || y.isFloat then x.toFloat > y.toFloat else x.toInt > y.toInt)))
  | .eq => .ok (mkV (.bool (equalValueTo x y)))
  | .ne => .ok (mkV (.bool (!equalValueTo x y)))
  | .in => .ok (mkV (.bool (containsVal y x)))
  | .add =>
    if x.isString || y.isString then .ok (mkV (.str (x.toS ++ y.toS)))
    else if x.isFloat || y.isFloat then .ok (mkV (.float (x.toFloat + y.toFloat)))
    else .ok (mkV (.int (x.toInt + y.toInt)))
  | .sub =>
    if x.isFloat || y.isFloat then .ok (mkV (.float (x.toFloat - y.toFloat)))
    else .ok (mkV (.int (x.toInt - y.toInt)))
  | .mul =>
    if x.isFloat || y.isFloat then .ok (mkV (.float (x.toFloat * y.toFloat)))
    else .ok (mkV (.int (x.toInt * y.toInt)))
  | .div =>
    if x.isFloat || y.isFloat then
      if y.toFloat == 0.0 then .error "float divide by zero" else .ok (mkV (.float (x.toFloat / y.toFloat)))
    else if y.toInt == 0 then .error "integer divide by zero" else .ok (mkV (.int (x.toInt / y.toInt)))
  | .mod => if y.toInt == 0 then .error "integer divide by zero" else .ok (mkV (.int (x.toInt % y.toInt)))
  | .pow => .ok (mkV (.float (Float.pow x.toFloat y.toFloat)))
  | .and | .or => .error "unreachable"

/-- the leading `not` / sign of a simpleExpression -/
def evalUnary (neg negSign : Bool) (a : V) : Except String V :=
  let r : V := if neg then mkV a.v.negate else a
  if negSign then
    if r.v.isNumber then
      if r.v.isFloat then .ok (mkV (.float (-1.0 * r.v.toFloat)))
      else .ok (mkV (.int (-1 * r.v.toInt)))
    else .error "Negative sign on a non-number expression"
  else .ok r

/-- `FilterApplied(name)` -/
def filterApplied (name : Bytes) : Expr → Bool
  | .filtered _ chain _ => chain.any fun | .mk n _ _ => n == name
  | .unary _ _ e => filterApplied name e
  | .bin _ a c _ => filterApplied name a && filterApplied name c
  | _ => false

/-! ### spaceless (`tagSpacelessRegexp`, leftmost-first semantics) -/

def isWs (c : UInt8) : Bool := c == 0x09 || c == 0x0a || c == 0x0b || c == 0x0c || c == 0x0d || c == 0x20

/-- candidates for the lazy `<.*>`: suffixes after each `>` reachable from
    just behind the `<` without crossing a newline, shortest first; paired with the matched text -/
def lazyTagEnds : Bytes → Bytes → List (Bytes × Bytes)
  | [], _ => []
  | c :: t, acc =>
    if c == 0x0a then []
    else if c == 0x3e then (acc ++ [c], t) :: lazyTagEnds t (acc ++ [c])
    else lazyTagEnds t (acc ++ [c])

/-- try to match the whole pattern at a `<`; returns (replacement, rest) -/
def spacelessMatchAt (t : Bytes) : Option (Bytes × Bytes) :=
  (lazyTagEnds t [0x3c]).findSome? fun (tag1, rest) =>
    let ws := rest.takeWhile isWs
    let after := rest.dropWhile isWs
    if ws = [] then none
    else match after with
      | 0x3c :: t2 =>
        match lazyTagEnds t2 [0x3c] with
        | (tag2, rest2) :: _ => some (tag1 ++ tag2, rest2)
        | [] => none
      | _ => none

/-- one `ReplaceAllString(s, "$1$3")` pass -/
def spacelessPass : Nat → Bytes → Bytes
  | 0, s => s
  | _, [] => []
  | fuel+1, c :: t =>
    if c == 0x3c then
      match spacelessMatchAt t with
      | some (rep, rest) => rep ++ spacelessPass fuel rest
      | none => c :: spacelessPass fuel t
    else c :: spacelessPass fuel t

def spacelessFix : Nat → Bytes → Bytes
  | 0, s => s
  | fuel+1, s =>
    let s2 := spacelessPass (s.length + 1) s
    if s2 == s then s else spacelessFix fuel s2

def spaceless (s : Bytes) : Bytes := spacelessFix (s.length + 1) s

/-! ### context functions and methods: the call protocol of `variableResolver.resolve`

The harness's catalogue of Go functions (`harness/values.go: goFuncs`) and the methods of its
struct type `VS1` are mirrored here with their signatures and (total) semantics. -/

/-- a Go function type as the resolver inspects it -/
structure GoSig where
  takesCtx : Bool := false
  /-- parameter type strings; for a variadic function the last entry is the element type -/
  params   : List Bytes := []
  variadic : Bool := false
  outs     : Nat := 1
  deriving Inhabited

def valuePtrT : Bytes := b!"*pongo2.Value"
def ifaceT : Bytes := b!"interface {}"

/-- `reflect.TypeOf(v.Interface()).String()` for the modelled values; `none` for nil -/
def goTypeOf : Val → Option Bytes
  | .nil => none
  | .bool _ => some b!"bool"
  | .int _ => some b!"int"
  | .uint _ => some b!"uint"
  | .float _ => some b!"float64"
  | .str _ => some b!"string"
  | .list ty _ | .arr ty _ | .smap ty _ | .imap ty _ => some ty
  | .struct n _ _ => some n
  | .ptr (.struct n _ _) => some (b!"*" ++ n)
  | .ptr (.int _) => some b!"*int"
  | .ptr (.str _) => some b!"*string"
  | .ptr _ => some b!"*interface {}"
  | .nilptr => some b!"*main.VS1"
  | .boxed .. => some valuePtrT
  | .stringer (.str _) _ => some b!"main.SString"
  | .stringer _ _ => some b!"main.SInt"
  | .func _ => some b!"func"
  | .closure .. => some b!"func(...*pongo2.Value) (*pongo2.Value, error)"
  | .blockinfo .. => some b!"pongo2.tagBlockInformation"
  | .cycleval .. => some b!"*pongo2.tagCycleValue"

def goFuncSig : Nat → Option GoSig
  | 0 => some {}
  | 1 => some { params := [b!"int"] }
  | 2 => some { params := [b!"string", b!"int"] }
  | 3 => some { params := [b!"int"], variadic := true }
  | 4 => some { params := [b!"string", b!"string"], variadic := true }
  | 5 => some { params := [valuePtrT] }
  | 6 => some { params := [valuePtrT, valuePtrT], variadic := true }
  | 7 => some { outs := 2 }
  | 8 => some { params := [b!"int"], outs := 2 }
  | 9 => some { takesCtx := true }
  | 10 => some { takesCtx := true, params := [b!"string"] }
  | 11 => some { params := [ifaceT] }
  | 12 => some {}
  | 13 => some { outs := 3 }
  | 14 => some { outs := 0 }
  | 15 => some {}
  | 16 => some { outs := 2 }
  | 17 => some { params := [b!"float64"] }
  | 18 => some { params := [b!"bool"] }
  | 19 => some { params := [b!"[]int"] }
  | 20 => some { params := [b!"map[string]interface {}"] }
  | 21 => some { params := [b!"main.VS1"] }
  | 22 => some { params := [ifaceT, ifaceT] }
  | 23 => some { takesCtx := true, params := [b!"string", b!"string", b!"string"] }
  | 24 => some { takesCtx := true, params := [b!"string", b!"string", b!"string", b!"string", b!"string"] }
  | 25 => some { takesCtx := true, params := [b!"string"], variadic := true }
  | 26 => some { takesCtx := true, params := [b!"string", b!"int"], variadic := true }
  | _ => none

/-- what a call yields: the reflect value and, for a `*Value` result, its safe flag
    (`none`: the resolver's running `isSafe` is left as it was) -/
abbrev GoOut := Except String (Val × Option Bool)

def intArgs (args : List V) : List Int64 := args.map fun a => match a.v with | .int i => i | _ => 0

/-- the catalogue's behaviour on type-checked arguments -/
def goFuncRun (id : Nat) (autoescape : Bool) (args : List V) : GoOut :=
  match id, args with
  | 0, _ => .ok (.str b!"f0", none)
  | 1, [a] => .ok (.int (a.v.toInt * 2), none)
  | 2, [s, i] => .ok (.str (s.v.toS ++ fmtInt i.v.toInt), none)
  | 3, xs => .ok (.int ((intArgs xs).foldl (· + ·) 0), none)
  | 4, p :: xs => .ok (.str (p.v.toS ++ Bytes.join b!"," (xs.map (·.v.toS))), none)
  | 5, [v] => .ok (.str (v.v.toS ++ b!"!"), some false)
  | 6, _ :: more => .ok (.int (Int64.ofNat more.length), some false)
  | 7, _ => .error "boom"
  | 8, [i] => if i.v.toInt < 0 then .error "negative" else .ok (.int (i.v.toInt + 1), none)
  | 9, _ => .ok (.str (if autoescape then b!"on" else b!"off"), none)
  | 10, [s] => .ok (.str (s.v.toS ++ b!"@"), none)
  | 11, [a] => .ok (a.v, none)
  | 12, _ => .ok (.str b!"<b>", some true)
  | 15, _ => .ok (.nil, none)
  | 16, _ => .error "the second return value is not an error"
  | 17, [f] => .ok (.float (f.v.toFloat + 0.5), none)
  | 18, [c] => .ok (.bool (!c.v.isTrue), none)
  | 19, [l] => .ok (.int (Int64.ofNat l.v.len), none)
  | 20, [m] => .ok (.int (Int64.ofNat m.v.len), none)
  | 21, [st] => .ok ((match st.v with | .struct _ fs _ => (fs.lookup b!"A").getD .nil | _ => .nil), none)
  | 22, [_, c] => .ok (c.v, none)
  | 23, [a, c, d] => .ok (.str (a.v.toS ++ b!"-" ++ c.v.toS ++ b!"-" ++ d.v.toS), none)
  | 24, [a, c, d, e, f] => .ok (.str (a.v.toS ++ c.v.toS ++ d.v.toS ++ e.v.toS ++ f.v.toS), none)
  | 25, xs => .ok (.str (b!"v:" ++ Bytes.join b!"," (xs.map (·.v.toS))), none)
  | 26, a :: xs => .ok (.str (a.v.toS ++ fmtInt ((intArgs xs).foldl (· + ·) 0)), none)
  | _, _ => .error "unreachable: arity was checked"

/-- methods of the harness's struct type: (name, declared on the pointer type, signature) -/
def vs1Methods : List (Bytes × Bool × GoSig) :=
  [(b!"GetB", false, {}), (b!"Echo", false, { params := [b!"string"] }), (b!"PtrName", true, {}),
   (b!"Fail", false, { outs := 2 }), (b!"Sum", false, { params := [b!"int"], variadic := true })]

def goMethodRun (name : Bytes) (recv : Val) (args : List V) : GoOut :=
  if name == b!"GetB" then
    .ok ((match recv with | .struct _ fs _ => (fs.lookup b!"B").getD .nil | _ => .nil), none)
  else if name == b!"Echo" then .ok (.str ((args.headD default).v.toS ++ b!"!"), none)
  else if name == b!"PtrName" then .ok (.str b!"ptr", none)
  else if name == b!"Fail" then .error "method failed"
  else if name == b!"Sum" then .ok (.int ((intArgs args).foldl (· + ·) 0), none)
  else if name == b!"String" then (match recv with | .stringer _ t => .ok (.str t, none) | _ => .error "no such method")
  else .error "no such method"

/-- the argument-count rule, with the implicit context argument and the variadic exception -/
def goCountOK (sig : GoSig) (nArgs : Nat) : Bool :=
  let off := if sig.takesCtx then 1 else 0
  let nIn := sig.params.length + off
  let n := nArgs + off
  n == nIn || (n ≥ nIn - 1 && sig.variadic)

/-- the parameter type argument `j` is checked against -/
def goParamFor (sig : GoSig) (j : Nat) : Bytes :=
  let off := if sig.takesCtx then 1 else 0
  if sig.variadic && j + off ≥ sig.params.length + off - 1 then sig.params.getLast?.getD [] else sig.params.getD j []

/-- an argument fits: `*Value` and interface parameters take anything, others the exact Go type -/
def goArgOK (sig : GoSig) (j : Nat) (a : V) : Bool :=
  goParamFor sig j == valuePtrT || goTypeOf a.v == some (goParamFor sig j) || goParamFor sig j == ifaceT

/-- the argument checks of `resolve` before `reflect.Value.Call`: count, number of results,
    parameter types -/
def goCheckCall (sig : GoSig) (args : List V) : Except String Unit :=
  if !goCountOK sig args.length then .error "function input argument count"
  else if !(sig.outs == 1 || sig.outs == 2) then .error "must have exactly 1 or 2 output arguments"
  else if args.zipIdx.all (fun (a, j) => goArgOK sig j a) then .ok ()
  else .error "function input argument must be of the parameter's type"

/-- calling a catalogue function -/
def callGo (id : Nat) (autoescape : Bool) (args : List V) : GoOut :=
  match goFuncSig id with
  | none => .error "unknown function"
  | some sig =>
    match goCheckCall sig args with
    | .error m => .error m
    | .ok () => goFuncRun id autoescape args

/-- a method of `VS1`/`*VS1` found by `MethodByName` on `v` (before any dereference) -/
def goMethodOf (v : Val) (name : Bytes) : Option (Bool × GoSig) :=
  match v with
  | .struct tn _ _ =>
    if tn == b!"main.VS1" then (vs1Methods.lookup name).bind fun (ptrOnly, sig) => if ptrOnly then none else some (false, sig)
    else none
  | .ptr (.struct tn _ _) => if tn == b!"main.VS1" then (vs1Methods.lookup name).map fun (_, sig) => (false, sig) else none
  | .nilptr => (vs1Methods.lookup name).map fun (ptrOnly, sig) => (!ptrOnly, sig)   -- value method through nil: yields nil
  | .stringer _ _ => if name == b!"String" then some (false, {}) else none   -- a method of a named string / int type
  | _ => none

/-! ### one step of a dotted / subscripted name (`variableResolver.resolve`, after the pointer was followed) -/

/-- byte `i` of a string / element `i` of a sequence; out of range: the empty value -/
def seqAt (cv : Val) (i : Int64) : Option (Option Val) :=
  match cv with
  | .str s | .stringer (.str s) _ =>
    some (if i ≥ 0 && s.length > i.toNatClampNeg then some (.uint (UInt64.ofNat (s.getD i.toNatClampNeg 0).toNat)) else none)
  | .list _ xs | .arr _ xs => some (if i ≥ 0 && xs.length > i.toNatClampNeg then some (xs.getD i.toNatClampNeg .nil) else none)
  | _ => none

/-- `a.3` -/
def stepIndex (cv : Val) (i : Int64) : Except String (Option Val) :=
  match seqAt cv i with
  | some r => .ok r
  | none => .error "can't access an index on this type"

/-- `a.name`: exported field or string key; missing, unexported, or a map with other keys: the empty value -/
def stepName (cv : Val) (s : Bytes) : Except String (Option Val) :=
  match cv with
  | .struct _ fields _ => .ok (fields.lookup s)
  | .blockinfo .. => .ok none
  | .smap _ kvs => .ok (kvs.lookup s)
  | .imap .. => .ok none
  | .stringer (.struct _ fields _) _ => .ok (fields.lookup s)
  | _ => .error "can't access a field by name on this type"

def subscriptable (cv : Val) : Bool :=
  match cv with
  | .str _ | .list .. | .arr .. | .struct .. | .smap .. | .imap .. => true
  | .stringer (.str _) _ => true      -- reflect sees the string kind of a named string type
  | _ => false

/-- a subscript that can be an index: a number, or the text of one -/
def indexLike (k : Val) : Bool := k.isNumber || (k.isString && (parseFloat k.toS).isSome)

/-- `a[k]` with the evaluated key -/

def stepSub (cv : Val) (k : Val) : Except String (Option Val) :=
  match cv with
  | .str _ | .list .. | .arr .. | .stringer (.str _) _ =>
    -- (a subscript that is no number is no index: nothing there — not element 0)
    if indexLike k then (match seqAt cv k.toInt with | some r => .ok r | none => .ok none) else .ok none
  | .struct _ fields _ => .ok (fields.lookup k.toS)
  -- `mapKey`: the same text or integer under another Go type is the key too (fix 28b29b7);
  -- an unsigned value beyond the range of the map's `int` keys is no key
  | .smap _ kvs => .ok (match k with | .str key | .stringer (.str key) _ => kvs.lookup key | _ => none)
  | .imap _ kvs => .ok (match k with
      | .int key | .stringer (.int key) _ => kvs.lookup key
      | .uint u => if u.toNat < 2 ^ 63 then kvs.lookup (Int64.ofNat u.toNat) else none
      | _ => none)
  | _ => .error "can't access an index on this type"

/-! ### the escape-on-output decision (`nodeVariable.Execute`, `writeCycleValue`) -/

/-- the bytes `{{ e }}` writes for the value `v` of `e`: escaped unless autoescape is off,
    the expression carries the `safe` filter, the value is marked safe, or it is neither of
    string kind nor a `fmt.Stringer` (then `String()` is the engine's own text) -/
def printed (safeFilter autoescape : Bool) (v : V) : Bytes :=
  if !safeFilter && !v.safe && (v.v.isString || v.v.isStringer) && autoescape then escapeHtml v.v.toS
  else v.v.toS

/-- what `{% firstof %}` writes for the chosen value: escaped whatever its kind, unless the
    argument carries the `safe` filter or autoescape is off -/
def firstofText (safeFilter autoescape : Bool) (v : V) : Bytes :=
  if autoescape && !safeFilter then escapeHtml v.v.toS else v.v.toS

/-! ### literal text (`nodeHTML.Execute` with the option handling of `newTemplate`) -/

/-- the bytes a text node writes: `trimBlocks`/`lstripBlocks` are the options of the
    template that owns the node (they apply only when that template is the one executing),
    `after`/`before`: the node directly follows / precedes a block tag delimiter,
    `trimL`/`trimR`: the neighbouring delimiter carries a `-` -/
def htmlOut (trimBlocks lstripBlocks : Bool) (val : Bytes) (trimL trimR after before : Bool) : Bytes :=
  let v1 := if trimBlocks && after && val.head? == some 0x0a then val.tail else val
  let v2 := if lstripBlocks && before then Bytes.trimRight b!"\t " v1 else v1
  let v3 := if trimL then Bytes.trimLeft b!" \n\r\t" v2 else v2
  if trimR then Bytes.trimRight b!" \n\r\t" v3 else v3

/-! ### evaluation and execution -/

def identOk (k : Bytes) : Bool :=
  k ≠ [] && k.all fun c => (0x61 ≤ c && c ≤ 0x7a) || (0x41 ≤ c && c ≤ 0x5a) || (0x30 ≤ c && c ≤ 0x39) || c == 0x5f

def loopRecord (counter counter0 revcounter revcounter0 : Int64) (first last : Bool) (parent : Val) : Val :=
  .ptr (.struct b!"forloop"
    [(b!"Counter", .int counter), (b!"Counter0", .int counter0), (b!"Revcounter", .int revcounter),
     (b!"Revcounter0", .int revcounter0), (b!"First", .bool first), (b!"Last", .bool last),
     (b!"Parentloop", parent)] [])

def isLoopRecord : Val → Bool
  | .ptr (.struct n _ _) => n == b!"forloop"
  | _ => false

def chainOf (tpls : Array Tpl) : Nat → Nat → List Nat
  | 0, i => [i]
  | fuel+1, i =>
    match (tpls[i]!).parent with
    | some p => chainOf tpls fuel p ++ [i]
    | none => [i]

def blockWrappers (tpls : Array Tpl) (chain : List Nat) (name : Bytes) : List (List Node) :=
  chain.filterMap fun i => (tpls[i]!).blocks.lookup name

/-- the private context a macro body runs in: the defining context's names,
    then every parameter's default (`argsCtx`), then the arguments by position -/
def macroEnv (base : Env) (defaults : List (Bytes × Val)) (params : List Bytes) (args : List V) : Env :=
  let priv1 := defaults.foldl (fun (e : Env) kv => e.set kv.1 kv.2) base
  (params.zip args).foldl (fun (e : Env) pa => e.set pa.1 pa.2.v) priv1

/-- `block.Super`: a bound method of the block record -/
def superOf (part : Part) (v : Val) : Option (Nat × Bytes × Nat) :=
  match part, v with
  | .ident s _, .blockinfo fr name lvl => if s == b!"Super" then some (fr, name, lvl) else none
  | _, _ => none

/-- a Go method found by name on the value as it stands (before any dereference) -/
def goMethodAt (part : Part) (v : Val) : Option (Bytes × Bool × GoSig) :=
  match part with
  | .ident s _ => (goMethodOf v s).map fun (viaNil, sig) => (s, viaNil, sig)
  | _ => none

/-- the receiver a method is run on -/
def recvOf (v : Val) : Val := match v with | .ptr x => x | x => x

/-- the pointer dereference before a step (`none`: a nil pointer) -/
def derefStep (v : Val) : Option Val :=
  match v with
  | .ptr x => some x
  | .nilptr => none
  | .boxed .. => some (.struct b!"Value" [] [b!"val", b!"safe"])
  | .cycleval .. => some (.struct b!"tagCycleValue" [] [b!"node", b!"value"])
  | x => some x

/-- the container's static element type is `*Value` (an in-template list literal) -/
def typedElems (cv : Val) : Bool :=
  match cv with
  | .list ty _ | .arr ty _ => Bytes.hasSuffix ty valuePtrT
  | _ => false

/-- `current.Type() == typeOfValuePtr`: only a `*Value` whose static type is `*Value` (`direct`)
    is unpacked, then down to its content -/
def unboxDirect (v : Val) (safe direct : Bool) : Val × Bool :=
  match v, direct with
  | .boxed inner s, true => Val.unboxAll inner s
  | _, _ => (v, safe)

variable (T : LexTables) (cfg : SetCfg) (globals : Env)

mutual

/-- `IEvaluator.Evaluate` -/
def eval : Nat → Expr → XM V
  | 0, _ => xerr "fuel" .diverge
  | fuel+1, e =>
    match e with
    | .str s _ => pure (mkV (.str s))
    | .int i _ => pure (mkV (.int i))
    | .float f _ => pure (mkV (.float f))
    | .bool b _ => pure (mkV (.bool b))
    | .var parts p => do
      try resolve fuel parts
      catch err => if err.kind == .exec && err.sender == "" then throw { err with line := p.line, col := p.col, sender := "resolve" } else throw err
    | .arr items _ => do
      -- in-template array: every item is a filtered term, evaluated with its chain
      let vs ← evalArrayItems fuel items
      pure ⟨.list b!"[]*pongo2.Value" (vs.map fun v => .boxed v.v v.safe), true⟩
    | .filtered e chain _ => do
      let v ← eval fuel e
      applyChain fuel chain v
    | .unary neg negSign e => do
      let v ← eval fuel e
      match evalUnary neg negSign v with
      | .ok r => pure r
      | .error m => xerr m
    | .bin .and a c _ => do
      let v1 ← eval fuel a
      if !v1.v.isTrue then pure (mkV (.bool false))
      else
        let v2 ← eval fuel c
        pure (mkV (.bool v2.v.isTrue))
    | .bin .or a c _ => do
      let v1 ← eval fuel a
      if v1.v.isTrue then pure (mkV (.bool true))
      else
        let v2 ← eval fuel c
        pure (mkV (.bool v2.v.isTrue))
    | .bin op a c _ => do
      let v1 ← eval fuel a
      let v2 ← eval fuel c
      match evalBin op v1 v2 with
      | .ok r => pure r
      | .error m => xerr m

def evalArrayItems : Nat → List Expr → XM (List V)
  | 0, _ => xerr "fuel" .diverge
  | _, [] => pure []
  | fuel+1, e :: es => do
    -- an item is any expression the parser accepted
    let v ← eval fuel e
    let vs ← evalArrayItems fuel es
    pure (v :: vs)

def evalList : Nat → List Expr → XM (List V)
  | 0, _ => xerr "fuel" .diverge
  | _, [] => pure []
  | fuel+1, e :: es => do
    let v ← eval fuel e
    let vs ← evalList fuel es
    pure (v :: vs)

/-- `nodeFilteredVariable.Evaluate`'s loop over `filterCall.Execute` -/
def applyChain : Nat → List FCall → V → XM V
  | 0, _, _ => xerr "fuel" .diverge
  | _, [], v => pure v
  | fuel+1, .mk name param _ :: rest, v => do
    let p ← (match param with
      | some pe => eval fuel pe
      | none => pure (mkV .nil))
    match applyFilter name v p with
    | .ok r => applyChain fuel rest r
    | .err m => xerr m
    | .unsupported => xerr "filter outside the model" .unsupported

/-- `variableResolver.resolve` -/
def resolve : Nat → List Part → XM V
  | 0, _ => xerr "fuel" .diverge
  | fuel+1, parts =>
    match parts with
    | [] => pure (mkV .nil)
    | first :: rest => do
      let fr ← cur
      let name := match first with | .ident s _ => s | _ => []
      let v0 := match fr.priv.lookup name with
        | some v => v
        | none => (fr.pub.lookup name).getD .nil
      let call0 := first.callArgs
      let r ← afterPart fuel v0 false call0 true
      match r with
      | none => pure (mkV .nil)
      | some (v, safe) => resolveRest fuel rest v safe

/-- the checks that follow every part: validity, `*Value` unpacking, calls.
    `none` = the resolver returns the nil value here. -/
def afterPart : Nat → Val → Bool → Option (List Expr) → Bool → XM (Option (Val × Bool))
  | 0, _, _, _, _ => xerr "fuel" .diverge
  | fuel+1, v, safe, call, direct => do
    if v.kind == .invalid then return none
    -- `current.Type() == typeOfValuePtr`: only a `*Value` whose static type is `*Value` (a context
    -- entry, an element of a `[]*Value`) is unpacked; one held in an interface-typed element or
    -- field stays a pointer to the `Value` struct
    let vs := unboxDirect v safe direct
    let v := vs.1
    let safe := vs.2
    if call.isSome || v.kind == .func then
      if v.kind != .func then xerr "is not a function"
      else
        let args ← evalList fuel (call.getD [])
        match v with
        | .func id =>
          let fr ← cur
          match callGo id fr.autoescape args with
          | .error m => xerr m
          | .ok (rv, rs) =>
            if rv.kind == .invalid then return none
            return some (rv, rs.getD safe)
        | _ =>
          let r ← callFunc fuel v args
          if r.v.kind == .invalid then return none
          return some (r.v, r.safe)
    else if v.kind == .invalid then return none
    else return some (v, safe)

def resolveRest : Nat → List Part → Val → Bool → XM V
  | 0, _, _, _ => xerr "fuel" .diverge
  | _, [], v, safe => pure ⟨v, safe⟩
  | fuel+1, part :: rest, v, safe => do
    -- method lookup before dereferencing
    let method := superOf part v
    let goMethod := goMethodAt part v
    match method, goMethod with
    | some (fid, name, lvl), _ => do
      -- `block.Super`: a bound method, called right away
      let r ← callSuper fuel fid name lvl
      if r.v.kind == .invalid then pure (mkV .nil) else resolveRest fuel rest r.v r.safe
    | none, some (mname, viaNil, sig) =>
      -- a Go method: found before the pointer is followed, then called like any function
      if viaNil then pure (mkV .nil)   -- value-receiver method through a nil pointer
      else do
        let call := part.callArgs
        let args ← evalList fuel (call.getD [])
        match goCheckCall sig args with
        | .error m => xerr m
        | .ok () =>
          match goMethodRun mname (recvOf v) args with
          | .error m => xerr m
          | .ok (rv, rs) =>
            if rv.kind == .invalid then pure (mkV .nil) else resolveRest fuel rest rv (rs.getD safe)
    | none, none =>
      -- pointer dereference
      let deref : Option Val := derefStep v
      match deref with
      | none => pure (mkV .nil)
      | some cv => do
        let call := part.callArgs
        let next : Option Val ← (match part with
          | .idx i _ => liftStep (stepIndex cv i)
          | .ident s _ => liftStep (stepName cv s)
          | .sub e _ =>
            -- the subscript expression is evaluated only for kinds that can be subscripted
            if subscriptable cv then do
              let sv ← eval fuel e
              liftStep (stepSub cv sv.v)
            else xerr "can't access an index on this type")
        match next with
        | none => pure (mkV .nil)
        | some nv => do
          -- a nil held in an interface-typed element (`[]any{nil}`, a map entry, a field of type
          -- any) is a valid reflect value until it is unwrapped: calling it is "not a function"
          if nv.kind == .invalid && call.isSome then xerr "is not a function (it is invalid)" else
          let typedElems := typedElems cv
          let r ← afterPart fuel nv safe call typedElems
          match r with
          | none => pure (mkV .nil)
          | some (v', safe') => resolveRest fuel rest v' safe'

/-- calling a func-kinded value with evaluated arguments -/
def callFunc : Nat → Val → List V → XM V
  | 0, _, _ => xerr "fuel" .diverge
  | fuel+1, f, args =>
    match f with
    | .closure fid idx guarded => do
      if guarded then
        let fr ← getFrame fid
        modifyFrame fid fun fr => { fr with macroDepth := fr.macroDepth + 1 }
        if fr.macroDepth + 1 > maxMacroDepth then
          modifyFrame fid fun fr => { fr with macroDepth := fr.macroDepth - 1 }
          xerr "maximum recursive macro call depth reached"
        else
          try
            let r ← callMacro fuel fid idx args
            modifyFrame fid fun fr => { fr with macroDepth := fr.macroDepth - 1 }
            pure r
          catch e =>
            modifyFrame fid fun fr => { fr with macroDepth := fr.macroDepth - 1 }
            throw e
      else callMacro fuel fid idx args
    | _ => xerr "context functions are outside the model" .unsupported

/-- `tagMacroNode.call` -/
def callMacro : Nat → Nat → Nat → List V → XM V
  | 0, _, _, _ => xerr "fuel" .diverge
  | fuel+1, fid, idx, args => do
    let st ← get
    let md := st.cs.macros[idx]!
    let defFrame ← getFrame fid
    -- defaults are evaluated in the defining context
    let defaults ← withFrameView fuel fid (evalDefaults fuel md.params)
    if args.length > md.params.length then xerr "Macro called with too many arguments"
    else
      let base := childOf defFrame
      let out ← withFrame { base with priv := macroEnv base.priv defaults (md.params.map (·.1)) args } (buffered (execNodes fuel md.body))
      pure ⟨.str out, true⟩

/-- evaluate in the context `fid` (it is on the stack; evaluation only reads it,
    except for `macroDepth`, which is addressed by id) -/
def withFrameView : Nat → Nat → XM α → XM α
  | 0, _, _ => xerr "fuel" .diverge
  | _+1, fid, m => do
    let fr ← getFrame fid
    -- temporarily make a copy of the frame current; writes to it during
    -- evaluation of expressions do not occur (expressions do not bind)
    let st ← get
    set { st with frames := fr :: st.frames }
    try
      let r ← m
      modify fun s => { s with frames := s.frames.tail }
      pure r
    catch e =>
      modify fun s => { s with frames := s.frames.tail }
      throw e

def evalDefaults : Nat → List (Bytes × Option Expr) → XM (List (Bytes × Val))
  | 0, _ => xerr "fuel" .diverge
  | _, [] => pure []
  | fuel+1, (k, d) :: rest => do
    let v ← (match d with
      | some e => do
        let r ← eval fuel e
        pure (Val.boxed r.v r.safe)
      | none => pure Val.nil)
    let vs ← evalDefaults fuel rest
    pure ((k, v) :: vs)

/-- `tagBlockInformation.Super` -/
def callSuper : Nat → Nat → Bytes → Nat → XM V
  | 0, _, _, _ => xerr "fuel" .diverge
  | fuel+1, fid, name, lvl => do
    if lvl == 0 then pure ⟨.str [], true⟩
    else
      let fr ← getFrame fid
      let st ← get
      let ws := blockWrappers st.cs.tpls fr.chain name
      let body := ws.getD (lvl - 1) []
      let child := childOf fr
      let out ← withFrame { child with priv := child.priv.set b!"block" (.blockinfo fid name (lvl - 1)) }
        (buffered (execNodes fuel body))
      pure ⟨.str out, true⟩

def execNodes : Nat → List Node → XM Unit
  | 0, _ => xerr "fuel" .diverge
  | _, [] => pure ()
  | fuel+1, n :: ns => do
    execNode fuel n
    execNodes fuel ns

/-- `INode.Execute` -/
def execNode : Nat → Node → XM Unit
  | 0, _ => xerr "fuel" .diverge
  | fuel+1, n =>
    match n with
    | .html val trimL trimR after before owner => do
      let fr ← cur
      let st ← get
      let opts := st.cs.tpls[fr.called]!
      write (htmlOut (owner == fr.called && opts.trimBlocks) (owner == fr.called && opts.lstripBlocks)
        val trimL trimR after before)
    | .var e _ => do
      let v ← eval fuel e
      let fr ← cur
      write (printed (filterApplied b!"safe" e) fr.autoescape v)
    | .tagAutoescape on body => do
      let old := (← cur).autoescape
      modifyCur fun f => { f with autoescape := on }
      execNodes fuel body
      modifyCur fun f => { f with autoescape := old }
    | .tagBlock name => do
      let fr ← cur
      let st ← get
      let ws := blockWrappers st.cs.tpls fr.chain name
      if ws.length == 0 then xerr "internal error: len(block_wrappers) == 0"
      else
        -- "block" names this block while its body runs; afterwards the enclosing block again
        let outer := fr.priv.lookup b!"block"
        modifyCur fun f => { f with priv := f.priv.set b!"block" (.blockinfo fr.id name (ws.length - 1)) }
        let restore : XM Unit := modifyCur fun f =>
          { f with priv := match outer with
              | some o => f.priv.set b!"block" o
              | none => f.priv.filter (·.1 != b!"block") }
        try
          execNodes fuel (ws.getD (ws.length - 1) [])
          restore
        catch e =>
          restore
          throw e
    | .tagComment => pure ()
    | .tagCycle id args asName silent => do
      -- the parser rejects a cycle without arguments (`empty_cycle_is_rejected`); on such a node
      -- the Go code would divide by zero
      if args.length == 0 then xerr "cycle without arguments"
      else
        let st ← get
        let idx := (st.cycle.lookup id).getD 0
        modify fun s => { s with cycle := (s.cycle.filter (·.1 != id)) ++ [(id, idx + 1)] }
        let v ← eval fuel (args.getD (idx % args.length) default)
        match v.v with
        | .cycleval _ _ _ => xerr "cycle over a cycle value" .unsupported
        | _ =>
          if asName ≠ [] then modifyCur fun f => { f with priv := f.priv.set asName (.cycleval id v.v v.safe) }
          if !silent then
            write (printed (filterApplied b!"safe" (args.getD (idx % args.length) default)) (← cur).autoescape v)
    | .tagExtends => pure ()
    | .tagFilter chain body _ => do
      let out ← buffered (execNodes fuel body)
      let v ← applyTagChain fuel chain (mkV (.str out))
      write v.v.toS
    | .tagFirstof args => firstof fuel args
    | .tagFor key value obj reversed sorted body empty => do
      let fr ← cur
      let parent : Val := (fr.priv.lookup b!"forloop").getD .nil
      -- a `forloop` that is not a loop record (`{% set forloop = 1 %}`) counts as no enclosing loop
      let parentV : Val := if isLoopRecord parent then parent else .nilptr
      let child := childOf fr
      -- the loop's own record is installed per iteration; the iterable and the
      -- empty branch still see the enclosing loop's forloop
      withFrame child do
        let o ← eval fuel obj
        let items := iterItems o.v reversed sorted
        if items.length == 0 then
          match empty with
          | some eb => execNodes fuel eb
          | none => pure ()
        else forLoop fuel key value body parentV items 0 items.length true false
    | .tagIf conds bodies => ifChain fuel conds bodies 0
    | .tagIfchanged id watch thenB elseB => do
      if watch.length == 0 then
        let out ← buffered (execNodes fuel thenB)
        let st ← get
        let last := st.changedC.lookup id
        if last != some out && !(last.isNone && out == []) then
          write out
          modify fun s => { s with changedC := (s.changedC.filter (·.1 != id)) ++ [(id, out)] }
        else if last.isSome then
          -- unchanged: the else branch, as with watched expressions
          match elseB with
          | some eb => execNodes fuel eb
          | none => pure ()
        else pure ()
      else
        let now ← evalList fuel watch
        let st ← get
        let last := (st.changedV.lookup id).getD []
        let changed := last.length == 0 || (last.zip now).any (fun (o, n) => !(o.v.isNil && n.v.isNil) && !equalValueTo o.v n.v)
        modify fun s => { s with changedV := (s.changedV.filter (·.1 != id)) ++ [(id, now)] }
        if changed then execNodes fuel thenB
        else match elseB with
          | some eb => execNodes fuel eb
          | none => pure ()
    | .tagIfEqual a c thenB elseB => do
      let r1 ← eval fuel a
      let r2 ← eval fuel c
      if equalValueTo r1.v r2.v then execNodes fuel thenB
      else match elseB with
        | some eb => execNodes fuel eb
        | none => pure ()
    | .tagIfNotEqual a c thenB elseB => do
      let r1 ← eval fuel a
      let r2 ← eval fuel c
      if !equalValueTo r1.v r2.v then execNodes fuel thenB
      else match elseB with
        | some eb => execNodes fuel eb
        | none => pure ()
    | .tagImport binds => do
      let fr ← cur
      modifyCur fun f => { f with priv := binds.foldl (fun e (alias, idx) => e.set alias (.closure fr.id idx true)) f.priv }
    | .tagInclude src only pairs => do
      match src with
      | .empty => pure ()
      | _ =>
        let fr ← cur
        let base : Env := if only then [] else (Env.update fr.pub fr.priv)
        let pvs ← evalPairs fuel pairs
        let ictx := pvs.foldl (fun (e : Env) kv => e.set kv.1 kv.2) base
        match src with
        | .static ti => executeTpl fuel ti ictx
        | .lazy fe ifExists referrer => do
          let fname ← eval fuel fe
          if fname.v.toS = [] then xerr "Filename for 'include'-tag evaluated to an empty string."
          else
            let st ← get
            -- relative names resolve against the template the tag is written in
            let rootTpl := st.cs.tpls[referrer]!
            let resolved := resolveFilename rootTpl.isString rootTpl.name fname.v.toS
            match fromFile T cfg fuel st.cs resolved with
            | .ok (ti, cs) => do
              modify fun s => { s with cs := cs }
              executeTpl fuel ti ictx
            | .error e =>
              if e.kind == .fromfile && e.file == resolved then
                modify fun s => { s with cs := { s.cs with fetchLog := s.cs.fetchLog ++ (cfg.loaders.zipIdx.map fun (_, i) => (i, Path.abs [] resolved)) } }
                if ifExists then pure () else xerr "unable to resolve template" .exec
              else if e.kind == .fromfile then xerr "unable to resolve template" .exec
              else if e.kind == .unsupported then xerr e.msg .unsupported
              else if e.kind == .outOfFuel then xerr "fuel" .diverge
              else xerr e.msg .exec
        | .empty => pure ()
    | .tagLorem .. => xerr "lorem is outside the model" .unsupported
    | .tagMacro idx => do
      let fr ← cur
      let st ← get
      let md := st.cs.macros[idx]!
      modifyCur fun f => { f with priv := f.priv.set md.name (.closure fr.id idx true) }
    | .tagNow .. => xerr "now is outside the model" .unsupported
    | .tagSet name e => do
      let v ← eval fuel e
      modifyCur fun f => { f with priv := f.priv.set name (.boxed v.v v.safe) }
    | .tagSpaceless body => do
      let out ← buffered (execNodes fuel body)
      write (spaceless out)
    | .tagSsi content ti => do
      match ti with
      | some ti =>
        let fr ← cur
        -- `template.execute(includeCtx, writer)`: unbuffered
        executeTplUnbuffered fuel ti (Env.update fr.pub fr.priv)
      | none => write (content.getD [])
    | .tagTemplatetag content => write content
    | .tagWidthratio c m w asName => do
      let cv ← eval fuel c
      let mv ← eval fuel m
      let wv ← eval fuel w
      -- (a maximum of zero gives 0, not the conversion of an infinity)
      let value := if mv.v.toFloat == 0 then 0 else floatToInt (Float.floor (cv.v.toFloat / mv.v.toFloat * wv.v.toFloat + 0.5))
      if asName = [] then write (fmtInt value)
      else modifyCur fun f => { f with priv := f.priv.set asName (.int value) }
    | .tagWith pairs body => do
      let fr ← cur
      let pvs ← evalPairs fuel pairs
      let child := childOf fr
      withFrame { child with priv := pvs.foldl (fun (e : Env) kv => e.set kv.1 kv.2) child.priv } (execNodes fuel body)

def evalPairs : Nat → List (Bytes × Expr) → XM (List (Bytes × Val))
  | 0, _ => xerr "fuel" .diverge
  | _, [] => pure []
  | fuel+1, (k, e) :: rest => do
    let v ← eval fuel e
    let vs ← evalPairs fuel rest
    pure ((k, .boxed v.v v.safe) :: vs)

/-- the filter tag: `ApplyFilter(name, …)` by name at run time -/
def applyTagChain : Nat → List (Bytes × Option Expr) → V → XM V
  | 0, _, _ => xerr "fuel" .diverge
  | _, [], v => pure v
  | fuel+1, (name, param) :: rest, v => do
    let p ← (match param with
      | some pe => eval fuel pe
      | none => pure (mkV .nil))
    if !cfg.regFilters.elem name then xerr "filter not found"
    else match applyFilter name v p with
      | .ok r => applyTagChain fuel rest r
      | .err m => xerr m
      | .unsupported => xerr "filter outside the model" .unsupported

def firstof : Nat → List Expr → XM Unit
  | 0, _ => xerr "fuel" .diverge
  | _, [] => pure ()
  | fuel+1, a :: rest => do
    let v ← eval fuel a
    if v.v.isTrue then
      let fr ← cur
      write (firstofText (filterApplied b!"safe" a) fr.autoescape v)
    else firstof fuel rest

def ifChain : Nat → List Expr → List (List Node) → Nat → XM Unit
  | 0, _, _, _ => xerr "fuel" .diverge
  | _, [], _, _ => pure ()
  | fuel+1, c :: cs, bodies, i => do
    let r ← eval fuel c
    if r.v.isTrue then execNodes fuel (bodies.getD i [])
    else if cs.length == 0 && bodies.length > i + 1 then execNodes fuel (bodies.getD (i + 1) [])
    else ifChain fuel cs bodies (i + 1)

/-- the callback `IterateOrder` runs per item -/
def forLoop : Nat → Bytes → Bytes → List Node → Val → List (Val × Option Val) → Nat → Nat → Bool → Bool → XM Unit
  | 0, _, _, _, _, _, _, _, _, _ => xerr "fuel" .diverge
  | _, _, _, _, _, [], _, _, _, _ => pure ()
  | fuel+1, key, value, body, parent, (k, v) :: rest, idx, count, first, last => do
    -- a fresh record per iteration (tags_for.go): First/Last are functions of the index
    let first := idx == 0
    let last := idx + 1 == count
    let rec_ := loopRecord (Int64.ofNat (idx + 1)) (Int64.ofNat idx) (Int64.ofNat (count - idx))
      (Int64.ofNat (count - (idx + 1))) first last parent
    modifyCur fun f =>
      let p1 := f.priv.set key (bindItem k)
      -- a loop over a map with a single loop variable has no name for the value
      let p2 := match v with | some vv => if value = [] then p1 else p1.set value (.boxed vv false) | none => p1
      { f with priv := p2.set b!"forloop" rec_ }
    execNodes fuel body
    forLoop fuel key value body parent rest (idx + 1) count first last

/-- `tpl.ExecuteWriter(context, writer)` from inside an execution (include):
    new context, buffered, all or nothing -/
def executeTpl : Nat → Nat → Env → XM Unit
  | 0, _, _ => xerr "fuel" .diverge
  | fuel+1, ti, ctx => do
    let out ← buffered (executeTplUnbuffered fuel ti ctx)
    write out

/-- `tpl.execute(context, writer)` -/
def executeTplUnbuffered : Nat → Nat → Env → XM Unit
  | 0, _, _ => xerr "fuel" .diverge
  | fuel+1, ti, ctx => do
    let st ← get
    let tpl := st.cs.tpls[ti]!
    let newCtx := Env.update globals ctx
    match newCtx.find? (fun kv => !identOk kv.1) with
    | some _ => xerr "context-key is not a valid identifier"
    | none =>
      -- the exported macros of the template and of every template it extends (fix D66)
      let chain := chainOf st.cs.tpls (st.cs.tpls.size + 1) ti
      match newCtx.find? (fun kv => chain.any fun i => ((st.cs.tpls[i]!).exported.lookup kv.1).isSome) with
      | some _ => xerr "context key name clashes with macro"
      | none =>
        let root := st.cs.tpls[chain.headD ti]!
        -- a new ExecutionContext: the per-execution state of cycle/ifchanged starts empty
        -- and the state of the surrounding execution is untouched
        let saved ← get
        modify fun s => { s with cycle := [], changedV := [], changedC := [] }
        let restore : XM Unit := modify fun s => { s with cycle := saved.cycle, changedV := saved.changedV, changedC := saved.changedC }
        try
          withFrame { id := 0, priv := [(b!"pongo2", metaCtx)], pub := newCtx, autoescape := cfg.autoescape, macroDepth := 0,
                      chain := chain, called := ti } (execNodes fuel root.nodes)
          restore
        catch e =>
          restore
          throw e

end

end Pongo

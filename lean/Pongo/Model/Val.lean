/-
  Model of value.go: the value universe and the operations of `*pongo2.Value`.

  A Go `*Value` is a `reflect.Value` plus the `safe` flag; the model's `Val` is
  the `reflect.Value` part (what the caller's context can hold, see DESIGN.md
  §3.2 "value universe"), and `V` pairs it with the flag.
-/
import Pongo.Bytes

namespace Pongo

/-- The universe of context values.  Constructors mirror the reflect kinds the
    code distinguishes. -/
inductive Val
  | nil                                             -- invalid reflect.Value (nil interface)
  | bool (b : Bool)
  | int (i : Int64)                                 -- int, int8 … int64 (as int64)
  | uint (u : UInt64)                               -- uint, uint8 … uint64
  | float (f : Float)                               -- float32/float64 (as float64)
  | str (s : Bytes)                                 -- string kind
  | list (ty : Bytes) (xs : List Val)               -- slice; ty = Go type string, e.g. "[]int"
  | arr (ty : Bytes) (xs : List Val)                -- array value, ty e.g. "[3]int" (not addressable when reached through an interface)
  | smap (ty : Bytes) (kvs : List (Bytes × Val))    -- map[string]T
  | imap (ty : Bytes) (kvs : List (Int64 × Val))    -- map[int]T
  | struct (tname : Bytes) (fields : List (Bytes × Val)) (priv : List Bytes)
                                                    -- struct value: exported fields, names of unexported fields
  | ptr (v : Val)                                   -- non-nil pointer
  | nilptr                                          -- typed nil pointer
  | boxed (v : Val) (safe : Bool)                   -- a *pongo2.Value held as a value (set/with/for bindings, AsSafeValue from Go code)
  | stringer (inner : Val) (text : Bytes)           -- a value whose type has a String() method returning `text`; kind = inner's
  | func (id : Nat)                                 -- a context function (behaviour table in the world)
  | closure (frame : Nat) (idx : Nat) (guarded : Bool)-- closure created by the macro / import tag
  | blockinfo (frame : Nat) (name : Bytes) (level : Nat) -- tagBlockInformation
  | cycleval (node : Nat) (v : Val) (safe : Bool)   -- *tagCycleValue
  deriving Inhabited

/-- evaluated value: reflect part + safe flag -/
structure V where
  v    : Val
  safe : Bool := false
  deriving Inhabited

namespace Val

/-- `getResolvedValue`: one pointer dereference -/
def resolved : Val → Val
  | ptr v => v
  | nilptr => nil
  | stringer (ptr v) _ => v
  | v => v

/-- the resolver's `for current.Type() == typeOfValuePtr` loop: a `*Value` holding a `*Value`
    again (loop variable of a `for` over a list literal) is unpacked down to its content; the
    innermost box's safe flag is the one kept -/
def unboxAll : Val → Bool → Val × Bool
  | boxed inner s, _ => unboxAll inner s
  | v, s => (v, s)

/-- what reflection sees: pointers followed and a named type's methods forgotten -/
def reflected (v : Val) : Val :=
  match v.resolved with
  | stringer i _ => i
  | w => w

/-- reflect kind classes used by the code -/
inductive Kind
  | invalid | bool | int | uint | float | string | slice | array | map | struct | ptr | func | other
  deriving DecidableEq, Repr

def kind : Val → Kind
  | nil => .invalid | bool _ => .bool | int _ => .int | uint _ => .uint | float _ => .float
  | str _ => .string | list .. => .slice | arr .. => .array | smap .. => .map | imap .. => .map
  | struct .. => .struct | ptr _ => .ptr | nilptr => .ptr
  | boxed .. => .ptr            -- *Value is a pointer to a struct
  | stringer i _ => kind i
  | func _ => .func | closure .. => .func
  | blockinfo .. => .struct
  | cycleval .. => .ptr

/-- kind after `getResolvedValue` -/
def rkind : Val → Kind
  | ptr v => kind v
  | nilptr => .invalid
  | boxed .. => .struct
  | cycleval .. => .struct
  | stringer (ptr v) _ => kind v
  | v => kind v

def isString (v : Val) : Bool := v.rkind = .string
/-- `v.Interface().(fmt.Stringer)` succeeds (`*Value` and `*tagCycleValue` have a `String` method) -/
def isStringer : Val → Bool
  | stringer .. => true
  | ptr (stringer ..) => true
  | boxed .. => true
  | cycleval .. => true
  | _ => false
def isBool (v : Val) : Bool := v.rkind = .bool
def isFloat (v : Val) : Bool := v.rkind = .float
def isInteger (v : Val) : Bool := v.rkind = .int || v.rkind = .uint
def isNumber (v : Val) : Bool := v.isInteger || v.isFloat
def isNil (v : Val) : Bool := v.rkind = .invalid

end Val

/-! ### number formatting and parsing -/

/-- `strconv.FormatInt(i, 10)` -/
def fmtInt (i : Int64) : Bytes := (toString i.toInt).toUTF8.toList

def fmtUInt (u : UInt64) : Bytes := (toString u.toNat).toUTF8.toList

def padLeft (n : Nat) (c : UInt8) (s : Bytes) : Bytes := List.replicate (n - s.length) c ++ s

/-- exact `%.{prec}f` of a non-negative rational `m / 2^k` (k ≥ 0) or `m * 2^e`;
    round half to even on the exact binary value, as `strconv` does -/
def fmtFixedExact (m : Nat) (e : Int) (prec : Nat) : Bytes :=
  let scale := 10 ^ prec
  let q : Nat :=
    if e ≥ 0 then m * 2 ^ e.toNat * scale
    else
      let d := 2 ^ (-e).toNat
      let n := m * scale
      let q0 := n / d
      let r := n % d
      if 2 * r > d then q0 + 1
      else if 2 * r < d then q0
      else if q0 % 2 = 1 then q0 + 1 else q0
  let ip := q / scale
  let fp := q % scale
  if prec = 0 then Bytes.decimal ip
  else Bytes.decimal ip ++ [0x2e] ++ padLeft prec 0x30 (Bytes.decimal fp)

/-- `strconv.FormatFloat(f, 'f', prec, 64)` / `fmt.Sprintf("%.{prec}f", f)` -/
def fmtFloatPrec (f : Float) (prec : Nat) : Bytes :=
  if f.isNaN then b!"NaN"
  else
    let bits := f.toBits
    let neg := bits >>> 63 != 0
    let ex := ((bits >>> 52) &&& 0x7ff).toNat
    let man := (bits &&& 0xfffffffffffff).toNat
    if ex = 0x7ff then (if neg then b!"-Inf" else b!"+Inf")
    else
      let (m, e) : Nat × Int := if ex = 0 then (man, -1074) else (man + 2 ^ 52, (ex : Int) - 1075)
      (if neg then [0x2d] else []) ++ fmtFixedExact m e prec

/-- `fmt.Sprintf("%f", f)` -/
def fmtFloat (f : Float) : Bytes := fmtFloatPrec f 6

def isDigit (c : UInt8) : Bool := 0x30 ≤ c && c ≤ 0x39

def digitsVal (ds : Bytes) : Nat := ds.foldl (fun a c => a * 10 + (c.toNat - 48)) 0

/-- `strconv.Atoi` on a run of ASCII digits (the only input the parser gives it):
    `none` on overflow of int64 or empty input -/
def atoi (ds : Bytes) : Option Int64 :=
  if ds = [] || !ds.all isDigit then none
  else
    let n := digitsVal ds
    if n < 2 ^ 63 then some (Int64.ofNat n) else none

/-- Decimal subset of `strconv.ParseFloat(s, 64)`: `[+-]? digits [. digits] [(e|E) [+-]? digits]`,
    also `.5` and `5.`; anything else (incl. hex floats, underscores, inf/nan
    spellings) is reported as `none` — generators stay inside this subset. -/
def parseFloat (s : Bytes) : Option Float :=
  let (neg, s) := match s with
    | 0x2d :: t => (true, t)
    | 0x2b :: t => (false, t)
    | _ => (false, s)
  let ip := s.takeWhile isDigit
  let r := s.dropWhile isDigit
  let (fp, r, hasDot) := match r with
    | 0x2e :: t => (t.takeWhile isDigit, t.dropWhile isDigit, true)
    | _ => ([], r, false)
  if ip = [] && fp = [] then none
  else
    let _ := hasDot
    let expo : Option (Int × Bytes) := match r with
      | c :: t =>
        if c = 0x65 || c = 0x45 then
          let (eneg, t) := match t with
            | 0x2d :: u => (true, u)
            | 0x2b :: u => (false, u)
            | _ => (false, t)
          let ed := t.takeWhile isDigit
          if ed = [] then none
          else some ((if eneg then -(digitsVal ed : Int) else (digitsVal ed : Int)), t.dropWhile isDigit)
        else some (0, c :: t)
      | [] => some (0, [])
    match expo with
    | none => none
    | some (ex, rest) =>
      if rest ≠ [] then none
      else
        let mant := digitsVal (ip ++ fp)
        let e10 : Int := ex - fp.length
        let f := if e10 ≥ 0 then Float.ofScientific (mant * 10 ^ e10.toNat) false 0
                 else Float.ofScientific mant true (-e10).toNat
        some (if neg then -f else f)

/-- Go's `int(f)` on amd64: truncation; out-of-range and NaN give MinInt64 -/
def floatToInt (f : Float) : Int64 :=
  if f.isNaN || f ≥ 9223372036854775808.0 || f < -9223372036854775808.0 then Int64.minValue
  else f.toInt64

/-! ### `Value` methods -/

namespace Val

/-- `Value.Integer()` -/
def toInt (v : Val) : Int64 :=
  match v.resolved with
  | int i => i
  | uint u => u.toInt64
  | float f => floatToInt f
  | str s => match parseFloat s with
    | some f => floatToInt f
    | none => 0
  | stringer i _ => match i with
    | int i => i | uint u => u.toInt64 | float f => floatToInt f
    | str s => (match parseFloat s with | some f => floatToInt f | none => 0)
    | _ => 0
  | _ => 0

/-- `Value.Float()` -/
def toFloat (v : Val) : Float :=
  match v.resolved with
  | int i => Float.ofInt i.toInt
  | uint u => Float.ofNat u.toNat
  | float f => f
  | str s => (parseFloat s).getD 0.0
  | stringer i _ => match i with
    | int i => Float.ofInt i.toInt | uint u => Float.ofNat u.toNat | float f => f
    | str s => (parseFloat s).getD 0.0
    | _ => 0.0
  | _ => 0.0

/-- `Value.String()`.  `boxed`/`cycleval` are `fmt.Stringer`s whose text is
    the inner value's (fuel bounds the nesting of boxes). -/
def toStr : Nat → Val → Bytes
  | 0, _ => []
  | fuel+1, v =>
    if v.isNil then []
    else match v with
    | stringer _ t => t
    | ptr (stringer _ t) => t
    | boxed i _ => toStr fuel i
    | cycleval _ i _ => toStr fuel i
    | _ => match v.resolved with
      | str s => s
      | int i => fmtInt i
      | uint u => fmtUInt u
      | float f => fmtFloat f
      | bool true => b!"True"
      | bool false => b!"False"
      | list ty _ => b!"<" ++ ty ++ b!" Value>"
      | arr ty _ => b!"<" ++ ty ++ b!" Value>"
      | smap ty _ => b!"<" ++ ty ++ b!" Value>"
      | imap ty _ => b!"<" ++ ty ++ b!" Value>"
      | struct n _ _ => b!"<" ++ n ++ b!" Value>"
      | func _ => b!"<func Value>"
      | closure .. => b!"<func Value>"
      | blockinfo .. => b!"<pongo2.tagBlockInformation Value>"
      | _ => []

def toS (v : Val) : Bytes := toStr 8 v

/-- number of runes of a byte string = bytes that are not UTF-8 continuation
    bytes **for valid UTF-8**; for invalid input Go counts one rune per bad
    byte — see `Utf8.runeCount` (used by the model) -/
def continuation (c : UInt8) : Bool := c &&& 0xc0 == 0x80

end Val

/-! ### UTF-8 (mirror of `unicode/utf8.DecodeRuneInString`) -/

namespace Utf8

/-- decode one rune: `(rune, width)`; invalid or short sequences give
    `(0xFFFD, 1)` as Go does -/
def decode : Bytes → Nat × Nat
  | [] => (0xFFFD, 0)
  | c0 :: t =>
    let x := c0.toNat
    if x < 0x80 then (x, 1)
    else if x < 0xC2 then (0xFFFD, 1)
    else if x < 0xE0 then
      match t with
      | c1 :: _ => if Val.continuation c1 then ((x &&& 0x1f) <<< 6 ||| (c1.toNat &&& 0x3f), 2) else (0xFFFD, 1)
      | _ => (0xFFFD, 1)
    else if x < 0xF0 then
      match t with
      | c1 :: c2 :: _ =>
        let lo : Nat := if x = 0xE0 then 0xA0 else 0x80
        let hi : Nat := if x = 0xED then 0x9F else 0xBF
        if lo ≤ c1.toNat && c1.toNat ≤ hi && Val.continuation c2 then
          ((x &&& 0x0f) <<< 12 ||| (c1.toNat &&& 0x3f) <<< 6 ||| (c2.toNat &&& 0x3f), 3)
        else (0xFFFD, 1)
      | _ => (0xFFFD, 1)
    else if x < 0xF5 then
      match t with
      | c1 :: c2 :: c3 :: _ =>
        let lo : Nat := if x = 0xF0 then 0x90 else 0x80
        let hi : Nat := if x = 0xF4 then 0x8F else 0xBF
        if lo ≤ c1.toNat && c1.toNat ≤ hi && Val.continuation c2 && Val.continuation c3 then
          ((x &&& 0x07) <<< 18 ||| (c1.toNat &&& 0x3f) <<< 12 ||| (c2.toNat &&& 0x3f) <<< 6 ||| (c3.toNat &&& 0x3f), 4)
        else (0xFFFD, 1)
      | _ => (0xFFFD, 1)
    else (0xFFFD, 1)

theorem decode_width_pos (c : UInt8) (t : Bytes) : 0 < (decode (c :: t)).2 := by
  unfold decode
  simp only
  repeat (first | split | omega | simp)

theorem decode_width_le (s : Bytes) : (decode s).2 ≤ s.length := by
  unfold decode
  split
  · simp
  · simp only
    repeat (first | split | (simp only [List.length_cons]; omega) | simp)

/-- `utf8.EncodeRune` / `string(rune)`; surrogates and out-of-range → U+FFFD -/
def encode (r : Nat) : Bytes :=
  let r := if r > 0x10FFFF || (0xD800 ≤ r && r ≤ 0xDFFF) then 0xFFFD else r
  if r < 0x80 then [UInt8.ofNat r]
  else if r < 0x800 then [UInt8.ofNat (0xC0 ||| r >>> 6), UInt8.ofNat (0x80 ||| r &&& 0x3f)]
  else if r < 0x10000 then
    [UInt8.ofNat (0xE0 ||| r >>> 12), UInt8.ofNat (0x80 ||| (r >>> 6) &&& 0x3f), UInt8.ofNat (0x80 ||| r &&& 0x3f)]
  else
    [UInt8.ofNat (0xF0 ||| r >>> 18), UInt8.ofNat (0x80 ||| (r >>> 12) &&& 0x3f),
     UInt8.ofNat (0x80 ||| (r >>> 6) &&& 0x3f), UInt8.ofNat (0x80 ||| r &&& 0x3f)]

/-- `[]rune(s)` -/
def runes (s : Bytes) : List Nat :=
  go s s.length
where
  go : Bytes → Nat → List Nat
  | [], _ => []
  | _, 0 => []
  | c :: t, fuel+1 =>
    let d := decode (c :: t)
    d.1 :: go ((c :: t).drop d.2) fuel

/-- `string([]rune)` -/
def ofRunes (rs : List Nat) : Bytes := rs.flatMap encode

/-- the byte slices of the runes of `s` as Go's `for _, c := range s { string(c) }` yields them -/
def runeStrings (s : Bytes) : List Bytes := (runes s).map encode

end Utf8

namespace Val

/-- `Value.Len()` -/
def len (v : Val) : Nat :=
  match v.resolved with
  | list _ xs => xs.length
  | arr _ xs => xs.length
  | smap _ kvs => kvs.length
  | imap _ kvs => kvs.length
  | str s => (Utf8.runes s).length
  | stringer (str s) _ => (Utf8.runes s).length
  | stringer (list _ xs) _ => xs.length
  | _ => 0

/-- `Value.IsTrue()` -/
def isTrue (v : Val) : Bool :=
  match v.resolved with
  | int i => i != 0
  | uint u => u != 0
  | float f => f != 0.0
  | list _ xs => xs.length > 0
  | arr _ xs => xs.length > 0
  | smap _ kvs => kvs.length > 0
  | imap _ kvs => kvs.length > 0
  | str s => s.length > 0
  | bool b => b
  | struct .. => true
  | boxed .. => true            -- *Value resolves to the struct Value
  | cycleval .. => true
  | blockinfo .. => true
  | stringer i _ => (match i with
    | int i => i != 0 | uint u => u != 0 | float f => f != 0.0 | str s => s.length > 0
    | bool b => b | struct .. => true | list _ xs => xs.length > 0 | _ => false)
  | _ => false

/-- `Value.Negate()` -/
def negate (v : Val) : Val :=
  match v.rkind with
  | .int | .uint => if v.toInt != 0 then int 0 else int 1
  | .float => if v.toFloat != 0.0 then float 0.0 else float 1.1
  | .array | .map | .slice | .string =>
    bool (match v.resolved with
      | str s => s.length == 0
      | stringer (str s) _ => s.length == 0
      | r => r.len == 0)
  | .bool => (match v.resolved with
    | bool b => bool (!b) | stringer (bool b) _ => bool (!b) | _ => bool true)
  | .struct => bool false
  | _ => bool true

/-- `Value.CanSlice()` -/
def canSlice (v : Val) : Bool := v.rkind = .array || v.rkind = .slice || v.rkind = .string

end Val
end Pongo

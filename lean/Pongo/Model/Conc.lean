/-
  A small interleaving model for C05/C20: threads are deterministic state
  machines that interact only through a shared memory; one step of one thread
  is atomic; a schedule is a list of thread indices.
-/
namespace Pongo.Conc

variable {Loc Val σ : Type}

/-- one step of a thread: new local state and, possibly, one write to shared memory -/
structure Thread (Loc Val σ : Type) where
  step : σ → (Loc → Val) → σ × Option (Loc × Val)

structure Config (Loc Val σ : Type) where
  mem    : Loc → Val
  locals : List σ

def writeMem [DecidableEq Loc] (m : Loc → Val) (w : Option (Loc × Val)) : Loc → Val :=
  match w with
  | none => m
  | some (l, v) => fun x => if x = l then v else m x

/-- thread `i` takes one step -/
def stepThread [DecidableEq Loc] (ts : List (Thread Loc Val σ)) (c : Config Loc Val σ) (i : Nat) : Config Loc Val σ :=
  match ts[i]?, c.locals[i]? with
  | some t, some s =>
    let r := t.step s c.mem
    { mem := writeMem c.mem r.2, locals := c.locals.set i r.1 }
  | _, _ => c

def runSchedule [DecidableEq Loc] (ts : List (Thread Loc Val σ)) (c : Config Loc Val σ) : List Nat → Config Loc Val σ
  | [] => c
  | i :: rest => runSchedule ts (stepThread ts c i) rest

/-- a thread that never writes shared memory -/
def ReadOnly (t : Thread Loc Val σ) : Prop := ∀ s m, (t.step s m).2 = none

/-- thread `i` running alone for `n` steps on a fixed memory -/
def runAlone (t : Thread Loc Val σ) (m : Loc → Val) : Nat → σ → σ
  | 0, s => s
  | n+1, s => runAlone t m n (t.step s m).1

end Pongo.Conc

/-
  Model of lexer.go.

  The Go lexer is a cursor machine (`start/pos/width`, `line/col`,
  `startline/startcol`) stepping by runes.  The model steps by *bytes* over a
  `List UInt8`; this is observationally the same because every test the lexer
  performs is on an ASCII byte and columns count bytes (DESIGN.md §5.1, checked
  by the `c06-lex`/`c16-lex` correspondence suites over an alphabet containing
  multi-byte and invalid UTF-8 bytes).

  All tables come from `LexTables`, which `tools/extract` regenerates from
  lexer.go on every run (`Pongo/Gen/LexTables.lean`).
-/
import Pongo.Bytes

namespace Pongo

structure LexTables where
  symbols         : List Bytes
  keywords        : List Bytes
  space           : Bytes
  identChars      : Bytes
  identDigitChars : Bytes
  digits          : Bytes
  quotes          : Bytes
  /-- symbols after which `stateCode` returns (`%}`, `-%}`, `}}`, `-}}`) -/
  enders          : List Bytes
  /-- the byte whose rune value equals the value `next()` returns at end of
      input (`none` if that value is not a valid single-byte rune) -/
  eofByte         : Option UInt8
  verbStart       : Bytes
  verbEnd         : Bytes
  /-- widths the code adds to `pos`/`col` after matching the markers -/
  verbStartW      : Nat
  verbEndW        : Nat
  commentOpen     : Bytes
  commentClose    : Bytes
  /-- openers that make `run` call `tokenize` -/
  openers         : List Bytes

inductive TokTyp
  | html | keyword | ident | str | num | sym
  deriving DecidableEq, Repr, Inhabited

structure Tok where
  typ  : TokTyp
  val  : Bytes
  line : Nat
  col  : Nat
  trim : Bool
  /-- ghost: byte offset of the first byte of the token's source text -/
  off  : Nat
  deriving DecidableEq, Repr, Inhabited

inductive LexErrKind
  | commentNotClosed | commentNewline | tagNewline
  | badEscape | stringEOF | stringNewline | verbatimNotClosed
  deriving DecidableEq, Repr

structure LexErr where
  kind : LexErrKind
  line : Nat
  col  : Nat
  off  : Nat
  deriving DecidableEq, Repr

structure Pos where
  line : Nat
  col  : Nat
  off  : Nat
  deriving DecidableEq, Repr

def Pos.adv (p : Pos) (n : Nat) : Pos := { p with col := p.col + n, off := p.off + n }

def Pos.init : Pos := ⟨1, 1, 0⟩

/-- the text loop's bookkeeping for one byte: `case '\n': line++; col = 0` then `next()` -/
def Pos.step (p : Pos) (c : UInt8) : Pos :=
  if c = 0x0a then ⟨p.line + 1, 1, p.off + 1⟩ else ⟨p.line, p.col + 1, p.off + 1⟩

/-! ### strings -/

inductive StrRes
  | ok (raw : Bytes) (rest : Bytes)
  | err (k : LexErrKind)

/-- `stateString` after the opening quote.  `acc` is the reversed raw content. -/
def scanStr (eof : Option UInt8) (q : UInt8) : Bytes → Bytes → StrRes
  | [], _ => .err .stringEOF
  | c :: t, acc =>
    if c = q then .ok acc.reverse t
    else if c = 0x5c then
      match t with
      | d :: t' =>
        if d = 0x22 ∨ d = 0x5c then scanStr eof q t' (d :: c :: acc) else .err .badEscape
      | [] => .err .badEscape
    else if some c = eof then .err .stringEOF
    else if c = 0x0a then .err .stringNewline
    else scanStr eof q t (c :: acc)

theorem scanStr_rest_lt (eof : Option UInt8) (q : UInt8) (s acc : Bytes) :
    ∀ raw rest, scanStr eof q s acc = .ok raw rest → rest.length < s.length := by
  fun_induction scanStr eof q s acc <;> intro raw rest h
  all_goals first
    | (cases h; done)
    | (cases h; simp; done)
    | (rename_i ih; have := ih raw rest h; simp only [List.length_cons]; omega)

theorem dw_le (p : UInt8 → Bool) (l : Bytes) : (l.dropWhile p).length ≤ l.length :=
  (List.dropWhile_sublist p).length_le

/-- `strings.ContainsRune(set, c)` for an ASCII set -/
def mem (set : Bytes) (c : UInt8) : Bool := set.elem c

/-- `emit(TokenString)`: `\"` → `"` first, then `\\` → `\` -/
def unescapeStr (raw : Bytes) : Bytes :=
  Bytes.replaceAll [0x5c, 0x5c] [0x5c] (Bytes.replaceAll [0x5c, 0x22] [0x22] raw)

/-! ### tokenize -/

inductive TokzRes
  | ok (toks : List Tok) (rest : Bytes) (pos : Pos)
  | err (e : LexErr)

def firstSym (syms : List Bytes) (s : Bytes) : Option Bytes :=
  syms.find? (fun sym => sym ≠ [] && sym.isPrefixOf s)

/-- `emit(TokenSymbol)` -/
def mkSym (sym : Bytes) (p : Pos) : Tok :=
  if sym.length = 3 ∧ (Bytes.hasSuffix sym [0x2d] ∨ Bytes.hasPrefix sym [0x2d]) then
    ⟨.sym, sym.filter (· ≠ 0x2d), p.line, p.col, true, p.off⟩
  else ⟨.sym, sym, p.line, p.col, false, p.off⟩

def mkWord (T : LexTables) (v : Bytes) (p : Pos) : Tok :=
  ⟨if T.keywords.elem v then .keyword else .ident, v, p.line, p.col, false, p.off⟩

theorem firstSym_some {syms : List Bytes} {s sym : Bytes} (h : firstSym syms s = some sym) :
    sym ≠ [] ∧ sym.isPrefixOf s = true := by
  have := List.find?_some h
  simpa using this

/-- `stateCode` with `stateIdentifier`, `stateNumber`, `stateString` inlined.
    `acc` holds the tokens emitted so far, newest first. -/
def stateCode (T : LexTables) (s : Bytes) (p : Pos) (acc : List Tok) : TokzRes :=
  match s with
  | [] => .ok acc [] p
  | c :: t =>
    if mem T.space c then
      if c = 0x0a then .err ⟨.tagNewline, p.line, p.col, p.off⟩
      else stateCode T t (p.adv 1) acc
    else if mem T.identChars c then
      let t1 := t.dropWhile (mem T.identChars)
      let t2 := t1.dropWhile (mem T.identDigitChars)
      let v := c :: (t.takeWhile (mem T.identChars) ++ t1.takeWhile (mem T.identDigitChars))
      stateCode T t2 (p.adv v.length) (mkWord T v p :: acc)
    else if mem T.digits c then
      let ds := t.takeWhile (mem T.digits)
      match h0 : t.dropWhile (mem T.digits) with
      | d :: t0' =>
        if mem T.identDigitChars d then
          let t1 := t0'.dropWhile (mem T.identChars)
          let t2 := t1.dropWhile (mem T.identDigitChars)
          let v := c :: (ds ++ d :: (t0'.takeWhile (mem T.identChars) ++ t1.takeWhile (mem T.identDigitChars)))
          stateCode T t2 (p.adv v.length) (mkWord T v p :: acc)
        else
          stateCode T (d :: t0') (p.adv (ds.length + 1)) (⟨.num, c :: ds, p.line, p.col, false, p.off⟩ :: acc)
      | [] => .ok (⟨.num, c :: ds, p.line, p.col, false, p.off⟩ :: acc) [] (p.adv (ds.length + 1))
    else if mem T.quotes c then
      match h : scanStr T.eofByte c t [] with
      | .ok raw rest =>
        stateCode T rest (p.adv (raw.length + 2)) (⟨.str, unescapeStr raw, p.line, p.col, false, p.off⟩ :: acc)
      | .err k => .err ⟨k, p.line, p.col, p.off⟩
    else
      match h : firstSym T.symbols (c :: t) with
      | some sym =>
        if T.enders.elem sym then
          .ok (mkSym sym p :: acc) ((c :: t).drop sym.length) (p.adv sym.length)
        else
          stateCode T ((c :: t).drop sym.length) (p.adv sym.length) (mkSym sym p :: acc)
      | none => .ok acc (c :: t) p
termination_by s.length
decreasing_by
  · simp only [List.length_cons]; omega
  · have h1 := dw_le (mem T.identChars) t
    have h2 := dw_le (mem T.identDigitChars) (t.dropWhile (mem T.identChars))
    simp only [List.length_cons]; omega
  · have h1 := dw_le (mem T.identChars) t0'
    have h2 := dw_le (mem T.identDigitChars) (t0'.dropWhile (mem T.identChars))
    have h0 := h0 ▸ dw_le (mem T.digits) t
    simp only [List.length_cons] at h0 ⊢; omega
  · have h0 := h0 ▸ dw_le (mem T.digits) t
    simp only [List.length_cons] at h0 ⊢; omega
  · have := scanStr_rest_lt _ _ _ _ _ _ h
    simp only [List.length_cons]; omega
  · have ⟨hne, _⟩ := firstSym_some h
    cases sym with
    | nil => exact absurd rfl hne
    | cons a as => simp only [List.length_cons, List.drop_succ_cons, List.length_drop]; omega

/-! ### run -/

structure RunSt where
  pos    : Pos
  start  : Pos
  /-- bytes of `input[start:pos]`, newest first -/
  pend   : Bytes
  /-- tokens emitted so far, newest first -/
  toks   : List Tok
  inVerb : Bool

inductive LexRes
  | ok (toks : List Tok)
  | err (e : LexErr)
  /-- the Go code would not terminate (tokenize consumed nothing); unreachable
      for well-formed tables (`lex_never_hangs`) -/
  | hang
  deriving Repr, DecidableEq

/-- `if l.pos > l.start { l.emit(TokenHTML) }` -/
def RunSt.flush (st : RunSt) : RunSt :=
  if st.pend = [] then { st with start := st.pos }
  else { st with toks := ⟨.html, st.pend.reverse, st.start.line, st.start.col, false, st.start.off⟩ :: st.toks,
                 pend := [], start := st.pos }

/-- skip `n` bytes without looking at them (`l.pos += w; l.col += w; l.ignore()`) -/
def RunSt.skip (st : RunSt) (n : Nat) : RunSt :=
  { st with pos := st.pos.adv n, start := st.pos.adv n, pend := [] }

inductive CommentRes
  | ok (rest : Bytes) (consumed : Nat)
  | err (k : LexErrKind)

/-- the `{# … #}` loop, after `{#` was passed; `n` counts the bytes consumed so far -/
def scanComment (eof : Option UInt8) (close : Bytes) : Bytes → Nat → CommentRes
  | [], _ => .err .commentNotClosed
  | c :: t, n =>
    if some c = eof then .err .commentNotClosed
    else if c = 0x0a then .err .commentNewline
    else if close.isPrefixOf (c :: t) then .ok ((c :: t).drop close.length) (n + close.length)
    else scanComment eof close t (n + 1)

/-- the end of `run`: final HTML token and the unclosed-verbatim test -/
def finish (st : RunSt) : LexRes :=
  let st' := st.flush
  if st'.inVerb then .err ⟨.verbatimNotClosed, st'.start.line, st'.start.col, st'.start.off⟩
  else .ok st'.toks.reverse

def isOpener (T : LexTables) (rest : Bytes) : Bool := T.openers.any (·.isPrefixOf rest)

/-- `run`: one call is one iteration of the Go `for` loop; a recursive call is
    `continue`. -/
def run (T : LexTables) (rest : Bytes) (st : RunSt) : LexRes :=
  if st.inVerb && T.verbEnd.isPrefixOf rest then
    -- end of a verbatim block: emit the body, skip the marker, `continue`
    if (rest.drop T.verbEndW).length < rest.length then
      run T (rest.drop T.verbEndW) { (st.flush.skip T.verbEndW) with inVerb := false }
    else .hang
  else if !st.inVerb && T.verbStart.isPrefixOf rest then
    if (rest.drop T.verbStartW).length < rest.length then
      run T (rest.drop T.verbStartW) { (st.flush.skip T.verbStartW) with inVerb := true }
    else .hang
  else if !st.inVerb && T.commentOpen.isPrefixOf rest then
    match scanComment T.eofByte T.commentClose (rest.drop T.commentOpen.length) T.commentOpen.length with
    | .ok rest2 n =>
      if rest2.length < rest.length then run T rest2 (st.flush.skip n) else .hang
    | .err k => .err ⟨k, st.flush.start.line, st.flush.start.col, st.flush.start.off⟩
  else if !st.inVerb && isOpener T rest then
    match stateCode T rest st.flush.pos st.flush.toks with
    | .ok toks rest2 pos =>
      if rest2.length < rest.length then
        run T rest2 { st.flush with pos := pos, start := pos, pend := [], toks := toks }
      else .hang
    | .err e => .err e
  else
    match rest with
    | [] => finish st
    | c :: t =>
      if some c = T.eofByte then finish { st with pos := st.pos.step c, pend := c :: st.pend }
      else run T t { st with pos := st.pos.step c, pend := c :: st.pend }
termination_by rest.length
decreasing_by
  all_goals first
    | assumption
    | (simp only [List.length_cons]; omega)

def RunSt.init : RunSt := ⟨Pos.init, Pos.init, [], [], false⟩

/-- `lex(name, input)` -/
def lex (T : LexTables) (s : Bytes) : LexRes := run T s RunSt.init

end Pongo

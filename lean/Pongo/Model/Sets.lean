/-
  Model of template_sets.go's sandbox state machine: BanTag / BanFilter and
  the "first template created" latch.
-/
import Pongo.Model.ParseDoc

namespace Pongo

structure BanState where
  bannedTags    : List Bytes := []
  bannedFilters : List Bytes := []
  frozen        : Bool := false        -- firstTemplateCreated
  deriving DecidableEq, Repr

inductive BanOp
  | banTag (n : Bytes)
  | banFilter (n : Bytes)
  | create                              -- any of FromString/FromBytes/FromFile/FromCache(miss)/RenderTemplate*
  deriving DecidableEq, Repr

/-- result of one call: `true` = returned nil (success) -/
def banStep (regTags regFilters : List Bytes) (s : BanState) : BanOp → BanState × Bool
  | .banTag n =>
    if !regTags.elem n then (s, false)
    else if s.frozen then (s, false)
    else if s.bannedTags.elem n then (s, false)
    else ({ s with bannedTags := s.bannedTags ++ [n] }, true)
  | .banFilter n =>
    if !regFilters.elem n then (s, false)
    else if s.frozen then (s, false)
    else if s.bannedFilters.elem n then (s, false)
    else ({ s with bannedFilters := s.bannedFilters ++ [n] }, true)
  | .create => ({ s with frozen := true }, true)

/-- run a history; returns the final state and each call's success flag -/
def banRun (regTags regFilters : List Bytes) : BanState → List BanOp → BanState × List Bool
  | s, [] => (s, [])
  | s, op :: rest =>
    let r := banStep regTags regFilters s op
    let rr := banRun regTags regFilters r.1 rest
    (rr.1, r.2 :: rr.2)


/-! ### the template cache (`FromCache`, `CleanCache`, `Debug`) -/

/-- a loader behind the first one (`AddLoader`): it resolves names under its own base directory -/
structure Loader where
  base  : Bytes := []
  files : List (Bytes × Bytes) := []
  deriving DecidableEq, Repr

/-- such a loader's `Abs("", name)`: a rooted name as it is, any other under the base directory -/
def Loader.abs (l : Loader) (n : Bytes) : Bytes :=
  if l.base = [] then Path.abs [] n else if Path.isAbs n then Path.clean n else Path.join2 l.base n

structure CacheState where
  cache   : List (Bytes × Nat) := []      -- templateCache: resolved name ↦ template identity
  debug   : Bool := false
  files   : List (Bytes × Bytes) := []    -- what the first loader serves (mutable: "the file's content changed")
  more    : List Loader := []             -- the loaders added behind it, in order
  nextId  : Nat := 0                      -- identities of templates created so far
  fetches : List Bytes := []              -- every loader Get, in order
  deriving DecidableEq, Repr

inductive CacheOp
  | fromCache (n : Bytes)
  | cleanAll
  | clean (ns : List Bytes)
  | setDebug (b : Bool)
  | setFile (n : Bytes) (content : Option Bytes)     -- none = delete
  | addLoader (base : Bytes)                         -- `set.AddLoader(l)`
  | setFileIn (i : Nat) (n : Bytes) (content : Option Bytes)   -- in the i-th added loader
  deriving DecidableEq, Repr

/-- outcome of one call: the template identity returned, or an error -/
inductive CacheRes
  | tpl (id : Nat)
  | err
  | unit
  deriving DecidableEq, Repr

/-- does this content compile?  (the harness uses the marker `{% if %}` for a
    file that fails to compile) -/
def compiles (content : Bytes) : Bool := !(Bytes.contains content b!"{% if %}")

/-- `resolveTemplate`'s loop over the added loaders: each is asked for the name as *it* resolves
    it; the first that has it wins; returns the content and the names asked for, in order -/
def tryMore (name : Bytes) : List Loader → Option Bytes × List Bytes
  | [] => (none, [])
  | l :: rest =>
    match l.files.lookup (l.abs name) with
    | some c => (some c, [l.abs name])
    | none => let r := tryMore name rest; (r.1, l.abs name :: r.2)

/-- `resolveTemplate(nil, name)`: the first loader, then the added ones -/
def findFile (s : CacheState) (name : Bytes) : Option Bytes × List Bytes :=
  match s.files.lookup (Path.abs [] name) with
  | some c => (some c, [Path.abs [] name])
  | none => let r := tryMore name s.more; (r.1, Path.abs [] name :: r.2)

/-- `set.FromFile(name)` / `set.fromFileFor(nil, name)`: the loaders are asked in order; a fresh
    template identity on success -/
def loadFile (s : CacheState) (name : Bytes) : CacheState × Option Nat :=
  let r := findFile s name
  let s1 := { s with fetches := s.fetches ++ r.2 }
  match r.1 with
  | none => (s1, none)
  | some c => if compiles c then ({ s1 with nextId := s1.nextId + 1 }, some s1.nextId) else (s1, none)

def cacheStep (s : CacheState) : CacheOp → CacheState × CacheRes
  | .fromCache n =>
    if s.debug then
      match loadFile s n with
      | (s', some id) => (s', .tpl id)
      | (s', none) => (s', .err)
    else
      -- the key is the first loader's resolution; on a miss every loader resolves the given name
      let key := Path.abs [] n
      match s.cache.lookup key with
      | some id => (s, .tpl id)
      | none =>
        match loadFile s n with
        | (s', some id) => ({ s' with cache := s'.cache ++ [(key, id)] }, .tpl id)
        | (s', none) => (s', .err)
  | .cleanAll => ({ s with cache := [] }, .unit)
  | .clean ns =>
    if ns = [] then ({ s with cache := [] }, .unit)
    else ({ s with cache := s.cache.filter fun kv => !(ns.map (Path.abs [])).elem kv.1 }, .unit)
  | .setDebug b => ({ s with debug := b }, .unit)
  | .setFile n c =>
    let key := Path.abs [] n
    let fs := s.files.filter (·.1 != key)
    ({ s with files := match c with | some c => fs ++ [(key, c)] | none => fs }, .unit)
  | .addLoader base => ({ s with more := s.more ++ [{ base := base }] }, .unit)
  | .setFileIn i n c =>
    ({ s with more := s.more.mapIdx fun j l =>
        if j = i then
          let key := l.abs n
          let fs := l.files.filter (·.1 != key)
          { l with files := match c with | some c => fs ++ [(key, c)] | none => fs }
        else l }, .unit)

def cacheRun : CacheState → List CacheOp → CacheState × List CacheRes
  | s, [] => (s, [])
  | s, op :: rest =>
    let r := cacheStep s op
    let rr := cacheRun r.1 rest
    (rr.1, r.2 :: rr.2)

/-! ### the tag / filter registries (`RegisterFilter`, `ReplaceFilter`, `RegisterTag`, `ReplaceTag`) -/

inductive RegOp
  | register (n : Bytes)
  | replace (n : Bytes)
  deriving DecidableEq, Repr

/-- the set of registered names; `true` = the call returned nil -/
def regStep (names : List Bytes) : RegOp → List Bytes × Bool
  | .register n => if names.elem n then (names, false) else (names ++ [n], true)
  | .replace n => if names.elem n then (names, true) else (names, false)

end Pongo

/-
  Model of template_sets.go's sandbox state machine: BanTag / BanFilter and
  the "first template created" latch.
-/
import Pongo.Model.ParseDoc

namespace Pongo

structure BanState where
  bannedTags    : List Bytes := []
  bannedFilters : List Bytes := []
  frozen        : Bool := false        -- firstTemplateCreated
  deriving DecidableEq, Repr

inductive BanOp
  | banTag (n : Bytes)
  | banFilter (n : Bytes)
  | create                              -- any of FromString/FromBytes/FromFile/FromCache(miss)/RenderTemplate*
  deriving DecidableEq, Repr

/-- result of one call: `true` = returned nil (success) -/
def banStep (regTags regFilters : List Bytes) (s : BanState) : BanOp → BanState × Bool
  | .banTag n =>
    if !regTags.elem n then (s, false)
    else if s.frozen then (s, false)
    else if s.bannedTags.elem n then (s, false)
    else ({ s with bannedTags := s.bannedTags ++ [n] }, true)
  | .banFilter n =>
    if !regFilters.elem n then (s, false)
    else if s.frozen then (s, false)
    else if s.bannedFilters.elem n then (s, false)
    else ({ s with bannedFilters := s.bannedFilters ++ [n] }, true)
  | .create => ({ s with frozen := true }, true)

/-- run a history; returns the final state and each call's success flag -/
def banRun (regTags regFilters : List Bytes) : BanState → List BanOp → BanState × List Bool
  | s, [] => (s, [])
  | s, op :: rest =>
    let r := banStep regTags regFilters s op
    let rr := banRun regTags regFilters r.1 rest
    (rr.1, r.2 :: rr.2)


/-! ### the template cache (`FromCache`, `CleanCache`, `Debug`) -/

structure CacheState where
  cache   : List (Bytes × Nat) := []      -- templateCache: resolved name ↦ template identity
  debug   : Bool := false
  files   : List (Bytes × Bytes) := []    -- what the loader serves (mutable: "the file's content changed")
  nextId  : Nat := 0                      -- identities of templates created so far
  fetches : List Bytes := []              -- every loader Get, in order
  deriving DecidableEq, Repr

inductive CacheOp
  | fromCache (n : Bytes)
  | cleanAll
  | clean (ns : List Bytes)
  | setDebug (b : Bool)
  | setFile (n : Bytes) (content : Option Bytes)     -- none = delete
  deriving DecidableEq, Repr

/-- outcome of one call: the template identity returned, or an error -/
inductive CacheRes
  | tpl (id : Nat)
  | err
  | unit
  deriving DecidableEq, Repr

/-- does this content compile?  (the harness uses the marker `{% if %}` for a
    file that fails to compile) -/
def compiles (content : Bytes) : Bool := !(Bytes.contains content b!"{% if %}")

/-- `set.FromFile(name)`: one fetch; a fresh template identity on success -/
def loadFile (s : CacheState) (name : Bytes) : CacheState × Option Nat :=
  let key := Path.abs [] name
  let s1 := { s with fetches := s.fetches ++ [key] }
  match s.files.lookup key with
  | none => (s1, none)
  | some c => if compiles c then ({ s1 with nextId := s1.nextId + 1 }, some s1.nextId) else (s1, none)

def cacheStep (s : CacheState) : CacheOp → CacheState × CacheRes
  | .fromCache n =>
    if s.debug then
      match loadFile s n with
      | (s', some id) => (s', .tpl id)
      | (s', none) => (s', .err)
    else
      let key := Path.abs [] n
      match s.cache.lookup key with
      | some id => (s, .tpl id)
      | none =>
        match loadFile s key with
        | (s', some id) => ({ s' with cache := s'.cache ++ [(key, id)] }, .tpl id)
        | (s', none) => (s', .err)
  | .cleanAll => ({ s with cache := [] }, .unit)
  | .clean ns =>
    if ns = [] then ({ s with cache := [] }, .unit)
    else ({ s with cache := s.cache.filter fun kv => !(ns.map (Path.abs [])).elem kv.1 }, .unit)
  | .setDebug b => ({ s with debug := b }, .unit)
  | .setFile n c =>
    let key := Path.abs [] n
    let fs := s.files.filter (·.1 != key)
    ({ s with files := match c with | some c => fs ++ [(key, c)] | none => fs }, .unit)

def cacheRun : CacheState → List CacheOp → CacheState × List CacheRes
  | s, [] => (s, [])
  | s, op :: rest =>
    let r := cacheStep s op
    let rr := cacheRun r.1 rest
    (rr.1, r.2 :: rr.2)

/-! ### the tag / filter registries (`RegisterFilter`, `ReplaceFilter`, `RegisterTag`, `ReplaceTag`) -/

inductive RegOp
  | register (n : Bytes)
  | replace (n : Bytes)
  deriving DecidableEq, Repr

/-- the set of registered names; `true` = the call returned nil -/
def regStep (names : List Bytes) : RegOp → List Bytes × Bool
  | .register n => if names.elem n then (names, false) else (names ++ [n], true)
  | .replace n => if names.elem n then (names, true) else (names, false)

end Pongo

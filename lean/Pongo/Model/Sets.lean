/-
  Model of template_sets.go's sandbox state machine: BanTag / BanFilter and
  the "first template created" latch.
-/
import Pongo.Model.ParseDoc

namespace Pongo

structure BanState where
  bannedTags    : List Bytes := []
  bannedFilters : List Bytes := []
  frozen        : Bool := false        -- firstTemplateCreated
  deriving DecidableEq, Repr

inductive BanOp
  | banTag (n : Bytes)
  | banFilter (n : Bytes)
  | create                              -- any of FromString/FromBytes/FromFile/FromCache(miss)/RenderTemplate*
  deriving DecidableEq, Repr

/-- result of one call: `true` = returned nil (success) -/
def banStep (regTags regFilters : List Bytes) (s : BanState) : BanOp → BanState × Bool
  | .banTag n =>
    if !regTags.elem n then (s, false)
    else if s.frozen then (s, false)
    else if s.bannedTags.elem n then (s, false)
    else ({ s with bannedTags := s.bannedTags ++ [n] }, true)
  | .banFilter n =>
    if !regFilters.elem n then (s, false)
    else if s.frozen then (s, false)
    else if s.bannedFilters.elem n then (s, false)
    else ({ s with bannedFilters := s.bannedFilters ++ [n] }, true)
  | .create => ({ s with frozen := true }, true)

/-- run a history; returns the final state and each call's success flag -/
def banRun (regTags regFilters : List Bytes) : BanState → List BanOp → BanState × List Bool
  | s, [] => (s, [])
  | s, op :: rest =>
    let r := banStep regTags regFilters s op
    let rr := banRun regTags regFilters r.1 rest
    (rr.1, r.2 :: rr.2)

end Pongo

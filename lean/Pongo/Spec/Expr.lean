/-
  Reference semantics of expressions (property C07), written from the
  property's wording, independent of the evaluator's code paths:
  typed scalars, integer arithmetic on integers, float arithmetic as soon as a
  float is involved, `+` concatenating when a string is involved,
  short-circuit and/or, zero-divisor errors.  Anything outside the
  "uncontroversial fragment" is `ill`.
-/
import Pongo.Model.Exec

namespace Pongo.Spec

inductive SV
  | int (i : Int64)
  | float (f : Float)
  | str (s : Bytes)
  | bool (b : Bool)

inductive DErr | zero | ill
  deriving DecidableEq, Repr

inductive UnOp | not | neg
  deriving DecidableEq, Repr

inductive Tree
  | lit (v : SV)
  | var (name : Bytes)
  | un (op : UnOp) (t : Tree)
  | bin (op : BinOp) (a b : Tree)

def SV.truthy : SV → Bool
  | .int i => i != 0
  | .float f => f != 0.0
  | .str s => s.length > 0
  | .bool b => b

/-- canonical printed form: integers in decimal, floats with six decimals, True/False -/
def SV.print : SV → Bytes
  | .int i => fmtInt i
  | .float f => fmtFloat f
  | .str s => s
  | .bool true => b "True"
  | .bool false => b "False"

def SV.toFloat : SV → Float
  | .int i => Float.ofInt i.toInt
  | .float f => f
  | _ => 0.0

def SV.isNum : SV → Bool
  | .int _ | .float _ => true
  | _ => false

/-- binary operators other than and/or on typed scalars -/
def denoteBin (op : BinOp) (a c : SV) : Except DErr SV :=
  match op, a, c with
  -- `+`: concatenation when a string is involved (numbers in canonical form)
  | .add, .str x, .str y => .ok (.str (x ++ y))
  | .add, .str x, .int y => .ok (.str (x ++ fmtInt y))
  | .add, .str x, .float y => .ok (.str (x ++ fmtFloat y))
  | .add, .int x, .str y => .ok (.str (fmtInt x ++ y))
  | .add, .float x, .str y => .ok (.str (fmtFloat x ++ y))
  | .add, .int x, .int y => .ok (.int (x + y))
  | .sub, .int x, .int y => .ok (.int (x - y))
  | .mul, .int x, .int y => .ok (.int (x * y))
  | .div, .int x, .int y => if y == 0 then .error .zero else .ok (.int (x / y))
  | .mod, .int x, .int y => if y == 0 then .error .zero else .ok (.int (x % y))
  | .lt, .int x, .int y => .ok (.bool (x < y))
  | .le, .int x, .int y => .ok (.bool (x ≤ y))
  | .gt, .int x, .int y => .ok (.bool (x > y))
  | .ge, .int x, .int y => .ok (.bool (x ≥ y))
  | .eq, .int x, .int y => .ok (.bool (x == y))
  | .ne, .int x, .int y => .ok (.bool (x != y))
  | .eq, .str x, .str y => .ok (.bool (x == y))
  | .ne, .str x, .str y => .ok (.bool (x != y))
  | .eq, .bool x, .bool y => .ok (.bool (x == y))
  | .ne, .bool x, .bool y => .ok (.bool (x != y))
  | .in, .str x, .str y => .ok (.bool (Bytes.contains y x))
  | .pow, x, y => if x.isNum && y.isNum then .ok (.float (Float.pow x.toFloat y.toFloat)) else .error .ill
  | op, x, y =>
    -- float arithmetic as soon as a float is involved
    if x.isNum && y.isNum then
      match op with
      | .add => .ok (.float (x.toFloat + y.toFloat))
      | .sub => .ok (.float (x.toFloat - y.toFloat))
      | .mul => .ok (.float (x.toFloat * y.toFloat))
      | .div => if y.toFloat == 0.0 then .error .zero else .ok (.float (x.toFloat / y.toFloat))
      | .lt => .ok (.bool (x.toFloat < y.toFloat))
      | .le => .ok (.bool (x.toFloat ≤ y.toFloat))
      | .gt => .ok (.bool (x.toFloat > y.toFloat))
      | .ge => .ok (.bool (x.toFloat ≥ y.toFloat))
      | _ => .error .ill
    else .error .ill

/-- unary operators: `not` is C-like on integers (0/1), boolean otherwise; `-` negates numbers -/
def denoteUn (op : UnOp) (a : SV) : Except DErr SV :=
  match op, a with
  | .not, .bool x => .ok (.bool (!x))
  | .not, .int x => .ok (.int (if x != 0 then 0 else 1))
  | .not, .str s => .ok (.bool (s.length == 0))
  | .neg, .int x => .ok (.int (-1 * x))
  | .neg, .float x => .ok (.float (-1.0 * x))
  | _, _ => .error .ill

/-- the meaning of a tree: its fully parenthesised reading -/
def denote (env : Bytes → Option SV) : Tree → Except DErr SV
  | .lit v => .ok v
  | .var x => match env x with
    | some v => .ok v
    | none => .error .ill
  | .un op t => do
    let a ← denote env t
    denoteUn op a
  | .bin .and a c => do
    let x ← denote env a
    if !x.truthy then pure (.bool false)
    else
      let y ← denote env c
      pure (.bool y.truthy)
  | .bin .or a c => do
    let x ← denote env a
    if x.truthy then pure (.bool true)
    else
      let y ← denote env c
      pure (.bool y.truthy)
  | .bin op a c => do
    let x ← denote env a
    let y ← denote env c
    denoteBin op x y

def SV.toVal : SV → Val
  | .int i => .int i
  | .float f => .float f
  | .str s => .str s
  | .bool b => .bool b

/-- the evaluator node a tree parses to (positions are irrelevant to evaluation) -/
def embed (p : TokPos) : Tree → Expr
  | .lit (.int i) => .filtered (.int i p) [] p
  | .lit (.float f) => .filtered (.float f p) [] p
  | .lit (.str s) => .filtered (.str s p) [] p
  | .lit (.bool b) => .filtered (.bool b p) [] p
  | .var x => .filtered (.var [Part.ident x none] p) [] p
  | .un .not t => .unary true false (embed p t)
  | .un .neg t => .unary false true (embed p t)
  | .bin op a c => .bin op (embed p a) (embed p c) p

def depth : Tree → Nat
  | .lit _ | .var _ => 0
  | .un _ t => depth t + 1
  | .bin _ a c => max (depth a) (depth c) + 1

end Pongo.Spec

/-
  C07 — Expressions evaluate according to the documented C-like semantics.
  Property theorems only (helpers: `Pongo/Lemmas/Eval.lean`, reference:
  `Pongo/Spec/Expr.lean`).
-/
import Pongo.Lemmas.Eval
import Pongo.Gen.LexTables

namespace Pongo.C07
open Spec

variable (T : LexTables) (cfg : SetCfg) (g : Env)

theorem eval_lit (v : SV) (p : TokPos) (σ : ES) (n : Nat) :
    (eval T cfg g (n+2) (embed p (.lit v))).run σ = .ok (mkV v.toVal) σ := by
  cases v <;> simp [embed, eval, applyChain, EStateM.run, bind, EStateM.bind, pure, EStateM.pure, SV.toVal]

theorem eval_var (x : Bytes) (p : TokPos) (σ : ES) (env) (h : EnvOK σ env) (v : SV) (hx : env x = some v) (n : Nat) :
    (eval T cfg g (n+4) (embed p (.var x))).run σ = .ok (mkV v.toVal) σ := by
  obtain ⟨fr, rest, hf, hl⟩ := h
  have h1 := (hl x).1
  have h2 := (hl x).2
  rw [hx] at h2
  simp only [Option.map_some] at h2
  cases v <;>
  simp [embed, eval, applyChain, resolve, afterPart, resolveRest, unboxDirect, Part.callArgs, cur, EStateM.run, bind, EStateM.bind, pure, EStateM.pure, hf, h1, h2,
    get, getThe, MonadStateOf.get, EStateM.get, tryCatch, tryCatchThe, MonadExceptOf.tryCatch, EStateM.tryCatch,
    SV.toVal, Val.kind, mkV] at h2 ⊢

/-- **Expression semantics.**  For every expression tree of the fragment, of
    any depth, evaluating the node the tree parses to yields exactly the
    reference value of its fully parenthesised reading and leaves the state
    unchanged; a zero divisor (and only that) is an execution error; and/or
    short-circuit. -/
theorem eval_embed (p : TokPos) (env : Bytes → Option SV) (t : Tree) :
    ∀ (σ : ES), EnvOK σ env → ∀ fuel, fuel ≥ depth t + 4 →
      Agrees (denote env t) (eval T cfg g fuel (embed p t)) σ := by
  induction t with
  | lit v =>
    intro σ _ fuel hf
    obtain ⟨n, rfl⟩ : ∃ n, fuel = n + 2 := ⟨fuel - 2, by simp [depth] at hf; omega⟩
    simp only [denote, Agrees]
    exact eval_lit T cfg g v p σ n
  | var x =>
    intro σ hσ fuel hf
    obtain ⟨n, rfl⟩ : ∃ n, fuel = n + 4 := ⟨fuel - 4, by simp [depth] at hf; omega⟩
    simp only [denote]
    cases hx : env x with
    | none => simp [Agrees]
    | some v => simp only [Agrees]; exact eval_var T cfg g x p σ env hσ v hx n
  | un op t ih =>
    intro σ hσ fuel hf
    obtain ⟨n, rfl⟩ : ∃ n, fuel = n + 1 := ⟨fuel - 1, by simp [depth] at hf; omega⟩
    have ih := ih σ hσ n (by simp [depth] at hf; omega)
    have hem : embed p (.un op t) = .unary (op == .not) (op == .neg) (embed p t) := by cases op <;> rfl
    rw [hem]
    simp only [denote]
    cases hd : denote env t with
    | error e =>
      rw [hd] at ih
      cases e with
      | ill => simp [Agrees, bind, Except.bind]
      | zero =>
        simp only [Agrees, bind, Except.bind] at ih ⊢
        obtain ⟨e, he, hk⟩ := ih
        refine ⟨e, ?_, hk⟩
        rw [eval]
        simp only [bind]
        exact run_ebind_err he
    | ok a =>
      rw [hd] at ih
      simp only [Agrees] at ih
      have hu := evalUnary_denote op a
      rw [eval]
      simp only [bind, Except.bind]
      cases hdu : denoteUn op a with
      | error e =>
        cases e with
        | ill => simp [Agrees]
        | zero => cases op <;> cases a <;> simp [denoteUn] at hdu
      | ok r =>
        rw [hdu] at hu
        simp only [resOf] at hu
        simp only [Agrees]
        rw [run_ebind_ok ih, hu]
        rfl
  | bin op a c iha ihc =>
    intro σ hσ fuel hf
    obtain ⟨n, rfl⟩ : ∃ n, fuel = n + 1 := ⟨fuel - 1, by simp [depth] at hf; omega⟩
    have iha := iha σ hσ n (by simp [depth] at hf; omega)
    have ihc := ihc σ hσ n (by simp [depth] at hf; omega)
    simp only [embed]
    by_cases hand : op = .and
    · subst hand
      simp only [denote]
      rw [eval]
      cases hda : denote env a with
      | error e =>
        rw [hda] at iha
        cases e with
        | ill => simp [Agrees, bind, Except.bind]
        | zero =>
          simp only [Agrees, bind, Except.bind] at iha ⊢
          obtain ⟨e, he, hk⟩ := iha
          exact ⟨e, run_ebind_err he, hk⟩
      | ok x =>
        rw [hda] at iha
        simp only [Agrees] at iha
        simp only [bind, Except.bind]
        have htr : (mkV x.toVal).v.isTrue = x.truthy := by simp
        by_cases hx : x.truthy
        · simp only [hx, Bool.not_true, Bool.false_eq_true, if_false]
          cases hdc : denote env c with
          | error e =>
            rw [hdc] at ihc
            cases e with
            | ill => simp [Agrees]
            | zero =>
              simp only [Agrees] at ihc ⊢
              obtain ⟨e, he, hk⟩ := ihc
              refine ⟨e, ?_, hk⟩
              rw [run_ebind_ok iha]
              simp only [htr, hx, Bool.not_true, Bool.false_eq_true, if_false]
              exact run_ebind_err he
          | ok y =>
            rw [hdc] at ihc
            simp only [Agrees] at ihc ⊢
            rw [run_ebind_ok iha]
            simp only [htr, hx, Bool.not_true, Bool.false_eq_true, if_false]
            rw [run_ebind_ok ihc]
            simp [pure, Except.pure, EStateM.run, EStateM.pure]
        · simp only [hx, Bool.not_false, if_true, Agrees]
          rw [run_ebind_ok iha]
          simp [hx, pure, Except.pure, EStateM.run, EStateM.pure]
    by_cases hor : op = .or
    · subst hor
      simp only [denote]
      rw [eval]
      cases hda : denote env a with
      | error e =>
        rw [hda] at iha
        cases e with
        | ill => simp [Agrees, bind, Except.bind]
        | zero =>
          simp only [Agrees, bind, Except.bind] at iha ⊢
          obtain ⟨e, he, hk⟩ := iha
          exact ⟨e, run_ebind_err he, hk⟩
      | ok x =>
        rw [hda] at iha
        simp only [Agrees] at iha
        simp only [bind, Except.bind]
        have htr : (mkV x.toVal).v.isTrue = x.truthy := by simp
        by_cases hx : x.truthy
        · simp only [hx, if_true, Agrees]
          rw [run_ebind_ok iha]
          simp [hx, pure, Except.pure, EStateM.run, EStateM.pure]
        · simp only [hx, Bool.false_eq_true, if_false]
          cases hdc : denote env c with
          | error e =>
            rw [hdc] at ihc
            cases e with
            | ill => simp [Agrees]
            | zero =>
              simp only [Agrees] at ihc ⊢
              obtain ⟨e, he, hk⟩ := ihc
              refine ⟨e, ?_, hk⟩
              rw [run_ebind_ok iha]
              simp only [htr, hx, Bool.false_eq_true, if_false]
              exact run_ebind_err he
          | ok y =>
            rw [hdc] at ihc
            simp only [Agrees] at ihc ⊢
            rw [run_ebind_ok iha]
            simp only [htr, hx, Bool.false_eq_true, if_false]
            rw [run_ebind_ok ihc]
            simp [pure, Except.pure, EStateM.run, EStateM.pure]
    · -- the eager operators
      have hden : denote env (.bin op a c) = (do let x ← denote env a; let y ← denote env c; denoteBin op x y) := by
        cases op <;> first | exact absurd rfl hand | exact absurd rfl hor | rfl
      have hev : eval T cfg g (n+1) (.bin op (embed p a) (embed p c) p) =
          (do let v1 ← eval T cfg g n (embed p a)
              let v2 ← eval T cfg g n (embed p c)
              match evalBin op v1 v2 with
              | .ok r => pure r
              | .error m => xerr m) := by
        cases op <;> first | exact absurd rfl hand | exact absurd rfl hor | (rw [eval] <;> first | rfl | (intro h; cases h))
      rw [hden, hev]
      cases hda : denote env a with
      | error e =>
        rw [hda] at iha
        cases e with
        | ill => simp [Agrees, bind, Except.bind]
        | zero =>
          simp only [Agrees, bind, Except.bind] at iha ⊢
          obtain ⟨e, he, hk⟩ := iha
          exact ⟨e, run_ebind_err he, hk⟩
      | ok x =>
        rw [hda] at iha
        simp only [Agrees] at iha
        cases hdc : denote env c with
        | error e =>
          rw [hdc] at ihc
          cases e with
          | ill => simp [Agrees, bind, Except.bind]
          | zero =>
            simp only [Agrees, bind, Except.bind] at ihc ⊢
            obtain ⟨e, he, hk⟩ := ihc
            refine ⟨e, ?_, hk⟩
            rw [run_ebind_ok iha]
            exact run_ebind_err he
        | ok y =>
          rw [hdc] at ihc
          simp only [Agrees] at ihc
          have hb := evalBin_denote op x y hand hor
          simp only [bind, Except.bind]
          cases hdb : denoteBin op x y with
          | error e =>
            rw [hdb] at hb
            cases e with
            | ill => simp [Agrees]
            | zero =>
              simp only [resOf] at hb
              obtain ⟨m, hm⟩ := hb
              simp only [Agrees]
              refine ⟨{ kind := .exec, msg := m }, ?_, rfl⟩
              rw [run_ebind_ok iha, run_ebind_ok ihc, hm]
              rfl
          | ok r =>
            rw [hdb] at hb
            simp only [resOf] at hb
            simp only [Agrees]
            rw [run_ebind_ok iha, run_ebind_ok ihc, hb]
            rfl

/-! ### operator spellings and symbol lexing (tables regenerated from lexer.go) -/

/-- **and / or short-circuit, whatever stands on the right**: once the left operand of `and` is
    false (of `or`: true) the result is decided and the right operand — any expression, also one
    that would fail — is not evaluated: the state is the one the left operand left. -/
theorem and_or_short_circuit (fuel : Nat) (a c : Expr) (p : TokPos) (σ σ' : ES) (v : V)
    (h : (eval T cfg g fuel a).run σ = .ok v σ') :
    (v.v.isTrue = false → (eval T cfg g (fuel + 1) (.bin .and a c p)).run σ = .ok (mkV (.bool false)) σ') ∧
    (v.v.isTrue = true → (eval T cfg g (fuel + 1) (.bin .or a c p)).run σ = .ok (mkV (.bool true)) σ') := by
  constructor <;> intro hv
  · rw [eval, run_bind_ok h]; simp [hv, EStateM.run, pure, EStateM.pure]
  · rw [eval, run_bind_ok h]; simp [hv, EStateM.run, pure, EStateM.pure]

/-- every symbol that is a proper prefix of another symbol comes later in the
    table: first-match lexing is longest-match lexing (`<=` is never read as `<` `=`). -/
theorem gen_symbols_longest_first :
    (Gen.lexTables.symbols.zipIdx.all fun (s, i) =>
      Gen.lexTables.symbols.zipIdx.all fun (t, j) => !(s != t && s.isPrefixOf t && i < j)) = true := by decide

/-- the alternative spellings parse to the same operator -/
theorem spellings_ne : relOps.lookup b!"!=" = relOps.lookup b!"<>" := by decide

/-! ### non-vacuity -/

-- `2 - 7 * 3` on the reference: -19
example : denote (fun _ => none) (.bin .sub (.lit (.int 2)) (.bin .mul (.lit (.int 7)) (.lit (.int 3)))) = .ok (.int (-19)) := by
  simp [denote, denoteBin, bind, Except.bind]
-- `1 / 0` is a zero-divisor error on the reference
example : denote (fun _ => none) (.bin .div (.lit (.int 1)) (.lit (.int 0))) = .error .zero := by
  simp [denote, denoteBin, bind, Except.bind]

end Pongo.C07

/-
  C06 — Literal text, verbatim blocks and comments are reproduced exactly.
  Property theorems only; helper lemmas are in `Pongo/Lemmas/Lex.lean`.

  Theorems are stated for every table `T` satisfying a decidable side
  condition and then instantiated at the table regenerated from /repo's
  lexer.go (`Gen.lexTables`), the side conditions being discharged by `decide`
  on the whole table.
-/
import Pongo.Lemmas.LexPos
import Pongo.Gen.FilterFacts
import Pongo.Lemmas.RenderText
import Pongo.Gen.LexTables

namespace Pongo.C06

/-- Lexing a non-empty source free of `{{`, `{%`, `{#` yields exactly one HTML
    token holding the source byte for byte (any bytes: control bytes, invalid
    UTF-8, CR/LF, lone braces), provided no byte of it is mistaken for the end
    of input. -/
theorem text_identity_partial (T : LexTables) (hT : TextTablesOK T = true) (s : Bytes)
    (hn : noOpen s = true) (he : ∀ c ∈ s, some c ≠ T.eofByte) (hne : s ≠ []) :
    lex T s = .ok [⟨.html, s, 1, 1, false, 0⟩] := by
  unfold lex
  rw [run_text T hT s RunSt.init rfl hn he]
  simp [finish, RunSt.flush, RunSt.init, hne, Pos.init]

/-- Full strength: when the lexer's end-of-input sentinel is not a byte value
    (the state of the code after the `fix:` of the 0x01 truncation), no
    hypothesis on the bytes is needed. -/
theorem text_identity (T : LexTables) (hT : TextTablesOK T = true) (hE : T.eofByte = none) (s : Bytes)
    (hn : noOpen s = true) (hne : s ≠ []) :
    lex T s = .ok [⟨.html, s, 1, 1, false, 0⟩] :=
  text_identity_partial T hT s hn (by intro c _; rw [hE]; simp) hne

/-- The empty source has no tokens. -/
theorem text_empty (T : LexTables) (hT : TextTablesOK T = true) : lex T [] = .ok [] := by
  unfold lex
  rw [run_text T hT [] RunSt.init rfl rfl (by simp)]
  simp [finish, RunSt.flush, RunSt.init]

/-- One verbatim block followed by anything: the lexer emits the body as one
    HTML token (none for an empty body), never looks inside it, and continues
    with the rest of the input in non-verbatim mode — hence any number of
    verbatim blocks, adjacent or not, each yield their body. -/
theorem verbatim_block (T : LexTables) (hV : VerbTablesOK T = true) (body tail : Bytes) (st : RunSt)
    (hv : st.inVerb = false)
    (hk : ∀ k, k < body.length → T.verbEnd.isPrefixOf ((body ++ T.verbEnd ++ tail).drop k) = false)
    (he : ∀ c ∈ body, some c ≠ T.eofByte) :
    run T (T.verbStart ++ (body ++ T.verbEnd ++ tail)) st =
      run T tail { ({ (st.flush.skip T.verbStartW) with
                        pos := textPos (st.flush.skip T.verbStartW).pos body,
                        pend := body.reverse, inVerb := true } : RunSt).flush.skip T.verbEndW
                   with inVerb := false } := by
  have hV' := hV
  simp only [VerbTablesOK, Bool.and_eq_true, beq_iff_eq, bne_iff_ne] at hV'
  obtain ⟨⟨⟨hw1, _⟩, hne1⟩, _⟩ := hV'
  obtain ⟨pos, start, pend, toks, inVerb⟩ := st
  simp only at hv; subst hv
  have hp : T.verbStart.isPrefixOf (T.verbStart ++ (body ++ T.verbEnd ++ tail)) = true :=
    List.isPrefixOf_iff_prefix.mpr (List.prefix_append _ _)
  have hd : (T.verbStart ++ (body ++ T.verbEnd ++ tail)).drop T.verbStartW = body ++ T.verbEnd ++ tail := by
    rw [hw1]; simp
  have hl : (body ++ T.verbEnd ++ tail).length < (T.verbStart ++ (body ++ T.verbEnd ++ tail)).length := by
    have : 0 < T.verbStart.length := List.length_pos_iff.mpr hne1
    simp only [List.length_append]; omega
  conv => lhs; rw [run.eq_def]
  simp only [Bool.false_and, Bool.false_eq_true, if_false, Bool.not_false, Bool.true_and, hp, if_true, hd, hl]
  rw [run_verbatim_body T hV body tail _ rfl hk he]
  simp [RunSt.skip, RunSt.flush]

/-- A template consisting of one verbatim block lexes to its body, literally. -/
theorem verbatim_literal (T : LexTables) (hT : TextTablesOK T = true) (hV : VerbTablesOK T = true) (body : Bytes)
    (hk : ∀ k, k < body.length → T.verbEnd.isPrefixOf ((body ++ T.verbEnd).drop k) = false)
    (he : ∀ c ∈ body, some c ≠ T.eofByte) :
    lex T (T.verbStart ++ (body ++ T.verbEnd)) =
      .ok (if body = [] then [] else [⟨.html, body, 1, 1 + T.verbStartW, false, T.verbStartW⟩]) := by
  unfold lex
  have := verbatim_block T hV body [] RunSt.init rfl (by simpa using hk) he
  simp only [List.append_nil] at this
  rw [this, run_text T hT [] _ rfl rfl (by simp)]
  by_cases hb : body = []
  · subst hb; simp [finish, RunSt.flush, RunSt.skip, RunSt.init, textPos]
  · simp [finish, RunSt.flush, RunSt.skip, RunSt.init, textPos, hb, Pos.init, Pos.adv]

/-! ### Instantiation at the tables regenerated from /repo/lexer.go -/

theorem gen_textTablesOK : TextTablesOK Gen.lexTables = true := by decide
theorem gen_verbTablesOK : VerbTablesOK Gen.lexTables = true := by decide
theorem gen_structureOK : Gen.lexStructureOK = true := by decide
/-- the lexer's end-of-input sentinel is not a byte value -/
theorem gen_eof_not_a_byte : Gen.lexTables.eofByte = none := by decide

theorem gen_text_identity (s : Bytes) (hn : noOpen s = true) (hne : s ≠ []) :
    lex Gen.lexTables s = .ok [⟨.html, s, 1, 1, false, 0⟩] :=
  text_identity _ gen_textTablesOK gen_eof_not_a_byte s hn hne

theorem gen_verbatim_literal (body : Bytes)
    (hk : ∀ k, k < body.length → Gen.lexTables.verbEnd.isPrefixOf ((body ++ Gen.lexTables.verbEnd).drop k) = false) :
    lex Gen.lexTables (Gen.lexTables.verbStart ++ (body ++ Gen.lexTables.verbEnd)) =
      .ok (if body = [] then [] else [⟨.html, body, 1, 1 + Gen.lexTables.verbStartW, false, Gen.lexTables.verbStartW⟩]) :=
  verbatim_literal _ gen_textTablesOK gen_verbTablesOK body hk
    (by intro c _; rw [gen_eof_not_a_byte]; simp)

/-! ### Non-vacuity: the hypotheses are met by concrete non-trivial inputs -/

-- "a{b}\x01\xff%" is delimiter-free and non-empty
example : noOpen [0x61, 0x7b, 0x62, 0x7d, 0x01, 0xff, 0x25] = true ∧ ([0x61, 0x7b, 0x62, 0x7d, 0x01, 0xff, 0x25] : Bytes) ≠ [] := by
  decide
-- the verbatim body "{{x" does not contain the end marker
example : ∀ k, k < ([0x7b, 0x7b, 0x78] : Bytes).length →
    Gen.lexTables.verbEnd.isPrefixOf ((([0x7b, 0x7b, 0x78] : Bytes) ++ Gen.lexTables.verbEnd).drop k) = false := by
  decide
-- and the model really computes the claimed token on it
example : lex Gen.lexTables (Gen.lexTables.verbStart ++ ([0x7b, 0x7b, 0x78] ++ Gen.lexTables.verbEnd)) =
    .ok [⟨.html, [0x7b, 0x7b, 0x78], 1, 1 + Gen.lexTables.verbStartW, false, Gen.lexTables.verbStartW⟩] := by
  simpa using gen_verbatim_literal [0x7b, 0x7b, 0x78] (by decide)

/-! ### `templatetag` -/

/-- the table of `templatetag` arguments, regenerated from tags_templatetag.go: the eight names and
    the delimiter each one stands for — and the model's table is that table -/
theorem gen_templatetag_table :
    Gen.templateTagMapping =
      [(b!"closeblock", b!"%}"), (b!"closebrace", b!"}"), (b!"closecomment", b!"#}"), (b!"closevariable", b!"}}"),
       (b!"openblock", b!"{%"), (b!"openbrace", b!"{"), (b!"opencomment", b!"{#"), (b!"openvariable", b!"{{")] ∧
    (∀ kv ∈ Gen.templateTagMapping, templateTagMapping.lookup kv.1 = some kv.2) ∧
    templateTagMapping.length = Gen.templateTagMapping.length := by decide

/-- **`templatetag` emits exactly the delimiter it names**: the tag with a name of the table compiles
    to a node holding that delimiter, and executing the node appends exactly those bytes. -/
theorem templatetag_emits_named_delimiter (T : LexTables) (cfg : SetCfg) (g : Env) (fuel : Nat) (start close a : Tok) (args args' : PS)
    (ds : DS) (out : Bytes) (σ : ES)
    (hs : start.val = b!"templatetag") (hm : args.matchType .ident = some (a, args'))
    (hl : templateTagMapping.lookup a.val = some out) (hr : args'.remaining = 0) :
    tagParser T cfg (fuel + 1) start close args ds = .ok (.tagTemplatetag out, some close, ds) ∧
    (execNode T cfg g (fuel + 1) (.tagTemplatetag out)).run σ = .ok () { σ with out := σ.out ++ out } := by
  constructor
  · unfold tagParser
    rw [if_neg (by rw [hs]; decide), if_neg (by rw [hs]; decide), if_neg (by rw [hs]; decide), if_neg (by rw [hs]; decide),
      if_neg (by rw [hs]; decide), if_neg (by rw [hs]; decide), if_neg (by rw [hs]; decide), if_neg (by rw [hs]; decide),
      if_neg (by rw [hs]; decide), if_neg (by rw [hs]; decide), if_neg (by rw [hs]; decide), if_neg (by rw [hs]; decide),
      if_neg (by rw [hs]; decide), if_neg (by rw [hs]; decide), if_neg (by rw [hs]; decide), if_neg (by rw [hs]; decide),
      if_neg (by rw [hs]; decide), if_neg (by rw [hs]; decide), if_neg (by rw [hs]; decide),
      if_pos (by rw [hs]; decide)]
    simp [hm, hl, hr, pure, Except.pure]
  · unfold execNode
    rfl

/-- an unknown name is a compile error -/
example : templateTagMapping.lookup b!"openbracket" = none := by decide

/-- **Every text token is a byte-for-byte piece of the source**, for every source whatsoever (text
    mixed with tags, strings, comments, verbatim blocks; any bytes): the literal text the renderer
    will write for it is exactly what stands in the source at the token's offset — nothing is
    re-encoded, dropped or added by the lexer. -/
theorem text_tokens_are_source_text (s : Bytes) (toks : List Tok) (h : lex Gen.lexTables s = .ok toks) :
    ∀ t ∈ toks, t.typ = .html → t.val <+: s.drop t.off := by
  have := lex_pos Gen.lexTables (by decide) (by decide) s
  rw [h] at this
  intro t ht hty
  exact (this t ht).2.2 (by rw [hty]; rfl)

/-- … and so is every identifier, keyword and number token: the words the parser sees are words
    that stand in the source (only a string's value is unescaped and a symbol may have lost its `-`) -/
theorem word_tokens_are_source_words (s : Bytes) (toks : List Tok) (h : lex Gen.lexTables s = .ok toks) :
    ∀ t ∈ toks, (t.typ = .ident ∨ t.typ = .keyword ∨ t.typ = .num) → t.val <+: s.drop t.off := by
  have := lex_pos Gen.lexTables (by decide) (by decide) s
  rw [h] at this
  intro t ht hty
  exact (this t ht).2.2 (by rcases hty with h | h | h <;> rw [h] <;> rfl)

/-! ### literal text through the whole pipeline (lexer, parser, interpreter of the model) -/

/-- **A source without an opening delimiter renders to itself** — compiled by the model's parser
    from the lexer's tokens and executed by the model's interpreter, for every such byte string,
    every set configuration (`TrimBlocks`/`LStripBlocks` included) and every sufficient fuel. -/
theorem literal_source_renders_to_itself (cfg : SetCfg) (fuel : Nat) (name : Bytes) (isString : Bool) (s : Bytes)
    (hn : noOpen s = true) (hne : s ≠ []) :
    ∃ cs σ', compileTpl Gen.lexTables cfg (fuel + 4) {} name isString s = .ok (0, cs) ∧
      (executeTplUnbuffered Gen.lexTables cfg [] (fuel + 3) 0 []).run { cs := cs } = .ok () σ' ∧ σ'.out = s := by
  have hl := gen_text_identity s hn hne
  obtain ⟨σ', h1, h2⟩ := exec_textTpl Gen.lexTables cfg fuel name isString s { cs := { tpls := #[textTpl cfg name isString s] } } rfl
  exact ⟨{ tpls := #[textTpl cfg name isString s] }, σ', compile_text Gen.lexTables cfg fuel name s isString _ rfl hl, h1, by simpa using h2⟩

/-- **A verbatim block renders its body, byte for byte** (the body may contain any delimiters). -/
theorem verbatim_block_renders_its_body (cfg : SetCfg) (fuel : Nat) (name : Bytes) (isString : Bool) (body : Bytes) (hb : body ≠ [])
    (hk : ∀ k, k < body.length → Gen.lexTables.verbEnd.isPrefixOf ((body ++ Gen.lexTables.verbEnd).drop k) = false) :
    ∃ cs σ', compileTpl Gen.lexTables cfg (fuel + 4) {} name isString
        (Gen.lexTables.verbStart ++ (body ++ Gen.lexTables.verbEnd)) = .ok (0, cs) ∧
      (executeTplUnbuffered Gen.lexTables cfg [] (fuel + 3) 0 []).run { cs := cs } = .ok () σ' ∧ σ'.out = body := by
  have hl := gen_verbatim_literal body hk
  simp only [hb, ↓reduceIte] at hl
  obtain ⟨σ', h1, h2⟩ := exec_textTpl Gen.lexTables cfg fuel name isString body { cs := { tpls := #[textTpl cfg name isString body] } } rfl
  exact ⟨{ tpls := #[textTpl cfg name isString body] }, σ', compile_text Gen.lexTables cfg fuel name _ isString _ rfl hl, h1, by simpa using h2⟩

example (cfg : SetCfg) : ∃ cs σ', compileTpl Gen.lexTables cfg 4 {} b!"t" true b!"a } b % c" = .ok (0, cs) ∧
    (executeTplUnbuffered Gen.lexTables cfg [] 3 0 []).run { cs := cs } = .ok () σ' ∧ σ'.out = b!"a } b % c" :=
  literal_source_renders_to_itself cfg 0 _ _ _ (by decide) (by decide)

end Pongo.C06

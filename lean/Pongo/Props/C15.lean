/-
C15 — whitespace control removes exactly the whitespace it names.

Theorems about the model's text node (`htmlOut`, used by `execNode`), the
`spaceless` matcher, the lexer's dashed delimiters (on the tables regenerated
from `/repo/lexer.go`) and the parser's flag computation.
-/
import Pongo.Model.Exec
import Pongo.Lemmas.Eval
import Pongo.Model.ParseDoc
import Pongo.Gen.LexTables
import Pongo.Lemmas.Spaceless

namespace Pongo.C15
open Pongo

/-- the cutset of a `-` marker (`" \n\r\t"`) -/
def dashWs : Bytes := b!" \n\r\t"
/-- the cutset of `LStripBlocks` -/
def blankWs : Bytes := b!"\t "

/-! ### trimming lemmas -/

theorem trimLeft_split (cut s : Bytes) :
    ∃ pre, s = pre ++ Bytes.trimLeft cut s ∧ (∀ c ∈ pre, c ∈ cut) ∧
      (∀ c r, Bytes.trimLeft cut s = c :: r → c ∉ cut) := by
  induction s with
  | nil => exact ⟨[], rfl, by simp, by simp [Bytes.trimLeft]⟩
  | cons a t ih =>
    by_cases h : a ∈ cut
    · obtain ⟨pre, h1, h2, h3⟩ := ih
      refine ⟨a :: pre, ?_, ?_, ?_⟩
      · simp only [Bytes.trimLeft, List.elem_eq_mem, decide_eq_true_eq] at h1 ⊢
        rw [List.dropWhile_cons_of_pos (by simpa using h)]
        simpa using h1
      · intro c hc
        cases hc with
        | head => exact h
        | tail _ hc => exact h2 c hc
      · intro c r hr
        apply h3 c r
        simp only [Bytes.trimLeft, List.elem_eq_mem, decide_eq_true_eq] at hr ⊢
        rwa [List.dropWhile_cons_of_pos (by simpa using h)] at hr
    · refine ⟨[], ?_, by simp, ?_⟩
      · simp only [Bytes.trimLeft, List.elem_eq_mem, List.nil_append]
        rw [List.dropWhile_cons_of_neg (by simpa using h)]
      · intro c r hr
        simp only [Bytes.trimLeft, List.elem_eq_mem] at hr
        rw [List.dropWhile_cons_of_neg (by simpa using h)] at hr
        cases hr; exact h

theorem trimRight_split (cut s : Bytes) :
    ∃ suf, s = Bytes.trimRight cut s ++ suf ∧ (∀ c ∈ suf, c ∈ cut) ∧
      (∀ c r, Bytes.trimRight cut s = r ++ [c] → c ∉ cut) := by
  obtain ⟨pre, h1, h2, h3⟩ := trimLeft_split cut s.reverse
  refine ⟨pre.reverse, ?_, ?_, ?_⟩
  · have := congrArg List.reverse h1
    simpa [Bytes.trimRight, Bytes.trimLeft] using this
  · intro c hc; exact h2 c (by simpa using hc)
  · intro c r hr
    apply h3 c r.reverse
    have := congrArg List.reverse hr
    simpa [Bytes.trimRight, Bytes.trimLeft] using this

/-- `w` is `v` with a run of `cut` bytes removed at each end and nothing else touched -/
def Trimmed (cut : Bytes) (v w : Bytes) : Prop :=
  ∃ pre suf, v = pre ++ w ++ suf ∧ (∀ c ∈ pre, c ∈ cut) ∧ (∀ c ∈ suf, c ∈ cut)

theorem Trimmed.refl (cut v : Bytes) : Trimmed cut v v := ⟨[], [], by simp, by simp, by simp⟩

theorem Trimmed.trans {cut a b c : Bytes} (h1 : Trimmed cut a b) (h2 : Trimmed cut b c) :
    Trimmed cut a c := by
  obtain ⟨p1, s1, e1, hp1, hs1⟩ := h1
  obtain ⟨p2, s2, e2, hp2, hs2⟩ := h2
  refine ⟨p1 ++ p2, s2 ++ s1, by simp [e1, e2], ?_, ?_⟩
  · intro x hx; rcases List.mem_append.1 hx with h | h
    · exact hp1 x h
    · exact hp2 x h
  · intro x hx; rcases List.mem_append.1 hx with h | h
    · exact hs2 x h
    · exact hs1 x h

theorem Trimmed.mono {cut cut' v w : Bytes} (hsub : ∀ c ∈ cut, c ∈ cut') (h : Trimmed cut v w) :
    Trimmed cut' v w := by
  obtain ⟨p, s, e, hp, hs⟩ := h
  exact ⟨p, s, e, fun c hc => hsub c (hp c hc), fun c hc => hsub c (hs c hc)⟩

theorem trimmed_trimLeft (cut v : Bytes) : Trimmed cut v (Bytes.trimLeft cut v) := by
  obtain ⟨pre, h1, h2, _⟩ := trimLeft_split cut v
  exact ⟨pre, [], by simpa using h1, h2, by simp⟩

theorem trimmed_trimRight (cut v : Bytes) : Trimmed cut v (Bytes.trimRight cut v) := by
  obtain ⟨suf, h1, h2, _⟩ := trimRight_split cut v
  exact ⟨[], suf, by simpa using h1, by simp, h2⟩

theorem blank_sub_dash : ∀ c ∈ blankWs, c ∈ dashWs := by decide

/-! ### the text node -/

/-- **nothing else changes**: whatever the markers and options, a text node writes its
    literal text minus a run of whitespace bytes at its start and at its end; with
    `TrimBlocks` the removed prefix may additionally be one `\n` (which is in the set). -/
theorem text_node_only_loses_edge_whitespace (tb ls : Bool) (val : Bytes) (l r a b : Bool) :
    Trimmed dashWs val (htmlOut tb ls val l r a b) := by
  simp only [htmlOut]
  have s1 : Trimmed dashWs val
      (if tb && a && val.head? == some 0x0a then val.tail else val) := by
    split
    · rename_i h
      cases val with
      | nil => exact Trimmed.refl _ _
      | cons c t =>
        have hc : c = 0x0a := by
          simp only [Bool.and_eq_true, List.head?_cons, beq_iff_eq, Option.some.injEq] at h
          exact h.2
        subst hc
        exact ⟨[0x0a], [], by simp, by decide, by simp⟩
    · exact Trimmed.refl _ _
  refine Trimmed.trans s1 ?_
  generalize (if tb && a && val.head? == some 0x0a then val.tail else val) = v1
  have s2 : Trimmed dashWs v1 (if ls && b then Bytes.trimRight b!"\t " v1 else v1) := by
    split
    · exact Trimmed.mono blank_sub_dash (trimmed_trimRight _ _)
    · exact Trimmed.refl _ _
  refine Trimmed.trans s2 ?_
  generalize (if ls && b then Bytes.trimRight b!"\t " v1 else v1) = v2
  have s3 : Trimmed dashWs v2 (if l then Bytes.trimLeft b!" \n\r\t" v2 else v2) := by
    split
    · exact trimmed_trimLeft _ _
    · exact Trimmed.refl _ _
  refine Trimmed.trans s3 ?_
  generalize (if l then Bytes.trimLeft b!" \n\r\t" v2 else v2) = v3
  split
  · exact trimmed_trimRight _ _
  · exact Trimmed.refl _ _

/-- no marker and no option: the text is written unchanged -/
theorem no_marker_no_change (val : Bytes) (a b : Bool) :
    htmlOut false false val false false a b = val := by
  simp [htmlOut]

/-- options only act next to a block tag -/
theorem options_need_a_block_tag (tb ls : Bool) (val : Bytes) :
    htmlOut tb ls val false false false false = val := by
  simp [htmlOut]

/-- a `-` on the right of the preceding delimiter removes *all* whitespace on that side:
    what is written does not start with a whitespace byte -/
theorem dash_left_removes_all (tb ls : Bool) (val : Bytes) (r a b : Bool) :
    ∀ c rest, htmlOut tb ls val true r a b = c :: rest → c ∉ dashWs := by
  intro c rest h
  simp only [htmlOut, if_true] at h
  generalize (if ls && b then Bytes.trimRight b!"\t " (if tb && a && val.head? == some 0x0a then val.tail else val)
    else (if tb && a && val.head? == some 0x0a then val.tail else val)) = v2 at h
  obtain ⟨_, _, _, h3⟩ := trimLeft_split dashWs v2
  cases r with
  | false => exact h3 c rest h
  | true =>
    simp only [if_true] at h
    obtain ⟨suf, e, _, _⟩ := trimRight_split dashWs (Bytes.trimLeft dashWs v2)
    apply h3 c (rest ++ suf)
    rw [e]
    show Bytes.trimRight dashWs (Bytes.trimLeft dashWs v2) ++ suf = c :: (rest ++ suf)
    rw [show Bytes.trimRight dashWs (Bytes.trimLeft dashWs v2) = c :: rest from h]
    rfl

/-- a `-` on the left of the following delimiter removes all whitespace on that side -/
theorem dash_right_removes_all (tb ls : Bool) (val : Bytes) (l a b : Bool) :
    ∀ c rest, htmlOut tb ls val l true a b = rest ++ [c] → c ∉ dashWs := by
  intro c rest h
  simp only [htmlOut, if_true] at h
  obtain ⟨_, _, _, h3⟩ := trimRight_split dashWs
    (if l then Bytes.trimLeft b!" \n\r\t" (if ls && b then Bytes.trimRight b!"\t " (if tb && a && val.head? == some 0x0a then val.tail else val)
      else (if tb && a && val.head? == some 0x0a then val.tail else val))
     else (if ls && b then Bytes.trimRight b!"\t " (if tb && a && val.head? == some 0x0a then val.tail else val)
      else (if tb && a && val.head? == some 0x0a then val.tail else val)))
  exact h3 c rest h

/-- a left `-` alone removes the maximal whitespace prefix and nothing at the end -/
theorem dash_left_exact (val : Bytes) (a b : Bool) :
    ∃ pre, val = pre ++ htmlOut false false val true false a b ∧ (∀ c ∈ pre, c ∈ dashWs) ∧
      (∀ c r, htmlOut false false val true false a b = c :: r → c ∉ dashWs) := by
  have : htmlOut false false val true false a b = Bytes.trimLeft dashWs val := by simp [htmlOut, dashWs]
  rw [this]; exact trimLeft_split _ _

/-- a right `-` alone removes the maximal whitespace suffix and nothing at the start -/
theorem dash_right_exact (val : Bytes) (a b : Bool) :
    ∃ suf, val = htmlOut false false val false true a b ++ suf ∧ (∀ c ∈ suf, c ∈ dashWs) ∧
      (∀ c r, htmlOut false false val false true a b = r ++ [c] → c ∉ dashWs) := by
  have : htmlOut false false val false true a b = Bytes.trimRight dashWs val := by simp [htmlOut, dashWs]
  rw [this]; exact trimRight_split _ _

/-- `TrimBlocks` alone removes exactly one leading `\n` after a block tag -/
theorem trimBlocks_exact (val : Bytes) (b : Bool) :
    htmlOut true false (0x0a :: val) false false true b = val ∧
    (∀ c t, c ≠ 0x0a → htmlOut true false (c :: t) false false true b = c :: t) ∧
    htmlOut true false [] false false true b = [] := by
  refine ⟨by simp [htmlOut], ?_, by simp [htmlOut]⟩
  intro c t hc
  simp [htmlOut, hc]

/-- `LStripBlocks` alone removes exactly the maximal run of spaces and tabs before a block tag -/
theorem lstripBlocks_exact (val : Bytes) (a : Bool) :
    ∃ suf, val = htmlOut false true val false false a true ++ suf ∧ (∀ c ∈ suf, c ∈ blankWs) ∧
      (∀ c r, htmlOut false true val false false a true = r ++ [c] → c ∉ blankWs) := by
  have : htmlOut false true val false false a true = Bytes.trimRight blankWs val := by simp [htmlOut, blankWs]
  rw [this]; exact trimRight_split _ _

-- non-vacuity: a text with whitespace at both ends, all markers
example : htmlOut true true b!"\n  a b \t" true true true true = b!"a b" := by decide
example : htmlOut true true b!"\n  a b \t" false false true true = b!"  a b" := by decide
example : htmlOut false false b!"\n  a b \t" true false true true = b!"a b \t" := by decide

/-! ### spaceless -/

-- (helper lemmas: `Lemmas/Spaceless.lean`; the same statement carries `spaceless` into the
-- autoescape invariant of C02)

/-- **`spaceless` deletes nothing but whitespace**, for every rendered body -/
theorem spaceless_only_deletes_whitespace (s : Bytes) :
    (spaceless s).Sublist s ∧ nonWs (spaceless s) = nonWs s :=
  Pongo.spacelessFix_only_deletes_whitespace _ _

theorem spacelessFix_fixpoint (fuel : Nat) (s : Bytes) (h : s.length < fuel) :
    spacelessPass ((spacelessFix fuel s).length + 1) (spacelessFix fuel s) = spacelessFix fuel s := by
  induction fuel generalizing s with
  | zero => omega
  | succ n ih =>
    unfold spacelessFix
    simp only
    split
    · rename_i heq
      simpa using heq
    · rename_i hne
      apply ih
      obtain ⟨p1, _⟩ := spacelessPass_only_deletes_whitespace (s.length + 1) s
      have hle := p1.length_le
      have : (spacelessPass (s.length + 1) s).length ≠ s.length := by
        intro hl
        exact hne (by simpa using p1.eq_of_length hl)
      omega

/-- the loop really reaches the fixpoint (`for { s2 := re.ReplaceAllString(s, …); if s == s2 { break } }`):
    another pass over the result changes nothing -/
theorem spaceless_is_fixpoint (s : Bytes) :
    spacelessPass ((spaceless s).length + 1) (spaceless s) = spaceless s :=
  spacelessFix_fixpoint _ _ (Nat.lt_succ_self _)

-- non-vacuity: nested tags need the second pass
example : spaceless b!"<a> <b> <c> x <d>\n</d>" = b!"<a><b><c> x <d></d>" := by decide
example : spaceless b!" <a>  text <b> " = b!" <a>  text <b> " := by decide

/-! ### lexer and parser: where the flags come from (tables regenerated from `/repo/lexer.go`) -/

/-- **The `spaceless` tag is `spaceless` applied to its rendered body**: whatever the body is, if
    it renders (into a buffer of its own) to `out`, the tag writes `spaceless out` — by
    `spaceless_only_deletes_whitespace`, `out` with some whitespace deleted — and nothing else. -/
theorem spaceless_tag_filters_rendered_body (T : LexTables) (cfg : SetCfg) (g : Env) (fuel : Nat) (body : List Node)
    (σ σ1 : ES) (out : Bytes) (hbody : (buffered (execNodes T cfg g fuel body)).run σ = .ok out σ1) :
    (execNode T cfg g (fuel + 1) (.tagSpaceless body)).run σ = .ok () { σ1 with out := σ1.out ++ spaceless out } := by
  unfold execNode
  simp only []
  rw [run_bind_ok hbody]
  rfl

/-- the three-byte delimiters win over their two-byte prefixes / the bare `-` -/
theorem gen_dashed_delimiters_recognised_first (rest : Bytes) :
    firstSym Gen.lexTables.symbols (b!"{{-" ++ rest) = some b!"{{-" ∧
    firstSym Gen.lexTables.symbols (b!"-}}" ++ rest) = some b!"-}}" ∧
    firstSym Gen.lexTables.symbols (b!"{%-" ++ rest) = some b!"{%-" ∧
    firstSym Gen.lexTables.symbols (b!"-%}" ++ rest) = some b!"-%}" := by
  refine ⟨?_, ?_, ?_, ?_⟩ <;> simp [firstSym, Gen.lexTables, List.find?, List.isPrefixOf]

/-- the cutset of the `-` markers (`tokenSpaceChars`, shared with the lexer) is the one modelled -/
theorem gen_dash_cutset : Gen.lexTables.space = dashWs := by decide

/-- a dashed delimiter is emitted as the plain delimiter with `TrimWhitespaces` set;
    a plain delimiter is emitted without -/
theorem dashed_delimiters_flagged (p : Pos) :
    ((mkSym b!"{{-" p).val, (mkSym b!"{{-" p).trim) = (b!"{{", true) ∧
    ((mkSym b!"-}}" p).val, (mkSym b!"-}}" p).trim) = (b!"}}", true) ∧
    ((mkSym b!"{%-" p).val, (mkSym b!"{%-" p).trim) = (b!"{%", true) ∧
    ((mkSym b!"-%}" p).val, (mkSym b!"-%}" p).trim) = (b!"%}", true) ∧
    (mkSym b!"{{" p).trim = false ∧ (mkSym b!"}}" p).trim = false ∧
    (mkSym b!"{%" p).trim = false ∧ (mkSym b!"%}" p).trim = false := by
  refine ⟨?_, ?_, ?_, ?_, ?_, ?_, ?_, ?_⟩ <;> rfl

/-- the parser gives a text node exactly the flags of its two neighbouring tokens: `-` of the
    delimiter before / after it, and whether that delimiter is a block tag's `%}` / `{%` -/
theorem text_node_flags_come_from_neighbours (T : LexTables) (cfg : SetCfg) (fuel : Nat)
    (prev : Option Tok) (ds : DS) (t : Tok) (rest : List Tok)
    (hts : ds.doc.ts = t :: rest) (hty : t.typ = .html) :
    parseDocElement T cfg (fuel + 1) prev ds =
      .ok (.html t.val
            (match prev with | some p => p.typ == .sym && p.trim | none => false)
            (match rest with | n :: _ => n.typ == .sym && n.trim | [] => false)
            (match prev with | some p => p.isBlockClose | none => false)
            (match rest with | n :: _ => n.isBlockOpen | [] => false)
            ds.self, some t, { ds with doc := ds.doc.adv }) := by
  rw [parseDocElement.eq_def]
  simp only [hts, hty, pure, Except.pure]
  cases prev <;> cases rest <;> rfl

end Pongo.C15

/-
  C18 — Built-in data filters match their Django/Python reference semantics.
  Property theorems only.  References (`py*`, `roundHalfUp…`) are written
  directly from the Python / Django definitions.
-/
import Pongo.Model.Exec
import Pongo.Gen.FilterFacts

namespace Pongo.C18

/-! ### slice = Python slicing -/

/-- Python's normalisation of one slice index for a sequence of length `len` -/
def pyNorm (len i : Int) : Int := if i < 0 then max (len + i) 0 else min i len

/-- Python `xs[a:b]` (step 1); `none` = bound omitted -/
def pySlice (xs : List α) (a c : Option Int) : List α :=
  let len : Int := xs.length
  let lo := pyNorm len (a.getD 0)
  let hi := pyNorm len (c.getD len)
  (xs.drop lo.toNat).take (hi - lo).toNat

/-- The bounds `filterSlice` computes are Python's, for all integers
    (negative, zero, huge, inverted), with and without the upper bound. -/
theorem slice_bounds_python (len from_ to_ : Int) (missing : Bool) (h : 0 ≤ len) :
    (sliceBoundsI len from_ to_ missing).1 = pyNorm len from_ ∧
    (sliceBoundsI len from_ to_ missing).2 = max (pyNorm len from_) (pyNorm len (if missing then len else to_)) := by
  unfold sliceBoundsI pyNorm
  cases missing <;> simp only [Bool.false_eq_true, if_false, if_true, Int.max_def, Int.min_def, ge_iff_le, gt_iff_lt,
    Bool.and_eq_true, decide_eq_true_eq] <;> constructor <;> (repeat' split) <;> omega

/-- …and they are always inside the sequence: `0 ≤ lo ≤ hi ≤ len` (so the Go
    slice expression that follows cannot go out of range). -/
theorem slice_bounds_in_range (len from_ to_ : Int) (missing : Bool) (h : 0 ≤ len) :
    0 ≤ (sliceBoundsI len from_ to_ missing).1 ∧
    (sliceBoundsI len from_ to_ missing).1 ≤ (sliceBoundsI len from_ to_ missing).2 ∧
    (sliceBoundsI len from_ to_ missing).2 ≤ len := by
  unfold sliceBoundsI
  cases missing <;> simp only [Bool.false_eq_true, if_false, if_true, Int.max_def, Int.min_def, ge_iff_le, gt_iff_lt,
    Bool.and_eq_true, decide_eq_true_eq] <;> refine ⟨?_, ?_, ?_⟩ <;> (repeat' split) <;> omega

/-- `slice` on a list is Python slicing. -/
theorem slice_is_python (ty : Bytes) (xs : List Val) (from_ to_ : Int) (missing : Bool) :
    vSlice (.list ty xs) (sliceBounds xs.length from_ to_ missing).1 (sliceBounds xs.length from_ to_ missing).2 =
      .list ty (pySlice xs (some from_) (if missing then none else some to_)) := by
  obtain ⟨h1, h2⟩ := slice_bounds_python xs.length from_ to_ missing (by omega)
  obtain ⟨r0, r1, _⟩ := slice_bounds_in_range xs.length from_ to_ missing (by omega)
  simp only [vSlice, Val.reflected, Val.resolved, pySlice, Option.getD_some, sliceBounds]
  rw [h1] at r0 r1 ⊢
  rw [h2] at r1 ⊢
  congr 2
  cases missing <;> simp only [Bool.false_eq_true, if_false, if_true, Option.getD_some, Option.getD_none] at r1 ⊢ <;> omega

/-! ### padding filters -/

/-- what `center` adds on the left and on the right -/
def centerPads (len w : Int) : Int × Int :=
  let spaces := w - len
  (spaces / 2 + spaces % 2, spaces / 2)

/-- `center`: when the width exceeds the length, the text is kept unaltered
    between `l` and `r` spaces with `l + len + r = w` and `l = r` or `l = r + 1`;
    above `maxCharPadding` it is an error; otherwise the input comes back. -/
theorem center_shape (s : Bytes) (w : Int64) :
    let len : Int := (Val.str s).len
    applyFilter b!"center" ⟨.str s, false⟩ ⟨.int w, false⟩ =
      if w.toInt ≤ len then .ok ⟨.str s, false⟩
      else if w.toInt - len > maxCharPadding then .err "center: too much padding"
      else .ok ⟨.str (Bytes.spaces (centerPads len w.toInt).1.toNat ++ s ++ Bytes.spaces (centerPads len w.toInt).2.toNat), false⟩ := by
  simp [applyFilter, centerPads, Val.toInt, Val.resolved, Val.toS, Val.toStr, Val.isNil, Val.rkind, Val.kind, mkStr, Val.len]

theorem center_pads_sum (len w : Int) (h : len < w) :
    let p := centerPads len w
    p.1 + len + p.2 = w ∧ 0 ≤ p.2 ∧ (p.1 = p.2 ∨ p.1 = p.2 + 1) := by
  unfold centerPads
  simp only
  omega

/-- `ljust`: the text followed by `max (w - len) 0` spaces (error above the cap). -/
theorem ljust_shape (s : Bytes) (w : Int64) :
    let len : Int := (Utf8.runes s).length
    let pad : Int := if w.toInt - len < 0 then 0 else w.toInt - len
    applyFilter b!"ljust" ⟨.str s, false⟩ ⟨.int w, false⟩ =
      if pad > maxCharPadding then .err "ljust: too much padding"
      else .ok ⟨.str (s ++ Bytes.spaces pad.toNat), false⟩ := by
  by_cases h : w.toInt - ((Utf8.runes s).length : Int) < 0 <;>
    simp [applyFilter, Val.toInt, Val.resolved, Val.toS, Val.toStr, Val.isNil, Val.rkind, Val.kind, mkStr, h]

/-- `rjust`: `max (w - len) 0` spaces followed by the text; negative widths add nothing. -/
theorem rjust_shape (s : Bytes) (w : Int64) :
    let n := (Utf8.runes s).length
    applyFilter b!"rjust" ⟨.str s, false⟩ ⟨.int w, false⟩ =
      if (if w.toInt < 0 then 0 else w.toInt) > maxCharPadding then .err "rjust: too much padding"
      else .ok ⟨.str (Bytes.spaces ((if w.toInt < 0 then 0 else w.toInt).toNat - n) ++ s), false⟩ := by
  by_cases h : w.toInt < 0 <;>
    simp [applyFilter, Val.toInt, Val.resolved, Val.toS, Val.toStr, Val.isNil, Val.rkind, Val.kind, mkStr, h]

/-! ### numeric filters -/

/-- `divisibleby`: a zero divisor gives False (never a division by zero). -/
theorem divisibleby_zero (v : V) : applyFilter b!"divisibleby" v ⟨.int 0, false⟩ = .ok ⟨.bool false, false⟩ := by
  simp [applyFilter, Val.toInt, Val.resolved, mkBool]

/-- `yesno` is three-way: nil ↦ third, true ↦ first, false ↦ second choice. -/
theorem yesno_default (v : V) :
    applyFilter b!"yesno" v ⟨.nil, false⟩ =
      .ok ⟨.str (if v.v.isNil then b!"maybe" else if v.v.isTrue then b!"yes" else b!"no"), false⟩ := by
  simp [applyFilter, Val.toS, Val.toStr, Val.isNil, Val.rkind, Val.kind, mkStr]
  split <;> simp_all
  split <;> simp_all

/-! ### edges that were wrong once (D52–D54, D58), now theorems about the model the suites tie to the code -/

/-- `join` with an empty separator joins the items of a list (it used to print the list's
    placeholder text); only a string input comes back as it is -/
theorem join_empty_separator_list (ty : Bytes) (xs : List Val) :
    applyFilter b!"join" ⟨.list ty xs, false⟩ ⟨.str [], false⟩ = .ok ⟨.str (Bytes.join [] (xs.map Val.toS)), false⟩ := by
  simp [applyFilter, Val.canSlice, Val.isString, Val.rkind, Val.kind, Val.resolved, Val.toS, Val.toStr, Val.isNil, mkStr, joinVals, Val.reflected]

/-! ### the sequence operations they name -/

/-- `first` / `last` of a non-empty list are its first / last item; of anything without items, the empty text -/
theorem first_last_of_list (ty : Bytes) (x : Val) (xs : List Val) :
    applyFilter b!"first" ⟨.list ty (x :: xs), false⟩ ⟨.nil, false⟩ = .ok ⟨x, false⟩ ∧
    applyFilter b!"last" ⟨.list ty (x :: xs), false⟩ ⟨.nil, false⟩ = .ok ⟨(x :: xs).getD xs.length .nil, false⟩ ∧
    applyFilter b!"first" ⟨.list ty [], false⟩ ⟨.nil, false⟩ = .ok ⟨.str [], false⟩ ∧
    applyFilter b!"last" ⟨.list ty [], false⟩ ⟨.nil, false⟩ = .ok ⟨.str [], false⟩ := by
  refine ⟨?_, ?_, ?_, ?_⟩ <;>
    simp [applyFilter, Val.canSlice, Val.rkind, Val.kind, Val.resolved, Val.len, Val.reflected, vIndex, mkStr]

/-- `length` counts the items of a list and the characters (not the bytes) of a text; `length_is` compares with it -/
theorem length_counts (ty : Bytes) (xs : List Val) (s : Bytes) (p : V) :
    applyFilter b!"length" ⟨.list ty xs, false⟩ p = .ok ⟨.int (Int64.ofNat xs.length), false⟩ ∧
    applyFilter b!"length" ⟨.str s, false⟩ p = .ok ⟨.int (Int64.ofNat (Utf8.runes s).length), false⟩ ∧
    applyFilter b!"length_is" ⟨.list ty xs, false⟩ p = .ok ⟨.bool (Int64.ofNat xs.length == p.v.toInt), false⟩ := by
  refine ⟨?_, ?_, ?_⟩ <;> simp [applyFilter, Val.len, Val.resolved, Val.reflected, mkInt, mkBool]

/-- `default` replaces exactly the false values, `default_if_none` exactly nothing-at-all; both hand the
    value (or the parameter) on unchanged, safe mark included -/
theorem default_picks (i p : V) :
    applyFilter b!"default" i p = .ok (if i.v.isTrue then i else p) ∧
    applyFilter b!"default_if_none" i p = .ok (if i.v.isNil then p else i) := by
  constructor
  · by_cases h : i.v.isTrue <;> simp [applyFilter, h]
  · by_cases h : i.v.isNil <;> simp [applyFilter, h]

/-- `add` is integer addition on two integers, and concatenation as soon as one side is no number -/
theorem add_adds_or_concatenates (a c : Int64) (s t : Bytes) :
    applyFilter b!"add" ⟨.int a, false⟩ ⟨.int c, false⟩ = .ok ⟨.int (a + c), false⟩ ∧
    applyFilter b!"add" ⟨.str s, false⟩ ⟨.str t, false⟩ = .ok ⟨.str (s ++ t), false⟩ ∧
    applyFilter b!"add" ⟨.int a, false⟩ ⟨.str t, false⟩ = .ok ⟨.str ((Val.int a).toS ++ t), false⟩ := by
  refine ⟨?_, ?_, ?_⟩ <;>
    simp [applyFilter, Val.isNumber, Val.isInteger, Val.isFloat, Val.isNil, Val.rkind, Val.kind, Val.resolved, Val.toInt, mkInt, mkStr, Val.toS, Val.toStr]

/-- `upper` / `lower` change letters only: the result of an ASCII text has the same length, and what
    is already upper (lower) case stays -/
theorem upper_lower_keep_shape (s : Bytes) (h : isAscii s = true) (p : V) :
    (∃ r, applyFilter b!"upper" ⟨.str s, false⟩ p = .ok ⟨.str r, false⟩ ∧ r.length = s.length) ∧
    (∃ r, applyFilter b!"lower" ⟨.str s, false⟩ p = .ok ⟨.str r, false⟩ ∧ r.length = s.length) := by
  constructor
  · exact ⟨s.map asciiUpper, by simp [applyFilter, Val.toS, Val.toStr, Val.isNil, Val.rkind, Val.kind, Val.resolved, h, mkStr], by simp⟩
  · exact ⟨s.map asciiLower, by simp [applyFilter, Val.toS, Val.toStr, Val.isNil, Val.rkind, Val.kind, Val.resolved, h, mkStr], by simp⟩

example : (Utf8.runes b!"日本").length = 2 ∧ (b!"日本").length = 6 := by decide

/-- `pluralize`: a float is one only if it is 1.0 — 1.5 takes the plural -/
theorem pluralize_float (f : Float) (h : (f == 1) = false) :
    applyFilter b!"pluralize" ⟨.float f, false⟩ ⟨.nil, false⟩ = .ok ⟨.str b!"s", false⟩ := by
  simp [applyFilter, Val.isNumber, Val.isInteger, Val.isFloat, Val.rkind, Val.kind, Val.resolved, Val.toFloat, Val.len, mkStr, h]

/-- `ljust` / `center` measure the text that is padded, also when the input is a number -/
theorem ljust_number (n w : Int64) :
    let txt := (Val.int n).toS
    let pad : Int := if w.toInt - (Utf8.runes txt).length < 0 then 0 else w.toInt - (Utf8.runes txt).length
    applyFilter b!"ljust" ⟨.int n, false⟩ ⟨.int w, false⟩ =
      if pad > maxCharPadding then .err "ljust: too much padding" else .ok ⟨.str (txt ++ Bytes.spaces pad.toNat), false⟩ := by
  by_cases h : w.toInt - ((Utf8.runes (Val.int n).toS).length : Int) < 0 <;>
    simp [applyFilter, Val.toInt, Val.resolved, mkStr, h]

/-! ### the `widthratio` tag -/

theorem bind_ok {α β} {x : XM α} {f : α → XM β} {σ σ' : ES} {a : α}
    (h : x.run σ = .ok a σ') : (x >>= f).run σ = (f a).run σ' := by
  simp only [EStateM.run] at h ⊢
  simp [bind, EStateM.bind, h]

/-- **`widthratio` computes round-half-up of value / max · width in floating point** — the three
    operands evaluated left to right, `0` for a maximum of zero — and prints it as a decimal
    integer, or binds it under the `as` name without printing. -/
theorem widthratio_value (T : LexTables) (cfg : SetCfg) (g : Env) (fuel : Nat) (c m w : Expr) (asName : Bytes)
    (σ σ1 σ2 σ3 : ES) (cv mv wv : V)
    (hc : (eval T cfg g fuel c).run σ = .ok cv σ1) (hm : (eval T cfg g fuel m).run σ1 = .ok mv σ2)
    (hw : (eval T cfg g fuel w).run σ2 = .ok wv σ3) :
    let value := if mv.v.toFloat == 0 then 0 else floatToInt (Float.floor (cv.v.toFloat / mv.v.toFloat * wv.v.toFloat + 0.5))
    (execNode T cfg g (fuel + 1) (.tagWidthratio c m w asName)).run σ =
      if asName = [] then (write (fmtInt value)).run σ3
      else (modifyCur fun f => { f with priv := f.priv.set asName (.int value) }).run σ3 := by
  intro value
  unfold execNode
  simp only []
  rw [bind_ok hc, bind_ok hm, bind_ok hw]
  by_cases h : asName = [] <;> simp [h, value]

/-- the padding cap is the one in the code -/
theorem gen_maxCharPadding : (Gen.maxCharPadding : Int) = maxCharPadding := by decide
theorem gen_maxFloatFormatDecimals : (Gen.maxFloatFormatDecimals : Int) = maxFloatFormatDecimals := by decide

/-! ### non-vacuity -/
example : pySlice [1, 2, 3, 4, 5] (some (-2)) none = [4, 5] := by decide
example : pySlice [1, 2, 3, 4, 5] (some 1) (some (-1)) = [2, 3, 4] := by decide
example : sliceBounds 5 (-2) 0 true = (3, 5) := by decide
example : sliceBounds 5 3 1 false = (3, 3) := by decide
example : centerPads 3 8 = (3, 2) := by decide

end Pongo.C18

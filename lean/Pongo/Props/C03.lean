/-
  C03 — Sandbox: a banned tag or filter cannot be used by any route.
  Property theorems only.
-/
import Pongo.Model.Sets
import Pongo.Gen.BanSites
import Pongo.Lemmas.ParseAll
import Pongo.Lemmas.TagsAll

namespace Pongo.C03

variable (rt rf : List Bytes)

/-! ### the ban state machine -/

/-- Spec: a set of names and a frozen flag.  `accepted h` = the names whose
    ban call succeeded, in order. -/
def acceptedTags (rt rf : List Bytes) : BanState → List BanOp → List Bytes
  | _, [] => []
  | s, op :: rest =>
    let r := banStep rt rf s op
    match op with
    | .banTag n => (if r.2 then [n] else []) ++ acceptedTags rt rf r.1 rest
    | _ => acceptedTags rt rf r.1 rest

/-- After any history, the banned tags are exactly the initial ones plus the
    names whose `BanTag` call succeeded. -/
theorem bans_are_accepted (s : BanState) (h : List BanOp) :
    (banRun rt rf s h).1.bannedTags = s.bannedTags ++ acceptedTags rt rf s h := by
  induction h generalizing s with
  | nil => simp [banRun, acceptedTags]
  | cons op rest ih =>
    simp only [banRun, acceptedTags]
    rw [ih]
    cases op with
    | banTag n =>
      simp only [banStep]
      split <;> try simp
      split <;> try simp
      split <;> simp
    | banFilter n =>
      simp only [banStep]
      split <;> try simp
      split <;> try simp
      split <;> simp
    | create => simp [banStep]

/-- Once a template was created the set is frozen for good… -/
theorem frozen_stays (s : BanState) (hs : s.frozen = true) (h : List BanOp) :
    (banRun rt rf s h).1.frozen = true := by
  induction h generalizing s with
  | nil => simpa [banRun]
  | cons op rest ih =>
    simp only [banRun]
    apply ih
    cases op <;> simp [banStep, hs] <;> (repeat' split) <;> simp_all

/-- …and every later ban attempt is refused and changes nothing. -/
theorem ban_after_create_refused (s : BanState) (hs : s.frozen = true) (op : BanOp) (hop : op ≠ .create) :
    banStep rt rf s op = (s, false) := by
  cases op with
  | banTag n => simp [banStep, hs]
  | banFilter n => simp [banStep, hs]
  | create => exact absurd rfl hop

theorem bans_fixed_after_create (s : BanState) (hs : s.frozen = true) (h : List BanOp) :
    (banRun rt rf s h).1.bannedTags = s.bannedTags ∧ (banRun rt rf s h).1.bannedFilters = s.bannedFilters := by
  induction h generalizing s with
  | nil => simp [banRun]
  | cons op rest ih =>
    simp only [banRun]
    cases op with
    | create =>
      have := ih { s with frozen := true } rfl
      simpa [banStep] using this
    | banTag n =>
      rw [ban_after_create_refused rt rf s hs _ (by simp)]
      exact ih s hs
    | banFilter n =>
      rw [ban_after_create_refused rt rf s hs _ (by simp)]
      exact ih s hs

/-- Unknown and duplicate names are refused and change nothing. -/
theorem ban_unknown_or_duplicate_refused (s : BanState) (n : Bytes)
    (h : rt.elem n = false ∨ s.bannedTags.elem n = true) : banStep rt rf s (.banTag n) = (s, false) := by
  unfold banStep
  rcases h with h | h <;> simp [h] <;> intros <;> simp_all

/-! ### the parser consults the ban lists on every by-name lookup -/

/-- A banned tag name after `{%` is a compile error whatever follows and
    whatever the nesting (`parseTag` is the only place tags are looked up). -/
theorem banned_tag_rejected (T : LexTables) (cfg : SetCfg) (fuel : Nat) (ds : DS) (nameTok : Tok) (rest : List Tok)
    (hts : ds.doc.ts = nameTok :: rest) (hid : nameTok.typ = .ident)
    (hreg : cfg.regTags.elem nameTok.val = true) (hban : cfg.bannedTags.elem nameTok.val = true) :
    ∃ e, parseTag T cfg (fuel + 1) ds = .error e ∧ e.kind = .parser := by
  rw [parseTag]
  simp only [PS.matchType, hts, hid, beq_self_eq_true, if_true, hreg, hban, Bool.not_true, Bool.false_eq_true, if_false]
  exact ⟨_, rfl, by simp [PS.err]⟩

/-- `parseFilter` binds exactly the identifier it reads -/
theorem parseFilter_name (cfg : SetCfg) (fuel : Nat) (p : PS) (idTok : Tok) (rest : List Tok)
    (hts : p.ts = idTok :: rest) (hid : idTok.typ = .ident) (f : FCall) (p' : PS)
    (h : parseFilter cfg (fuel + 1) p = .ok (f, p')) : ∃ param pos, f = .mk idTok.val param pos := by
  obtain ⟨ts, all⟩ := p
  simp only at hts
  subst hts
  rw [parseFilter] at h
  simp only [PS.matchType, hid, beq_self_eq_true, if_true] at h
  split at h
  · cases h
  · split at h
    · split at h
      · cases h
      · simp only [bind, Except.bind] at h
        split at h
        · cases h
        · simp only [pure, Except.pure] at h
          cases h
          exact ⟨_, _, rfl⟩
    · simp only [pure, Except.pure] at h
      cases h
      exact ⟨_, _, rfl⟩

/-- A banned filter name after `|` is a compile error (`filterLoop` is the
    only place the expression parser binds filters). -/
theorem banned_filter_rejected (cfg : SetCfg) (fuel : Nat) (acc : List FCall) (p : PS) (bar idTok : Tok) (rest : List Tok)
    (hts : p.ts = bar :: idTok :: rest) (hbar : bar.isSym b!"|" = true) (hid : idTok.typ = .ident)
    (hban : cfg.bannedFilters.elem idTok.val = true) :
    ∃ e, filterLoop cfg (fuel + 2) acc p = .error e := by
  obtain ⟨ts, all⟩ := p
  simp only at hts
  subst hts
  rw [filterLoop]
  simp only [PS.matchSym, hbar, if_true, PS.adv, List.tail_cons]
  cases hf : parseFilter cfg (fuel + 1) ⟨idTok :: rest, all⟩ with
  | error e => exact ⟨e, by simp [bind, Except.bind]⟩
  | ok r =>
    obtain ⟨f, p'⟩ := r
    obtain ⟨param, pos, rfl⟩ := parseFilter_name cfg fuel ⟨idTok :: rest, all⟩ idTok rest rfl hid f p' hf
    refine ⟨p'.err "Usage of filter is not allowed (sandbox restriction active).", ?_⟩
    simp only [bind, Except.bind, hban, if_true]

/-- The `filter` tag resolves its filters by name at run time; its argument
    parser refuses banned names at compile time. -/
theorem banned_filter_in_filter_tag_rejected (cfg : SetCfg) (fuel : Nat) (acc : List (Bytes × Option Expr)) (args : PS)
    (idTok : Tok) (rest : List Tok) (hts : args.ts = idTok :: rest) (hid : idTok.typ = .ident)
    (hban : cfg.bannedFilters.elem idTok.val = true) :
    ∃ e, filterTagArgs cfg (fuel + 1) acc args = .error e := by
  have hb : idTok.val ∈ cfg.bannedFilters := by simpa using hban
  simp [filterTagArgs, PS.remaining, hts, PS.matchType, hid, hb]

/-! ### no route through the expression grammar: the whole accepted tree is free of banned filters

From the parser-wide induction of `Lemmas/ParseAll.lean` (all sixteen functions of the expression
parser, every fuel): whatever token list an expression is parsed from, and however deep a filter
call sits in it — in a chain, in the parameter of another filter, in a subscript, in a call
argument, in an item of a list literal, behind parentheses or operators — its name was written as
an identifier token, is registered and is *not banned*; otherwise the expression is not accepted. -/

/-- **A banned filter is in no accepted expression, at any depth.** -/
theorem accepted_expression_has_no_banned_filter (cfg : SetCfg) (toks : List Tok) (fuel : Nat) (e : Expr) (p' : PS)
    (h : parseExpression cfg fuel ⟨toks, toks⟩ = .ok (e, p')) :
    ExprAll (fun name => cfg.bannedFilters.elem name = false ∧ cfg.regFilters.elem name = true ∧
      ∃ t ∈ toks, t.typ = .ident ∧ t.val = name) e :=
  ((allParse cfg toks (Q := fun name => cfg.bannedFilters.elem name = false ∧ cfg.regFilters.elem name = true ∧
      ∃ t ∈ toks, t.typ = .ident ∧ t.val = name) (fun _ hx => ⟨hx.2.1, hx.1, hx.2.2⟩) fuel).parseExpression _ (Good.ofList toks) _ h).1

/-- the same for a filter written with its parameter (the route of the `filter` tag and of chains) -/
theorem accepted_filter_parameter_has_no_banned_filter (cfg : SetCfg) (toks : List Tok) (fuel : Nat) (name : Bytes)
    (param : Expr) (pos : TokPos) (p' : PS)
    (h : parseFilter cfg fuel ⟨toks, toks⟩ = .ok (.mk name (some param) pos, p')) :
    ExprAll (fun name => cfg.bannedFilters.elem name = false) param :=
  ((allParse cfg toks (Q := fun name => cfg.bannedFilters.elem name = false) (fun _ hx => hx.2.1) fuel).parseFilter _
    (Good.ofList toks) _ h).1.2.2 param rfl

/-! ### no route through the document grammar: the whole compiled world is free of banned tags

From the document-parser-wide induction of `Lemmas/TagsAll.lean` (eight mutual functions, the
twenty-three tag parsers, every fuel; nothing assumed about the sources): every tag node of every
template a compilation produces — the template itself, tag bodies at any depth, block bodies, macro
bodies, and every template that `extends` / `include` / `import` / `ssi … parsed` compile from the
loaders on the way — has a name that is registered and *not banned*. -/

/-- the admission test of `parseTag` -/
def TagAdmitted (cfg : SetCfg) (name : Bytes) : Prop := cfg.regTags.elem name = true ∧ cfg.bannedTags.elem name = false

/-- **A banned tag is in no compiled tree, at any depth, in any template reached.** -/
theorem compiled_world_has_no_banned_tag (T : LexTables) (cfg : SetCfg) (fuel : Nat) (cs cs' : CState) (name src : Bytes)
    (isString : Bool) (ti : Nat) (hw : WorldTags (TagAdmitted cfg) cs)
    (h : compileTpl T cfg fuel cs name isString src = .ok (ti, cs')) : WorldTags (TagAdmitted cfg) cs' :=
  (allDocT T cfg (Tg := TagAdmitted cfg) (fun _ h1 h2 => ⟨h1, h2⟩) fuel).compileTpl cs name isString src hw _ h

/-- … starting from nothing: whatever `FromString` / `FromFile` compile -/
theorem compiled_from_scratch_has_no_banned_tag (T : LexTables) (cfg : SetCfg) (fuel : Nat) (cs' : CState) (name src : Bytes)
    (isString : Bool) (ti : Nat) (h : compileTpl T cfg fuel {} name isString src = .ok (ti, cs')) :
    WorldTags (TagAdmitted cfg) cs' :=
  compiled_world_has_no_banned_tag T cfg fuel {} cs' name src isString ti worldTags_empty h

/-- what the statement says for one banned name: no node of that tag anywhere (here: `for`) -/
theorem banned_for_tag_is_nowhere (cfg : SetCfg) (hb : cfg.bannedTags.elem b!"for" = true) (n : Node)
    (hn : TagsOK (TagAdmitted cfg) n) : ∀ k v o r s b e, n ≠ .tagFor k v o r s b e := by
  intro k v o r s b e he
  subst he
  cases hn with
  | tagFor _ _ _ _ _ _ _ ht _ _ => rw [ht.2] at hb; cases hb

/-! ### the code's lookup sites (regenerated from /repo) -/

/-- every place where the code looks a tag or filter up by a name that comes
    from a template is dominated by a lookup in the set's ban list -/
theorem gen_ban_sites_guarded : Gen.banSites.all (fun s => s.2.2) = true := by decide

/-! ### non-vacuity -/
example : (banRun [b!"if"] [b!"upper"] {} [.banTag b!"if", .create, .banFilter b!"upper", .banTag b!"if"]).2 =
    [true, true, false, false] := by decide

/-- `l[a|upper]|lower`: accepted when nothing is banned, refused when the inner `upper` is -/
def toksNested : List Tok :=
  [⟨.ident, b!"l", 1, 1, false, 0⟩, ⟨.sym, b!"[", 1, 2, false, 1⟩, ⟨.ident, b!"a", 1, 3, false, 2⟩, ⟨.sym, b!"|", 1, 4, false, 3⟩,
   ⟨.ident, b!"upper", 1, 5, false, 4⟩, ⟨.sym, b!"]", 1, 10, false, 9⟩, ⟨.sym, b!"|", 1, 11, false, 10⟩, ⟨.ident, b!"lower", 1, 12, false, 11⟩]

example : ∃ r, parseExpression { regTags := [], regFilters := [b!"upper", b!"lower"] } 40 ⟨toksNested, toksNested⟩ = .ok r :=
  ⟨_, rfl⟩
example : ∃ e, parseExpression { regTags := [], regFilters := [b!"upper", b!"lower"], bannedFilters := [b!"upper"] } 40
    ⟨toksNested, toksNested⟩ = .error e := ⟨_, rfl⟩

end Pongo.C03

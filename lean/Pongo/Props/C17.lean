/-
  C17 — Escaping filters neutralise exactly what they promise and lose nothing.
  Property theorems only (helpers: `Pongo/Lemmas/Replace.lean`).
  All statements are for every byte string `s` (any bytes, any length).
-/
import Pongo.Lemmas.Replace
import Pongo.Gen.FilterFacts

namespace Pongo.C17

def specials : Bytes := [0x3c, 0x3e, 0x22, 0x27]

def entities : List Bytes := [b!"&amp;", b!"&gt;", b!"&lt;", b!"&quot;", b!"&#39;"]

/-- Spec: decoder of the five entities (anything else is copied) -/
def unescapeHtml : Bytes → Bytes
  | 0x26 :: 0x61 :: 0x6d :: 0x70 :: 0x3b :: t => 0x26 :: unescapeHtml t
  | 0x26 :: 0x67 :: 0x74 :: 0x3b :: t => 0x3e :: unescapeHtml t
  | 0x26 :: 0x6c :: 0x74 :: 0x3b :: t => 0x3c :: unescapeHtml t
  | 0x26 :: 0x71 :: 0x75 :: 0x6f :: 0x74 :: 0x3b :: t => 0x22 :: unescapeHtml t
  | 0x26 :: 0x23 :: 0x33 :: 0x39 :: 0x3b :: t => 0x27 :: unescapeHtml t
  | c :: t => c :: unescapeHtml t
  | [] => []

theorem unescapeHtml_cons_ne {x : UInt8} (h : x ≠ 0x26) (t : Bytes) :
    unescapeHtml (x :: t) = x :: unescapeHtml t := by
  rw [unescapeHtml]
  all_goals (intros; simp_all)

/-- `escape` output contains none of `< > " '`. -/
theorem escape_no_special (s : Bytes) : ∀ c ∈ escapeHtml s, c ∉ specials := by
  rw [escapeHtml_eq_flatMap]
  intro c hc
  obtain ⟨x, _, hx⟩ := List.mem_flatMap.mp hc
  have k : ∀ e ∈ entities, ∀ c ∈ e, c ∉ specials := by decide
  unfold escByte at hx
  split at hx
  · exact k _ (by simp [entities]) c hx
  split at hx
  · exact k _ (by simp [entities]) c hx
  split at hx
  · exact k _ (by simp [entities]) c hx
  split at hx
  · exact k _ (by simp [entities]) c hx
  split at hx
  · exact k _ (by simp [entities]) c hx
  · simp only [List.mem_singleton] at hx
    subst hx
    unfold specials
    simp_all

/-- The output is a sequence of chunks, each one of the five entities or a
    single byte that is none of `& < > " '`: in particular every `&` in the
    output is the first byte of an entity. -/
theorem escape_amp_entities (s : Bytes) :
    ∃ chunks : List Bytes, escapeHtml s = chunks.flatten ∧
      ∀ ch ∈ chunks, ch ∈ entities ∨ ∃ x, ch = [x] ∧ x ≠ 0x26 ∧ x ∉ specials := by
  refine ⟨s.map escByte, ?_, ?_⟩
  · rw [escapeHtml_eq_flatMap, List.flatMap_def]
  · intro ch hch
    obtain ⟨x, _, rfl⟩ := List.mem_map.mp hch
    unfold escByte entities specials
    by_cases h1 : x = 0x26
    · simp [h1]
    by_cases h2 : x = 0x3e
    · simp [h2]
    by_cases h3 : x = 0x3c
    · simp [h3]
    by_cases h4 : x = 0x22
    · simp [h4]
    by_cases h5 : x = 0x27
    · simp [h5]
    right
    exact ⟨x, by simp [h1, h2, h3, h4, h5], h1, by simp [h2, h3, h4, h5]⟩

/-- HTML-unescaping the output gives back the input, for every byte string. -/
theorem escape_roundtrip (s : Bytes) : unescapeHtml (escapeHtml s) = s := by
  rw [escapeHtml_eq_flatMap]
  induction s with
  | nil => simp [unescapeHtml]
  | cons x t ih =>
    simp only [List.flatMap_cons]
    by_cases h1 : x = 0x26
    · subst h1; rw [show escByte 0x26 = b!"&amp;" by decide]; simp [unescapeHtml, ih]
    by_cases h2 : x = 0x3e
    · subst h2; rw [show escByte 0x3e = b!"&gt;" by decide]; simp [unescapeHtml, ih]
    by_cases h3 : x = 0x3c
    · subst h3; rw [show escByte 0x3c = b!"&lt;" by decide]; simp [unescapeHtml, ih]
    by_cases h4 : x = 0x22
    · subst h4; rw [show escByte 0x22 = b!"&quot;" by decide]; simp [unescapeHtml, ih]
    by_cases h5 : x = 0x27
    · subst h5; rw [show escByte 0x27 = b!"&#39;" by decide]; simp [unescapeHtml, ih]
    rw [show escByte x = [x] by simp [escByte, h1, h2, h3, h4, h5]]
    simp only [List.singleton_append]
    rw [unescapeHtml_cons_ne h1, ih]

/-- `addslashes` puts exactly one backslash before every `\ " '` and adds nothing else. -/
theorem addslashes_exact (s : Bytes) :
    addslashes s = s.flatMap (fun x => if x = 0x5c ∨ x = 0x22 ∨ x = 0x27 then [0x5c, x] else [x]) := by
  rw [addslashes_eq_flatMap]
  congr 1
  funext x
  unfold slashByte
  by_cases h1 : x = 0x5c
  · subst h1; decide
  by_cases h2 : x = 0x22
  · subst h2; decide
  by_cases h3 : x = 0x27
  · subst h3; decide
  simp [h1, h2, h3]

/-- Spec: remove the backslash of every backslash pair -/
def unslash : Bytes → Bytes
  | 0x5c :: c :: t => c :: unslash t
  | c :: t => c :: unslash t
  | [] => []

theorem unslash_cons_ne {x : UInt8} (h : x ≠ 0x5c) (t : Bytes) : unslash (x :: t) = x :: unslash t := by
  rw [unslash]
  all_goals (intros; simp_all)

/-- Removing the added backslashes gives back the input. -/
theorem addslashes_roundtrip (s : Bytes) : unslash (addslashes s) = s := by
  rw [addslashes_exact]
  induction s with
  | nil => simp [unslash]
  | cons x t ih =>
    simp only [List.flatMap_cons]
    by_cases h : x = 0x5c ∨ x = 0x22 ∨ x = 0x27
    · simp only [h, if_true, List.cons_append, List.nil_append]
      rw [unslash, ih]
    · simp only [h, if_false, List.singleton_append]
      have : x ≠ 0x5c := fun e => h (Or.inl e)
      rw [unslash_cons_ne this, ih]

/-- `urlencode` output consists of query-safe bytes only: `A-Za-z0-9 - _ . ~ + %`. -/
theorem urlencode_safe (s : Bytes) :
    ∀ c ∈ queryEscape s, queryUnreserved c = true ∨ c = 0x2b ∨ c = 0x25 := by
  intro c hc
  unfold queryEscape at hc
  obtain ⟨x, _, hx⟩ := List.mem_flatMap.mp hc
  split at hx
  · simp only [List.mem_singleton] at hx; subst hx; left; assumption
  · split at hx
    · simp only [List.mem_singleton] at hx; right; left; exact hx
    · simp only [List.mem_cons, List.not_mem_nil, or_false] at hx
      rcases hx with h | h | h
      · right; right; exact h
      · left; subst h
        have : ∀ n, n < 16 → queryUnreserved (Bytes.hexDigitUpper n) = true := by decide
        exact this _ (Nat.div_lt_of_lt_mul (by have := x.toNat_lt; omega))
      · left; subst h
        have : ∀ n, n < 16 → queryUnreserved (Bytes.hexDigitUpper n) = true := by decide
        exact this _ (Nat.mod_lt _ (by decide))

/-- `safe` returns its input unchanged (value and flag). -/
theorem safe_identity (v p : V) : applyFilter b!"safe" v p = .ok v := by
  simp [applyFilter]

/-- One pass of `striptags` suffices: after any `<` that is left in the output
    no `>` follows, i.e. no complete tag remains. -/
theorem striptags_no_tag (s : Bytes) :
    ∀ pre post, stripTagsRaw s = pre ++ 0x3c :: post → 0x3e ∉ post := by
  -- the output is a sublist of the input, and a `<` is kept only when no `>` follows it
  have sub : ∀ s : Bytes, (stripTagsRaw s).Sublist s := by
    intro s
    fun_induction stripTagsRaw s with
    | case1 => simp
    | case2 c t hc hgt ih =>
      refine ih.trans ?_
      exact ((List.drop_sublist _ _).trans (List.dropWhile_sublist _)).trans (List.sublist_cons_self _ _)
    | case3 c t _ _ ih => exact ih.cons_cons _
    | case4 c t _ ih => exact ih.cons_cons _
  fun_induction stripTagsRaw s with
  | case1 => intro pre post h; simp at h
  | case2 c t hc hgt ih => exact ih
  | case3 c t hc hgt ih =>
    intro pre post h
    have hno : 0x3e ∉ stripTagsRaw t := fun hm => hgt (by simpa using (sub t).mem hm)
    cases pre with
    | nil =>
      simp only [List.nil_append, List.cons.injEq] at h
      rw [← h.2]; exact hno
    | cons p pre' =>
      simp only [List.cons_append, List.cons.injEq] at h
      exact ih pre' post h.2
  | case4 c t hc ih =>
    intro pre post h
    cases pre with
    | nil =>
      simp only [List.nil_append, List.cons.injEq] at h
      exact absurd h.1 (by simpa using hc)
    | cons p pre' =>
      simp only [List.cons_append, List.cons.injEq] at h
      exact ih pre' post h.2

/-! ### the code's replacement chains are the ones modelled (regenerated from filters_builtin.go) -/

theorem gen_escapePairs : Gen.escapePairs = escapePairs := by decide
theorem gen_addslashesPairs : Gen.addslashesPairs = addslashesPairs := by decide
theorem gen_iriChars : Gen.filterIRIChars = iriChars := by decide

/-! ### non-vacuity -/
example : escapeHtml b!"a<b>&'\"" = b!"a&lt;b&gt;&amp;&#39;&quot;" := by
  rw [escapeHtml_eq_flatMap]; decide
example : unescapeHtml (escapeHtml b!"&amp;<") = b!"&amp;<" := escape_roundtrip _
example : stripTagsRaw b!"a<b>c<d" = b!"ac<d" := by simp [stripTagsRaw]

end Pongo.C17

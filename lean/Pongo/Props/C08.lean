/-
C08 — names resolve through maps, sequences, structs, pointers, methods, calls.

Theorems about the model's step functions (`stepName`, `stepIndex`, `stepSub`: what one part of
a dotted / subscripted name does to the value reached so far), the call protocol
(`goCheckCall`: the argument checks before `reflect.Value.Call`), and the context merge that
makes caller context shadow the set's globals.  The interpreter (`resolveRest`) is these
functions glued by evaluation order; its agreement with the implementation on generated
contexts × paths × calls is what the suites check.
-/
import Pongo.Model.Exec
import Pongo.Lemmas.Paths
import Pongo.Props.C12

namespace Pongo.C08
open Pongo

/-! ### one step: a missing thing is the empty value, a step that does not apply is an error -/

/-- a map key: the bound value if the key is there, the empty value (not an error) if not -/
theorem map_key (ty : Bytes) (kvs : List (Bytes × Val)) (k : Bytes) :
    stepName (.smap ty kvs) k = .ok (kvs.lookup k) ∧
    stepSub (.smap ty kvs) (.str k) = .ok (kvs.lookup k) := ⟨rfl, rfl⟩

/-- a name can never be a key of an int-keyed map; an int subscript looks the key up -/
theorem int_map (ty : Bytes) (kvs : List (Int64 × Val)) (k : Bytes) (i : Int64) :
    stepName (.imap ty kvs) k = .ok none ∧ stepSub (.imap ty kvs) (.int i) = .ok (kvs.lookup i) ∧
    stepSub (.imap ty kvs) (.str k) = .ok none := ⟨rfl, rfl, rfl⟩

/-- a struct field: exported fields by name; an unexported or missing field is the empty value -/
theorem struct_field (tn : Bytes) (fields : List (Bytes × Val)) (priv : List Bytes) (k : Bytes) :
    stepName (.struct tn fields priv) k = .ok (fields.lookup k) := rfl

/-- an index into a sequence: the element when in range, the empty value when not (never an error) -/
theorem seq_index (ty : Bytes) (xs : List Val) (i : Int64) :
    stepIndex (.list ty xs) i =
      .ok (if i ≥ 0 && xs.length > i.toNatClampNeg then some (xs.getD i.toNatClampNeg .nil) else none) ∧
    stepSub (.list ty xs) (.int i) = stepIndex (.list ty xs) i := by
  constructor
  · rfl
  · simp only [stepSub, stepIndex, seqAt]; rfl

theorem seq_index_in_range (ty : Bytes) (xs : List Val) (n : Nat) (h : n < xs.length) (hn : n < 2^62) :
    stepIndex (.list ty xs) (Int64.ofNat n) = .ok (some (xs.getD n .nil)) := by
  have h1 : (Int64.ofNat n).toNatClampNeg = n := by
    rw [Int64.toNatClampNeg, Int64.toInt_ofNat_of_lt (by omega)]; simp
  have h0 : (Int64.ofNat n) ≥ 0 := by
    rw [ge_iff_le, Int64.le_iff_toInt_le, Int64.toInt_ofNat_of_lt (by omega)]; simp
  simp [stepIndex, seqAt, h1, h0, h]

theorem seq_index_out_of_range (ty : Bytes) (xs : List Val) (i : Int64)
    (h : i < 0 ∨ xs.length ≤ i.toNatClampNeg) : stepIndex (.list ty xs) i = .ok none := by
  simp only [stepIndex, seqAt]
  rcases h with h | h
  · have : ¬ (i ≥ 0) := by simpa [Int64.not_le] using h
    simp [this]
  · have : ¬ (xs.length > i.toNatClampNeg) := by omega
    simp [this]

/-- **a subscript that is no number is no index** (D61): on a list, an array or a text, `a[k]` with
    `k` nothing, a bool, a container, or a text that is not the text of a number is the empty
    value — never the first element -/
theorem non_number_subscript_is_nothing (cv k : Val) (hk : indexLike k = false)
    (hcv : (∃ ty xs, cv = .list ty xs) ∨ (∃ ty xs, cv = .arr ty xs) ∨ (∃ s, cv = .str s)) :
    stepSub cv k = .ok none := by
  rcases hcv with ⟨ty, xs, rfl⟩ | ⟨ty, xs, rfl⟩ | ⟨s, rfl⟩ <;> simp [stepSub, hk]

example : indexLike (.str b!"abc") = false ∧ indexLike .nil = false ∧ indexLike (.bool true) = false ∧ indexLike (.str b!"1") = true := by
  refine ⟨?_, ?_, ?_, ?_⟩ <;> decide

/-- **a map key is a text or a number, whatever its Go type** (D65): a subscript holding the
    same text under a named string type, or the same integer under another integer type, reaches
    the same entry as the plain key; an unsigned value beyond the range of the map's keys reaches
    nothing — never an entry of another key. -/
theorem map_key_by_value (ty : Bytes) (skvs : List (Bytes × Val)) (ikvs : List (Int64 × Val)) (k t : Bytes) (i : Int64) (u : UInt64) :
    stepSub (.smap ty skvs) (.stringer (.str k) t) = stepSub (.smap ty skvs) (.str k) ∧
    stepSub (.imap ty ikvs) (.stringer (.int i) t) = stepSub (.imap ty ikvs) (.int i) ∧
    (u.toNat < 2 ^ 63 → stepSub (.imap ty ikvs) (.uint u) = stepSub (.imap ty ikvs) (.int (Int64.ofNat u.toNat))) ∧
    (¬ u.toNat < 2 ^ 63 → stepSub (.imap ty ikvs) (.uint u) = .ok none) := by
  refine ⟨rfl, rfl, ?_, ?_⟩ <;> intro h <;> simp [stepSub, h]

/-- …and `in` asks the same question as the subscript: a key is in a map exactly when the
    subscript finds an entry (pointers to keys followed once) -/
theorem in_agrees_with_subscript (ty : Bytes) (skvs : List (Bytes × Val)) (ikvs : List (Int64 × Val)) (k : Bytes) (i : Int64) :
    containsVal (.smap ty skvs) (.str k) = (skvs.lookup k).isSome ∧
    containsVal (.smap ty skvs) (.ptr (.str k)) = (skvs.lookup k).isSome ∧
    containsVal (.imap ty ikvs) (.int i) = (ikvs.lookup i).isSome := ⟨rfl, rfl, rfl⟩

/-- indexing or naming into a scalar is an execution error, for every scalar and every step -/
theorem scalar_steps_are_errors (v : Val)
    (hv : (∃ b, v = .bool b) ∨ (∃ i, v = .int i) ∨ (∃ u, v = .uint u) ∨ (∃ f, v = .float f)) (i : Int64) (k : Bytes) :
    (∃ m, stepIndex v i = .error m) ∧ (∃ m, stepName v k = .error m) ∧ subscriptable v = false := by
  rcases hv with ⟨b, rfl⟩ | ⟨j, rfl⟩ | ⟨u, rfl⟩ | ⟨f, rfl⟩ <;>
    exact ⟨⟨_, rfl⟩, ⟨_, rfl⟩, rfl⟩

/-- a name into a sequence or a string, an index into a map or struct: errors as well -/
theorem wrong_kind_steps_are_errors (ty : Bytes) (xs : List Val) (kvs : List (Bytes × Val)) (s k : Bytes) (i : Int64) :
    (∃ m, stepName (.list ty xs) k = .error m) ∧ (∃ m, stepName (.str s) k = .error m) ∧
    (∃ m, stepIndex (.smap ty kvs) i = .error m) := ⟨⟨_, rfl⟩, ⟨_, rfl⟩, ⟨_, rfl⟩⟩

-- non-vacuity
example : stepName (.smap b!"m" [(b!"k", .int 1)]) b!"k" = .ok (some (.int 1)) := rfl
example : stepName (.smap b!"m" [(b!"k", .int 1)]) b!"zz" = .ok none := rfl
example : stepIndex (.list b!"l" [.int 5, .int 6]) 1 = .ok (some (.int 6)) := by
  simpa using seq_index_in_range b!"l" [.int 5, .int 6] 1 (by decide) (by decide)
example : stepIndex (.list b!"l" [.int 5, .int 6]) 2 = .ok none :=
  seq_index_out_of_range _ _ _ (Or.inr (by decide))

/-! ### the call protocol -/

/-- a non-variadic function called with the wrong number of arguments is an error — whatever the arguments -/
theorem wrong_arity_is_error (sig : GoSig) (args : List V) (hv : sig.variadic = false)
    (h : args.length ≠ sig.params.length) : goCheckCall sig args = .error "function input argument count" := by
  have : goCountOK sig args.length = false := by
    simp only [goCountOK, hv, Bool.and_false, Bool.or_false]
    cases sig.takesCtx <;> simp <;> omega
  simp [goCheckCall, this]

/-- a function with other than one or two results cannot be called -/
theorem bad_result_count_is_error (sig : GoSig) (args : List V) (h : sig.outs ≠ 1 ∧ sig.outs ≠ 2) :
    ∃ m, goCheckCall sig args = .error m := by
  unfold goCheckCall
  by_cases hc : goCountOK sig args.length
  · have : (sig.outs == 1 || sig.outs == 2) = false := by simp [h.1, h.2]
    exact ⟨"must have exactly 1 or 2 output arguments", by simp [hc, this]⟩
  · exact ⟨"function input argument count", by simp [hc]⟩

/-- an argument whose Go type is not the parameter's type is an error, unless the parameter is a
    `*Value` or an interface -/
theorem wrong_type_is_error (p : Bytes) (a : V) (hp : p ≠ valuePtrT ∧ p ≠ ifaceT) (ht : goTypeOf a.v ≠ some p) :
    goCheckCall { params := [p] } [a] = .error "function input argument must be of the parameter's type" := by
  have : goArgOK { params := [p] } 0 a = false := by
    simp [goArgOK, goParamFor, hp.1, hp.2, ht]
  simp [goCheckCall, goCountOK, List.zipIdx, this]

/-- `*Value` and interface parameters accept every argument -/
theorem value_and_interface_params_accept_all (a : V) :
    goCheckCall { params := [valuePtrT] } [a] = .ok () ∧ goCheckCall { params := [ifaceT] } [a] = .ok () := by
  constructor <;> simp [goCheckCall, goCountOK, goArgOK, goParamFor, List.zipIdx]

/-- a well-typed call passes the checks -/
theorem matching_call_passes (p : Bytes) (a : V) (ht : goTypeOf a.v = some p) :
    goCheckCall { params := [p] } [a] = .ok () := by
  simp [goCheckCall, goCountOK, goArgOK, goParamFor, List.zipIdx, ht]

/-- a variadic function accepts any number of arguments of the element type (also none) -/
theorem variadic_accepts_any_tail (elem : Bytes) (args : List V) (h : ∀ a ∈ args, goTypeOf a.v = some elem) :
    goCheckCall { params := [elem], variadic := true } args = .ok () := by
  have hc : goCountOK { params := [elem], variadic := true } args.length = true := by
    simp [goCountOK]
  have ht : args.zipIdx.all (fun (a, j) => goArgOK { params := [elem], variadic := true } j a) = true := by
    rw [List.all_eq_true]
    intro x hx
    have hm : x.1 ∈ args := by
      have := List.mem_zipIdx hx
      have h2 : x.1 = args[x.2 - 0]'(by simpa using this.2.1) := by simpa using this.2.2
      rw [h2]; exact List.getElem_mem _
    simp [goArgOK, goParamFor, h x.1 hm]
  simp [goCheckCall, hc, ht]

/-- an implicit `*ExecutionContext` first parameter does not count against the caller -/
theorem implicit_context_is_not_counted (p : Bytes) (a : V) :
    goCountOK { takesCtx := true, params := [p] } 1 = true ∧ goCountOK { takesCtx := true, params := [p] } 2 = false := by
  constructor <;> simp [goCountOK]

example : callGo 4 true [⟨.str b!"p", false⟩, ⟨.str b!"x", false⟩, ⟨.str b!"y", false⟩] = .ok (.str b!"px,y", none) := rfl
example : callGo 2 true [⟨.int 3, false⟩, ⟨.str b!"a", false⟩] = .error "function input argument must be of the parameter's type" := rfl
example : callGo 13 true [] = .error "must have exactly 1 or 2 output arguments" := rfl
example : callGo 9 false [] = .ok (.str b!"off", none) := rfl

/-! ### shadowing: caller context over globals (tags over both: `Props/C12.lean`) -/

theorem update_lookup_absent (g ctx : Env) (k : Bytes) (h : ∀ kv ∈ ctx, kv.1 ≠ k) :
    (Env.update g ctx).lookup k = g.lookup k := by
  unfold Env.update
  induction ctx generalizing g with
  | nil => rfl
  | cons kv rest ih =>
    simp only [List.foldl_cons]
    rw [ih (g.set kv.1 kv.2) (fun x hx => h x (List.mem_cons_of_mem _ hx))]
    exact C12.set_lookup_other g kv.1 k kv.2 (fun e => h kv List.mem_cons_self e.symm)

/-- a key of the caller's context wins over the same key in the set's globals … -/
theorem context_shadows_globals (g pre post : Env) (k : Bytes) (v : Val) (h : ∀ kv ∈ post, kv.1 ≠ k) :
    (Env.update g (pre ++ (k, v) :: post)).lookup k = some v := by
  have : Env.update g (pre ++ (k, v) :: post) = Env.update ((Env.update g pre).set k v) post := by
    simp [Env.update, List.foldl_append]
  rw [this, update_lookup_absent _ post k h]
  exact C12.set_lookup_self _ k v

/-- … and a global the caller does not bind stays visible -/
theorem globals_visible_when_not_shadowed (g ctx : Env) (k : Bytes) (h : ∀ kv ∈ ctx, kv.1 ≠ k) :
    (Env.update g ctx).lookup k = g.lookup k := update_lookup_absent g ctx k h

/-! ### the steps glued together: a whole path, of any length

`Lemmas/Paths.lean`: on plain data (no functions, no `*Value` boxes, no values with methods — what a
caller's context of maps, lists, structs, pointers and scalars is) the resolver computes exactly the
fold of the step functions over the path. -/

/-- **Names set by tags shadow context keys (and globals)**: when the current context binds `name`
    privately — by `set`, `with`, `for`, a macro parameter, `import` — a path starting with `name`
    is resolved from that binding alone: the caller's context and the set's globals (`fr.pub`) do
    not occur in what is computed. -/
theorem tag_binding_shadows_context (T : LexTables) (cfg : SetCfg) (g : Env) (fuel : Nat) (name : Bytes) (steps : List Part)
    (σ : ES) (fr : Frame) (frames : List Frame) (v : Val) (hσ : σ.frames = fr :: frames)
    (hpriv : fr.priv.lookup name = some v) :
    (resolve T cfg g (fuel + 1) (.ident name none :: steps)).run σ =
      ((afterPart T cfg g fuel v false none true >>= fun r =>
          match r with
          | none => pure (mkV .nil)
          | some (w, safe) => resolveRest T cfg g fuel steps w safe) : XM V).run σ := by
  rw [resolve]
  have hc : (cur : XM Frame).run σ = .ok fr σ := by
    simp [cur, EStateM.run, bind, EStateM.bind, get, getThe, MonadStateOf.get, EStateM.get, hσ, pure, EStateM.pure]
  rw [run_bind_ok hc]
  simp only [hpriv, Part.callArgs]
  rfl

/-- **A dotted name denotes the value obtained by following its steps through the context**:
    `name.s1.s2…` with `name` a context entry of plain data, for paths of any length — the value at
    the end of the path; the empty value from the first missing key, out-of-range index or nil on;
    an execution error at the first step into a scalar.  The state is untouched. -/
theorem path_denotes_its_steps (T : LexTables) (cfg : SetCfg) (g : Env) (name : Bytes) (steps : List Part) (fr : Frame)
    (frames : List Frame) (σ : ES) (v0 : Val) (fuel : Nat) (hσ : σ.frames = fr :: frames)
    (hpriv : fr.priv.lookup name = none) (hpub : fr.pub.lookup name = some v0) (hv : Plain v0) (hnn : (v0.kind == .invalid) = false)
    (hsteps : ∀ p ∈ steps, PlainPart p) (hf : fuel ≥ steps.length + 2) :
    (resolve T cfg g fuel (.ident name none :: steps)).run σ =
      (match follow v0 steps with
        | .ok r => (pure ⟨r, false⟩ : XM V)
        | .error m => xerr m).run σ := by
  obtain ⟨n, rfl⟩ : ∃ n, fuel = n + 2 := ⟨fuel - 2, by omega⟩
  rw [resolve]
  have hc : (cur : XM Frame).run σ = .ok fr σ := by
    simp [cur, EStateM.run, bind, EStateM.bind, get, getThe, MonadStateOf.get, EStateM.get, hσ, pure, EStateM.pure]
  rw [run_bind_ok hc]
  simp only [hpriv, hpub, Option.getD_some, Part.callArgs]
  have ha := afterPart_plain T cfg g hv n true σ
  rw [run_bind_ok ha]
  simp only [hnn]
  exact resolveRest_follows T cfg g steps v0 (n + 1) σ hsteps hv (by omega)

/-- non-vacuity: `user.tags.1` over `{user: {name: "ann", tags: ["a", "b"]}}` is `"b"`, `user.tags.7` and
    `user.nosuch.x` are empty, `user.name.first` is an error -/
example :
    let user : Val := .smap b!"map[string]interface {}" [(b!"name", .str b!"ann"), (b!"tags", .list b!"[]string" [.str b!"a", .str b!"b"])]
    follow user [.ident b!"tags" none, .idx 1 none] = .ok (.str b!"b") ∧
    follow user [.ident b!"tags" none, .idx 7 none] = .ok .nil ∧
    follow user [.ident b!"nosuch" none, .ident b!"x" none] = .ok .nil ∧
    (∃ m, follow user [.ident b!"name" none, .ident b!"first" none] = .error m) := by
  exact ⟨rfl, rfl, rfl, ⟨_, rfl⟩⟩

end Pongo.C08

/-
  C05 — One compiled template can be executed from many goroutines at once.
  Property theorems only.

  Level: proof of the model-level statement (an interleaving semantics over
  atomic steps); partial for the runtime: the Go memory model, the scheduler
  and sync.Mutex are assumed, and the effect table is extracted, not verified.
-/
import Pongo.Model.Conc
import Pongo.Gen.Effects
import Pongo.Gen.LockFacts

namespace Pongo.C05
open Conc

variable {Loc Val σ : Type} [DecidableEq Loc]

theorem stepThread_mem (ts : List (Thread Loc Val σ)) (hro : ∀ t ∈ ts, ReadOnly t) (c : Config Loc Val σ) (i : Nat) :
    (stepThread ts c i).mem = c.mem := by
  unfold stepThread
  split
  · rename_i t s ht hs
    have := hro t (List.mem_of_getElem? ht) s c.mem
    simp [writeMem, this]
  · rfl

/-- **Read-only threads do not disturb shared memory**, whatever the schedule. -/
theorem readonly_mem_unchanged (ts : List (Thread Loc Val σ)) (hro : ∀ t ∈ ts, ReadOnly t)
    (c : Config Loc Val σ) (sched : List Nat) : (runSchedule ts c sched).mem = c.mem := by
  induction sched generalizing c with
  | nil => rfl
  | cons i rest ih => simp only [runSchedule]; rw [ih, stepThread_mem ts hro]

/-- **Every execution returns exactly what it would return alone.**  If no
    thread writes shared memory then under every schedule the local state of
    thread `i` is the state it reaches running alone for as many steps as the
    schedule gave it — it cannot observe the others at all. -/
theorem readonly_interleaving (ts : List (Thread Loc Val σ)) (hro : ∀ t ∈ ts, ReadOnly t)
    (c : Config Loc Val σ) (hlen : c.locals.length = ts.length) (sched : List Nat) (i : Nat) (t : Thread Loc Val σ) (s : σ)
    (ht : ts[i]? = some t) (hs : c.locals[i]? = some s) :
    (runSchedule ts c sched).locals[i]? = some (runAlone t c.mem (sched.count i) s) := by
  induction sched generalizing c s with
  | nil => simpa [runSchedule, runAlone] using hs
  | cons j rest ih =>
    simp only [runSchedule]
    have hm := stepThread_mem ts hro c j
    by_cases hji : j = i
    · subst hji
      have hstep : (stepThread ts c j).locals[j]? = some (t.step s c.mem).1 := by
        unfold stepThread
        simp only [ht, hs]
        have : j < c.locals.length := by
          rcases Nat.lt_or_ge j c.locals.length with h | h
          · exact h
          · simp [List.getElem?_eq_none h] at hs
        simp [List.getElem?_set, this]
      have hl : (stepThread ts c j).locals.length = ts.length := by
        unfold stepThread; simp only [ht, hs]; simpa using hlen
      rw [ih (stepThread ts c j) hl (t.step s c.mem).1 hstep, hm]
      simp [List.count_cons, runAlone]
    · have hstep : (stepThread ts c j).locals[i]? = some s := by
        unfold stepThread
        split
        · simp [List.getElem?_set, hji, hs]
        · exact hs
      have hl : (stepThread ts c j).locals.length = ts.length := by
        unfold stepThread
        split
        · simpa using hlen
        · exact hlen
      rw [ih (stepThread ts c j) hl s hstep, hm]
      simp [List.count_cons, hji]

/-- A data race needs a write: two accesses to one location from different
    threads, at least one of them a write, without ordering.  With read-only
    threads no step of any schedule writes. -/
theorem readonly_no_write_step (ts : List (Thread Loc Val σ)) (hro : ∀ t ∈ ts, ReadOnly t)
    (t : Thread Loc Val σ) (ht : t ∈ ts) (s : σ) (m : Loc → Val) : (t.step s m).2 = none := hro t ht s m

/-! ### instantiation for pongo2: execution only reads long-lived memory -/

/-- the regenerated effect table: no store reachable from any execution entry
    point (own CHA call graph, closures and reflective entry points included)
    targets the compiled template, anything hanging off it, the template set,
    a package-level variable or the caller's Public context -/
theorem gen_exec_is_readonly : Gen.execWrites = [] := by decide

/-- the only atomic update an execution can perform on long-lived memory is setting the set's
    "a template was handed out" flag to `true` (a lazy include compiles at run time): idempotent and
    monotone, so executions commute with it — in particular no counter or limit is shared
    between executions -/
theorem gen_atomic_updates_idempotent :
    Gen.execAtomicWrites.all (fun w => w.2 == "TemplateSet.firstTemplateCreated.Store(true)") = true := by decide

/-- no function an execution can reach mentions a package-level object of one of the engine's
    own struct types (a shared `*Error`, `*Value`, `*Template`, …): what executions hand out is
    built per execution -/
theorem gen_no_shared_objects : Gen.execSharedObjects = [] := by decide

/-- the call graph was not truncated: the anchors are all reachable -/
theorem gen_call_graph_anchors : Gen.execReachableAnchors.all (·.2) = true := by decide

/-- the cache is only touched under the set's mutex -/
theorem gen_cache_under_lock : Gen.lockDiscipline.all (fun f => f.2) = true := by decide

/-! ### non-vacuity: two read-only threads summing a shared cell -/
example :
    let t : Thread Unit Nat Nat := ⟨fun s m => (s + m (), none)⟩
    (runSchedule [t, t] ⟨fun _ => 3, [0, 10]⟩ [0, 1, 1, 0, 1]).locals = [6, 19] := by decide

end Pongo.C05

/-
  C13 — Macros bind arguments by position with defaults, and recursion is bounded.
  Property theorems only.
-/
import Pongo.Props.C12
import Pongo.Lemmas.KeepsAll
import Pongo.Gen.FilterFacts

namespace Pongo.C13

variable (T : LexTables) (cfg : SetCfg) (g : Env)

/-- binding a list of pairs: a key that is not among them keeps its value -/
theorem foldl_set_other (pairs : List (Bytes × Val)) (e : Env) (k : Bytes) (h : ∀ p ∈ pairs, p.1 ≠ k) :
    (pairs.foldl (fun (e : Env) kv => e.set kv.1 kv.2) e).lookup k = e.lookup k := by
  induction pairs generalizing e with
  | nil => rfl
  | cons p rest ih =>
    simp only [List.foldl_cons]
    rw [ih _ (fun q hq => h q (List.mem_cons_of_mem _ hq))]
    exact C12.set_lookup_other e p.1 k p.2 (fun e' => h p (List.mem_cons_self) e'.symm)

/-- …and the last binding of a key wins -/
theorem foldl_set_last (pairs : List (Bytes × Val)) (e : Env) (k : Bytes) (v : Val)
    (h : ∀ p ∈ pairs, p.1 ≠ k) : ((pairs.foldl (fun (e : Env) kv => e.set kv.1 kv.2) (e.set k v))).lookup k = some v := by
  rw [foldl_set_other pairs _ k h]
  exact C12.set_lookup_self e k v

/-- **Positional binding.**  With distinct parameter names, the `i`-th
    argument is what the `i`-th parameter names inside the body, whatever the
    defaults and the defining context hold. -/
theorem macro_binds_by_position (base : Env) (defaults : List (Bytes × Val)) (params : List Bytes) (args : List V)
    (hd : params.Nodup) (i : Nat) (hi : i < params.length) (ha : i < args.length) :
    (macroEnv base defaults params args).lookup params[i] = some args[i].v := by
  unfold macroEnv
  simp only
  generalize (defaults.foldl (fun (e : Env) kv => e.set kv.1 kv.2) base) = e0
  induction params generalizing args i e0 with
  | nil => simp at hi
  | cons p ps ih =>
    cases args with
    | nil => simp at ha
    | cons a as =>
      simp only [List.zip_cons_cons, List.foldl_cons]
      rw [List.nodup_cons] at hd
      cases i with
      | zero =>
        simp only [List.getElem_cons_zero]
        have : ∀ q ∈ (ps.zip as).map (fun pa => (pa.1, pa.2.v)), q.1 ≠ p := by
          intro q hq
          obtain ⟨⟨x, y⟩, hxy, rfl⟩ := List.mem_map.mp hq
          intro he
          exact hd.1 (he ▸ (List.of_mem_zip hxy).1)
        have hfold : ∀ (e : Env), (ps.zip as).foldl (fun (e : Env) pa => e.set pa.1 pa.2.v) e =
            ((ps.zip as).map (fun pa => (pa.1, pa.2.v))).foldl (fun (e : Env) kv => e.set kv.1 kv.2) e := by
          intro e; rw [List.foldl_map]
        rw [hfold]
        exact foldl_set_last _ e0 p a.v this
      | succ j =>
        simp only [List.getElem_cons_succ]
        exact ih as hd.2 j (by simpa using hi) (by simpa using ha) _

/-- **Omitted parameters get their default** (or the empty value): a parameter
    beyond the arguments given names what `argsCtx` holds for it. -/
theorem macro_omitted_gets_default (base : Env) (defaults : List (Bytes × Val)) (params : List Bytes) (args : List V)
    (k : Bytes) (hk : ∀ p ∈ params.take args.length, p ≠ k) :
    (macroEnv base defaults params args).lookup k =
      (defaults.foldl (fun (e : Env) kv => e.set kv.1 kv.2) base).lookup k := by
  unfold macroEnv
  simp only
  have hfold : ∀ (e : Env), (params.zip args).foldl (fun (e : Env) pa => e.set pa.1 pa.2.v) e =
      ((params.zip args).map (fun pa => (pa.1, pa.2.v))).foldl (fun (e : Env) kv => e.set kv.1 kv.2) e := by
    intro e; rw [List.foldl_map]
  rw [hfold]
  apply foldl_set_other
  intro q hq
  obtain ⟨⟨x, y⟩, hxy, rfl⟩ := List.mem_map.mp hq
  have hx : x ∈ params.take args.length := by
    have := (List.of_mem_zip hxy).1
    obtain ⟨n, hn, hxn⟩ := List.mem_iff_getElem.mp hxy
    simp only [List.getElem_zip, Prod.mk.injEq] at hxn
    rw [List.length_zip] at hn
    rw [← hxn.1]
    exact List.mem_take_iff_getElem.mpr ⟨n, by omega, rfl⟩
  exact hk x hx

/-- **The recursion guard trips**: a guarded macro closure whose defining
    context already has `maxMacroDepth` calls in flight is not entered — the
    call is an execution error and the counter is back where it was. -/
theorem recursion_guard_trips (fuel fid idx : Nat) (args : List V) (σ : ES) (fr : Frame)
    (hfr : σ.frames.find? (·.id == fid) = some fr) (hd : fr.macroDepth ≥ maxMacroDepth) :
    ∃ e σ', (callFunc T cfg g (fuel + 1) (.closure fid idx true) args).run σ = .error e σ' ∧ e.kind = .exec ∧ σ'.out = σ.out := by
  have hgt : fr.macroDepth + 1 > maxMacroDepth := by omega
  simp only [callFunc, getFrame, EStateM.run, bind, EStateM.bind, get, getThe, MonadStateOf.get, EStateM.get, hfr,
    pure, EStateM.pure, modifyFrame, modify, modifyGet, MonadStateOf.modifyGet, EStateM.modifyGet, if_true, hgt, xerr,
    throw, throwThe, MonadExceptOf.throw, EStateM.throw]
  exact ⟨_, _, rfl, rfl, rfl⟩

theorem getFrame_keeps_state (fid : Nat) (σ s : ES) (fr : Frame) (h : getFrame fid σ = .ok fr s) : s = σ := by
  unfold getFrame at h
  simp only [bind, EStateM.bind, get, getThe, MonadStateOf.get, EStateM.get] at h
  cases hf : σ.frames.find? (·.id == fid) with
  | none => rw [hf] at h; cases h
  | some f => rw [hf] at h; cases h; rfl

/-- **What a macro call returns.**  Whenever a call succeeds, its value is text marked safe —
    already-escaped markup, whatever the body rendered — and the call had no more arguments than
    the macro has parameters (otherwise it is the execution error "Macro called with too many
    arguments", never a result). -/
theorem macro_call_returns_safe_text (fuel fid idx : Nat) (args : List V) (σ σ' : ES) (r : V)
    (h : (callMacro T cfg g fuel fid idx args).run σ = .ok r σ') :
    r.safe = true ∧ (∃ out, r.v = .str out) ∧ args.length ≤ (σ.cs.macros[idx]!).params.length := by
  cases fuel with
  | zero => simp [callMacro, xerr, EStateM.run, throw, throwThe, MonadExceptOf.throw, EStateM.throw] at h
  | succ n =>
    simp only [callMacro, EStateM.run, bind, EStateM.bind, get, getThe, MonadStateOf.get, EStateM.get] at h
    cases h1 : getFrame fid σ with
    | error e s => rw [h1] at h; cases h
    | ok defFrame s1 =>
      have hs1 := getFrame_keeps_state fid σ s1 defFrame h1
      subst hs1
      rw [h1] at h
      simp only [] at h
      generalize withFrameView T cfg g n fid _ s1 = res2 at h
      cases res2 with
      | error e s => cases h
      | ok defaults s2 =>
        simp only [] at h
        split at h
        · cases h
        · rename_i hle
          simp only [EStateM.bind] at h
          split at h
          · simp only [pure, EStateM.pure] at h
            cases h
            exact ⟨rfl, ⟨_, rfl⟩, by omega⟩
          · cases h

/-- **An imported macro is the same macro**: in a state whose current context is `fr`, importing
    the macro with table index `idx` under its own name leaves exactly the state that defining it
    locally leaves — the name is bound to the same closure value (same defining context, same body,
    same guard), so every later call goes through the same `callFunc` / `callMacro`.  Under an alias
    only the name differs. -/
theorem imported_macro_is_the_local_macro (fuel idx : Nat) (σ : ES) (fr : Frame) (rest : List Frame)
    (hσ : σ.frames = fr :: rest) :
    (execNode T cfg g (fuel + 1) (.tagImport [((σ.cs.macros[idx]!).name, idx)])).run σ =
      (execNode T cfg g (fuel + 1) (.tagMacro idx)).run σ ∧
    ∀ alias, (execNode T cfg g (fuel + 1) (.tagImport [(alias, idx)])).run σ =
      .ok () { σ with frames := { fr with priv := fr.priv.set alias (.closure fr.id idx true) } :: rest } := by
  obtain ⟨frames, a, b, c, d, e, f⟩ := σ
  simp only at hσ
  subst hσ
  constructor
  · simp [execNode, cur, modifyCur, EStateM.run, bind, EStateM.bind, get, getThe, MonadStateOf.get, EStateM.get, pure, EStateM.pure,
      modify, modifyGet, MonadStateOf.modifyGet, EStateM.modifyGet]
  · intro alias
    simp [execNode, cur, modifyCur, EStateM.run, bind, EStateM.bind, get, getThe, MonadStateOf.get, EStateM.get, pure, EStateM.pure,
      modify, modifyGet, MonadStateOf.modifyGet, EStateM.modifyGet]

/-- the depth limit is the code's constant -/
theorem gen_maxMacroDepth : Gen.maxMacroDepth = maxMacroDepth := by decide

/-! ### non-vacuity -/
example : (macroEnv [] [(b!"b", .int 9)] [b!"a", b!"b"] [mkV (.int 1)]).lookup b!"a" = some (.int 1) ∧
          (macroEnv [] [(b!"b", .int 9)] [b!"a", b!"b"] [mkV (.int 1)]).lookup b!"b" = some (.int 9) := by
  constructor
  · exact macro_binds_by_position [] _ [b!"a", b!"b"] [mkV (.int 1)] (by decide) 0 (by decide) (by decide)
  · rw [macro_omitted_gets_default [] _ [b!"a", b!"b"] [mkV (.int 1)] b!"b" (by decide)]
    simp [C12.set_lookup_self]

/-- **A call counts itself in and out again.**  Calling anything — a local macro, an imported one, a
    guarded or unguarded closure, with any arguments, from any state, and whether the call returns,
    fails, or is refused by the depth guard — leaves every context on the stack exactly as it was,
    its recursion counter included.  Hence the counter a context holds is always the number of
    calls currently *nested* in it: calls that have finished (siblings, earlier iterations) do not
    count against the limit, and a failure half-way does not leak a count.  (By the induction over
    all functions of the interpreter, `Lemmas/KeepsAll.lean`.) -/
theorem call_restores_every_context (fuel : Nat) (f : Val) (args : List V) (σ : ES) (h : σ.frames ≠ []) :
    (resState ((callFunc T cfg g fuel f args).run σ)).frames = σ.frames := by
  have := (allKeeps T cfg g fuel).callFunc f args
  unfold KeepsTop at this
  exact (this σ h).2

end Pongo.C13

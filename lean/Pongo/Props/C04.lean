/-
  C04 — Compile once, render many: execution never alters the compiled template.
  Property theorems only.

  In the model a compiled template is a value (`CState` tables + an index) and
  an execution is `executeTplUnbuffered` run on an execution state `ES`.  The
  only parts of `ES` that one execution could hand to the next are the memory
  of the stateful tags (`cycle`, `changedV`, `changedC`); the theorem shows
  that an execution's observable result does not depend on them and that it
  leaves them as it found them.  That the Go code has no *other* place to keep
  state across executions is the regenerated fact `Gen.execWrites = []`.
-/
import Pongo.Model.Exec
import Pongo.Lemmas.FuelAll
import Pongo.Gen.Effects

namespace Pongo.C04

variable (T : LexTables) (cfg : SetCfg) (g : Env)

/-- two execution states that differ at most in the memory of cycle / ifchanged -/
def SameBut (a b : ES) : Prop :=
  a.frames = b.frames ∧ a.nextFrame = b.nextFrame ∧ a.out = b.out ∧ a.cs = b.cs

/-- **Every execution starts afresh.**  Whatever earlier executions left in the
    per-execution memory of the stateful tags, an execution of a template with a
    given context produces the same output, the same error and the same other
    effects, and it restores that memory on return (success and failure). -/
theorem exec_starts_fresh (fuel ti : Nat) (ctx : Env) (a b : ES) (h : SameBut a b) :
    match (executeTplUnbuffered T cfg g fuel ti ctx).run a, (executeTplUnbuffered T cfg g fuel ti ctx).run b with
    | .ok _ a', .ok _ b' => SameBut a' b' ∧ a'.cycle = a.cycle ∧ a'.changedV = a.changedV ∧ a'.changedC = a.changedC
    | .error e1 a', .error e2 b' => e1 = e2 ∧ SameBut a' b' ∧ a'.cycle = a.cycle ∧ a'.changedV = a.changedV ∧ a'.changedC = a.changedC
    | _, _ => False := by
  cases fuel with
  | zero => simp [executeTplUnbuffered, xerr, EStateM.run, throw, throwThe, MonadExceptOf.throw, EStateM.throw, h]
  | succ n =>
    obtain ⟨h1, h2, h3, h4⟩ := h
    simp only [executeTplUnbuffered, EStateM.run, bind, EStateM.bind, get, getThe, MonadStateOf.get, EStateM.get, h4]
    cases List.find? (fun kv => !identOk kv.fst) (g.update ctx) with
    | some v => simp [xerr, throw, throwThe, MonadExceptOf.throw, EStateM.throw, SameBut, h1, h2, h3, h4]
    | none =>
      generalize List.find? _ (g.update ctx) = clash
      cases clash with
      | some v => simp [xerr, throw, throwThe, MonadExceptOf.throw, EStateM.throw, SameBut, h1, h2, h3, h4]
      | none =>
        simp only [EStateM.bind, EStateM.get, modify, modifyGet, MonadStateOf.modifyGet, EStateM.modifyGet, tryCatch, tryCatchThe,
          MonadExceptOf.tryCatch, EStateM.tryCatch, throw, throwThe, MonadExceptOf.throw, EStateM.throw, h1, h2, h3, h4,
          EStateM.Backtrackable.save, EStateM.Backtrackable.restore]
        generalize (withFrame _ _ : XM Unit) = M
        cases M { frames := b.frames, nextFrame := b.nextFrame, out := b.out, cs := b.cs } with
        | ok u s' => simp [SameBut]
        | error e s' => simp [SameBut]

/-- `Template.Execute` in the model: a function of the compiled tables, the
    template and the context — nothing else. -/
def render (cs : CState) (ti : Nat) (ctx : Env) (fuel : Nat) : EStateM.Result XErr ES Unit :=
  (executeTpl T cfg g fuel ti ctx).run { cs := cs }

/-- Equal contexts give equal output and equal errors, whatever was rendered before. -/
theorem equal_contexts_equal_results (cs : CState) (ti : Nat) (c1 c2 : Env) (fuel : Nat) (h : c1 = c2) :
    render T cfg g cs ti c1 fuel = render T cfg g cs ti c2 fuel := by rw [h]

/-! ### the Go code has nowhere else to keep state (regenerated from /repo) -/

/-- the state an execution ends in, finished or failed -/
def finalState {α} : EStateM.Result XErr ES α → ES
  | .ok _ s => s
  | .error _ s => s

/-- `try { body; restore } catch e { restore; throw e }` always ends restored -/
theorem restore_pattern {α} (body : XM α) (c : List (Nat × Nat)) (v : List (Nat × List V)) (k : List (Nat × Bytes)) (σ : ES) :
    let restore : XM Unit := modify fun s => { s with cycle := c, changedV := v, changedC := k }
    let r := (tryCatch (body >>= fun _ => restore) (fun e => restore >>= fun _ => throw e)).run σ
    (finalState r).cycle = c ∧ (finalState r).changedV = v ∧ (finalState r).changedC = k := by
  simp only [EStateM.run, tryCatch, tryCatchThe, MonadExceptOf.tryCatch, EStateM.tryCatch, EStateM.Backtrackable.save,
    EStateM.Backtrackable.restore, EStateM.dummySave, EStateM.dummyRestore, bind, EStateM.bind, modify, modifyGet,
    MonadStateOf.modifyGet, EStateM.modifyGet]
  cases body σ <;> simp [finalState, throw, throwThe, MonadExceptOf.throw, EStateM.throw]

/-- **Every execution ends as it began**: whatever the body does to the positions of `cycle` tags
    and the memory of `ifchanged` — and whether it finishes or fails, at any point — the execution
    hands this state back exactly as it found it; an execution nested inside another one (an
    include) therefore cannot disturb the outer one's cycles either. -/
theorem exec_leaves_no_state_behind (fuel ti : Nat) (ctx : Env) (σ : ES) :
    (finalState ((executeTplUnbuffered T cfg g fuel ti ctx).run σ)).cycle = σ.cycle ∧
    (finalState ((executeTplUnbuffered T cfg g fuel ti ctx).run σ)).changedV = σ.changedV ∧
    (finalState ((executeTplUnbuffered T cfg g fuel ti ctx).run σ)).changedC = σ.changedC := by
  cases fuel with
  | zero =>
    simp [executeTplUnbuffered, xerr, EStateM.run, throw, throwThe, MonadExceptOf.throw, EStateM.throw, finalState]
  | succ n =>
    rw [executeTplUnbuffered]
    simp only [EStateM.run, bind, EStateM.bind, get, getThe, MonadStateOf.get, EStateM.get]
    cases List.find? (fun kv => !identOk kv.fst) (Env.update g ctx) with
    | some _ => simp [xerr, throw, throwThe, MonadExceptOf.throw, EStateM.throw, finalState]
    | none =>
      simp only []
      generalize List.find? _ (Env.update g ctx) = clash
      cases clash with
      | some _ => simp [xerr, throw, throwThe, MonadExceptOf.throw, EStateM.throw, finalState]
      | none =>
        simp only [modify, modifyGet, MonadStateOf.modifyGet, EStateM.modifyGet]
        exact restore_pattern _ σ.cycle σ.changedV σ.changedC _

/-! ### pairs and defaults are evaluated in the order they are written (D67) -/

/-- **The first failing pair decides**: of the pairs of a `with` / `include … with` (and, by the
    same recursion in `evalDefaults`, the defaults of a macro) the one written first is evaluated
    first; if it fails, that error — and no other — is the outcome, whatever the later pairs would
    do; if it succeeds, the later pairs are evaluated in the state it left.  Which of two failing
    expressions is reported is therefore a function of the template, not of the execution. -/
theorem first_failing_pair_decides (fuel : Nat) (k : Bytes) (e : Expr) (rest : List (Bytes × Expr)) (σ σ' : ES) :
    (∀ err, (eval T cfg g fuel e).run σ = .error err σ' →
      (evalPairs T cfg g (fuel + 1) ((k, e) :: rest)).run σ = .error err σ') ∧
    (∀ v, (eval T cfg g fuel e).run σ = .ok v σ' →
      (evalPairs T cfg g (fuel + 1) ((k, e) :: rest)).run σ =
        ((evalPairs T cfg g fuel rest) >>= fun vs => pure ((k, Val.boxed v.v v.safe) :: vs)).run σ') := by
  constructor
  · intro err h
    rw [evalPairs]
    simp only [EStateM.run, bind, EStateM.bind] at h ⊢
    rw [h]
  · intro v h
    rw [evalPairs]
    simp only [EStateM.run, bind, EStateM.bind] at h ⊢
    rw [h]

/-! ### one semantics, whatever the fuel

The interpreter is written with a fuel argument (the recursion bound Lean needs); every theorem
about it is stated for any fuel.  The two theorems below say that the fuel is not part of the
meaning: an answer other than "ran out of fuel" — output, error and final state — is the answer for
every larger fuel.  The same holds for the compiler (`compile_answer_is_fuel_independent`), which
a computed `include` calls at execution time. -/

/-- **More fuel never changes an answer** (one step). -/
theorem more_fuel_same_answer (fuel ti : Nat) (ctx : Env) (σ : ES)
    (h : NotDiv ((executeTpl T cfg g fuel ti ctx).run σ)) :
    (executeTpl T cfg g (fuel + 1) ti ctx).run σ = (executeTpl T cfg g fuel ti ctx).run σ := by
  have := (allLe T cfg g (compileMono T cfg) fuel).executeTpl ti ctx
  unfold Le at this
  exact this σ h

/-- **… for every larger fuel**, for whole executions, single nodes and expressions. -/
theorem answer_is_fuel_independent (n m : Nat) (hnm : n ≤ m) (ti : Nat) (ctx : Env) (σ : ES)
    (h : NotDiv ((executeTpl T cfg g n ti ctx).run σ)) :
    (executeTpl T cfg g m ti ctx).run σ = (executeTpl T cfg g n ti ctx).run σ := by
  induction m with
  | zero => cases Nat.le_zero.mp hnm; rfl
  | succ k ih =>
    by_cases hk : n ≤ k
    · have e := ih hk
      rw [← e] at h
      rw [more_fuel_same_answer T cfg g k ti ctx σ h, e]
    · have : n = k + 1 := by omega
      subst this; rfl

theorem node_answer_is_fuel_independent (fuel : Nat) (nd : Node) (σ : ES)
    (h : NotDiv ((execNode T cfg g fuel nd).run σ)) :
    (execNode T cfg g (fuel + 1) nd).run σ = (execNode T cfg g fuel nd).run σ := by
  have := (allLe T cfg g (compileMono T cfg) fuel).execNode nd
  unfold Le at this
  exact this σ h

theorem expression_answer_is_fuel_independent (fuel : Nat) (e : Expr) (σ : ES)
    (h : NotDiv ((eval T cfg g fuel e).run σ)) :
    (eval T cfg g (fuel + 1) e).run σ = (eval T cfg g fuel e).run σ := by
  have := (allLe T cfg g (compileMono T cfg) fuel).eval e
  unfold Le at this
  exact this σ h

/-- **The compiler's answer does not depend on the fuel either**: a template compiled from a file
    (with everything it includes, extends and imports) gives, unless the answer was "out of
    fuel", the same template tables or the same error with one more unit of fuel. -/
theorem compile_answer_is_fuel_independent (fuel : Nat) (cs : CState) (name : Bytes)
    (h : NotOof (fromFile T cfg fuel cs name)) :
    fromFile T cfg (fuel + 1) cs name = fromFile T cfg fuel cs name := by
  have key := (allLeD T cfg fuel).fromFile cs name
  unfold LeP at key
  exact key h

theorem compile_string_answer_is_fuel_independent (fuel : Nat) (cs : CState) (src : Bytes)
    (h : NotOof (compileTpl T cfg fuel cs b!"<string>" true src)) :
    compileTpl T cfg (fuel + 1) cs b!"<string>" true src = compileTpl T cfg fuel cs b!"<string>" true src := by
  have key := (allLeD T cfg fuel).compileTpl cs b!"<string>" true src
  unfold LeP at key
  exact key h

/-- … and for every larger fuel -/
theorem compile_answer_for_every_larger_fuel (n m : Nat) (hnm : n ≤ m) (cs : CState) (name : Bytes)
    (h : NotOof (fromFile T cfg n cs name)) :
    fromFile T cfg m cs name = fromFile T cfg n cs name := by
  induction m with
  | zero => cases Nat.le_zero.mp hnm; rfl
  | succ k ih =>
    by_cases hk : n ≤ k
    · have e := ih hk
      rw [← e] at h
      rw [compile_answer_is_fuel_independent T cfg k cs name h, e]
    · have : n = k + 1 := by omega
      subst this; rfl

/-- **The whole pipeline has one answer.**  Compile a file with any fuel that suffices (the answer
    is not "out of fuel") and execute the result with any fuel that suffices (not "diverge"): every
    larger pair of fuels compiles to the same tables (or the same error) and executes to the same
    output, error and final state. -/
theorem pipeline_answer_is_fuel_independent (n n' m m' : Nat) (hn : n ≤ n') (hm : m ≤ m') (name : Bytes) (ctx : Env)
    (ti : Nat) (cs : CState)
    (hc : fromFile T cfg n {} name = .ok (ti, cs))
    (hx : NotDiv ((executeTpl T cfg g m ti ctx).run { cs := cs })) :
    fromFile T cfg n' {} name = .ok (ti, cs) ∧
    (executeTpl T cfg g m' ti ctx).run { cs := cs } = (executeTpl T cfg g m ti ctx).run { cs := cs } := by
  constructor
  · rw [compile_answer_for_every_larger_fuel T cfg n n' hn {} name (by rw [hc]; trivial), hc]
  · exact answer_is_fuel_independent T cfg g m m' hm ti ctx _ hx

/-- non-vacuity: running out of fuel is the only answer that more fuel changes — with no fuel at
    all the answer *is* "diverge", and it is excluded by `NotDiv` -/
example (ti : Nat) (ctx : Env) (σ : ES) : ¬ NotDiv ((executeTpl T cfg g 0 ti ctx).run σ) := by
  simp [executeTpl, xerr, EStateM.run, throw, throwThe, MonadExceptOf.throw, EStateM.throw, NotDiv]

/-- no store reachable from an execution entry point targets the compiled
    template, the set, a package variable or the caller's context -/
theorem gen_exec_writes_none : Gen.execWrites = [] := by decide

/-- … and none of them mentions a package-level object of one of the engine's own struct types
    (an error or value object that would carry over from one execution to the next) -/
theorem gen_no_shared_objects : Gen.execSharedObjects = [] := by decide

theorem gen_call_graph_anchors : Gen.execReachableAnchors.all (·.2) = true := by decide

/-- the reachable set is not degenerate -/
theorem gen_reachable_nontrivial : 150 ≤ Gen.execReachable := by decide

end Pongo.C04

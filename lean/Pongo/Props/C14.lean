/-
  C14 — Execute variants agree; ExecuteWriter is all-or-nothing.
  Property theorems only.

  In the model `executeTplUnbuffered` is `Template.execute` writing to the
  caller's writer (`ES.out`), and `executeTpl` is `ExecuteWriter`: the same
  execution into a fresh buffer that is handed over only on success.
  `Execute`/`ExecuteBytes` are `ExecuteWriter` into an empty buffer.
-/
import Pongo.Model.Exec
import Pongo.Lemmas.GrowsAll
import Pongo.Lemmas.IndepAll

namespace Pongo.C14

variable (T : LexTables) (cfg : SetCfg) (g : Env)

/-- running `m` on an empty output buffer -/
def onEmpty (m : XM Unit) (σ : ES) := m.run { σ with out := [] }

/-- **Buffering, success**: the caller's buffer receives exactly what the
    inner run wrote, appended; everything else is the inner run's state. -/
theorem buffered_ok (m : XM Unit) (σ σ' : ES) (h : onEmpty m σ = .ok () σ') :
    (buffered m).run σ = .ok σ'.out { σ' with out := σ.out } := by
  simp only [onEmpty, EStateM.run] at h
  simp [buffered, EStateM.run, bind, EStateM.bind, get, getThe, MonadStateOf.get, EStateM.get, modify, modifyGet,
    MonadStateOf.modifyGet, EStateM.modifyGet, tryCatch, tryCatchThe, MonadExceptOf.tryCatch, EStateM.tryCatch,
    EStateM.Backtrackable.save, EStateM.Backtrackable.restore, h, pure, EStateM.pure]

/-- **Buffering, failure**: the error is passed on and the caller's buffer is
    exactly as before — nothing of the partial output survives. -/
theorem buffered_err (m : XM Unit) (σ σ' : ES) (e : XErr) (h : onEmpty m σ = .error e σ') :
    (buffered m).run σ = .error e { σ' with out := σ.out } := by
  simp only [onEmpty, EStateM.run] at h
  simp [buffered, EStateM.run, bind, EStateM.bind, get, getThe, MonadStateOf.get, EStateM.get, modify, modifyGet,
    MonadStateOf.modifyGet, EStateM.modifyGet, tryCatch, tryCatchThe, MonadExceptOf.tryCatch, EStateM.tryCatch,
    EStateM.Backtrackable.save, EStateM.Backtrackable.restore, EStateM.dummySave, EStateM.dummyRestore, h, throw, throwThe,
    MonadExceptOf.throw, EStateM.throw]

/-- **ExecuteWriter is all-or-nothing**: when the execution fails, the
    caller's writer has received nothing, and the error is the execution's. -/
theorem writer_all_or_nothing (fuel ti : Nat) (ctx : Env) (σ σ' : ES) (e : XErr)
    (h : onEmpty (executeTplUnbuffered T cfg g fuel ti ctx) σ = .error e σ') :
    ∃ σ'', (executeTpl T cfg g (fuel + 1) ti ctx).run σ = .error e σ'' ∧ σ''.out = σ.out := by
  refine ⟨{ σ' with out := σ.out }, ?_, rfl⟩
  rw [executeTpl]
  have := buffered_err (executeTplUnbuffered T cfg g fuel ti ctx) σ σ' e h
  simp only [EStateM.run] at this ⊢
  simp [bind, EStateM.bind, this]

/-- **The variants agree**: when the execution succeeds, the buffered variant
    delivers to the caller's writer exactly the bytes the unbuffered execution
    produces, after whatever the writer already held. -/
theorem variants_agree (fuel ti : Nat) (ctx : Env) (σ σ' : ES)
    (h : onEmpty (executeTplUnbuffered T cfg g fuel ti ctx) σ = .ok () σ') :
    ∃ σ'', (executeTpl T cfg g (fuel + 1) ti ctx).run σ = .ok () σ'' ∧ σ''.out = σ.out ++ σ'.out := by
  refine ⟨{ σ' with out := σ.out ++ σ'.out }, ?_, rfl⟩
  rw [executeTpl]
  have := buffered_ok (executeTplUnbuffered T cfg g fuel ti ctx) σ σ' h
  simp only [EStateM.run] at this ⊢
  simp [bind, EStateM.bind, this, write, modify, modifyGet, MonadStateOf.modifyGet, EStateM.modifyGet]

/-- …and they fail in the same cases with the same error. -/
theorem variants_fail_alike (fuel ti : Nat) (ctx : Env) (σ : ES) :
    (∃ e s, onEmpty (executeTplUnbuffered T cfg g fuel ti ctx) σ = .error e s) ↔
    (∃ e s, (executeTpl T cfg g (fuel + 1) ti ctx).run σ = .error e s) := by
  constructor
  · rintro ⟨e, s, h⟩
    obtain ⟨s', hs, _⟩ := writer_all_or_nothing T cfg g fuel ti ctx σ s e h
    exact ⟨e, s', hs⟩
  · rintro ⟨e, s, h⟩
    cases hu : onEmpty (executeTplUnbuffered T cfg g fuel ti ctx) σ with
    | error e' s' => exact ⟨e', s', rfl⟩
    | ok u s' =>
      obtain ⟨s'', hs, _⟩ := variants_agree T cfg g fuel ti ctx σ s' hu
      rw [hs] at h
      cases h

/-! ### the unbuffered variant: whatever it wrote before failing is a leading part

From the interpreter-wide induction of `Lemmas/GrowsAll.lean`: every function of the interpreter
only ever appends to the output, and expressions (macro calls, `block.Super` included) do not touch
it at all — for every fuel, template, context and state, on success and on failure. -/

/-- **ExecuteWriterUnbuffered only appends**: after the execution — finished or failed at any point —
    the writer holds what it held before followed by what was written; nothing already written is
    taken back or altered. -/
theorem unbuffered_only_appends (fuel ti : Nat) (ctx : Env) (σ : ES) :
    ∃ written, (endState ((executeTplUnbuffered T cfg g fuel ti ctx).run σ)).out = σ.out ++ written := by
  have := (allGrows T cfg g fuel).executeTplUnbuffered ti ctx
  unfold Grows at this
  exact this σ

/-- the same for every single node: a construct only appends, also when it fails half-way -/
theorem every_node_only_appends (fuel : Nat) (n : Node) (σ : ES) :
    ∃ written, (endState ((execNode T cfg g fuel n).run σ)).out = σ.out ++ written := by
  have := (allGrows T cfg g fuel).execNode n
  unfold Grows at this
  exact this σ

/-- evaluating an expression writes nothing (a macro's output is the macro call's *value*) -/
theorem expressions_write_nothing (fuel : Nat) (e : Expr) (σ : ES) :
    (endState ((eval T cfg g fuel e).run σ)).out = σ.out := by
  have := (allGrows T cfg g fuel).eval e
  unfold Quiet at this
  exact this σ

/-! ### a rendering does not depend on what the writer already holds

From the interpreter-wide induction of `Lemmas/IndepAll.lean`: no function of the interpreter reads
the output back; started with extra bytes in front of the output, every expression and node does
exactly what it does without them. -/

/-- **ExecuteWriterUnbuffered into a writer that already holds `pre`**: the same outcome, the same
    final state, `pre` followed by the same bytes — for every template, context, state and fuel. -/
theorem rendering_ignores_writer_contents (fuel ti : Nat) (ctx : Env) (σ : ES) (pre : Bytes) :
    (executeTplUnbuffered T cfg g fuel ti ctx).run (pfx pre σ) =
      shift pre ((executeTplUnbuffered T cfg g fuel ti ctx).run σ) := by
  have := (allIndep T cfg g fuel).executeTplUnbuffered ti ctx
  unfold Indep at this
  exact this σ pre

theorem self_pfx (σ : ES) : pfx σ.out { σ with out := [] } = σ := by
  simp [pfx]

/-- **The variants agree, in one statement**: writing straight to a writer (unbuffered) and writing
    through the private buffer (ExecuteWriter; Execute / ExecuteBytes are that into an empty
    buffer) leave exactly the same bytes in the writer whenever the execution succeeds … -/
theorem variants_write_the_same (fuel ti : Nat) (ctx : Env) (σ σ1 : ES)
    (h : (executeTplUnbuffered T cfg g fuel ti ctx).run σ = .ok () σ1) :
    ∃ σ2, (executeTpl T cfg g (fuel + 1) ti ctx).run σ = .ok () σ2 ∧ σ2.out = σ1.out := by
  have hr := rendering_ignores_writer_contents T cfg g fuel ti ctx { σ with out := [] } σ.out
  rw [self_pfx] at hr
  rw [hr] at h
  cases he : (executeTplUnbuffered T cfg g fuel ti ctx).run { σ with out := [] } with
  | error e s => rw [he] at h; cases h
  | ok u s =>
    rw [he] at h
    simp only [shift, EStateM.Result.ok.injEq, true_and] at h
    obtain ⟨σ2, h2, ho⟩ := variants_agree T cfg g fuel ti ctx σ s he
    refine ⟨σ2, h2, ?_⟩
    rw [ho, ← h]
    simp [pfx]

/-- … and whenever the unbuffered variant fails, the buffered one fails with the same error and
    has written nothing, while what the unbuffered one wrote is what the writer held followed by
    a leading part of the rendering. -/
theorem variants_fail_the_same (fuel ti : Nat) (ctx : Env) (σ σ1 : ES) (e : XErr)
    (h : (executeTplUnbuffered T cfg g fuel ti ctx).run σ = .error e σ1) :
    ∃ σ2, (executeTpl T cfg g (fuel + 1) ti ctx).run σ = .error e σ2 ∧ σ2.out = σ.out := by
  have hr := rendering_ignores_writer_contents T cfg g fuel ti ctx { σ with out := [] } σ.out
  rw [self_pfx] at hr
  rw [hr] at h
  cases he : (executeTplUnbuffered T cfg g fuel ti ctx).run { σ with out := [] } with
  | ok u s => rw [he] at h; cases h
  | error e' s =>
    rw [he] at h
    simp only [shift, EStateM.Result.error.injEq] at h
    obtain ⟨rfl, _⟩ := h
    exact writer_all_or_nothing T cfg g fuel ti ctx σ s e' he

/-- evaluating an expression, too, is blind to the output -/
theorem expressions_ignore_writer_contents (fuel : Nat) (e : Expr) (σ : ES) (pre : Bytes) :
    (eval T cfg g fuel e).run (pfx pre σ) = shift pre ((eval T cfg g fuel e).run σ) := by
  have := (allIndep T cfg g fuel).eval e
  unfold Indep at this
  exact this σ pre

end Pongo.C14

/-
  C20 — Template cache: one compile per name, coherent under concurrency.
  Property theorems only.

  Every `FromCache` / `CleanCache` call is one critical section of the set's
  mutex (regenerated fact `Gen.lockDiscipline`), so an execution with any
  number of goroutines is a *sequence* of the atomic steps `cacheStep`; the
  theorems quantify over all such sequences, i.e. over all interleavings.
-/
import Pongo.Model.Sets
import Pongo.Gen.LockFacts
import Pongo.Gen.LoadSites

namespace Pongo.C20

/-- every cached identity was handed out earlier -/
def Inv (s : CacheState) : Prop := ∀ kv ∈ s.cache, kv.2 < s.nextId

theorem loadFile_inv (s : CacheState) (name : Bytes) (h : Inv s) :
    Inv (loadFile s name).1 ∧ (loadFile s name).1.cache = s.cache ∧ s.nextId ≤ (loadFile s name).1.nextId ∧
    (∀ id, (loadFile s name).2 = some id → id = s.nextId ∧ (loadFile s name).1.nextId = s.nextId + 1) := by
  unfold loadFile
  simp only
  split
  · exact ⟨h, rfl, Nat.le_refl _, by simp⟩
  · split
    · refine ⟨?_, rfl, by simp, by simp⟩
      intro kv hkv; have := h kv hkv; simp only; omega
    · exact ⟨h, rfl, Nat.le_refl _, by simp⟩

/-- The invariant holds along every history. -/
theorem step_inv (s : CacheState) (op : CacheOp) (h : Inv s) : Inv (cacheStep s op).1 := by
  cases op with
  | fromCache n =>
    simp only [cacheStep]
    by_cases hd : s.debug = true
    · simp only [hd, if_true]
      have hl := loadFile_inv s n h
      cases hr : loadFile s n with
      | mk s' r =>
        rw [hr] at hl
        cases r <;> exact hl.1
    · simp only [hd, Bool.false_eq_true, if_false]
      cases hc : s.cache.lookup (Path.abs [] n) with
      | some id => exact h
      | none =>
        have hl := loadFile_inv s n h
        cases hr : loadFile s n with
        | mk s' r =>
          rw [hr] at hl
          obtain ⟨hi, _, _, hid⟩ := hl
          cases r with
          | none => exact hi
          | some id =>
            obtain ⟨rfl, hn⟩ := hid id rfl
            intro kv hkv
            simp only [List.mem_append, List.mem_singleton] at hkv
            rcases hkv with hkv | rfl
            · exact hi kv hkv
            · simp only at hn ⊢; omega
  | cleanAll => intro kv hkv; simp [cacheStep] at hkv
  | clean ns =>
    simp only [cacheStep]
    by_cases hn : ns = []
    · simp only [hn, if_true]; intro kv hkv; simp at hkv
    · simp only [hn, if_false]
      intro kv hkv
      exact h kv (List.mem_filter.mp hkv).1
  | setDebug b => exact h
  | setFile n c => exact h
  | addLoader b => exact h
  | setFileIn i n c => exact h

theorem lookup_filter (l : List (Bytes × Nat)) (p : Bytes → Bool) (k : Bytes) :
    (l.filter (fun kv => p kv.1)).lookup k = if p k then l.lookup k else none := by
  induction l with
  | nil => simp
  | cons kv t ih =>
    obtain ⟨a, v⟩ := kv
    simp only [List.filter_cons]
    by_cases hk : k = a
    · subst hk
      by_cases hp : p k = true
      · simp [hp, List.lookup_cons_self]
      · simp [hp, ih]
    · have hb : (k == a) = false := by simp [hk]
      by_cases hp : p a = true
      · simp only [hp, if_true, List.lookup_cons, hb, ih]
      · simp only [hp, Bool.false_eq_true, if_false, List.lookup_cons, hb, ih]

/-- **Cache hit**: with `Debug` off, a name that is in the cache is returned
    as is: same template, no fetch, state unchanged — however many times and in
    whatever interleaving it is asked for. -/
theorem hit_returns_cached (s : CacheState) (n : Bytes) (id : Nat) (hd : s.debug = false)
    (hc : s.cache.lookup (Path.abs [] n) = some id) : cacheStep s (.fromCache n) = (s, .tpl id) := by
  simp [cacheStep, hd, hc]

/-- **Cache miss**: one fetch of exactly that name; on success a *fresh*
    template is stored under it, so the next call is a hit on the same template. -/
theorem miss_loads_once (s : CacheState) (n : Bytes) (c : Bytes) (hd : s.debug = false)
    (hc : s.cache.lookup (Path.abs [] n) = none) (hf : s.files.lookup (Path.abs [] n) = some c)
    (hok : compiles c = true) :
    let r := cacheStep s (.fromCache n)
    r.2 = .tpl s.nextId ∧ r.1.fetches = s.fetches ++ [Path.abs [] n] ∧
    r.1.cache.lookup (Path.abs [] n) = some s.nextId := by
  simp [cacheStep, hd, hc, loadFile, findFile, hf, hok, List.lookup_append]

/-- **Failed loads are not cached** (missing file or compile error): the cache is unchanged. -/
theorem failed_load_not_cached (s : CacheState) (n : Bytes) (hd : s.debug = false)
    (hc : s.cache.lookup (Path.abs [] n) = none)
    (hf : ∀ c, (findFile s n).1 = some c → compiles c = false) :
    (cacheStep s (.fromCache n)).2 = .err ∧ (cacheStep s (.fromCache n)).1.cache = s.cache := by
  simp only [cacheStep, hd, hc, Bool.false_eq_true, if_false, loadFile]
  cases h : (findFile s n).1 with
  | none => simp
  | some c => simp [hf c h]

/-- **Debug bypasses the cache**: nothing is stored, every call loads. -/
theorem debug_bypasses (s : CacheState) (n : Bytes) (hd : s.debug = true) :
    (cacheStep s (.fromCache n)).1.cache = s.cache ∧
    (cacheStep s (.fromCache n)).1.fetches = s.fetches ++ (findFile s n).2 := by
  simp only [cacheStep, hd, if_true, loadFile]
  cases (findFile s n).1 with
  | none => simp
  | some c => by_cases hc : compiles c = true <;> simp [hc]

/-- **CleanCache(n)** removes exactly `n`; `CleanCache()` removes everything. -/
theorem clean_removes (s : CacheState) (n m : Bytes) :
    (cacheStep s (.clean [n])).1.cache.lookup (Path.abs [] n) = none ∧
    (Path.abs [] m ≠ Path.abs [] n → (cacheStep s (.clean [n])).1.cache.lookup (Path.abs [] m) = s.cache.lookup (Path.abs [] m)) := by
  simp only [cacheStep, List.cons_ne_nil, if_false, List.map_cons, List.map_nil]
  constructor
  · rw [lookup_filter s.cache (fun x => !([Path.abs [] n].elem x))]
    simp
  · intro hne
    rw [lookup_filter s.cache (fun x => !([Path.abs [] n].elem x))]
    simp [hne]

theorem clean_all_empties (s : CacheState) : (cacheStep s .cleanAll).1.cache = [] := by simp [cacheStep]

/-- **One load, one template, however many ask at once.**  From a state where
    the name is not cached, its file compiles and `Debug` is off, any number
    `k + 1` of `FromCache(n)` calls — in any interleaving, since each is one
    critical section — perform exactly one fetch and all return the same
    template. -/
theorem concurrent_requests_load_once (s : CacheState) (n c : Bytes) (k : Nat) (hd : s.debug = false)
    (hc : s.cache.lookup (Path.abs [] n) = none) (hf : s.files.lookup (Path.abs [] n) = some c)
    (hok : compiles c = true) :
    let r := cacheRun s (List.replicate (k + 1) (.fromCache n))
    r.2 = List.replicate (k + 1) (.tpl s.nextId) ∧ r.1.fetches = s.fetches ++ [Path.abs [] n] := by
  have h1 := miss_loads_once s n c hd hc hf hok
  simp only at h1
  obtain ⟨hr, hfetch, hl⟩ := h1
  simp only [List.replicate_succ, cacheRun]
  have hd' : (cacheStep s (.fromCache n)).1.debug = false := by
    simp [cacheStep, hd, hc, loadFile, findFile, hf, hok]
  -- all remaining calls are hits
  have hits : ∀ (t : CacheState) (j : Nat), t.debug = false → t.cache.lookup (Path.abs [] n) = some s.nextId →
      cacheRun t (List.replicate j (.fromCache n)) = (t, List.replicate j (.tpl s.nextId)) := by
    intro t j htd htc
    induction j with
    | zero => simp [cacheRun]
    | succ j ih => simp [List.replicate_succ, cacheRun, hit_returns_cached t n _ htd htc, ih]
  rw [hits _ k hd' hl]
  simp [hr, hfetch]

/-! ### several loaders (`AddLoader`), each resolving names under its own base directory -/

/-- a loader with a base directory resolves a rooted name as it is and any other under its base -/
theorem loader_abs (l : Loader) (n : Bytes) (hb : l.base ≠ []) :
    l.abs n = if Path.isAbs n then Path.clean n else Path.join2 l.base n := by
  simp [Loader.abs, hb]

/-- the added loaders are asked in order, each for the name as *it* resolves it, up to and
    including the first that has it; those behind it are not asked -/
theorem tryMore_first_wins (name : Bytes) (before : List Loader) (l : Loader) (after : List Loader) (c : Bytes)
    (hb : ∀ x ∈ before, x.files.lookup (x.abs name) = none) (hl : l.files.lookup (l.abs name) = some c) :
    tryMore name (before ++ l :: after) = (some c, before.map (·.abs name) ++ [l.abs name]) := by
  induction before with
  | nil => simp [tryMore, hl]
  | cons x xs ih =>
    have hx := hb x (List.mem_cons_self ..)
    have := ih (fun y hy => hb y (List.mem_cons_of_mem _ hy))
    simp [tryMore, hx, this]

/-- a name no added loader has: every one of them was asked once -/
theorem tryMore_none (name : Bytes) (ls : List Loader) (h : ∀ x ∈ ls, x.files.lookup (x.abs name) = none) :
    tryMore name ls = (none, ls.map (·.abs name)) := by
  induction ls with
  | nil => simp [tryMore]
  | cons x xs ih =>
    simp [tryMore, h x (List.mem_cons_self ..), ih (fun y hy => h y (List.mem_cons_of_mem _ hy))]

/-- **A template that only a later loader has is found through the cache** (the repaired defect
    D69: the first loader's resolution used to be handed to the others): with `Debug` off and the
    name not cached, the first loader is asked for its resolution, then the added loaders in order
    each for theirs; the template of the first that has it is returned and stored under the
    *first loader's* resolution of the name — the key `CleanCache(n)` uses, so cleaning the name
    forgets it and the next call loads afresh. -/
theorem later_loader_serves (s : CacheState) (n c : Bytes) (before : List Loader) (l : Loader) (after : List Loader)
    (hd : s.debug = false) (hc : s.cache.lookup (Path.abs [] n) = none) (h0 : s.files.lookup (Path.abs [] n) = none)
    (hm : s.more = before ++ l :: after) (hb : ∀ x ∈ before, x.files.lookup (x.abs n) = none)
    (hl : l.files.lookup (l.abs n) = some c) (hok : compiles c = true) :
    let r := cacheStep s (.fromCache n)
    r.2 = .tpl s.nextId ∧
    r.1.fetches = s.fetches ++ Path.abs [] n :: (before.map (·.abs n) ++ [l.abs n]) ∧
    r.1.cache.lookup (Path.abs [] n) = some s.nextId ∧
    (cacheStep r.1 (.clean [n])).1.cache.lookup (Path.abs [] n) = none := by
  have ht := tryMore_first_wins n before l after c hb hl
  have hstep : cacheStep s (.fromCache n) =
      ({ s with fetches := s.fetches ++ Path.abs [] n :: (before.map (·.abs n) ++ [l.abs n]), nextId := s.nextId + 1,
                cache := s.cache ++ [(Path.abs [] n, s.nextId)] }, .tpl s.nextId) := by
    simp [cacheStep, hd, hc, loadFile, findFile, h0, hm, ht, hok]
  rw [hstep]
  refine ⟨rfl, rfl, by simp [List.lookup_append, hc], ?_⟩
  exact (clean_removes _ n n).1

/-- a name nobody has is an error after every loader was asked once, and nothing is cached -/
theorem missing_everywhere (s : CacheState) (n : Bytes) (hd : s.debug = false) (hc : s.cache.lookup (Path.abs [] n) = none)
    (h0 : s.files.lookup (Path.abs [] n) = none) (hm : ∀ x ∈ s.more, x.files.lookup (x.abs n) = none) :
    let r := cacheStep s (.fromCache n)
    r.2 = .err ∧ r.1.cache = s.cache ∧ r.1.fetches = s.fetches ++ Path.abs [] n :: s.more.map (·.abs n) := by
  simp [cacheStep, hd, hc, loadFile, findFile, h0, tryMore_none n s.more hm]

/-- Caches of different sets are different states: an operation on one set is
    a step of that set's state only (frame property by construction of the
    model; the Go code keeps every cache/ban/option field inside the
    `TemplateSet` value — regenerated fact `Gen.setFieldsOnly`). -/
theorem sets_independent (a b : CacheState) (op : CacheOp) :
    ((cacheStep a op).1, b).2 = b := rfl

/-! ### regenerated facts about the Go code -/

/-- every function that touches `templateCache` takes the set's mutex before
    the first access and releases it by `defer`; lookup and fill share one critical section -/
theorem gen_lock_discipline : Gen.lockDiscipline.all (fun f => f.2) = true := by decide

/-- a miss of `FromCache` loads the name it was given through the function in which every loader
    resolves it (`fromFileFor`), and the `Debug` route through `FromFile`; neither passes on a
    name resolved by the first loader -/
theorem gen_cache_loads_by_given_name :
    (Gen.loadSites.filter (·.1 == "TemplateSet.FromCache")) =
      [("TemplateSet.FromCache", "TemplateSet.FromFile", "written"),
       ("TemplateSet.FromCache", "TemplateSet.fromFileFor", "written")] := by decide

/-! ### non-vacuity -/
example :
    (cacheRun { files := [(b!"a.tpl", b!"x")] }
      [.fromCache b!"a.tpl", .fromCache b!"a.tpl", .clean [b!"a.tpl"], .fromCache b!"a.tpl", .fromCache b!"missing"]).2 =
    [.tpl 0, .tpl 0, .unit, .tpl 1, .err] := by decide

/-- a file only the added loader (base directory `/b`) has: found, cached, cleaned by name, found afresh -/
example :
    (cacheRun {} [.addLoader b!"/b", .setFileIn 0 b!"x.tpl" (some b!"x"), .fromCache b!"x.tpl", .fromCache b!"x.tpl",
                  .clean [b!"x.tpl"], .fromCache b!"x.tpl", .fromCache b!"y.tpl"]).2 =
    [.unit, .unit, .tpl 0, .tpl 0, .unit, .tpl 1, .err] := by decide

end Pongo.C20
